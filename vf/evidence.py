"""Evidence files, known findings and the verdict/exit protocol shared by all checks."""
import json
import os
import sys
import time

ROOT = os.path.dirname(os.path.dirname(os.path.abspath(__file__)))
EVID = os.path.join(ROOT, "evidence")
KNOWN = os.path.join(ROOT, "KNOWN_FINDINGS.json")


def load_known():
    try:
        with open(KNOWN) as f:
            return json.load(f)["findings"]
    except FileNotFoundError:
        return []


class Report:
    """Collects what a check run covered and decides the exit status.

    violation(signature, detail): a P-level violation on a real execution. If the
    signature matches an entry of kind "known" in KNOWN_FINDINGS.json it is printed as
    KNOWN-FINDING and does not fail the run; entries of kind "fixed" suppress nothing.
    """

    def __init__(self, prop, tier, seed):
        self.prop = prop
        self.tier = tier
        self.seed = seed
        self.t0 = time.time()
        self.states = 0
        self.transitions = 0
        self.traces = 0
        self.evaluations = 0
        self.nontrivial = set()
        self.samples = []
        self.extra = {}
        self.assumptions = []
        self.violations = []      # (signature, replay path)
        self.known_hits = {}
        self.drift = []
        self.level = "model_checking"
        self.rule = ""
        self.known = [k for k in load_known() if k.get("property") == prop]
        import glob
        for f in glob.glob(os.path.join(EVID, "replay", "%s-*.json" % prop)):
            try:
                os.unlink(f)
            except OSError:
                pass

    # -- accounting -------------------------------------------------------
    def add_tlc(self, res, name=None):
        self.states += res.distinct
        self.transitions += res.generated
        self.extra.setdefault("tlc_runs", []).append(dict(res.summary(), config=name))

    def sample(self, s, limit=6):
        if len(self.samples) < limit:
            self.samples.append(s)

    def nontriv(self, key):
        self.nontrivial.add(key if isinstance(key, (str, int, tuple)) else json.dumps(key, sort_keys=True, default=str))

    def model_drift(self, what):
        self.drift.append(what)

    # -- verdicts ---------------------------------------------------------
    def violation(self, signature, detail):
        """Returns True if it is a new (unlisted) violation."""
        for k in self.known:
            if k.get("kind") == "known" and k.get("signature") == signature:
                if signature not in self.known_hits:
                    self.known_hits[signature] = k
                return False
        if len(self.violations) >= 25:
            self.violations.append((signature, None))
            return True
        os.makedirs(os.path.join(EVID, "replay"), exist_ok=True)
        path = os.path.join(EVID, "replay", "%s-%d.json" % (self.prop, len(self.violations)))
        with open(path, "w") as f:
            json.dump({"property": self.prop, "signature": signature, "detail": detail,
                       "seed": self.seed, "tier": self.tier}, f, indent=1, default=str)
        self.violations.append((signature, path))
        print("VIOLATION property=%s replay=%s" % (self.prop, path), flush=True)
        print("  signature: %s" % signature, flush=True)
        return True

    def finish(self):
        for sig, k in self.known_hits.items():
            print("KNOWN-FINDING: property=%s %s" % (self.prop, k.get("what", sig)), flush=True)
        cov = {
            "states": self.states, "transitions": self.transitions,
            "traces_validated_against_impl": self.traces,
            "samples": self.samples or ["(none)"],
            "evaluations": self.evaluations,
            "distinct_nontrivial": len(self.nontrivial),
            "rule": self.rule,
            "model_drift": len(self.drift),
        }
        if self.drift:
            cov["model_drift_first"] = self.drift[0]
        cov.update(self.extra)
        level = self.level
        if level == "model_checking" and (self.states < 1 or self.transitions < 1):
            level = "exploration"
        ev = {
            "property_id": self.prop, "tier": self.tier, "seed": self.seed, "level": level,
            "coverage": cov, "assumptions": self.assumptions,
            "wall_s": round(time.time() - self.t0, 2),
            "violations": len(self.violations),
            "known_findings_seen": sorted(self.known_hits),
        }
        os.makedirs(EVID, exist_ok=True)
        tmp = os.path.join(EVID, self.prop + ".json.tmp")
        with open(tmp, "w") as f:
            json.dump(ev, f, indent=1, default=str)
        os.replace(tmp, os.path.join(EVID, self.prop + ".json"))
        print("%s %s: states=%d transitions=%d impl_traces=%d evaluations=%d nontrivial=%d drift=%d violations=%d wall=%.1fs" % (
            self.prop, self.tier, self.states, self.transitions, self.traces, self.evaluations,
            len(self.nontrivial), len(self.drift), len(self.violations), time.time() - self.t0), flush=True)
        return 1 if self.violations else 0


def main_wrapper(fn):
    """Run fn(report-args) and map machinery failures to exit 2."""
    try:
        rc = fn()
    except SystemExit:
        raise
    except BaseException as e:  # machinery failure
        import traceback
        traceback.print_exc()
        print("MACHINERY-FAILURE: %s" % e, flush=True)
        sys.exit(2)
    sys.exit(rc)
