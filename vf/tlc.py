"""Run TLC under a timeout and parse what the checks need from its output.

All configs live in /verif/specs. Generation configs print behaviours with
    PrintT(<<"@@", ToJson(value)>>)
which TLC writes as one line `<<"@@", "...json with TLA+ string escapes...">>`.
"""
import json
import os
import re
import shutil
import subprocess
import tempfile
import time

SPECS = os.path.join(os.path.dirname(os.path.dirname(os.path.abspath(__file__))), "specs")
JAR = "/opt/veriftools/tla/tla2tools.jar:/opt/veriftools/tla/CommunityModules-deps.jar"


class TlcError(Exception):
    pass


class TlcResult:
    def __init__(self):
        self.rc = None
        self.out = ""
        self.generated = 0
        self.distinct = 0
        self.depth = 0
        self.violated = None      # name of violated invariant / property
        self.cex = []             # counterexample: list of (action, state text)
        self.printed = []         # decoded JSON values printed with the @@ marker
        self.coverage = {}        # action name -> (distinct, total)
        self.wall = 0.0
        self.timed_out = False

    @property
    def ok(self):
        return self.rc == 0 and self.violated is None

    def summary(self):
        return {"states": self.distinct, "transitions": self.generated, "depth": self.depth,
                "wall_s": round(self.wall, 2), "violated": self.violated}


_PRINT_RE = re.compile(r'<<\s*"@@",\s*("(?:[^"\\]|\\.)*")\s*>>', re.S)


def _unescape_tla_string(s):
    # TLA+ string printed by TLC: surrounded by quotes, with \" \\ \n \t escapes.
    return json.loads(s)


def parse_output(res, out):
    res.out = out
    for m in _PRINT_RE.finditer(out):
        try:
            res.printed.append(json.loads(_unescape_tla_string(m.group(1))))
        except Exception as e:  # pragma: no cover
            raise TlcError("cannot decode printed value: %r (%s)" % (m.group(0)[:200], e))
    m = None
    for m in re.finditer(r"(\d+) states generated, (\d+) distinct states found", out):
        pass
    if m:
        res.generated, res.distinct = int(m.group(1)), int(m.group(2))
    m = re.search(r"The depth of the complete state graph search is (\d+)", out)
    if m:
        res.depth = int(m.group(1))
    m = re.search(r"Error: Invariant (\S+) is violated", out)
    if m:
        res.violated = m.group(1)
    m2 = re.search(r"Error: Action property (\S+) is violated", out)
    if m2:
        res.violated = m2.group(1)
    if "Error: Temporal properties were violated" in out:
        res.violated = res.violated or "TemporalProperty"
    if "Error: Deadlock reached" in out:
        res.violated = res.violated or "Deadlock"
    # counterexample states
    for m in re.finditer(r"^State (\d+): <([^>]*)>\n((?:.+\n)+?)\n", out, re.M):
        hdr = m.group(2)
        act = hdr.split(" ")[0]
        res.cex.append((act, m.group(3).strip()))
    # coverage (-coverage 1): "<Name line 12, col 1 to line 14, col 20 of module M>: 12:34"
    # (actions containing a LET are printed as `<Name line .. of module M (l c l c)>: n:m`)
    for m in re.finditer(r"^<(\w+) line \d+, col \d+ to line \d+, col \d+ of module (\w+)(?: \([^)]*\))?>: (\d+):(\d+)", out, re.M):
        res.coverage[m.group(1)] = (int(m.group(3)), int(m.group(4)))
    return res


def run(module, cfg, workers=None, timeout=600, simulate=None, depth=None, seed=None,
        coverage=False, env=None, extra=(), deadlock=True, heap="6g", dfs_queue=False):
    """Run TLC on specs/<module>.tla with specs/<cfg>. Returns TlcResult.

    Raises TlcError on machinery failure (parse errors, crashes, timeout w/o result).
    """
    if workers is None:
        workers = int(os.environ.get("VF_WORKERS", "16") or 16)
    timeout = timeout * int(os.environ.get("VF_TIMEOUT_SCALE", "1") or 1)
    meta = tempfile.mkdtemp(prefix="vfmeta-%d-" % os.getpid())
    cmd = ["java", "-XX:+UseParallelGC", "-Xmx" + heap]
    if dfs_queue:
        cmd.append("-Dtlc2.tool.queue.IStateQueue=StateDeque")
    cmd += ["-cp", JAR, "tlc2.TLC", "-workers", str(workers), "-metadir", meta,
            "-noGenerateSpecTE", "-config", cfg]
    if simulate:
        cmd += ["-simulate", simulate]
    if depth:
        cmd += ["-depth", str(depth)]
    if seed is not None:
        cmd += ["-seed", str(seed)]
    if coverage:
        cmd += ["-coverage", "1"]
    if not deadlock:
        cmd += ["-deadlock"]
    cmd += list(extra)
    cmd += [module]
    e = dict(os.environ)
    if env:
        e.update(env)
    res = TlcResult()
    t0 = time.time()
    try:
        p = subprocess.run(cmd, cwd=SPECS, env=e, stdout=subprocess.PIPE, stderr=subprocess.STDOUT,
                           timeout=timeout, text=True, errors="replace")
        res.rc = p.returncode
        out = p.stdout
    except subprocess.TimeoutExpired as ex:
        res.timed_out = True
        res.rc = -1
        out = ex.stdout or ""
        if isinstance(out, bytes):
            out = out.decode("utf-8", "replace")
        subprocess.run(["pkill", "-f", meta], check=False)
    finally:
        shutil.rmtree(meta, ignore_errors=True)
    res.wall = time.time() - t0
    parse_output(res, out)
    if res.timed_out and not simulate:
        raise TlcError("TLC timed out after %ss on %s/%s" % (timeout, module, cfg))
    if res.rc != 0 and res.violated is None and not res.timed_out:
        # rc 0 ok; 10..13 = violations; anything else = failure
        raise TlcError("TLC failed rc=%s on %s/%s:\n%s" % (res.rc, module, cfg, out[-3000:]))
    return res


def require_coverage(res, actions, where=""):
    """Vacuity control: every named action must have been taken."""
    missing = [a for a in actions if res.coverage.get(a, (0, 0))[1] == 0]
    if missing:
        raise TlcError("vacuity: actions never taken %s %s" % (missing, where))


def run_many(jobs, parallel=4):
    """Run several independent TLC jobs concurrently. jobs = list of (name, module, cfg, kwargs).
    The cores are split between the jobs (TLC scales sub-linearly, so this is cheaper than
    running them one after the other with all workers). Returns {name: TlcResult}; the first
    TlcError is re-raised after all jobs finished."""
    from concurrent.futures import ThreadPoolExecutor
    total = int(os.environ.get("VF_WORKERS", "16") or 16)
    parallel = max(1, min(parallel, len(jobs)))
    per = max(1, total // parallel)

    def one(job):
        name, module, cfg, kw = job
        kw = dict(kw)
        if kw.get("workers") is None and not kw.get("simulate"):
            kw["workers"] = per
        try:
            return name, run(module, cfg, **kw), None
        except TlcError as e:
            return name, None, e
    out, err = {}, None
    with ThreadPoolExecutor(parallel) as ex:
        for name, res, e in ex.map(one, jobs):
            if e is not None and err is None:
                err = e
            out[name] = res
    if err is not None:
        raise err
    return out
