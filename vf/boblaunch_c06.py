"""Launcher for C06: vf.boblaunch plus a recorder on the internal job server.

    python -m vf.boblaunch_c06 --repo /repo --events FILE -- dev r -j 3 [-k]

Extra event: {"e": "jobserverEnd", "jobs": N, "tokens": bytes in the job-server fifo} emitted when the
builder shuts the internal job server down (InternalJobServer.shutdown, builder.py 252-255), i.e. after
the last task of the invocation: the end-to-end witness of "every token that was taken is given back".
"""
import fcntl
import os
import struct
import sys
import termios

from vf import boblaunch as base


def install_c06(rec):
    import bob.builder as bb

    orig_init = bb.InternalJobServer.__init__
    orig_shutdown = bb.InternalJobServer.shutdown

    def __init__(self, jobs):
        self._vf_jobs = jobs
        orig_init(self, jobs)

    def shutdown(self):
        try:
            rfd = self.getMakeFd()[0]
            n = struct.unpack("i", fcntl.ioctl(rfd, termios.FIONREAD, b"\0\0\0\0"))[0]
        except OSError as e:
            n = "error: %s" % e
        rec.emit("jobserverEnd", jobs=getattr(self, "_vf_jobs", None), tokens=n)
        return orig_shutdown(self)

    bb.InternalJobServer.__init__ = __init__
    bb.InternalJobServer.shutdown = shutdown
    # which Bob is under test (the venv also knows a `bob` package: a vanished --repo would silently fall back to it)
    rec.emit("bobModule", file=os.path.realpath(bb.__file__))


def main(argv):
    orig_install = base.install

    def install(rec):
        orig_install(rec)
        install_c06(rec)
    base.install = install
    return base.main(argv)


if __name__ == "__main__":
    sys.exit(main(sys.argv[1:]))
