"""Source of MANIFEST.json (bin/mkmanifest)."""
SOURCE_COMMITS = []
NOT_APPLICABLE = {}
CHECKS = {
 "C10": {
  "text": "StateCommit.tla is model-checked exhaustively (crash between every two file-system effects, torn unsynced files, "
          "stale-lock handling); TLC-simulated behaviours are replayed into the real _BobState under a file-system interposer, "
          "where every prefix of the real op trace x every garbling of unsynced files is loaded by a fresh real instance and "
          "compared with the saved snapshots through the public getters; the recorded op traces are validated back against "
          "the spec by TLC. Bounded model checking of the design plus conformance on generated behaviours - not a proof of the code.",
  "design_ref": "DESIGN.md section 4, C10",
  "note": "rename assumed atomic/ordered; Adler-32 assumed to detect the generated garblings; fs effects of bob.state go through os/open in its namespace",
  "technique": "TLA+ spec + TLC exhaustive check; TLC-generated behaviours replayed into _BobState with crash-image enumeration; TLC trace validation of recorded fs-op traces",
 },
}
