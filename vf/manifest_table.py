"""Source of MANIFEST.json (bin/mkmanifest)."""
SOURCE_COMMITS = []
NOT_APPLICABLE = {}
CHECKS = {
 "C05": {
  "text": "BobBuild.tla (develop-mode builder: checkout/build/package micro-operations, edits incl. reverts, failing scripts, "
          "kill between every two persistent-state updates or destructive file-system effects and inside scripts) is "
          "model-checked exhaustively within small bounds; TLC counterexamples of single weakenings of the mechanism "
          "(prune before reset, no invalidation before run, inputs recorded before run, no prune on digest change, checkout "
          "state stored before run) and TLC-simulated behaviours are replayed with real bob runs under kill plans / failing "
          "scripts on generated projects; oracle = real clean build. Bounded model checking of the design plus conformance on "
          "generated behaviours - not a proof of the code.",
  "design_ref": "DESIGN.md section 4 (BobBuild.tla, C05) and 4.22",
  "note": "deterministic generated scripts; kill -9 emulated by os._exit at recorded events or by the script killing its parent; two packages, develop mode, local builds; see evidence assumptions",
  "technique": "TLA+ spec + TLC exhaustive check; counterexample-directed and simulated behaviours replayed into real `bob dev` runs with kill/fault injection; oracle real clean build",
 },
 "C10": {
  "text": "StateCommit.tla is model-checked exhaustively (crash between every two file-system effects, torn unsynced files, "
          "stale-lock handling); TLC-simulated behaviours are replayed into the real _BobState under a file-system interposer, "
          "where every prefix of the real op trace x every garbling of unsynced files is loaded by a fresh real instance and "
          "compared with the saved snapshots through the public getters; the recorded op traces are validated back against "
          "the spec by TLC. Bounded model checking of the design plus conformance on generated behaviours - not a proof of the code.",
  "design_ref": "DESIGN.md section 4, C10",
  "note": "rename assumed atomic/ordered; Adler-32 assumed to detect the generated garblings; fs effects of bob.state go through os/open in its namespace",
  "technique": "TLA+ spec + TLC exhaustive check; TLC-generated behaviours replayed into _BobState with crash-image enumeration; TLC trace validation of recorded fs-op traces",
 },
}
