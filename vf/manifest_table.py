"""Source of MANIFEST.json (bin/mkmanifest)."""
SOURCE_COMMITS = []
NOT_APPLICABLE = {}
CHECKS = {
 "C16": {
  "text": "DevDirs.tla (develop-mode directory database keyed by recipe+variant with keep-if-prefix-matches and numbering around kept "
          "entries, release-mode counters, prune on digest change, clean with used-path collection) is model-checked exhaustively "
          "within small bounds for Injective, Stable, EmptiedBeforeReuse, CleanOnlyGarbage, DryRunDeletesNothing, "
          "NoUpToDateResultLost with reachability and weakened-mechanism configs; TLC-generated appear/disappear histories are "
          "replayed into the real DevelopDirOracle with duck-typed steps and a real sqlite file, and end to end with real "
          "bob dev/build/query-path/clean runs on generated multi-variant projects (markers for reuse without emptying, directory "
          "listings around clean, executed steps after clean). Bounded model checking plus conformance, not a proof.",
  "design_ref": "DESIGN.md section 4, C16",
  "note": "Variant-Ids as printed by `bob show`; marker files and start-up listings written by the generated step scripts; projects without sandbox/shared packages/plugins, full builds, import SCM; package step treated like the build step in the TLA+ model",
  "technique": "TLA+ mechanism+property spec + TLC exhaustive check; TLC -simulate histories replayed into DevelopDirOracle and into real bob dev/build/clean runs with property-level oracles",
 },

 "C18": {
  "text": "PathQuery.tla (forward declarative semantics written from the manual: all root paths, step-wise evaluation, predicates, "
          "aliases, query-mode error classes) is evaluated by TLC for every (graph, query) of a finite universe - 13 catalogue DAGs "
          "<=5 packages and, thorough, all 416 connected 4-package DAGs x provideDeps flags; queries <=2/<=3 steps over all axes, * "
          "globs, //, ., one predicate step, aliases - with consistency invariants. Every TLC state is replayed into the real "
          "RecipeSet/PackageSet on generated recipes (queryTreePath/queryPackagePath x first/all x cold/warm caches x nullset/"
          "nullglob/nullfail): package sets compared by variant identity, every reported stack checked to be a real path and an "
          "admissible witness, empty-result behaviour per mode. Bounded exhaustive enumeration plus conformance on every "
          "enumerated case - not a proof beyond the bounds.",
  "design_ref": "DESIGN.md section 4, C18",
  "note": "the manual is the reference, undetermined nullglob classes accepted either way; bob.input trusted for graph construction (generated project verified against the catalogue); predicates limited to one variable/eq/ne and * globs; queryAll completeness not part of P; two known findings mask same-class regressions",
  "technique": "TLA+ declarative spec + TLC exhaustive enumeration of (graph, query) cases with consistency invariants and reach configs; every case replayed into the real PackageSet",
 },

 "C17": {
  "text": "StringSubst.tla is the reference semantics of the substitution language and of !expr conditions written from the manual "
          "(AST, Render, Value with laziness/nounset/quoting contexts, Truth, ToFun); TLC exhaustively enumerates all substitution "
          "ASTs up to a cost bound, nesting towers, all protected texts, all well/ill-typed !expr trees up to 4 leaves and all raw "
          "strings up to length 4-5 over the meta alphabet under 10 self-consistency invariants, and every state is replayed into "
          "the real Env.substitute / Env.evaluate / IfExpression with value, ParseError-vs-value, truth and infix == function-form "
          "oracles, plus an internal-exception oracle on raw, hostile and random inputs. Exhaustive within the bounds; conformance "
          "testing of the code, not a proof.",
  "design_ref": "DESIGN.md section 4, C17",
  "note": "the transcription of the manual into StringSubst.tla (readings where the manual is silent are marked 'any' and not judged); Python re semantics judged only on a fixed pattern catalogue",
  "technique": "explicit TLA+ reference semantics + exhaustive TLC enumeration as generator and oracle; spec-to-code replay; internal-exception oracle on raw strings and random inputs",
 },

 "C14": {
  "text": "AuditTrail.tla (per-workspace audit records with references, generation on execution from the dependency trails, skip, "
          "download/upload/share copies; <=3 invocations x <=2 edits x two workspaces/archive/sandbox/shared store) is model-checked "
          "exhaustively for Closed, Complete (with a ghost of what was used at execution time), Truthful and ArtifactIdFunctional; "
          "counterexample histories of six weakenings, TLC-simulated AuditTrail histories and BobBuild develop/release histories "
          "are replayed with real bob runs (tool, sandbox, shared package, file archive, git) and every audit.json.gz and uploaded "
          "artifact is checked after every invocation: documented record structure, closure, completeness against the dependency "
          "trails, truthfulness against live ids/hash/SCM state, independently recomputed artifact-ids. Bounded model checking plus "
          "conformance on generated histories, not a proof.",
  "design_ref": "DESIGN.md section 4, C14",
  "note": "bob.utils.hashDirectory (decided by C11); Bob's parser and getDigestCoro for live Variant-Ids and recomputed Build-Ids; own schema and digest implementations in checks/c14_audit.py; git CLI; fingerprinted Build-Ids not recomputed",
  "technique": "TLA+ mechanism model + invariants with ghost state; TLC-generated histories (simulate + counterexamples of weakened models) replayed on generated real projects; independent oracles on the real audit files",
 },

 "C12": {
  "text": "GitCheckout.tla (upstream DAG of 4 commits / 2 branches / movable tag in two repositories, recipe git spec url x branch|tag|"
          "commit x dir, optional nested url/import SCM, work repository with HEAD/local branches/remote-tracking refs/dirty/untracked/"
          "unpushed commits, Bob dirState/attic; bob dev, dev --clean-checkout, clean -s, clean --attic with git's own refusal rules) "
          "is model-checked exhaustively within <=5 (thorough <=6) actions for NoUserWorkLost, Converges, NoSpuriousRefusal; TLC "
          "counterexamples of nine single weakenings and TLC-simulated histories are replayed with real git and real bob runs; "
          "oracles = presence of every user token/commit in workspace or attic, and equality with a real fresh bob dev plus plain "
          "git clone. Bounded model checking plus conformance on generated histories, not a proof of the code.",
  "design_ref": "DESIGN.md section 4, C12",
  "note": "git 2.39 behaviour as modelled (drift 0 on replayed histories); tags immutable, branch tracking fast-forward only (documented exemptions); dangling-only commits count as lost; action coverage from simulated histories (TLC -coverage OOM); svn/cvs/submodules/stash/tarballs not covered",
  "technique": "TLA+ spec + TLC exhaustive check; counterexample-directed and simulated histories replayed into real git/bob; oracles user-work presence and fresh-checkout equality",
 },
 "C15": {
  "text": "SharedStore.tla (install/use/gc of 2-3 projects split at every lock and file-system operation, quota policy, workspace "
          "links) is model-checked exhaustively: the repaired protocol satisfies all of P, the protocol of the code satisfies P "
          "minus the sub-invariants that state its confirmed remaining weakness (link after unlock). Shortest counterexamples per "
          "weakness, TLC-simulated behaviours, bounded-preemption schedules and random schedules are replayed lock-operation by "
          "lock-operation on real LocalShare objects plus the real LocalBuilder._useSharedPackage/_installSharedPackage under the "
          "deterministic scheduler, with the P oracle evaluated on the real store after every operation; thorough adds real "
          "multi-process stress; traces recorded from real concurrent OS processes (one event per spec action, ordered by a "
          "counter under flock taken while the protecting store lock is held) are validated against TraceSharedStore.tla "
          "with every P invariant evaluated in every state. Bounded model checking plus conformance, not a proof.",
  "design_ref": "DESIGN.md section 4, C15 and 4.22",
  "note": "vf.sched/vf.fsint interposition of os/open/fcntl/shutil names in bob.share and bob.builder; in-memory BobState stand-in; atomic rename, flock and symlink; no crashes of share operations; build-id determines content; virtual mtime clock",
  "technique": "explicit-state model checking with per-operation actions and Weak-set variants; counterexample-guided confirmation on the code; schedule replay under a deterministic scheduler; systematic two-preemption and seeded random scheduling; multi-process stress (thorough)",
 },

 "C19": {
  "text": "ArchiveRetention.tla (index tables and LIMIT queue of `bob archive` transcribed; the documented retention semantics as step "
          "properties over the archive only) is model-checked exhaustively over all upload/external-removal/scan/clean/find histories "
          "(--dry-run, -n) within <=4 artifacts, <=4 history operations, <=2 commands, and over all 4-artifact archives x catalogued "
          "expressions; TLC-simulated histories and TLC's own stale-index counterexamples are replayed with real audit trails and "
          "real artifact packing against the real in-process command with a warm and a per-command fresh index; every observed "
          "transition is judged by TLC with the property layer only. Bounded model checking plus conformance, not a proof.",
  "design_ref": "DESIGN.md section 4, C19",
  "note": "closure follows references of present artifacts only; every upload changes the stat data (virtual mtime clock); -n judged against the last scanned archive; ties may resolve either way; single file archive via -l; value catalogue instantiated by seed",
  "technique": "TLA+ spec + TLC exhaustive check (monitor-variable step properties, vacuity control, as-found and incomplete-repair model variants); TLC -simulate behaviours replayed into bob.cmds.archive with real Audit/LocalArchive artifacts in two index modes; TLC trace judging of observed transitions against the P layer",
 },

 "C09": {
  "text": "ArchivePublish.tla (2-3 uploaders x package/metadata names x 2 archives + cache-mirroring downloader + reader, I/O error "
          "or kill at any file-system operation) is model-checked exhaustively for Atomic, NeverOverwrite, FailedLeavesNothing "
          "and NoTempUnderName; TLC behaviours are replayed op by op into real LocalArchive objects under the deterministic "
          "scheduler and fs interposer with a reader oracle after every real fs op (byte identity with a solo upload, full "
          "gzip+tar read, never changes once present); every op of every solo scenario is additionally used as kill/EIO/ENOSPC "
          "point; real concurrent uploader/mirror/reader processes are traced (call/return of every archive fs operation, global "
          "ticket under flock) and the traces validated against TraceArchivePublish.tla, corrupted copies of accepted traces "
          "must be rejected in the same batch. Bounded model checking plus conformance, not a proof.",
  "design_ref": "DESIGN.md section 4, C09",
  "note": "vf.sched/vf.fsint interposition on bob.archive's os/open/NamedTemporaryFile names; POSIX atomic link/rename on the archive fs; kill modelled immediately before an fs op; payload identity compared after the gzip header; python gzip/tarfile as independent validity oracle",
  "technique": "TLA+/TLC exhaustive + vacuity configs; planned-fault -simulate generation; deterministic-scheduler replay with a reader oracle after every real fs op; fault/crash enumeration; multi-process stress (thorough)",
 },

 "C04": {
  "text": "PkgMemo.tla (memo tables with touched-key stacks and the by-result-id table, YAML cache, package pickle and tree "
          "database, under file edits, -D overrides and repeated invocations) is model-checked exhaustively within small bounds for "
          "MemoSound and DiskSound; counterexamples of ten weakened mechanisms and simulated histories are replayed on generated "
          "real projects, every query answered warm (fresh process, same process, after pickle removal), cold, cold with pkgck "
          "and with both in-memory tables disabled; all full API dumps must be equal. Bounded model checking plus conformance, "
          "not a proof.",
  "design_ref": "DESIGN.md section 4, C04",
  "note": "the dump walker and probes in checks/c04_runner.py; one generated project family; stat data changes on every edit; the no-reuse oracle monkeypatches PackageMatcher.matches and __corePackagesById; plugins/layers/aliases not generated",
  "technique": "TLA+ spec + TLC exhaustive check; TLC-generated edit/invocation histories replayed into real Bob with a cache-free recomputation as independent oracle",
 },
 "C06": {
  "text": "JobSem.tla (JobServerSemaphore incl. asyncio.Semaphore, fifo, child make processes; K<=4 tasks x 2 rounds, N<=3 tokens) "
          "is model-checked exhaustively for Bounded/Conservation/NoDuplication/quiescence and, under weak fairness, for "
          "NoLostWakeup/WaiterServed/Termination; BobSched.tla (P layer of the scheduler over 6 DAGs <=4 packages, jobs 1..3, "
          "keep-going on/off, <=2 failures) for NoDoubleExec/DepsFirst/Bounded/schedule independence. TLC behaviours are replayed "
          "step by step into the real JobServerSemaphore on a real fifo under a virtual loop; real `bob dev -j N [-k]` runs with "
          "driver-controlled completion order are validated against TraceBobSched by TLC, with the step scripts' own running/ "
          "logs as recorder-independent witness and a -j1 build as content oracle. Bounded model checking plus conformance, not a proof.",
  "design_ref": "DESIGN.md section 4, C06",
  "note": "transcription of JobServerSemaphore and asyncio.Semaphore (CPython 3.12) checked step by step with drift 0; /proc-based quiescence detection; only the observable P layer of the scheduler is specified, not the builder recursion; cancellation/SIGINT, Windows path and real GNU make children not exercised",
  "technique": "explicit-state model checking (TLC, safety + liveness) + model-based replay into JobServerSemaphore (spec->code) + TLC trace validation of real parallel builds (code->spec)",
 },

 "C01": {
  "text": "BobBuild.tla (develop-mode builder over two packages: import SCM and deterministic checkoutScript sources, build and "
          "package steps, edits of script text, variable value, consumed-variable list, dependency add/remove, provided variable, "
          "source add/modify/modify-in-subdirectory/delete, reverts) is model-checked exhaustively within small bounds for "
          "IncrementalEqClean and Idempotent; TLC counterexamples of single weakenings of the skip/prune/re-run mechanism and "
          "TLC-simulated histories are replayed with real `bob dev` / `bob build` runs (-j1/-j4, -D defines, import with and "
          "without prune, plain/--build-only/--force invocations mixed in one history); oracle = real clean build of the same project state and the executed-step list of an unchanged "
          "rebuild. Bounded model checking plus conformance on generated histories, not a proof of the code.",
  "design_ref": "DESIGN.md section 4 (BobBuild.tla, C01) and 4.22",
  "note": "deterministic generated scripts; two packages (one inherited class fragment, one provided tool path, one provided variable are model knobs); release mode, -j4, -D defines and import-without-prune only as replay options judged by the end-to-end oracle",
  "technique": "TLA+ spec + TLC exhaustive check; counterexample-directed and simulated edit histories replayed into real bob runs; oracle real clean build",
 },
 "C02": {
  "text": "VariantId.tla (recipe algebra with the documented semantics: fragments, strong/weak variables, tools, arguments, SCM "
          "description) is model-checked exhaustively over base catalogue x complete single-edit catalogue (36 edit kinds; "
          "RevertRestores, Propagates, reach configs). Every (base, edit) state is replayed through the real parser (base, "
          "neighbour, in-place revert): for all step pairs 'Variant-Ids equal' must equal TLC's 'execution tuples equal', and "
          "all ids of the run are bucketed against tuple classes. Bounded model checking plus conformance on every generated "
          "case, not a proof of the code.",
  "design_ref": "DESIGN.md section 4, C02",
  "note": "SHA-1 collision free on generated inputs; small alphabets; SCMs only via symbolic description; action coverage derived from printed states (TLC -coverage unusable on the recursive evaluator)",
  "technique": "TLA+ spec + TLC exhaustive enumeration of (project, edit) pairs; cases replayed into the real parser (Step.getVariantId); partition comparison + global bucket test + revert with caches in place",
 },
 "C03": {
  "text": "VariantId.tla in its configuration dimension (id-irrelevant edits x path x hash seed x file order x sandbox x parse "
          "count) with the Purity invariant carrying the three documented exceptions per step and WeakToolBuildId; every state "
          "is replayed by real OS processes (own PYTHONHASHSEED, directory, creation order, sandbox flag, reparse) computing "
          "Variant-Ids and Build-Ids through the builder's own digest call; equal/different versus the reference run must be "
          "exactly what TLC printed; plus a fixed golden-id table comparison for the shipped reference projects. Bounded "
          "model checking plus conformance, not a proof.",
  "design_ref": "DESIGN.md section 4, C03",
  "note": "supplied source hashes and fingerprints stand in for checkout and fingerprint results; listing order varied via creation order; linux platform tag; the golden comparison is a fixed table, not decided by TLC",
  "technique": "TLA+ spec + TLC enumeration of configurations; multi-process replay of the real parser and Build-Id computation; golden-id table of the shipped reference projects",
 },

 "C07": {
  "text": "BobArtifacts.tla (two workspaces at different locations with independently edited project states - scripts, variable, "
          "dependency sources, host fingerprint, relocatability - sharing one archive; every download mode; upload on/off; "
          "prune on changed variant-/build-id; never-overwrite upload) is model-checked exhaustively within small bounds for "
          "DownloadEqLocal, FullReuse, ArchiveSound and NeverOverwrite; TLC counterexamples of single weakenings of the "
          "build-id and download mechanism and TLC-simulated behaviours are replayed with two real workspaces, a real file "
          "archive and real `bob dev --download MODE [--upload]` runs; oracle = real clean local build, statistics line, "
          "bucket test of real build-ids against the structural ones. LiveBuildId.tla (git branch sources, uncommitted edits, the "
          "archive's commit -> source-Build-Id cache, prediction without checkout) is model-checked for DownloadEqLocal/LiveSound/"
          "ArchiveSound and its counterexample-directed and simulated behaviours are replayed with a real git upstream. "
          "Bounded model checking plus conformance, not a proof.",
  "design_ref": "DESIGN.md section 4, C07 and 4.22",
  "note": "file archive backend; import SCM sources in BobArtifacts (exact live build-ids), git branch sources with live-build-id prediction only in the one-package LiveBuildId stage; host fingerprint emulated by a fingerprintScript printing a harness-controlled file; build step abstracted to the contract checked by C01/C05",
  "technique": "TLA+ spec + TLC exhaustive check; counterexample-directed and simulated behaviours replayed into real bob runs on two workspaces sharing a file archive; oracle real clean local build",
 },
 "C20": {
  "text": "JenkinsJobs.tla (sanitize, job population, build order) is model-checked exhaustively over all labelled package DAGs "
          "<=4 nodes (topologically labelled 5 and 6 nodes, random walks to 6) x package names x isolate sets x root lists under "
          "Bob's own input rules; unique names, acyclicity after every merge, exactly-one-job and direct upstream edges are "
          "invariants. Every TLC case is replayed into the real JobNameCalculator/_genJenkinsJobs/genJenkinsBuildOrder "
          "(duck-typed), a seed-chosen subset as real recipe projects through genJenkinsJobs, and the embedded job "
          "specification (XML -> exec.Spec -> PartialIR) is compared field by field and by recomputed variant-/build-ids with "
          "the live steps; thorough additionally executes the jobs with `bob _jexec` on an emulated node. Bounded model "
          "checking of the design plus conformance on generated cases; not a proof of the code.",
  "design_ref": "DESIGN.md section 4, C20",
  "note": "package names are single-character components joined by '-' (no name-mangling collisions, no aliases); duck-typed steps mirror Step.getAllDepSteps(); placeholder steps not compared; node emulation without sandbox, SCMs or a Jenkins server",
  "technique": "TLA+ spec + TLC exhaustive check and simulation; TLC-enumerated cases replayed into the real job-name calculator, job generator and build-order code; generated real recipe projects; IR round-trip and digest comparison; emulated build node",
 },

 "C08": {
  "text": "ArtifactPack.tla is model-checked exhaustively (tree algebra up to 4 nodes; extractor state machine over a hostile "
          "member grammar with invariant Confined; corruption classes x reader outcomes x builder verification with invariant "
          "AcceptRule). Every TLC-enumerated tree is packed and downloaded through the real LocalArchive and "
          "LocalBuilder._downloadPackage and compared by hashDirectory and an independent tree walker; every TLC hostile "
          "sequence is written as a real pax tgz and downloaded with a sentinel fingerprint around the workspace; real "
          "artifacts are truncated at every length, bit-flipped per gzip region, replaced by wrong formats and content "
          "mismatches. Bounded model checking of the extraction rules plus conformance on generated cases, not a proof of "
          "tarfile or the code.",
  "design_ref": "DESIGN.md section 4, C08",
  "note": "CPython 3.12 tarfile semantics as transcribed (validated by zero drift); directory hash assumed injective on generated trees (cross-checked by the walker); stub step object and inline executor; runs as root; corruption on all small trees plus a seed sample",
  "technique": "TLA+ spec + TLC exhaustive check; TLC-enumerated cases replayed into TarHelper/LocalArchive/LocalBuilder._downloadPackage with independent walker and sentinel oracle; exhaustive truncation and sampled bit-flip loop",
 },
 "C11": {
  "text": "DirHash.tla models the directory walk and the persistent hash cache step-wise after FileIndex (merge of old index and "
          "sorted walk with '/'-suffixed directory keys). TLC checks CacheTransparent/IndexSorted/IndexNeverLies exhaustively "
          "over every sequence of <=3 (thorough <=4) create/modify/same-size-rewrite/same-mtime-replace/same-mtime-in-place-rewrite/chmod/delete/rename/"
          "type-replacement operations from 6 base trees and over all (old index, tree) pairs. All TLC-enumerated 2-step "
          "behaviours plus simulated 8-step behaviours are replayed on real directories, comparing hashDirectory with and "
          "without cache, an independent canonical SHA-1 serialisation and (drift only) the real cache file against the model "
          "index; the TLC-enumerated tree universe is bucketed by real hash against abstract tree equality. Bounded model "
          "checking plus conformance testing, not a proof.",
  "design_ref": "DESIGN.md section 4, C11",
  "note": "every modification changes mtime (1 ns virtual clock) or inode; no concurrent modification while hashing; regular files, symlinks and directories only; SHA-1 collision-free on the generated trees; canonical serialisation re-implemented from the documented format",
  "technique": "TLA+ spec + TLC exhaustive check (step-wise FileIndex model, all-pairs merge config, coverage and reach vacuity); TLC-generated behaviours replayed on real file systems against an independent canonical hash; bucket check of the TLC-enumerated tree universe",
 },
 "C13": {
  "text": "StepEnv.tla defines, per configuration (-E, whitelist settings, sandbox mode none/slim/dev/strict/image, dependency "
          "order, tool consumption), the documented visible-variable classes per step, argument order, tool paths and "
          "readable/writable workspace sets; TLC enumerates all configurations and checks 16 consistency invariants; the "
          "configurations are replayed as real `bob dev` runs whose checkout/build/package/fingerprint scripts dump their own "
          "environment (NUL separated), arguments, tool paths and sandbox view, with hostile values instantiated per seed. "
          "Exhaustive over the configuration space of the spec, sampled over values; conformance testing of the code, not a proof.",
  "design_ref": "DESIGN.md section 4, C13",
  "note": "bash/env/coreutils of the host, the kernel's mount namespaces, the transcription of the manual into StepEnv.tla; values sampled per seed, names are identifiers plus a newline probe",
  "technique": "explicit TLA+ function specification enumerated by TLC; one real project per configuration whose step scripts dump environment, arguments, tool paths and sandbox view (spec -> code replay)",
 },

 "C05": {
  "text": "BobBuild.tla (develop-mode builder: checkout/build/package micro-operations, edits incl. reverts, failing scripts, "
          "kill between every two persistent-state updates or destructive file-system effects and inside scripts) is "
          "model-checked exhaustively within small bounds; TLC counterexamples of single weakenings of the mechanism "
          "(prune before reset, no invalidation before run, inputs recorded before run, no prune on digest change, checkout "
          "state stored before run; one replay per class of abort point) and TLC-simulated behaviours, also with --build-only/--force invocations, are replayed with real bob runs under kill plans / failing "
          "scripts on generated projects; oracle = real clean build. Bounded model checking of the design plus conformance on "
          "generated behaviours - not a proof of the code.",
  "design_ref": "DESIGN.md section 4 (BobBuild.tla, C05) and 4.22",
  "note": "deterministic generated scripts; kill -9 emulated by os._exit at recorded events or by the script killing its parent; two packages, develop mode, local builds; see evidence assumptions",
  "technique": "TLA+ spec + TLC exhaustive check; counterexample-directed and simulated behaviours replayed into real `bob dev` runs with kill/fault injection; oracle real clean build",
 },
 "C10": {
  "text": "StateCommit.tla is model-checked exhaustively (crash between every two file-system effects, torn unsynced files, "
          "stale-lock handling); TLC-simulated behaviours are replayed into the real _BobState under a file-system interposer, "
          "where every prefix of the real op trace x every garbling of unsynced files is loaded by a fresh real instance and "
          "compared with the saved snapshots through the public getters; the recorded op traces are validated back against "
          "the spec by TLC. Thorough tier: Apalache proves an inductive invariant of a typed copy of the protocol (StateCommitApa.tla, "
          "cross-checked against the original by equal TLC state counts) for unbounded counters, and that it implies every P invariant. "
          "Bounded model checking of the design plus conformance on generated behaviours - not a proof of the code.",
  "design_ref": "DESIGN.md section 4, C10 and 4.22",
  "note": "rename assumed atomic/ordered; Adler-32 assumed to detect the generated garblings; fs effects of bob.state go through os/open in its namespace",
  "technique": "TLA+ spec + TLC exhaustive check; TLC-generated behaviours replayed into _BobState with crash-image enumeration; TLC trace validation of recorded fs-op traces",
 },
}
