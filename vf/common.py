"""Shared helpers: repo location, argument parsing, scratch directories, worker pools."""
import argparse
import atexit
import os
import shutil
import sys
import tempfile

REPO = os.environ.get("VERIF_REPO", "/repo")
ROOT = os.path.dirname(os.path.dirname(os.path.abspath(__file__)))
PY = "/venv/bin/python"


def use_repo():
    """Make `import bob` resolve to the working tree under test."""
    p = os.path.join(REPO, "pym")
    if p not in sys.path:
        sys.path.insert(0, p)
    os.environ["BOB_VERIF"] = "1"
    # never silently test another tree: `bob` is also importable through the venv's .pth entry
    import bob
    got = os.path.realpath(os.path.dirname(os.path.dirname(bob.__file__)))
    if got != os.path.realpath(p):
        raise RuntimeError("bob imported from %s instead of %s (scratch copy vanished?)" % (got, p))
    return p


def args(prop, extra=None):
    ap = argparse.ArgumentParser(prog=prop)
    ap.add_argument("--tier", default=os.environ.get("VERIF_TIER", "quick"), choices=["quick", "thorough"])
    ap.add_argument("--seed", type=int, default=int(os.environ.get("VERIF_SEED", "0") or 0))
    ap.add_argument("--replay", default=None)
    ap.add_argument("--keep", action="store_true", help="keep scratch directories")
    if extra:
        extra(ap)
    return ap.parse_args()


_scratch = []


def scratch(prefix="vf-"):
    base = os.environ.get("VERIF_TMP") or tempfile.gettempdir()
    d = tempfile.mkdtemp(prefix=prefix, dir=base)
    _scratch.append(d)
    return d


def _cleanup():
    for d in _scratch:
        shutil.rmtree(d, ignore_errors=True)


atexit.register(_cleanup)


def clean_env(extra=None):
    """Scrubbed environment for Bob child processes."""
    e = {
        "PATH": "/venv/bin:/usr/local/bin:/usr/bin:/bin",
        "LANG": "C.UTF-8", "LC_ALL": "C.UTF-8",
        "HOME": "/nonexistent-vf-home", "XDG_CONFIG_HOME": "/nonexistent-vf-home/.config",
        "PYTHONHASHSEED": "0", "BOB_VERIF": "1", "TERM": "dumb",
        "GIT_CONFIG_NOSYSTEM": "1", "GIT_CONFIG_GLOBAL": "/dev/null",
        "GIT_AUTHOR_NAME": "vf", "GIT_AUTHOR_EMAIL": "vf@example.invalid",
        "GIT_COMMITTER_NAME": "vf", "GIT_COMMITTER_EMAIL": "vf@example.invalid",
    }
    if extra:
        e.update(extra)
    return e


def workers():
    """size of replay pools; VF_WORKERS lowers it on a loaded machine"""
    return int(os.environ.get("VF_WORKERS", "16") or 16)
