"""Launcher for real `bob` invocations under observation.

    python -m vf.boblaunch --repo /repo --events FILE [--kill-at N] [--kill-phase before|after]
                           -- dev app -j 2 [--- query-path ...]

Imports Bob from <repo>/pym, installs recorders by rebinding names in Bob's module
namespaces / wrapping methods of its classes (no source change; only in this process),
then calls bob.scripts.bob() for every command (separated by ---).

Every recorded event is one JSON line {"n": seq, "e": name, ...} appended to FILE and
flushed before the operation proceeds ("before") or right after it returned ("after").
Kill plan: `os._exit(137)` when the event counter reaches N (emulates kill -9: no
finalize, lock file and uncommitted state stay behind).
"""
import json
import os
import sys


class Recorder:
    def __init__(self, path, kill_at=None):
        self.f = open(path, "a", buffering=1) if path else None
        self.n = 0
        self.kill_at = kill_at

    def emit(self, e, **kw):
        rec = dict(kw, n=self.n, e=e)
        if self.f:
            self.f.write(json.dumps(rec, default=repr) + "\n")
            self.f.flush()
        if self.kill_at is not None and self.n == self.kill_at:
            if self.f:
                self.f.write(json.dumps({"n": self.n, "e": "KILLED"}) + "\n")
                self.f.flush()
                os.fsync(self.f.fileno())
            os._exit(137)
        self.n += 1


def _kind(v):
    import datetime
    if v is None:
        return "none"
    if isinstance(v, datetime.datetime):
        return "ts"
    if isinstance(v, bytes):
        return "h:" + v.hex()[:12]
    if isinstance(v, (list, tuple)):
        return [_kind(x) for x in v]
    if isinstance(v, dict):
        return "dict%d" % len(v)
    return type(v).__name__


def install(rec):
    import bob.state as bstate
    import bob.builder as bbuilder
    import bob.utils as butils

    S = bstate._BobState

    def wrap_state(name, fmt):
        orig = getattr(S, name)

        def w(self, *a, **k):
            r = orig(self, *a, **k)
            rec.emit(name, **fmt(*a, **k))   # after the state change was saved
            return r
        setattr(S, name, w)

    wrap_state("setResultHash", lambda p, h: {"path": p, "val": _kind(h)})
    wrap_state("setInputHashes", lambda p, h: {"path": p, "val": _kind(h)})
    wrap_state("delInputHashes", lambda p: {"path": p})
    wrap_state("setDirectoryState", lambda p, d: {"path": p, "val": _kind(d)})
    wrap_state("resetWorkspaceState", lambda p, d: {"path": p, "val": _kind(d)})
    wrap_state("setVariantId", lambda p, v: {"path": p, "val": _kind(v)})
    wrap_state("setStoragePath", lambda p, s: {"path": p, "storage": s})
    wrap_state("setAtticDirectoryState", lambda p, s: {"path": p})
    wrap_state("setBuildState", lambda s: {})

    for fn in ("emptyDirectory", "removePath"):
        if fn in bbuilder.__dict__:
            orig = bbuilder.__dict__[fn]

            def w(path, _orig=orig, _fn=fn):
                existed = os.path.lexists(path)
                r = _orig(path)
                if existed:
                    rec.emit(_fn, path=path)
                return r
            bbuilder.__dict__[fn] = w

    LB = bbuilder.LocalBuilder
    orig_run = LB._runShell

    async def _runShell(self, step, scriptName, logger, workspaceCreated, cleanWorkspace=None, mode=None, **kw):
        label = step.getWorkspacePath()
        rec.emit("runBegin", path=label, script=scriptName, pkg=step.getPackage().getName())
        ok = False
        try:
            if mode is None:
                r = await orig_run(self, step, scriptName, logger, workspaceCreated, cleanWorkspace, **kw)
            else:
                r = await orig_run(self, step, scriptName, logger, workspaceCreated, cleanWorkspace, mode=mode, **kw)
            ok = True
            return r
        finally:
            rec.emit("runEnd", path=label, script=scriptName, ok=ok)
    LB._runShell = _runShell

    # messages (CHECKOUT/BUILD/PACKAGE executed vs skipped, PRUNE, ...)
    import bob.tty as btty
    for name in ("stepMessage",):
        if name in bbuilder.__dict__:
            orig = bbuilder.__dict__[name]

            def w(step, action, message, *a, _orig=orig, **k):
                rec.emit("msg", action=action.strip(), message=message, pkg=step.getPackage().getName())
                return _orig(step, action, message, *a, **k)
            bbuilder.__dict__[name] = w


def main(argv):
    import argparse
    ap = argparse.ArgumentParser()
    ap.add_argument("--repo", default=os.environ.get("VERIF_REPO", "/repo"))
    ap.add_argument("--events", default=None)
    ap.add_argument("--kill-at", type=int, default=None)
    ap.add_argument("--no-record", action="store_true")
    ap.add_argument("rest", nargs=argparse.REMAINDER)
    a = ap.parse_args(argv)
    rest = a.rest
    if rest and rest[0] == "--":
        rest = rest[1:]
    cmds, cur = [], []
    for x in rest:
        if x == "---":
            cmds.append(cur)
            cur = []
        else:
            cur.append(x)
    cmds.append(cur)
    sys.path.insert(0, os.path.join(a.repo, "pym"))
    os.environ["BOB_VERIF"] = "1"
    import bob as _bobpkg
    if os.path.realpath(os.path.dirname(os.path.dirname(_bobpkg.__file__))) != os.path.realpath(os.path.join(a.repo, "pym")):
        print("boblaunch: bob imported from %s, not from %s" % (_bobpkg.__file__, a.repo), file=sys.stderr)
        return 98
    from bob.scripts import bob
    rec = Recorder(a.events, a.kill_at)
    if not a.no_record:
        install(rec)
    rc = 0
    for i, c in enumerate(cmds):
        if i:
            print("@@@CMD %d" % i, flush=True)
        sys.argv = ["bob"] + c
        rec.emit("cmdBegin", argv=c)
        rc = bob(os.path.join(a.repo, "bob"))
        rec.emit("cmdEnd", rc=rc)
        if rc != 0:
            break
    return rc


if __name__ == "__main__":
    sys.exit(main(sys.argv[1:]))
