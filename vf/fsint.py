"""File-system operation interposer for Bob modules.

`Interposer.install(module)` rebinds the names `os`, `open`, `shutil`, `tempfile`,
`fcntl` *inside the namespace of the given Bob module* (and helper functions that
were imported by name from bob.utils) to recording proxies. No Bob source is
modified; nothing is installed unless a harness does it explicitly.

Every wrapped operation
  1. calls hook("before", op) -- may raise an injected fault, raise `Crash`
     (abandon the actor) or block (scheduler yield point),
  2. performs the real operation,
  3. appends an op record and calls hook("after", op).

The interposer also tracks which files hold data that was written but not yet
fsync'ed ("unsynced"); crash images garble exactly those.
"""
import builtins
import errno
import os as _os
import shutil as _shutil
import tempfile as _tempfile
import fcntl as _fcntl
import threading


class Crash(BaseException):
    """Raised inside an actor to simulate the death of the process at an operation."""


class Op:
    __slots__ = ("i", "name", "args", "actor", "res", "exc")

    def __init__(self, i, name, args, actor):
        self.i, self.name, self.args, self.actor = i, name, args, actor
        self.res = None
        self.exc = None

    def __repr__(self):
        return "%d:%s%s" % (self.i, self.name, self.args)

    def asdict(self):
        return {"i": self.i, "op": self.name, "args": [str(a) for a in self.args], "actor": self.actor,
                "exc": repr(self.exc) if self.exc else None}


def _norm(p):
    if isinstance(p, bytes):
        p = p.decode("utf-8", "surrogateescape")
    if isinstance(p, int):
        return p
    return _os.path.normpath(_os.path.join(_os.getcwd(), _os.fspath(p)))


class FileWrapper:
    """Delegating wrapper around a real file object; records write/close."""

    def __init__(self, ip, f, path, writable):
        object.__setattr__(self, "_ip", ip)
        object.__setattr__(self, "_f", f)
        object.__setattr__(self, "_path", path)
        object.__setattr__(self, "_writable", writable)

    def __getattr__(self, n):
        return getattr(self._f, n)

    def __setattr__(self, n, v):
        setattr(self._f, n, v)

    def __iter__(self):
        return iter(self._f)

    def __enter__(self):
        self._f.__enter__()
        return self

    def __exit__(self, *a):
        self.close()
        return False

    def write(self, data):
        def do():
            r = self._f.write(data)
            return r
        self._ip._mark_unsynced(self._path)
        return self._ip._op("write", (self._path, len(data)), do)

    def truncate(self, *a):
        self._ip._mark_unsynced(self._path)
        return self._ip._op("truncate", (self._path,) + a, lambda: self._f.truncate(*a))

    def close(self):
        if self._f.closed:
            return
        fd = None
        try:
            fd = self._f.fileno()
        except Exception:
            pass

        def do():
            self._f.close()
        try:
            if self._writable:
                return self._ip._op("close", (self._path,), do)
            return do()
        finally:
            if fd is not None:
                self._ip._fd2path.pop(fd, None)


class _PathProxy:
    def __init__(self, ip):
        self._ip = ip

    def __getattr__(self, n):
        real = getattr(_os.path, n)
        if n in ("exists", "isdir", "isfile", "islink", "lexists", "getsize"):
            ip = self._ip

            def w(p, *a, **k):
                return ip._op("path." + n, (_norm(p),), lambda: real(p, *a, **k), read=True)
            return w
        return real


class _OsProxy:
    WRAP = ("replace", "rename", "link", "unlink", "remove", "symlink", "mkdir", "makedirs", "rmdir",
            "chmod", "utime", "listdir", "scandir", "stat", "lstat", "readlink", "truncate")

    def __init__(self, ip):
        self._ip = ip
        self.path = _PathProxy(ip)

    def __getattr__(self, n):
        real = getattr(_os, n)
        ip = self._ip
        if n in self.WRAP:
            def w(*a, **k):
                paths = tuple(_norm(x) for x in a if isinstance(x, (str, bytes, _os.PathLike)))
                rd = n in ("listdir", "scandir", "stat", "lstat", "readlink")

                def do():
                    r = real(*a, **k)
                    if n in ("replace", "rename") and len(paths) == 2:
                        ip._moved(paths[0], paths[1])
                    elif n in ("unlink", "remove"):
                        ip._unsynced.discard(paths[0])
                    elif n == "link" and len(paths) == 2:
                        if paths[0] in ip._unsynced:
                            ip._unsynced.add(paths[1])
                    return r
                return ip._op(n, paths, do, read=rd)
            return w
        if n == "open":
            def w(path, flags, *a, **k):
                p = _norm(path)

                def do():
                    fd = real(path, flags, *a, **k)
                    ip._fd2path[fd] = p
                    return fd
                return ip._op("os.open", (p, flags), do)
            return w
        if n == "close":
            def w(fd):
                ip._fd2path.pop(fd, None)
                return real(fd)
            return w
        if n == "fsync":
            def w(fd):
                p = ip._fd2path.get(fd, fd)

                def do():
                    real(fd)
                    ip._unsynced.discard(p)
                return ip._op("fsync", (p,), do)
            return w
        return real


class _ShutilProxy:
    WRAP = ("rmtree", "move", "copyfile", "copy", "copy2", "copytree", "copyfileobj")

    def __init__(self, ip):
        self._ip = ip

    def __getattr__(self, n):
        real = getattr(_shutil, n)
        if n in self.WRAP:
            ip = self._ip

            def w(*a, **k):
                paths = tuple(_norm(x) for x in a if isinstance(x, (str, bytes, _os.PathLike)))
                return ip._op("shutil." + n, paths, lambda: real(*a, **k))
            return w
        return real


class _FcntlProxy:
    def __init__(self, ip):
        self._ip = ip

    def __getattr__(self, n):
        real = getattr(_fcntl, n)
        if n == "flock":
            ip = self._ip

            def w(fd, how):
                fdn = fd if isinstance(fd, int) else fd.fileno()
                p = ip._fd2path.get(fdn, fdn)
                return ip._flock(real, fd, how, p)
            return w
        return real


class _TempfileProxy:
    def __init__(self, ip):
        self._ip = ip

    def __getattr__(self, n):
        real = getattr(_tempfile, n)
        ip = self._ip
        if n == "mkdtemp":
            def w(*a, **k):
                r = {}

                def do():
                    r["p"] = real(*a, **k)
                    return r["p"]
                return ip._op("mkdtemp", (k.get("dir") or (a[2] if len(a) > 2 else ""),), do)
            return w
        if n in ("NamedTemporaryFile", "TemporaryFile"):
            def w(*a, **k):
                def do():
                    f = real(*a, **k)
                    return f
                f = ip._op(n, (k.get("dir", ""),), do)
                name = getattr(f, "name", None)
                if isinstance(name, str):
                    p = _norm(name)
                    try:
                        ip._fd2path[f.fileno()] = p
                    except Exception:
                        pass
                    return TempWrapper(ip, f, p)
                return f
            return w
        if n == "mkstemp":
            def w(*a, **k):
                def do():
                    fd, name = real(*a, **k)
                    ip._fd2path[fd] = _norm(name)
                    return fd, name
                return ip._op("mkstemp", (k.get("dir", ""),), do)
            return w
        return real


class TempWrapper(FileWrapper):
    """NamedTemporaryFile wrapper (has .name, .file, delete semantics stay with the real object)."""

    def __init__(self, ip, f, path):
        FileWrapper.__init__(self, ip, f, path, True)

    def close(self):
        f = self._f
        try:
            closed = f.closed
        except Exception:
            closed = False
        if closed:
            return
        fd = None
        try:
            fd = f.fileno()
        except Exception:
            pass
        try:
            return self._ip._op("close", (self._path,), f.close)
        finally:
            if fd is not None:
                self._ip._fd2path.pop(fd, None)

    def __exit__(self, *a):
        self.close()
        return False


class Interposer:
    def __init__(self, hook=None, record_reads=False):
        self.ops = []
        self.hook = hook
        self.record_reads = record_reads
        self._unsynced = set()
        self._fd2path = {}
        self._installed = []
        self._lock = threading.RLock()
        self.actor = lambda: threading.current_thread().name
        self.os = _OsProxy(self)
        self.shutil = _ShutilProxy(self)
        self.fcntl = _FcntlProxy(self)
        self.tempfile = _TempfileProxy(self)
        self.enabled = True

    # -- bookkeeping ---------------------------------------------------
    def _mark_unsynced(self, p):
        self._unsynced.add(p)

    def _moved(self, a, b):
        if a in self._unsynced:
            self._unsynced.discard(a)
            self._unsynced.add(b)
        else:
            self._unsynced.discard(b)

    def unsynced(self):
        return set(self._unsynced)

    def _op(self, name, args, do, read=False):
        if not self.enabled or (read and not self.record_reads):
            return do()
        op = Op(len(self.ops), name, args, self.actor())
        if self.hook:
            self.hook("before", op)
        try:
            op.res = do()
        except Exception as e:
            op.exc = e
            with self._lock:
                op.i = len(self.ops)
                self.ops.append(op)
            if self.hook:
                self.hook("after", op)
            raise
        with self._lock:
            op.i = len(self.ops)
            self.ops.append(op)
        if self.hook:
            self.hook("after", op)
        return op.res

    def _flock(self, real, fd, how, p):
        kind = {_fcntl.LOCK_SH: "sh", _fcntl.LOCK_EX: "ex", _fcntl.LOCK_UN: "un"}.get(how & ~_fcntl.LOCK_NB, "?")
        return self._op("flock." + kind, (p,), lambda: real(fd, how))

    def open(self, file, mode="r", *a, **k):
        if isinstance(file, int):
            return builtins.open(file, mode, *a, **k)
        p = _norm(file)
        writable = any(c in mode for c in "wax+")

        def do():
            f = builtins.open(file, mode, *a, **k)
            try:
                self._fd2path[f.fileno()] = p
            except Exception:
                pass
            return f
        if not writable:
            f = self._op("open.r", (p,), do, read=True)
            return f
        if "w" in mode:
            self._mark_unsynced(p)
        f = self._op("open." + mode.replace("b", ""), (p,), do)
        return FileWrapper(self, f, p, True)

    # -- installation --------------------------------------------------
    def install(self, module, extra=None):
        """Rebind os/open/shutil/tempfile/fcntl in `module`'s namespace."""
        saved = {}
        for name, val in (("os", self.os), ("open", self.open), ("shutil", self.shutil),
                          ("tempfile", self.tempfile), ("fcntl", self.fcntl)):
            if name == "open" or name in module.__dict__:
                saved[name] = module.__dict__.get(name, _MISSING)
                module.__dict__[name] = val
        for name, val in (extra or {}).items():
            saved[name] = module.__dict__.get(name, _MISSING)
            module.__dict__[name] = val
        self._installed.append((module, saved))

    def uninstall(self):
        for module, saved in reversed(self._installed):
            for name, val in saved.items():
                if val is _MISSING:
                    module.__dict__.pop(name, None)
                else:
                    module.__dict__[name] = val
        self._installed = []


_MISSING = object()


# -- crash images -----------------------------------------------------------

def snapshot_dir(root):
    """Content of all regular files (and symlinks) below root: relpath -> bytes / ('link', target)."""
    snap = {}
    for d, dirs, files in _os.walk(root):
        for fn in files:
            p = _os.path.join(d, fn)
            rel = _os.path.relpath(p, root)
            if _os.path.islink(p):
                snap[rel] = ("link", _os.readlink(p))
            else:
                try:
                    with builtins.open(p, "rb") as f:
                        snap[rel] = f.read()
                except OSError:
                    pass
        for dn in dirs:
            p = _os.path.join(d, dn)
            if _os.path.islink(p):
                snap[_os.path.relpath(p, root)] = ("link", _os.readlink(p))
            elif not _os.listdir(p):
                snap[_os.path.relpath(p, root) + "/"] = None
    return snap


def restore_dir(root, snap):
    _shutil.rmtree(root, ignore_errors=True)
    _os.makedirs(root)
    for rel, data in snap.items():
        p = _os.path.join(root, rel)
        if rel.endswith("/"):
            _os.makedirs(p, exist_ok=True)
            continue
        _os.makedirs(_os.path.dirname(p), exist_ok=True)
        if isinstance(data, tuple):
            _os.symlink(data[1], p)
        else:
            with builtins.open(p, "wb") as f:
                f.write(data)


def garblings(data, rng, extra_cuts=4):
    """Torn variants of an unsynced file's content: (label, bytes). Deterministic given rng."""
    n = len(data)
    out = []
    cuts = {0, n - 1, n - 2, n - 3, n - 4, n - 5, n // 2, 1, 4}
    for _ in range(extra_cuts):
        if n > 1:
            cuts.add(rng.randrange(0, n))
    for c in sorted(c for c in cuts if 0 <= c < n):
        out.append(("trunc%d" % c, data[:c]))
    if n:
        out.append(("zero", b"\0" * n))
        for c in sorted({n // 3, n // 2, max(0, n - 6)}):
            out.append(("zerotail%d" % c, data[:c] + b"\0" * (n - c)))
        for _ in range(3):
            i = rng.randrange(0, n)
            b = bytearray(data)
            b[i] ^= 1 << rng.randrange(0, 8)
            out.append(("flip%d" % i, bytes(b)))
    return out
