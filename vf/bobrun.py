"""Run real Bob invocations (through vf.boblaunch) on generated projects and observe them."""
import hashlib
import json
import os
import shutil
import stat
import subprocess
import sys

from . import common

LAUNCH = [common.PY, "-m", "vf.boblaunch"]


class Result:
    def __init__(self, rc, out, events, killed):
        self.rc = rc
        self.out = out
        self.events = events
        self.killed = killed

    def msgs(self):
        return [(e.get("pkg"), e["action"], e["message"]) for e in self.events if e["e"] == "msg"]

    def runs(self):
        """(pkg, script) of every executed step script"""
        return [(e["pkg"], e["script"]) for e in self.events if e["e"] == "runBegin"]


def run_bob(cwd, argv, kill_at=None, env=None, record=True, timeout=300, ctl=None):
    """Run `bob <argv>` (argv may contain '---' separated follow-up commands) in cwd."""
    evf = os.path.join(cwd, ".vf-events.ndjson")
    if os.path.exists(evf):
        os.unlink(evf)
    e = common.clean_env({"PYTHONPATH": common.ROOT, "VERIF_REPO": common.REPO})
    if ctl:
        e["VF_CTL"] = ctl
    if env:
        e.update(env)
    cmd = LAUNCH + ["--repo", common.REPO]
    if record:
        cmd += ["--events", evf]
    else:
        cmd += ["--no-record"]
    if kill_at is not None:
        cmd += ["--kill-at", str(kill_at)]
    cmd += ["--"] + list(argv)
    # own session + output to a file: a killed Bob leaves pool workers / orphaned scripts behind that
    # would keep a pipe open; they are killed with the process group once the main process is gone
    import signal
    import tempfile
    with tempfile.TemporaryFile(mode="w+b") as outf:
        proc = subprocess.Popen(cmd, cwd=cwd, env=e, stdout=outf, stderr=subprocess.STDOUT,
                                stdin=subprocess.DEVNULL, start_new_session=True)
        try:
            rc = proc.wait(timeout=timeout)
        except subprocess.TimeoutExpired:
            rc = -999
        finally:
            try:
                os.killpg(proc.pid, signal.SIGKILL)
            except ProcessLookupError:
                pass
            proc.wait()
        outf.seek(0)
        out = outf.read().decode("utf-8", "replace")
    if rc == -999:
        raise RuntimeError("bob invocation timed out: %s\n%s" % (cmd, out[-2000:]))

    class _P:
        pass
    p = _P()
    p.returncode, p.stdout = rc, out
    events = []
    if os.path.exists(evf):
        with open(evf) as f:
            for line in f:
                try:
                    events.append(json.loads(line))
                except ValueError:
                    pass
        os.unlink(evf)
    killed = p.returncode in (137, -9) or any(x["e"] == "KILLED" for x in events)
    return Result(p.returncode, p.stdout, events, killed)


def remove_stale_lock(cwd):
    """What the property prescribes after a killed instance."""
    try:
        os.unlink(os.path.join(cwd, ".bob-state.lock"))
        return True
    except FileNotFoundError:
        return False


def walk_tree(root):
    """Independent tree walker: relpath -> (kind, mode, content-hash | link target)."""
    out = {}
    if not os.path.isdir(root):
        return None
    for d, dirs, files in os.walk(root):
        dirs.sort()
        for n in sorted(dirs + files):
            p = os.path.join(d, n)
            rel = os.path.relpath(p, root)
            st = os.lstat(p)
            if stat.S_ISLNK(st.st_mode):
                out[rel] = ("link", os.readlink(p))
            elif stat.S_ISDIR(st.st_mode):
                out[rel] = ("dir", stat.S_IMODE(st.st_mode))
            elif stat.S_ISREG(st.st_mode):
                with open(p, "rb") as f:
                    out[rel] = ("file", stat.S_IMODE(st.st_mode), hashlib.sha1(f.read()).hexdigest())
            else:
                out[rel] = ("other", st.st_mode)
    return out


def tree_text(root, limit=4000):
    """Human-readable dump of small text trees for replay files."""
    out = []
    for d, dirs, files in os.walk(root):
        dirs.sort()
        for n in sorted(files):
            p = os.path.join(d, n)
            try:
                with open(p, "r", errors="replace") as f:
                    out.append("--- %s\n%s" % (os.path.relpath(p, root), f.read()))
            except OSError:
                pass
    return "\n".join(out)[:limit]


def parse_query(out):
    """Parse the '@@@CMD' separated output of a trailing query-path -f '{name}|{src}|{build}|{dist}'."""
    res = {}
    part = out.split("@@@CMD")[-1]
    for line in part.splitlines():
        f = line.strip().split("|")
        if len(f) == 4 and not line.startswith(" "):
            res[f[0]] = {"src": f[1], "build": f[2], "dist": f[3]}
    return res


QUERY = ["---", "query-path", "-f", "{name}|{src}|{build}|{dist}"]


def write_files(root, files):
    """files: relpath -> text | None (delete). Bumps mtimes through a strictly increasing virtual clock."""
    for rel, data in files.items():
        p = os.path.join(root, rel)
        if data is None:
            if os.path.isdir(p) and not os.path.islink(p):
                shutil.rmtree(p)
            elif os.path.lexists(p):
                os.unlink(p)
            continue
        os.makedirs(os.path.dirname(p), exist_ok=True)
        old = None
        if os.path.isfile(p):
            with open(p) as f:
                old = f.read()
        if old != data:
            with open(p, "w") as f:
                f.write(data)
            t = _tick()
            os.utime(p, ns=(t, t))


_clock = [1_600_000_000_000_000_000]


def _tick():
    _clock[0] += 1_000_000_000
    return _clock[0]


def sync_tree(root, sub, files):
    """Make directory root/sub contain exactly `files` (relpath -> text)."""
    base = os.path.join(root, sub)
    os.makedirs(base, exist_ok=True)
    for d, dirs, fs in os.walk(base):
        for n in fs:
            rel = os.path.relpath(os.path.join(d, n), base)
            if rel not in files:
                os.unlink(os.path.join(d, n))
    write_files(base, files)


def dev_paths(cwd, pkgs=("app", "lib")):
    """Fast path for develop mode: workspace paths are dev/<kind>/<pkg>/<n>/workspace. Returns the same
    structure as query_paths, or None if some package has more than one numbered directory of a kind
    (then only `bob query-path` knows which one is current)."""
    import glob
    res = {}
    for pkg in pkgs:
        for kind in ("src", "build", "dist"):
            ds = sorted(glob.glob(os.path.join(cwd, "dev", kind, pkg, "*", "workspace")))
            if len(ds) > 1:
                return None
            if ds:
                name = "app" if pkg == "app" else "app/" + pkg
                res.setdefault(name, {})[kind] = os.path.relpath(ds[0], cwd)
    return res


def query_paths(cwd, target, release=False, defines=()):
    """package name -> {src, build, dist} workspace paths (only those that exist) of target and
    everything below it. `bob query-path` shows a package only if ALL requested directories exist,
    so each kind is queried on its own (separate processes from the build)."""
    res = {}
    argv = []
    for kind in ("src", "build", "dist"):
        if argv:
            argv.append("---")
        argv += ["query-path", "-q", "-f", "{name}|%s|{%s}" % (kind, kind)]
        if release:
            argv.append("--release")
        argv += list(defines)
        argv += [target, target + "//*"]
    r = run_bob(cwd, argv, record=False)
    if r.rc != 0:
        raise RuntimeError("query-path failed (rc=%s):\n%s" % (r.rc, r.out[-1500:]))
    for line in r.out.splitlines():
        f = line.strip().split("|")
        if len(f) == 3 and f[1] in ("src", "build", "dist"):
            res.setdefault(f[0], {})[f[1]] = f[2]
    return res
