"""Generate real Bob projects from abstract model states.

Scripts are deterministic functions of exactly their declared inputs: they dump the script
version, the consumed variables and the complete content of every argument directory, so
that content equality is meaningful and any undeclared influence (stale file, wrong input)
shows up as a content difference.  Control files below $VF_CTL (whitelisted) make a step
fail after partial output or kill Bob in the middle of the script.
"""
import json

CONFIG = """bobMinimumVersion: "0.16"
policies:
  pruneImportScm: true
  fixImportScmVariant: true
  gitCommitOnBranch: true
  defaultFileMode: true
  substituteMetaEnv: true
  managedLayers: true
  urlScmSeparateDownload: true
  failUnstableCheckouts: true
  noUndefinedTools: true
  scmIgnoreUser: true
"""


def dump_args():
    return ('for d in "$@"; do echo "== arg"; ( cd "$d" && find . \\( -type f -o -type l \\) | LC_ALL=C sort | '
            'while read -r f; do echo "-- $f"; cat "$f"; done ); done')


def build_script(p, ver, varnames, extra=""):
    lines = ["# build script of %s, version %s" % (p, ver),
             'if [ -e "${VF_CTL:-/nonexistent}/%s.bu.kill" ]; then echo partial > out.txt; kill -9 $PPID; sleep 2; exit 1; fi' % p,
             'if [ -e "${VF_CTL:-/nonexistent}/%s.bu.fail" ]; then echo partial > out.txt; touch marker-partial; exit 1; fi' % p,
             "{", 'echo "build %s v%s"' % (p, ver)]
    for v in varnames:
        lines.append('echo "%s=${%s-<unset>}"' % (v, v))
    if extra:
        lines.append(extra)
    lines.append(dump_args())
    lines.append("} > out.txt")
    lines.append("rm -f marker-partial")
    lines.append("touch marker-b%s" % ver)
    return "\n".join(lines) + "\n"


def checkout_script(p, ver):
    """deterministic checkout script: regenerates exactly the file set of source version `ver`"""
    lines = ["# checkout script of %s, source version %s" % (p, ver),
             "rm -rf a.txt sub partial.txt",
             'if [ -e "${VF_CTL:-/nonexistent}/%s.co.kill" ]; then echo partial > partial.txt; kill -9 $PPID; sleep 2; exit 1; fi' % p,
             'if [ -e "${VF_CTL:-/nonexistent}/%s.co.fail" ]; then echo partial > partial.txt; exit 1; fi' % p]
    for rel, data in sorted(src_files(p, ver).items()):
        if "/" in rel:
            lines.append("mkdir -p %s" % rel.rsplit("/", 1)[0])
        lines.append("printf '%%s' '%s' > %s" % (data.replace("\n", "\\n"), rel))
    return "\n".join(lines) + "\n"


def package_script(p, ver, varnames=()):
    lines = ["# package script of %s, version %s" % (p, ver),
             'if [ -e "${VF_CTL:-/nonexistent}/%s.pk.kill" ]; then echo partial > pkg.txt; kill -9 $PPID; sleep 2; exit 1; fi' % p,
             'if [ -e "${VF_CTL:-/nonexistent}/%s.pk.fail" ]; then echo partial > pkg.txt; exit 1; fi' % p,
             'cp -a "$1"/. .',
             "{", 'echo "package %s v%s"' % (p, ver)]
    for v in varnames:
        lines.append('echo "%s=${%s-<unset>}"' % (v, v))
    lines.append("} > pkg.txt")
    return "\n".join(lines) + "\n"


def yaml_block(s, indent=2):
    pad = " " * indent
    return "|\n" + "".join(pad + line + "\n" for line in s.splitlines())


def src_files(p, ver):
    """abstract source version -> file set (0: base, 1: modified, 2: base + added file in a
    sub-directory, 3: like 2 with that file modified in place)"""
    if ver == 0:
        return {"a.txt": "%s-0\n" % p}
    if ver == 1:
        return {"a.txt": "%s-1\n" % p}
    if ver == 2:
        return {"a.txt": "%s-0\n" % p, "sub/b.txt": "%s-x\n" % p}
    return {"a.txt": "%s-0\n" % p, "sub/b.txt": "%s-y\n" % p}


def deletes_files(old, new):
    """does the source edit old -> new remove a file?"""
    return bool(set(src_files("p", old)) - set(src_files("p", new)))


def render_bobbuild(proj, define=False, prune=True):
    """proj = the `proj` record of specs/BobBuild.tla (as JSON). Returns relpath -> text
    for recipes/config and a dict of source trees. With define=True the value of V is not in
    default.yaml but must be passed as -DV=<value> on the command line."""
    files = {"config.yaml": CONFIG}
    files["default.yaml"] = "environment:\n  V: \"%s\"\nwhitelist: [VF_CTL]\n" % ("from-default-yaml" if define else proj["V"])
    cver = proj.get("cver", 0)
    tpath = proj.get("tpath", 0)
    # class inherited by both recipes: its build script fragment runs before the recipe's
    files["classes/base.yaml"] = "buildScript: " + yaml_block('echo "class base v%s" > class.txt\n' % cver)
    tooldir = "." if tpath == 0 else "bin"
    lib_pkg = package_script("lib", proj["pver"]["lib"]) + \
        'mkdir -p bin\nprintf \'#!/bin/sh\\necho tool-at-top\\n\' > t.sh\nprintf \'#!/bin/sh\\necho tool-in-bin\\n\' > bin/t.sh\nchmod +x t.sh bin/t.sh\n'
    lib = ["inherit: [base]",
           "checkoutSCM:", "  scm: import", "  url: src/lib", "  prune: %s" % ("True" if prune else "False"),
           "buildScript: " + yaml_block(build_script("lib", proj["bver"]["lib"], [])),
           "packageScript: " + yaml_block(lib_pkg),
           "provideVars:", "  PV: \"%s\"" % proj["pv"],
           "provideTools:", "  t: \"%s\"" % tooldir]
    files["recipes/lib.yaml"] = "\n".join(lib) + "\n"
    bvars = (["V"] if proj["usesV"] else []) + ["PV"]
    app = ["root: true", "inherit: [base]"]
    extra = ""
    if proj["dep"]:
        app += ["depends:", "  - name: lib", "    use: [result, environment, tools]", "buildTools: [t]"]
        extra = 'echo "tool=$(t.sh)"'
    app += ["checkoutDeterministic: True",
            "checkoutScript: " + yaml_block(checkout_script("app", proj["src"]["app"])),
            "buildVars: [%s]" % ", ".join(bvars),
            "buildScript: " + yaml_block(build_script("app", proj["bver"]["app"], bvars, extra=extra)),
            "packageScript: " + yaml_block(package_script("app", proj["pver"]["app"]))]
    files["recipes/app.yaml"] = "\n".join(app) + "\n"
    srcs = {"src/lib": src_files("lib", proj["src"]["lib"])}
    return files, srcs


def proj_key(proj):
    return json.dumps(proj, sort_keys=True)


def render_artifacts(proj, archive_path):
    """proj = the per-workspace `proj` record of specs/BobArtifacts.tla. app is fingerprinted by a
    script that prints the harness-controlled file $VF_CTL/hostfp (emulated host fingerprint)."""
    files = {"config.yaml": CONFIG}
    d = "environment:\n  V: \"%s\"\nwhitelist: [VF_CTL]\n" % proj["V"]
    if archive_path:
        d += "archive:\n  backend: file\n  path: \"%s\"\n  flags: [download, upload]\n" % archive_path
    files["default.yaml"] = d
    lib = ["checkoutSCM:", "  scm: import", "  url: src/lib", "  prune: True",
           "buildScript: " + yaml_block(build_script("lib", 0, [])),
           "packageScript: " + yaml_block(package_script("lib", 0))]
    files["recipes/lib.yaml"] = "\n".join(lib) + "\n"
    app = ["root: true", "depends: [lib]",
           "checkoutSCM:", "  scm: import", "  url: src/app", "  prune: True",
           "buildVars: [V]",
           "fingerprintIf: True",
           "fingerprintScript: " + yaml_block('cat "$VF_CTL/hostfp"'),
           "buildScript: " + yaml_block(build_script("app", proj["bver"], ["V"], extra='echo "host=$(cat "$VF_CTL/hostfp")"')),
           "packageScript: " + yaml_block(package_script("app", proj["pver"]) +
                                          ("" if proj.get("reloc", True) else "pwd > where.txt\n"))]
    if not proj.get("reloc", True):
        # a location dependent result: Bob tags the Build-Id of non-relocatable packages with the workspace path
        app.insert(1, "relocatable: False")
    files["recipes/app.yaml"] = "\n".join(app) + "\n"
    srcs = {"src/app": src_files("app", 0), "src/lib": src_files("lib", proj["srcl"])}
    return files, srcs
