"""Deterministic scheduler for logical processes (threads) whose yield points are the
file-system operations recorded by vf.fsint.Interposer.

    ip = fsint.Interposer(record_reads=True)
    sch = Sched(ip)
    sch.spawn("U1", lambda: archive.upload(...))
    sch.spawn("R", reader)
    sch.pending("U1")     -> the Op the actor is about to perform (parked *before* it), or None when finished
    sch.step("U1")        -> perform exactly that op and run to the next yield point;
                             returns "op" | "blocked" | "done" | "failed"
    sch.kill("U1")        -> the actor dies here: it is parked forever, nothing it would do later
                             (not even cleanup handlers) happens; its file descriptors are closed
                             (releasing flock locks like the kernel does for a dead process)
    sch.fault("U1", exc)  -> the pending op raises exc (I/O error injection) when stepped

Exactly one actor runs at a time; the driver (following a TLC behaviour) decides which.
flock() is issued non-blocking: "would block" parks the actor again and reports "blocked".
"""
import fcntl as _fcntl
import os
import threading


class _Actor:
    def __init__(self, name, fn):
        self.name = name
        self.fn = fn
        self.go = threading.Semaphore(0)
        self.parked = threading.Semaphore(0)
        self.pending = None
        self.state = "new"          # new | parked | running | done | failed | dead
        self.exc = None
        self.result = None
        self.inject = None
        self.fds = set()
        self.thread = None
        self.blocked = False


class Sched:
    def __init__(self, ip):
        self.ip = ip
        self.actors = {}
        self._tl = threading.local()
        ip.hook = self._hook
        ip.actor = self._actor_name
        self._orig_flock = ip._flock
        ip._flock = self._flock

    def _actor_name(self):
        a = getattr(self._tl, "actor", None)
        return a.name if a else "driver"

    # -- called inside actor threads --------------------------------------
    def _park(self, a, op):
        a.pending = op
        a.state = "parked"
        a.parked.release()
        a.go.acquire()
        if a.state == "dead":
            # never continue: block this thread forever (daemon)
            threading.Event().wait()
        a.state = "running"
        inj, a.inject = a.inject, None
        if inj is not None:
            raise inj

    def _hook(self, phase, op):
        a = getattr(self._tl, "actor", None)
        if a is None:
            return
        if phase == "before":
            self._park(a, op)
        else:
            # track descriptors for kill(); forget them when the actor closes the file (the number may be reused)
            if op.name == "close" and op.exc is None:
                a.fds = {fd for fd in a.fds if self._fd_is_open(fd)}
            if op.name in ("os.open", "mkstemp") and op.exc is None:
                fd = op.res[0] if isinstance(op.res, tuple) else op.res
                if isinstance(fd, int):
                    a.fds.add(fd)
            elif op.name.startswith("open.") or op.name in ("NamedTemporaryFile", "TemporaryFile"):
                try:
                    a.fds.add(op.res.fileno())
                except Exception:
                    pass

    @staticmethod
    def _fd_is_open(fd):
        try:
            os.fstat(fd)
            return True
        except OSError:
            return False

    def _flock(self, real, fd, how, p):
        a = getattr(self._tl, "actor", None)
        if a is None:
            return self._orig_flock(real, fd, how, p)
        kind = {_fcntl.LOCK_SH: "sh", _fcntl.LOCK_EX: "ex", _fcntl.LOCK_UN: "un"}.get(how & ~_fcntl.LOCK_NB, "?")
        nb = bool(how & _fcntl.LOCK_NB)
        fdn = fd if isinstance(fd, int) else fd.fileno()
        a.fds.add(fdn)
        while True:
            def do():
                return real(fd, how | _fcntl.LOCK_NB)
            try:
                r = self.ip._op("flock." + kind, (p,), do)
                a.blocked = False
                return r
            except BlockingIOError:
                if nb:
                    raise
                a.blocked = True   # retry when stepped again (the op is recorded with its exception)

    def _run(self, a):
        self._tl.actor = a
        a.go.acquire()
        if a.state == "dead":
            return
        a.state = "running"
        try:
            a.result = a.fn()
            a.state = "done"
        except BaseException as e:   # noqa
            a.exc = e
            a.state = "failed"
        a.pending = None
        a.parked.release()

    # -- driver API --------------------------------------------------------
    def spawn(self, name, fn):
        a = _Actor(name, fn)
        self.actors[name] = a
        a.thread = threading.Thread(target=self._run, args=(a,), name=name, daemon=True)
        a.thread.start()
        # run to the first yield point
        a.go.release()
        a.parked.acquire()
        return a

    def pending(self, name):
        a = self.actors[name]
        return a.pending if a.state == "parked" else None

    def state(self, name):
        return self.actors[name].state

    def step(self, name):
        a = self.actors[name]
        if a.state != "parked":
            return a.state
        a.go.release()
        a.parked.acquire()
        if a.state == "parked":
            return "blocked" if a.blocked else "op"
        return a.state

    def run_to_end(self, name, limit=10000):
        n = 0
        while self.actors[name].state == "parked" and n < limit:
            if self.step(name) == "blocked":
                return "blocked"
            n += 1
        return self.actors[name].state

    def fault(self, name, exc):
        self.actors[name].inject = exc

    def kill(self, name):
        a = self.actors[name]
        if a.state in ("done", "failed", "dead"):
            return
        a.state = "dead"
        for fd in list(a.fds):
            try:
                os.close(fd)
            except OSError:
                pass
        a.fds.clear()
        a.go.release()

    def result(self, name):
        a = self.actors[name]
        return a.result, a.exc
