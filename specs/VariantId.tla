----------------------------- MODULE VariantId -----------------------------
(* Variant-Id / Build-Id of Bob steps (pym/bob/input.py, intermediate.py), properties C02 and C03.

   A small recipe algebra with the DOCUMENTED semantics (doc/manual/configuration.rst,
   concepts.rst "Implicit versioning"):
     * recipes with <= 2 classes, {checkout,build,package}{Setup,Script,Finalize} fragments
       (classes first, recipe last; Finalize in reverse order)          configuration.rst 600-603, 670, 698-704
     * environment: default.yaml -> `environment` of classes/recipe -> per dependency overrides ->
       provideVars (use: [environment], forward) -> sandbox environment (only with --sandbox) ->
       tool environments of all tools used in the recipe -> metaEnvironment       configuration.rst 205-260
     * {checkout,build,package}Vars[Weak] with carry-forward checkout->build->package; a variable that is
       strong and weak is strong                                                  configuration.rst 771-855
     * tools (provider package variant, path, libs, environment), strong and weak use, carry-forward
     * dependencies: ordered results as arguments, checkoutDep, packageDepends, provided vars/tools/sandbox
     * SCM description of the checkout step, checkoutAssert

   The id of a step in the spec is its EXECUTION TUPLE
     Exec(s) = [kind, fragments in execution order, strong vars |-> values,
                tools (sorted by name) |-> <<Exec of provider, path, libs>>, args = sequence of Exec,
                scm description, asserts]  plus the host part h
   defined recursively and therefore injective by construction.  The host part h is the fingerprint part
   of the id: empty unless a fingerprinted step is built inside a sandbox image (C03 exception).
   BExec is the same for the Build-Id: checkout steps are replaced by the supplied source hash, weakly
   used tools only by their name, fingerprinted steps carry the fingerprint.

   P layer: the invariants at the end.  There is no mechanism (M) layer: how the code serialises the
   tuple into SHA-1 input is not modelled; the property is that the code's ids induce the same partition.

   State machine: Init picks a base project from the catalogue; one named action per single-edit kind
   produces the neighbour (stage "nb"); Revert undoes the edit (stage "rev"); Configure (C03) picks the
   process configuration.  GenPrint prints each state as JSON for the replay drivers.                  *)
EXTENDS Naturals, Sequences, FiniteSets, TLC, Json

CONSTANTS Level,   \* 1 = quick catalogue, 2 = thorough catalogue
          Mode,    \* "c02": all single edits; "c03": id-irrelevant edits x configurations
          NOrd,    \* number of file creation orders (C03)
          Gen      \* TRUE: print every state as JSON

VARIABLES base,    \* base project
          cur,     \* current project (= base, neighbour, or reverted neighbour)
          ed,      \* the edit [k, h, t, x, y]: kind, holder ("rec","cls","renv"), target, two arguments
          stage,   \* "base" | "nb" | "rev"
          cfg      \* process configuration [path, seed, ord, sb, pc]
svars == <<base, cur, ed, stage, cfg>>

----------------------------------------------------------------------------
(* domains *)

Vars == {"V1", "V2", "V3", "W1", "U1", "PV", "TV", "SV", "M1"}
Unset == "-"
E0 == [v \in Vars |-> Unset]
EnvOf(r) == [v \in Vars |-> IF v \in DOMAIN r THEN r[v] ELSE Unset]
Upd(e, o) == [v \in Vars |-> IF o[v] # Unset THEN o[v] ELSE e[v]]
Restrict(e, S) == [v \in Vars |-> IF v \in S THEN e[v] ELSE Unset]
Defined(e) == {v \in Vars : e[v] # Unset}

Kinds == {"c", "b", "p"}          \* checkout, build, package
Places == {"S", "M", "F"}         \* Setup, Script, Finalize
F0 == [k \in Kinds |-> [p \in Places |-> ""]]
FrOf(r) == [k \in Kinds |-> [p \in Places |->
              IF k \in DOMAIN r THEN (IF p \in DOMAIN r[k] THEN r[k][p] ELSE "") ELSE ""]]

VarLists == {"cv", "bv", "pv", "cvw", "bvw", "pvw"}
VL0 == [l \in VarLists |-> {}]
VLOf(r) == [l \in VarLists |-> IF l \in DOMAIN r THEN r[l] ELSE {}]

ToolNames == {"ta", "tb"}
SortedTools == <<"ta", "tb">>
ToolLists == {"ct", "bt", "pt", "ctw", "btw", "ptw"}
TL0 == [l \in ToolLists |-> {}]
TLOf(r) == [l \in ToolLists |-> IF l \in DOMAIN r THEN r[l] ELSE {}]
TD0 == [def |-> FALSE, path |-> "", libs |-> <<>>, env |-> E0]
PT0 == [t \in ToolNames |-> TD0]

RecNames == {"root", "app", "liba", "libb", "tc", "sbx"}
ClsNames == {"c1", "c2"}

C0 == [fr |-> F0, env |-> E0, vl |-> VL0, inh |-> <<>>]
R0 == [fr |-> F0, env |-> E0, vl |-> VL0, inh |-> <<>>, deps |-> <<>>, tl |-> TL0, pvars |-> E0,
       ptl |-> PT0, scm |-> <<>>, asr |-> <<>>, psb |-> [def |-> FALSE, env |-> E0], fp |-> FALSE,
       pkgdep |-> FALSE, meta |-> E0, audit |-> "", net |-> FALSE, js |-> FALSE]
Dep(n, u) == [name |-> n, use |-> u, env |-> E0, codep |-> FALSE, fwd |-> FALSE]

Range(s) == {s[i] : i \in DOMAIN s}
NonEmpty(s) == SelectSeq(s, LAMBDA z : z # "")
Rev(s) == [i \in 1..Len(s) |-> s[Len(s) + 1 - i]]
RECURSIVE Concat(_)
Concat(ss) == IF ss = <<>> THEN <<>> ELSE Head(ss) \o Concat(Tail(ss))
RemoveAt(s, i) == [j \in 1..(Len(s) - 1) |-> IF j < i THEN s[j] ELSE s[j + 1]]
SwapAt(s, i) == [j \in 1..Len(s) |-> IF j = i THEN s[i + 1] ELSE IF j = i + 1 THEN s[i] ELSE s[j]]

----------------------------------------------------------------------------
(* execution tuples *)

NX == [kind |-> "none", frags |-> <<>>, vars |-> E0, tools |-> <<>>, args |-> <<>>, scm |-> <<>>, asr |-> <<>>]
NB == [kind |-> "none", frags |-> <<>>, vars |-> E0, tools |-> <<>>, args |-> <<>>, src |-> <<>>]
NM == [env |-> FALSE, fp |-> FALSE]
NF == [kind |-> "none", frags |-> <<>>, vars |-> E0, tools |-> <<>>, args |-> <<>>, scm |-> <<>>,
       asr |-> <<>>, fp |-> FALSE, sbd |-> FALSE, weak |-> {}]
\* a step: key = <<package stack, label>>; the id has a recipe part and a host (fingerprint) part, exactly
\* like the documented digest: x/h = Exec (Variant-Id), bx/bh = BExec (Build-Id); a consumer of a TOOL sees
\* only the recipe part of the provider ("it does not matter where a tool is built but how it behaves").
\* mk = exception marks, flat = Exec with references (keys) instead of nested tuples (for printing),
\* ins = keys of the inputs
NS == [key |-> <<>>, valid |-> FALSE, x |-> NX, h |-> <<>>, bx |-> NB, bh |-> <<>>, mk |-> NM, flat |-> NF,
       ins |-> <<>>]
TV0 == [def |-> FALSE, st |-> NS, path |-> "", libs |-> <<>>, env |-> E0]
TM0 == [t \in ToolNames |-> TV0]
SB0 == [def |-> FALSE, env |-> E0, st |-> NS]

\* symbolic SCM description: a content-addressed git/url SCM is described by its hash, not its location
Descr(s) == IF s.pin /\ s.ty \in {"git", "url"} THEN <<s.ty, "-", s.rev, s.dir>>
            ELSE <<s.ty, s.url, s.rev, s.dir>>

----------------------------------------------------------------------------
(* class resolution: depth first, every class once (configuration.rst 600-603) *)

RECURSIVE Lin(_, _)
Lin(P, inh) == IF inh = <<>> THEN <<>>
               ELSE Lin(P, P.cls[Head(inh)].inh) \o <<Head(inh)>> \o Lin(P, Tail(inh))
RECURSIVE Dedup(_, _)
Dedup(s, seen) == IF s = <<>> THEN <<>>
                  ELSE IF Head(s) \in seen THEN Dedup(Tail(s), seen)
                  ELSE <<Head(s)>> \o Dedup(Tail(s), seen \cup {Head(s)})
ClassOrder(P, inh) == Dedup(Lin(P, inh), {})
Parts(P, R) == LET o == ClassOrder(P, R.inh)
               IN [i \in 1..(Len(o) + 1) |-> IF i <= Len(o) THEN P.cls[o[i]] ELSE R]

FragCol(parts, k, pl) == [i \in 1..Len(parts) |-> parts[i].fr[k][pl]]
SetupFr(parts, k) == NonEmpty(FragCol(parts, k, "S"))
\* regular scripts in inheritance order, then the Finalize scripts in REVERSE order (recipe first)
MainFr(parts, k) == NonEmpty(FragCol(parts, k, "M")) \o NonEmpty(Rev(FragCol(parts, k, "F")))
VL(parts, l) == UNION {parts[i].vl[l] : i \in 1..Len(parts)}

SubstEnv(o, sb) == [v \in Vars |-> IF o[v] = "$SB" THEN (IF sb THEN "true" ELSE "false") ELSE o[v]]
RECURSIVE FoldEnv(_, _, _, _)
FoldEnv(e, parts, i, sb) == IF i > Len(parts) THEN e
                            ELSE FoldEnv(Upd(e, SubstEnv(parts[i].env, sb)), parts, i + 1, sb)
RECURSIVE FoldToolEnv(_, _, _, _)
FoldToolEnv(e, names, tm, i) == IF i > Len(names) THEN e
                                ELSE FoldToolEnv(Upd(e, tm[names[i]].env), names, tm, i + 1)
UpdT(t, o) == [n \in ToolNames |-> IF o[n].def THEN o[n] ELSE t[n]]

\* variables whose value can depend on the sandbox: provided by a sandbox image / set from $(is-sandbox-enabled)
SensVars(P) == {v \in Vars :
                  \/ \E r \in RecNames : P.rec[r].psb.def /\ P.rec[r].psb.env[v] # Unset
                  \/ \E r \in RecNames : P.rec[r].env[v] = "$SB"
                  \/ \E c \in ClsNames : P.cls[c].env[v] = "$SB"}

ToolSel(used, tm) == SelectSeq(SortedTools, LAMBDA t : t \in used /\ tm[t].def)
ExecTools(names, tm) == [i \in 1..Len(names) |-> <<tm[names[i]].st.x, tm[names[i]].path, tm[names[i]].libs>>]
FlatTools(names, tm) == [i \in 1..Len(names) |-> <<names[i], tm[names[i]].st.key, tm[names[i]].path, tm[names[i]].libs>>]
BExecTools(names, tm, weak) ==
  [i \in 1..Len(names) |->
     IF names[i] \in weak THEN [w |-> TRUE, n |-> names[i], st |-> NB, path |-> "", libs |-> <<>>]
     ELSE [w |-> FALSE, n |-> "", st |-> tm[names[i]].st.bx, path |-> tm[names[i]].path, libs |-> tm[names[i]].libs]]
Xs(sts) == [i \in 1..Len(sts) |-> sts[i].x]
Bxs(sts) == [i \in 1..Len(sts) |-> sts[i].bx]
Keys(sts) == [i \in 1..Len(sts) |-> sts[i].key]
ToolKeys(names, tm) == [i \in 1..Len(names) |-> tm[names[i]].st.key]
AnyEnvMark(sts) == \E i \in 1..Len(sts) : sts[i].mk.env
AnyFpMark(sts) == \E i \in 1..Len(sts) : sts[i].mk.fp
ToolEnvMark(names, tm) == \E i \in 1..Len(names) : tm[names[i]].st.mk.env

\* one step.  sbd: the step is executed in a sandbox image; fpd: the step is fingerprinted
MkStep(key, kind, frags, vars, names, tm, weak, args, scm, asr, fpd, sbd, sbst, sens) ==
  LET ownHost == IF fpd /\ sbd THEN <<[x |-> sbst.x, h |-> sbst.h]>> ELSE <<>>
      fpv == IF fpd THEN <<IF sbd THEN "fp-in-sandbox" ELSE "fp-on-host">> ELSE <<>>
  IN [key |-> key, valid |-> TRUE,
      x |-> [kind |-> kind, frags |-> frags, vars |-> vars, tools |-> ExecTools(names, tm), args |-> Xs(args),
             scm |-> scm, asr |-> asr],
      h |-> ownHost \o Concat([i \in 1..Len(args) |-> args[i].h]),
      bx |-> IF kind = "checkout"
             THEN [NB EXCEPT !.kind = "src", !.src = key[1]]
             ELSE [kind |-> kind, frags |-> frags, vars |-> vars, tools |-> BExecTools(names, tm, weak),
                   args |-> Bxs(args), src |-> <<>>],
      bh |-> IF kind = "checkout" THEN <<>> ELSE fpv \o Concat([i \in 1..Len(args) |-> args[i].bh]),
      mk |-> [env |-> (Defined(vars) \cap sens # {}) \/ AnyEnvMark(args) \/ ToolEnvMark(names, tm),
              fp |-> fpd \/ AnyFpMark(args)],
      flat |-> [kind |-> kind, frags |-> frags, vars |-> vars, tools |-> FlatTools(names, tm), args |-> Keys(args),
                scm |-> scm, asr |-> asr, fp |-> fpd, sbd |-> sbd, weak |-> weak \cap Range(names)],
      ins |-> Keys(args) \o ToolKeys(names, tm)]

----------------------------------------------------------------------------
(* evaluation of a package: configuration.rst "Environment handling", "Tool handling", "Sandbox operation" *)

RECURSIVE Eval(_, _, _, _, _, _, _, _)
RECURSIVE DepLoop(_, _, _, _, _, _, _)

DepLoop(P, deps, i, A, here, sbOn, sens) ==
  IF i > Len(deps) THEN A
  ELSE LET d == deps[i]
       IN IF d.name \in Range(here) \/ d.name \in A.names
          THEN [A EXCEPT !.ok = FALSE]       \* cyclic / dependency named twice: parse error
          ELSE
            LET sub == Eval(P, d.name, here, Upd(A.denv, d.env), A.dtools, A.dsb, sbOn, sens)
                uE == "environment" \in d.use
                uT == "tools" \in d.use
                uR == "result" \in d.use
                uS == "sandbox" \in d.use /\ sub.psb.def
                env1 == IF uE THEN Upd(A.env, sub.penv) ELSE A.env
                denv1 == IF uE /\ d.fwd THEN Upd(A.denv, sub.penv) ELSE A.denv
                \* the sandbox environment has a higher precedence than provideVars, only with --sandbox
                env2 == IF uS /\ sbOn THEN Upd(env1, sub.psb.env) ELSE env1
                denv2 == IF uS /\ sbOn /\ d.fwd THEN Upd(denv1, sub.psb.env) ELSE denv1
                A1 == [env |-> env2, denv |-> denv2,
                       tools |-> IF uT THEN UpdT(A.tools, sub.ptools) ELSE A.tools,
                       dtools |-> IF uT /\ d.fwd THEN UpdT(A.dtools, sub.ptools) ELSE A.dtools,
                       sb |-> IF uS THEN sub.psb ELSE A.sb,
                       dsb |-> IF uS /\ d.fwd THEN sub.psb ELSE A.dsb,
                       res |-> IF uR THEN Append(A.res, sub.pk) ELSE A.res,
                       cod |-> IF uR /\ d.codep THEN Append(A.cod, sub.pk) ELSE A.cod,
                       subs |-> A.subs \o sub.all,
                       ok |-> A.ok /\ sub.ok,
                       names |-> A.names \cup {d.name}]
            IN DepLoop(P, deps, i + 1, A1, here, sbOn, sens)

Eval(P, name, path, ienv, itools, isb, sbOn, sens) ==
  LET R == P.rec[name]
      here == Append(path, name)
      parts == Parts(P, R)
      \* 1. `environment` of the classes, then of the recipe
      env1 == FoldEnv(ienv, parts, 1, isb.def /\ sbOn)
      \* 2./3. dependencies
      A == DepLoop(P, R.deps, 1,
                   [env |-> env1, denv |-> env1, tools |-> itools, dtools |-> itools, sb |-> isb, dsb |-> isb,
                    res |-> <<>>, cod |-> <<>>, subs |-> <<>>, ok |-> TRUE, names |-> {}],
                   here, sbOn, sens)
      \* tools: a tool consumed in one step is also available in the following steps
      sC == R.tl["ct"]
      sB == sC \cup R.tl["bt"]
      sP == sB \cup R.tl["pt"]
      tC == sC \cup R.tl["ctw"]
      tB == tC \cup R.tl["bt"] \cup R.tl["btw"]
      tP == tB \cup R.tl["pt"] \cup R.tl["ptw"]
      usedP == ToolSel(tP, A.tools)
      toolsOk == /\ \A t \in tP : A.tools[t].def
                 /\ \A t1, t2 \in tP : t1 # t2 => Defined(A.tools[t1].env) \cap Defined(A.tools[t2].env) = {}
      \* environment of all tools used in the recipe, then metaEnvironment
      env3 == Upd(FoldToolEnv(A.env, usedP, A.tools, 1), R.meta)
      \* variables: a variable consumed in one step is also set in the following steps; strong wins over weak
      cvS == VL(parts, "cv")
      bvS == cvS \cup VL(parts, "bv")
      pvS == bvS \cup VL(parts, "pv")
      sbd == A.sb.def /\ sbOn
      \* checkout
      coMain == MainFr(parts, "c")
      coValid == coMain # <<>> \/ R.scm # <<>>
      co == IF ~coValid THEN [NS EXCEPT !.key = <<here, "src">>]
            ELSE MkStep(<<here, "src">>, "checkout", SetupFr(parts, "c") \o coMain, Restrict(env3, cvS),
                        ToolSel(tC, A.tools), A.tools, tC \ sC, A.cod,
                        [i \in 1..Len(R.scm) |-> Descr(R.scm[i])], R.asr, FALSE, sbd, A.sb.st, sens)
      \* build: $1 = checkout, $2.. = results of the dependencies in declaration order
      buMain == MainFr(parts, "b")
      buValid == buMain # <<>>
      bu == IF ~buValid THEN [NS EXCEPT !.key = <<here, "build">>]
            ELSE MkStep(<<here, "build">>, "build", SetupFr(parts, "b") \o buMain, Restrict(env3, bvS),
                        ToolSel(tB, A.tools), A.tools, tB \ sB,
                        (IF coValid THEN <<co>> ELSE <<>>) \o A.res, <<>>, <<>>, R.fp, sbd, A.sb.st, sens)
      \* package: always valid; a setup script alone does not enable the step
      pkMain == MainFr(parts, "p")
      pk == MkStep(<<here, "dist">>, "package",
                   IF pkMain = <<>> THEN <<>> ELSE SetupFr(parts, "p") \o pkMain, Restrict(env3, pvS),
                   ToolSel(tP, A.tools), A.tools, tP \ sP,
                   (IF buValid THEN <<bu>> ELSE <<>>) \o (IF R.pkgdep THEN A.res ELSE <<>>),
                   <<>>, <<>>, R.fp, sbd, A.sb.st, sens)
      dirs == [i \in 1..Len(R.scm) |-> R.scm[i].dir]
  IN [ok |-> A.ok /\ toolsOk /\ Cardinality(Range(dirs)) = Len(dirs),
      pk |-> pk,
      penv |-> R.pvars,
      ptools |-> [t \in ToolNames |-> IF R.ptl[t].def
                    THEN [def |-> TRUE, st |-> pk, path |-> R.ptl[t].path, libs |-> R.ptl[t].libs, env |-> R.ptl[t].env]
                    ELSE TV0],
      psb |-> IF R.psb.def THEN [def |-> TRUE, env |-> R.psb.env, st |-> pk] ELSE SB0,
      all |-> A.subs \o (IF coValid THEN <<co>> ELSE <<>>) \o (IF buValid THEN <<bu>> ELSE <<>>) \o <<pk>>]

ClassesOk(P) == P.cls["c1"].inh = <<>> /\ P.cls["c2"].inh \in {<<>>, <<"c1">>}
EvalRoot(P, sbOn) == Eval(P, "root", <<>>, P.renv, TM0, SB0, sbOn, SensVars(P))
WF(P) == ClassesOk(P) /\ EvalRoot(P, FALSE).ok
\* all valid steps of the project (a package reached twice appears twice, with distinct keys)
Steps(P, sbOn) == EvalRoot(P, sbOn).all

RECURSIVE ReachFrom(_, _, _)
ReachFrom(P, todo, seen) ==
  IF todo = {} THEN seen
  ELSE LET n == CHOOSE n \in todo : TRUE
           nx == {P.rec[n].deps[i].name : i \in 1..Len(P.rec[n].deps)} \ (seen \cup {n})
       IN ReachFrom(P, (todo \ {n}) \cup nx, seen \cup {n})
Reach(P) == ReachFrom(P, {"root"}, {})
UsedClasses(P) == UNION {Range(ClassOrder(P, P.rec[r].inh)) : r \in Reach(P)}

----------------------------------------------------------------------------
(* catalogue of base projects: a default project modified by one option per feature group *)

Scm(ty, url, rev, pin, dir) == [ty |-> ty, url |-> url, rev |-> rev, pin |-> pin, dir |-> dir]

P0 == [id |-> <<>>,
       renv |-> EnvOf([V1 |-> "a", V2 |-> "b", V3 |-> "c", W1 |-> "w", U1 |-> "u"]),
       cls |-> [c \in ClsNames |->
                  IF c = "c1"
                  THEN [C0 EXCEPT !.fr = FrOf([c |-> [S |-> "c1cs", F |-> "c1cf"], b |-> [S |-> "c1bs", M |-> "c1bm", F |-> "c1bf"],
                                               p |-> [F |-> "c1pf"]]),
                                  !.vl = VLOf([bv |-> {"V2"}])]
                  ELSE [C0 EXCEPT !.fr = FrOf([c |-> [F |-> "c2cf"], b |-> [M |-> "c2bm", F |-> "c2bf"],
                                               p |-> [S |-> "c2ps", M |-> "c2pm", F |-> "c2pf"]]),
                                  !.env = EnvOf([V3 |-> "c2v3"])]],
       rec |-> [r \in RecNames |->
                  CASE r = "root" -> [R0 EXCEPT !.fr = FrOf([b |-> [M |-> "rootb"], p |-> [M |-> "rootp"]]),
                                                !.deps = <<Dep("app", {"result"})>>]
                    [] r = "app"  -> [R0 EXCEPT !.fr = FrOf([b |-> [M |-> "appb"], p |-> [M |-> "appp"]])]
                    [] r = "liba" -> [R0 EXCEPT !.fr = FrOf([b |-> [M |-> "libab"], p |-> [M |-> "libap"]]),
                                                !.vl = VLOf([bv |-> {"V2"}]),
                                                !.pvars = EnvOf([PV |-> "1"])]
                    [] r = "libb" -> [R0 EXCEPT !.fr = FrOf([b |-> [M |-> "libbb"], p |-> [M |-> "libbp"]])]
                    [] r = "tc"   -> [R0 EXCEPT !.fr = FrOf([b |-> [M |-> "tcb"], p |-> [M |-> "tcp"]]),
                                                !.ptl = [t \in ToolNames |->
                                                           IF t = "ta"
                                                           THEN [def |-> TRUE, path |-> "bin", libs |-> <<"lib">>,
                                                                 env |-> EnvOf([TV |-> "t"])]
                                                           ELSE [def |-> TRUE, path |-> "sbin", libs |-> <<>>, env |-> E0]]]
                    [] OTHER      -> [R0 EXCEPT !.fr = FrOf([p |-> [M |-> "sbxp"]]),
                                                !.psb = [def |-> TRUE, env |-> EnvOf([SV |-> "s"])]]]]

\* o = <<cls, frs, vars, tools, deps, scm, sb>>
OCls(P, n) ==
  CASE n = 0 -> P
    [] n = 1 -> [P EXCEPT !.rec["app"].inh = <<"c1">>]
    [] n = 2 -> [P EXCEPT !.rec["app"].inh = <<"c1", "c2">>]
    [] n = 3 -> [P EXCEPT !.rec["app"].inh = <<"c2">>, !.cls["c2"].inh = <<"c1">>]
    [] n = 4 -> [P EXCEPT !.rec["app"].inh = <<"c2", "c1">>, !.rec["liba"].inh = <<"c1">>]
OFrs(P, n) ==
  CASE n = 0 -> P
    [] n = 1 -> [P EXCEPT !.rec["app"].fr = FrOf([c |-> [S |-> "appcs", M |-> "appcm", F |-> "appcf"],
                                                  b |-> [S |-> "appbs", M |-> "appb", F |-> "appbf"],
                                                  p |-> [S |-> "appps", M |-> "appp", F |-> "apppf"]])]
    [] n = 2 -> [P EXCEPT !.rec["app"].fr = FrOf([b |-> [F |-> "appbf"], p |-> [S |-> "appps"]])]
    [] n = 3 -> [P EXCEPT !.rec["app"].fr = FrOf([c |-> [M |-> "appcm"], b |-> [S |-> "appbs", M |-> "appb"],
                                                  p |-> [M |-> "appp", F |-> "apppf"]])]
OVars(P, n) ==
  CASE n = 0 -> P
    [] n = 1 -> [P EXCEPT !.rec["app"].vl = VLOf([cv |-> {"V1"}, bv |-> {"V2"}, pv |-> {"V3"}, bvw |-> {"W1"}])]
    [] n = 2 -> [P EXCEPT !.rec["app"].vl = VLOf([bv |-> {"V1", "V2", "V3"}, pvw |-> {"W1"}, cvw |-> {"U1"}]),
                          !.rec["app"].env = EnvOf([V2 |-> "x"])]
    [] n = 3 -> [P EXCEPT !.rec["app"].vl = VLOf([bv |-> {"V2"}, bvw |-> {"V2", "W1"}, pv |-> {"M1", "PV"}]),
                          !.rec["root"].vl = VLOf([bv |-> {"V1"}]),
                          !.rec["root"].env = EnvOf([V1 |-> "r"])]
OTools(P, n) ==
  CASE n = 0 -> P
    [] n = 1 -> [P EXCEPT !.rec["app"].deps = Append(@, Dep("tc", {"tools"})),
                          !.rec["app"].tl = TLOf([bt |-> {"ta"}]),
                          !.rec["app"].vl["bv"] = @ \cup {"TV"}]
    [] n = 2 -> [P EXCEPT !.rec["app"].deps = Append(@, Dep("tc", {"tools"})),
                          !.rec["app"].tl = TLOf([bt |-> {"ta"}, ptw |-> {"tb"}])]
    [] n = 3 -> [P EXCEPT !.rec["root"].deps = <<[Dep("tc", {"tools"}) EXCEPT !.fwd = TRUE]>> \o @,
                          !.rec["app"].tl = TLOf([ct |-> {"tb"}, btw |-> {"ta"}]),
                          !.rec["liba"].tl = TLOf([btw |-> {"tb"}]),
                          !.rec["app"].vl["pv"] = @ \cup {"TV"}]
ODeps(P, n) ==
  CASE n = 0 -> P
    [] n = 1 -> [P EXCEPT !.rec["app"].deps = Append(@, Dep("liba", {"result"}))]
    [] n = 2 -> [P EXCEPT !.rec["app"].deps = @ \o <<Dep("liba", {"result"}), Dep("libb", {"result"})>>]
    [] n = 3 -> [P EXCEPT !.rec["app"].deps = @ \o <<[Dep("liba", {"result", "environment"}) EXCEPT !.env = EnvOf([V2 |-> "o"])],
                                                     Dep("libb", {"result"})>>,
                          !.rec["libb"].deps = <<Dep("liba", {"result"})>>,
                          !.rec["app"].vl["bv"] = @ \cup {"PV"}]
    [] n = 4 -> [P EXCEPT !.rec["app"].deps = @ \o <<[Dep("liba", {"result"}) EXCEPT !.codep = TRUE], Dep("libb", {"result"})>>,
                          !.rec["app"].fr["c"]["M"] = "appcm",
                          !.rec["app"].pkgdep = TRUE]
OScm(P, n) ==
  CASE n = 0 -> P
    [] n = 1 -> [P EXCEPT !.rec["app"].scm = <<Scm("git", "u1", "r1", FALSE, "d1")>>]
    [] n = 2 -> [P EXCEPT !.rec["app"].scm = <<Scm("git", "u1", "r1", TRUE, "d1"), Scm("url", "u1", "r2", TRUE, "d2")>>]
    [] n = 3 -> [P EXCEPT !.rec["app"].scm = <<Scm("import", "u1", "-", FALSE, "d1"), Scm("svn", "u1", "r1", FALSE, "d2"),
                                               Scm("cvs", "u2", "r1", FALSE, "d3")>>]
    [] n = 4 -> [P EXCEPT !.rec["app"].scm = <<Scm("url", "u2", "-", FALSE, "d1")>>,
                          !.rec["app"].asr = <<<<"f1", "g1">>>>,
                          !.rec["liba"].scm = <<Scm("git", "u2", "r2", FALSE, "d1")>>]
OSb(P, n) ==
  CASE n = 0 -> P
    [] n = 1 -> [P EXCEPT !.rec["root"].deps = <<[Dep("sbx", {"sandbox"}) EXCEPT !.fwd = TRUE]>> \o @]
    [] n = 2 -> [P EXCEPT !.rec["root"].deps = <<[Dep("sbx", {"sandbox"}) EXCEPT !.fwd = TRUE]>> \o @,
                          !.rec["app"].vl["bv"] = @ \cup {"SV"}]
    [] n = 3 -> [P EXCEPT !.rec["root"].deps = <<[Dep("sbx", {"sandbox"}) EXCEPT !.fwd = TRUE]>> \o @,
                          !.rec["app"].env["U1"] = "$SB",
                          !.rec["app"].vl["pv"] = @ \cup {"U1"}]
    [] n = 4 -> [P EXCEPT !.rec["root"].deps = <<[Dep("sbx", {"sandbox"}) EXCEPT !.fwd = TRUE]>> \o @,
                          !.rec["app"].fp = TRUE]

MkBase(o) == [OSb(OScm(ODeps(OTools(OVars(OFrs(OCls(P0, o[1]), o[2]), o[3]), o[4]), o[5]), o[6]), o[7]) EXCEPT !.id = o]

AllOpts == (0..4) \X (0..3) \X (0..3) \X (0..3) \X (0..4) \X (0..4) \X (0..4)
Weight(o) == Cardinality({i \in 1..7 : o[i] # 0})
QuickOpts == {<<0,0,0,0,0,0,0>>, <<2,1,1,0,1,1,0>>, <<1,3,2,1,3,2,0>>, <<3,0,3,2,2,3,0>>, <<4,2,1,3,4,4,0>>,
              <<2,1,2,1,3,0,2>>, <<0,0,1,0,1,0,3>>, <<1,0,0,2,0,1,4>>, <<0,3,0,3,2,0,1>>, <<2,2,3,0,0,0,0>>}
SbOpts == {<<0,0,0,0,0,0,1>>, <<0,0,1,0,0,0,2>>, <<0,0,2,1,1,0,3>>, <<1,1,0,2,0,0,4>>, <<2,0,3,3,3,1,2>>, <<0,3,1,2,4,0,4>>}
Small(o) == \A i \in 1..6 : o[i] \in {0, 1, 2}
Ones(o) == \A i \in 1..6 : o[i] \in {0, 1}
BaseOpts == CASE Level = 0 -> {<<2,1,1,0,1,1,0>>}
              [] Mode = "c02" /\ Level = 1 -> QuickOpts
              [] Mode = "c02" /\ Level = 2 -> QuickOpts \cup SbOpts \cup {o \in AllOpts : Weight(o) <= 1 /\ o[7] = 0}
                                                 \cup {o \in AllOpts : Weight(o) = 2 /\ o[7] = 0 /\ Small(o)}
              [] Mode = "c03" /\ Level = 1 -> (SbOpts \ {<<0,0,0,0,0,0,1>>}) \cup {<<3,0,3,2,2,3,0>>}
              [] OTHER -> QuickOpts \cup SbOpts
                          \cup {o \in AllOpts : Weight(o) = 2 /\ o[7] \in {2, 3, 4} /\ Ones(o) /\ o[3] + o[4] + o[5] >= 1}
BaseProjects == {MkBase(o) : o \in BaseOpts}

----------------------------------------------------------------------------
(* configurations (C03) *)
Cfg0 == [path |-> "P1", seed |-> 0, ord |-> 1, sb |-> FALSE, pc |-> 1]
Cfgs == [path : {"P1", "P2"}, seed : {0, 1, 2}, ord : 1..NOrd, sb : BOOLEAN, pc : {1, 2}]
NoEdit == [k |-> "none", h |-> "none", t |-> "", x |-> "", y |-> ""]

Init == /\ base \in BaseProjects
        /\ cur = base /\ ed = NoEdit /\ stage = "base" /\ cfg = Cfg0

----------------------------------------------------------------------------
(* the single-edit catalogue: one action per edit kind *)

Alt(s) == s \o "x"
E(k, h, t, x, y) == [k |-> k, h |-> h, t |-> t, x |-> x, y |-> y]
DoEdit(e, newP) == /\ stage = "base" /\ cfg = Cfg0
                   /\ newP # base
                   /\ cur' = newP /\ ed' = e /\ stage' = "nb"
                   /\ UNCHANGED <<base, cfg>>
RR == Reach(base)
UC == UsedClasses(base)
Rel == Mode = "c02"

\* --- script fragments
EditScript == Rel /\ \E t \in RR, k \in Kinds, pl \in Places :
  /\ base.rec[t].fr[k][pl] # ""
  /\ DoEdit(E("script", "rec", t, k, pl), [base EXCEPT !.rec[t].fr[k][pl] = Alt(@)])
EditClassScript == Rel /\ \E c \in UC, k \in Kinds, pl \in Places :
  /\ base.cls[c].fr[k][pl] # ""
  /\ DoEdit(E("clsscript", "cls", c, k, pl), [base EXCEPT !.cls[c].fr[k][pl] = Alt(@)])
\* move a fragment to another (empty) placement of the same step
EditPlace == Rel /\ \E t \in RR \ {"root"}, k \in Kinds, p1 \in Places, p2 \in Places :
  /\ p1 # p2 /\ base.rec[t].fr[k][p1] # "" /\ base.rec[t].fr[k][p2] = ""
  /\ DoEdit(E("place", "rec", t, k, p1 \o ">" \o p2),
            [base EXCEPT !.rec[t].fr[k][p2] = base.rec[t].fr[k][p1], !.rec[t].fr[k][p1] = ""])
EditClassPlace == Rel /\ \E c \in UC, k \in Kinds, p1 \in Places, p2 \in Places :
  /\ p1 # p2 /\ base.cls[c].fr[k][p1] # "" /\ base.cls[c].fr[k][p2] = ""
  /\ DoEdit(E("clsplace", "cls", c, k, p1 \o ">" \o p2),
            [base EXCEPT !.cls[c].fr[k][p2] = base.cls[c].fr[k][p1], !.cls[c].fr[k][p1] = ""])
\* add / remove a fragment
EditFragToggle == Rel /\ \E t \in RR \ {"root"}, k \in Kinds, pl \in Places :
  DoEdit(E("fragtoggle", "rec", t, k, pl),
         [base EXCEPT !.rec[t].fr[k][pl] = IF @ = "" THEN "new" \o k \o pl ELSE ""])
\* order of the inherited classes
EditInherit == Rel /\ \E t \in RR :
  /\ Len(base.rec[t].inh) = 2
  /\ DoEdit(E("inherit", "rec", t, "", ""), [base EXCEPT !.rec[t].inh = Rev(@)])
\* --- variable values
EditRootVal == Rel /\ \E v \in Defined(base.renv) :
  DoEdit(E("rootval", "renv", "", v, ""), [base EXCEPT !.renv[v] = Alt(@)])
EditEnvVal == Rel /\ \E t \in RR, v \in Vars :
  /\ base.rec[t].env[v] \notin {Unset, "$SB"}
  /\ DoEdit(E("envval", "rec", t, v, ""), [base EXCEPT !.rec[t].env[v] = Alt(@)])
EditEnvToggle == Rel /\ \E t \in {"app", "liba"} \cap RR, v \in {"V1", "V2", "W1"} :
  DoEdit(E("envtoggle", "rec", t, v, ""), [base EXCEPT !.rec[t].env[v] = IF @ = Unset THEN "e" ELSE Unset])
EditClassEnvVal == Rel /\ \E c \in UC, v \in Vars :
  /\ base.cls[c].env[v] \notin {Unset, "$SB"}
  /\ DoEdit(E("clsenvval", "cls", c, v, ""), [base EXCEPT !.cls[c].env[v] = Alt(@)])
\* --- variable lists: add / remove a variable to / from one list, move between two lists
EditVarToggle == Rel /\ \E t \in {"app", "liba", "root"} \cap RR, v \in {"V1", "V2", "W1", "U1", "PV", "TV"}, l \in VarLists :
  DoEdit(E("vartoggle", "rec", t, v, l),
         [base EXCEPT !.rec[t].vl[l] = IF v \in @ THEN @ \ {v} ELSE @ \cup {v}])
EditVarMove == Rel /\ \E t \in {"app", "liba"} \cap RR, v \in Vars, l1 \in VarLists, l2 \in VarLists :
  /\ l1 # l2 /\ v \in base.rec[t].vl[l1] /\ v \notin base.rec[t].vl[l2]
  /\ DoEdit(E("varmove", "rec", t, v, l1 \o ">" \o l2),
            [base EXCEPT !.rec[t].vl[l1] = @ \ {v}, !.rec[t].vl[l2] = @ \cup {v}])
EditClassVarToggle == Rel /\ \E c \in UC, v \in {"V1", "V2", "W1"}, l \in {"cv", "bv", "pv", "bvw"} :
  DoEdit(E("clsvartoggle", "cls", c, v, l),
         [base EXCEPT !.cls[c].vl[l] = IF v \in @ THEN @ \ {v} ELSE @ \cup {v}])
\* --- tools
EditToolPath == Rel /\ \E t \in RR, n \in ToolNames :
  /\ base.rec[t].ptl[n].def
  /\ DoEdit(E("toolpath", "rec", t, n, ""), [base EXCEPT !.rec[t].ptl[n].path = Alt(@)])
EditToolLibs == Rel /\ \E t \in RR, n \in ToolNames, how \in {"value", "append", "drop", "swap", "prepend"} :
  /\ base.rec[t].ptl[n].def
  /\ LET l == base.rec[t].ptl[n].libs
         nl == CASE how = "value" /\ l # <<>> -> [l EXCEPT ![1] = Alt(@)]
                 [] how = "append" -> Append(l, "lib2")
                 [] how = "prepend" -> <<"lib2">> \o l
                 [] how = "drop" /\ l # <<>> -> Tail(l)
                 [] how = "swap" /\ l # <<>> -> <<"lib2", "lib">>
                 [] OTHER -> l
     IN DoEdit(E("toollibs", "rec", t, n, how), [base EXCEPT !.rec[t].ptl[n].libs = nl])
EditToolEnv == Rel /\ \E t \in RR, n \in ToolNames, v \in {"TV", "V2"} :
  /\ base.rec[t].ptl[n].def
  /\ DoEdit(E("toolenv", "rec", t, n, v),
            [base EXCEPT !.rec[t].ptl[n].env[v] = IF @ = Unset THEN "te" ELSE IF @ = "te" THEN Unset ELSE Alt(@)])
EditToolUse == Rel /\ \E t \in {"app", "liba", "root"} \cap RR, n \in ToolNames, l \in ToolLists :
  DoEdit(E("tooluse", "rec", t, n, l),
         [base EXCEPT !.rec[t].tl[l] = IF n \in @ THEN @ \ {n} ELSE @ \cup {n}])
\* --- dependencies
EditDepDel == Rel /\ \E t \in RR, i \in 1..3 :
  /\ i <= Len(base.rec[t].deps)
  /\ DoEdit(E("depdel", "rec", t, base.rec[t].deps[i].name, ""), [base EXCEPT !.rec[t].deps = RemoveAt(@, i)])
EditDepAdd == Rel /\ \E t \in {"app", "libb", "root"} \cap RR, n \in {"liba", "libb"}, front \in BOOLEAN :
  DoEdit(E("depadd", "rec", t, n, IF front THEN "front" ELSE "back"),
         [base EXCEPT !.rec[t].deps = IF front THEN <<Dep(n, {"result"})>> \o @ ELSE Append(@, Dep(n, {"result"}))])
EditDepSwap == Rel /\ \E t \in RR, i \in 1..2 :
  /\ i < Len(base.rec[t].deps)
  /\ DoEdit(E("depswap", "rec", t, base.rec[t].deps[i].name, base.rec[t].deps[i + 1].name),
            [base EXCEPT !.rec[t].deps = SwapAt(@, i)])
EditDepUse == Rel /\ \E t \in RR, i \in 1..3, u \in {"result", "environment", "tools"} :
  /\ i <= Len(base.rec[t].deps)
  /\ DoEdit(E("depuse", "rec", t, base.rec[t].deps[i].name, u),
            [base EXCEPT !.rec[t].deps[i].use = IF u \in @ THEN @ \ {u} ELSE @ \cup {u}])
EditDepEnv == Rel /\ \E t \in RR, i \in 1..3, v \in {"V2", "W1", "PV"} :
  /\ i <= Len(base.rec[t].deps)
  /\ DoEdit(E("depenv", "rec", t, base.rec[t].deps[i].name, v),
            [base EXCEPT !.rec[t].deps[i].env[v] = IF @ = Unset THEN "o" ELSE IF @ = "o" THEN "o2" ELSE Unset])
EditDepFlag == Rel /\ \E t \in RR, i \in 1..3, f \in {"codep", "fwd"} :
  /\ i <= Len(base.rec[t].deps)
  /\ DoEdit(E("depflag", "rec", t, base.rec[t].deps[i].name, f),
            IF f = "codep" THEN [base EXCEPT !.rec[t].deps[i].codep = ~@]
            ELSE [base EXCEPT !.rec[t].deps[i].fwd = ~@])
EditPkgDepends == Rel /\ \E t \in {"app"} \cap RR :
  DoEdit(E("pkgdepends", "rec", t, "", ""), [base EXCEPT !.rec[t].pkgdep = ~@])
\* --- provided variables
EditProvVar == Rel /\ \E t \in {"liba", "libb", "tc"} \cap RR, v \in {"PV", "V2"} :
  DoEdit(E("provvar", "rec", t, v, ""),
         [base EXCEPT !.rec[t].pvars[v] = IF @ = Unset THEN "1" ELSE IF @ = "1" THEN "2" ELSE Unset])
\* --- SCMs and assertions
EditScmAttr == Rel /\ \E t \in RR, i \in 1..3, a \in {"url", "rev", "dir", "pin", "ty"} :
  /\ i <= Len(base.rec[t].scm)
  /\ LET s == base.rec[t].scm[i]
         ns == CASE a = "url" -> [s EXCEPT !.url = IF @ = "u1" THEN "u2" ELSE "u1"]
                 [] a = "rev" /\ s.ty # "import" -> [s EXCEPT !.rev = IF @ = "r1" THEN "r2" ELSE "r1"]
                 [] a = "dir" -> [s EXCEPT !.dir = "d4"]
                 [] a = "pin" /\ s.ty \in {"git", "url"} /\ s.rev # "-" -> [s EXCEPT !.pin = ~@]
                 [] a = "ty" /\ s.ty \in {"svn", "cvs"} -> [s EXCEPT !.ty = IF @ = "svn" THEN "cvs" ELSE "svn"]
                 [] OTHER -> s
     IN DoEdit(E("scmattr", "rec", t, a, s.ty), [base EXCEPT !.rec[t].scm[i] = ns])
EditScmDel == Rel /\ \E t \in RR, i \in 1..3 :
  /\ i <= Len(base.rec[t].scm)
  /\ DoEdit(E("scmdel", "rec", t, base.rec[t].scm[i].ty, ""), [base EXCEPT !.rec[t].scm = RemoveAt(@, i)])
EditScmAdd == Rel /\ \E t \in {"app", "liba"} \cap RR, ty \in {"git", "import"} :
  DoEdit(E("scmadd", "rec", t, ty, ""),
         [base EXCEPT !.rec[t].scm = Append(@, Scm(ty, "u2", IF ty = "git" THEN "r2" ELSE "-", FALSE, "d5"))])
EditScmSwap == Rel /\ \E t \in RR, i \in 1..2 :
  /\ i < Len(base.rec[t].scm)
  /\ DoEdit(E("scmswap", "rec", t, base.rec[t].scm[i].ty, base.rec[t].scm[i + 1].ty), [base EXCEPT !.rec[t].scm = SwapAt(@, i)])
EditAssert == Rel /\ \E t \in {"app"} \cap RR, how \in {"value", "add", "del"} :
  LET a == base.rec[t].asr
      na == CASE how = "value" /\ a # <<>> -> [a EXCEPT ![1] = <<@[1], Alt(@[2])>>]
              [] how = "add" -> Append(a, <<"f2", "g2">>)
              [] how = "del" /\ a # <<>> -> Tail(a)
              [] OTHER -> a
  IN DoEdit(E("assert", "rec", t, how, ""), [base EXCEPT !.rec[t].asr = na])
\* --- sandbox / fingerprint declarations (no influence while no sandbox image is used)
EditSandboxEnv == Rel /\ \E t \in RR, v \in {"SV", "V2"} :
  /\ base.rec[t].psb.def
  /\ DoEdit(E("sbenv", "rec", t, v, ""), [base EXCEPT !.rec[t].psb.env[v] = IF @ = Unset THEN "s2" ELSE Alt(@)])
EditFingerprint == Rel /\ \E t \in {"app", "liba"} \cap RR :
  DoEdit(E("fingerprint", "rec", t, "", ""), [base EXCEPT !.rec[t].fp = ~@])
\* --- id-irrelevant settings (C03; also part of C02 as "equal" cases)
\* variables that are consumed strongly somewhere
StrongAnywhere(P) == UNION ({P.rec[r].vl[l] : r \in RecNames, l \in {"cv", "bv", "pv"}}
                            \cup {P.cls[c].vl[l] : c \in ClsNames, l \in {"cv", "bv", "pv"}})
EditAudit == \E t \in {"app", "liba", "tc"} \cap RR :
  DoEdit(E("audit", "rec", t, "", ""), [base EXCEPT !.rec[t].audit = IF @ = "" THEN "f" ELSE ""])
EditMeta == \E t \in {"app", "liba"} \cap RR, v \in (IF Rel THEN {"M1", "V2"} ELSE {"M1"}) :
  /\ Rel \/ v \notin StrongAnywhere(base)
  /\ DoEdit(E("meta", "rec", t, v, ""), [base EXCEPT !.rec[t].meta[v] = IF @ = Unset THEN "m" ELSE Unset])
EditNetAccess == \E t \in {"app", "liba"} \cap RR :
  DoEdit(E("netaccess", "rec", t, "", ""), [base EXCEPT !.rec[t].net = ~@])
EditJobServer == \E t \in {"app", "liba"} \cap RR :
  DoEdit(E("jobserver", "rec", t, "", ""), [base EXCEPT !.rec[t].js = ~@])
EditWeakVal == ~Rel /\ \E v \in Defined(base.renv) \ StrongAnywhere(base) :
  DoEdit(E("weakval", "renv", "", v, ""), [base EXCEPT !.renv[v] = Alt(@)])
\* another variant of a tool provider (the tool may be used weakly or strongly)
EditToolVariant == ~Rel /\ \E k \in {"b", "p"} :
  /\ "tc" \in RR /\ base.rec["tc"].fr[k]["M"] # ""
  /\ DoEdit(E("toolvariant", "rec", "tc", k, "M"), [base EXCEPT !.rec["tc"].fr[k]["M"] = Alt(@)])

Revert == /\ stage = "nb" /\ cfg = Cfg0 /\ Mode = "c02"
          /\ cur' = CASE ed.h = "rec" -> [cur EXCEPT !.rec[ed.t] = base.rec[ed.t]]
                      [] ed.h = "cls" -> [cur EXCEPT !.cls[ed.t] = base.cls[ed.t]]
                      [] OTHER -> [cur EXCEPT !.renv = base.renv]
          /\ stage' = "rev"
          /\ UNCHANGED <<base, ed, cfg>>

Configure == /\ Mode = "c03" /\ stage \in {"base", "nb"} /\ cfg = Cfg0
             /\ cfg' \in Cfgs \ {Cfg0}
             /\ UNCHANGED <<base, cur, ed, stage>>

Next == \/ EditScript \/ EditClassScript \/ EditPlace \/ EditClassPlace \/ EditFragToggle \/ EditInherit
        \/ EditRootVal \/ EditEnvVal \/ EditEnvToggle \/ EditClassEnvVal
        \/ EditVarToggle \/ EditVarMove \/ EditClassVarToggle
        \/ EditToolPath \/ EditToolLibs \/ EditToolEnv \/ EditToolUse
        \/ EditDepDel \/ EditDepAdd \/ EditDepSwap \/ EditDepUse \/ EditDepEnv \/ EditDepFlag \/ EditPkgDepends
        \/ EditProvVar
        \/ EditScmAttr \/ EditScmDel \/ EditScmAdd \/ EditScmSwap \/ EditAssert
        \/ EditSandboxEnv \/ EditFingerprint
        \/ EditAudit \/ EditMeta \/ EditNetAccess \/ EditJobServer \/ EditWeakVal \/ EditToolVariant
        \/ Revert \/ Configure

Spec == Init /\ [][Next]_svars
Stutter == UNCHANGED svars      \* (catalogue-only configurations)

\* only well-formed neighbours are cases (state constraint: an ill-formed project is a parse error in Bob)
WellFormed == WF(cur)

----------------------------------------------------------------------------
(* P layer *)

SB == Steps(base, FALSE)          \* reference: base project, no sandbox image
RC == EvalRoot(cur, cfg.sb)
SC == RC.all
\* TLC evaluates invariants also on states that violate the state constraint: guard them
Ok == ClassesOk(cur) /\ RC.ok
KeyIdx(sts, key) == IF \E i \in 1..Len(sts) : sts[i].key = key
                    THEN CHOOSE i \in 1..Len(sts) : sts[i].key = key ELSE 0
IrrKinds == {"audit", "meta", "netaccess", "jobserver", "weakval"}
LastName(key) == key[1][Len(key[1])]

TypeOK == /\ stage \in {"base", "nb", "rev"}
          /\ ed.k = "none" <=> stage = "base"
          \* the catalogue of base projects is well-formed
          /\ stage = "base" => Ok
          \* every valid step has a distinct key
          /\ LET rc == RC IN rc.ok => \A i, j \in 1..Len(rc.all) : i # j => rc.all[i].key # rc.all[j].key

\* reverting the edit restores the project, hence every execution tuple
RevertRestores == stage = "rev" => (cur = base /\ Steps(cur, FALSE) = SB)

\* an edit that changes the execution tuple of a step changes the tuple of everything that consumes the
\* step as argument or tool (as long as the consumer still consumes it)
Propagates ==
  (stage = "nb" /\ Ok) =>
    LET sb == SB
        sc == SC
    IN \A j \in 1..Len(sc) :
         LET i == KeyIdx(sb, sc[j].key)
         IN (i # 0 /\ sb[i].ins = sc[j].ins) =>
              ((\E n \in 1..Len(sc[j].ins) :
                  LET a == KeyIdx(sb, sc[j].ins[n])
                      b == KeyIdx(sc, sc[j].ins[n])
                  IN a # 0 /\ b # 0 /\ sb[a].x # sc[b].x)
               => sb[i].x # sc[j].x)

\* C03: the ids do not depend on the use of a sandbox image or on id-irrelevant settings, except where marked
\* (consumes variables only the sandbox provides / queries the sandbox state: mk.env; fingerprinted: mk.fp)
Purity ==
  (Mode = "c03" /\ ed.k \in IrrKinds \cup {"none"} /\ Ok) =>
    LET sb == SB
        sc == SC
    IN \A j \in 1..Len(sc) :
         LET i == KeyIdx(sb, sc[j].key)
         IN /\ i # 0
            /\ ~(cfg.sb /\ (sc[j].mk.env \/ sc[j].mk.fp)) =>
                  (sc[j].x = sb[i].x /\ sc[j].h = sb[i].h /\ sc[j].bx = sb[i].bx /\ sc[j].bh = sb[i].bh)
            /\ ~cfg.sb => sc[j].h = <<>>
\* the Build-Id ignores which variant of a weakly used tool is installed: a step outside the tool provider
\* whose tools are all used weakly and whose arguments kept their Build-Id keeps its Build-Id
WeakToolBuildId ==
  (ed.k = "toolvariant" /\ ~cfg.sb /\ Ok) =>
    LET sb == SB
        sc == SC
    IN \A j \in 1..Len(sc) :
         LET i == KeyIdx(sb, sc[j].key)
             f == sc[j].flat
         IN /\ i # 0
            /\ (/\ LastName(sc[j].key) # "tc"
                /\ \A n \in 1..Len(f.tools) : f.tools[n][1] \in f.weak
                /\ \A n \in 1..Len(f.args) :
                     LET a == KeyIdx(sb, f.args[n])
                         b == KeyIdx(sc, f.args[n])
                     IN a # 0 /\ b # 0 /\ sb[a].bx = sc[b].bx)
               => (sc[j].bx = sb[i].bx /\ sc[j].bh = sb[i].bh)

\* vacuity companions (negated reachability; each must be VIOLATED by its *_reach_* config)
ReachNoChangeEdit ==
  ~(stage = "nb" /\ Ok /\ ed.k \in {"vartoggle", "rootval", "tooluse", "place"} /\
    LET sb == SB
        sc == SC
    IN Len(sb) = Len(sc) /\ \A j \in 1..Len(sc) : LET i == KeyIdx(sb, sc[j].key) IN i # 0 /\ sb[i].x = sc[j].x)
Multiset(s) == [z \in Range(s) |-> Cardinality({i \in 1..Len(s) : s[i] = z})]
ReachOrderOnly ==
  ~(stage = "nb" /\ Ok /\ ed.k \in {"place", "clsplace"} /\
    LET sb == SB
        sc == SC
    IN \E j \in 1..Len(sc) : LET i == KeyIdx(sb, sc[j].key)
                             IN i # 0 /\ sb[i].x.frags # sc[j].x.frags
                                /\ Multiset(sb[i].x.frags) = Multiset(sc[j].x.frags))
ReachDownstream ==
  ~(stage = "nb" /\ Ok /\ ed.t = "liba" /\
    LET sb == SB
        sc == SC
    IN \E j \in 1..Len(sc) : LET i == KeyIdx(sb, sc[j].key)
                             IN sc[j].key = <<<<"root">>, "dist">> /\ i # 0 /\ sb[i].x # sc[j].x)
ReachTwoVariants ==
  ~(Ok /\ LET sc == SC
    IN \E i, j \in 1..Len(sc) : /\ sc[i].key[2] = "build" /\ sc[j].key[2] = "build"
                                /\ LastName(sc[i].key) = "liba" /\ LastName(sc[j].key) = "liba"
                                /\ sc[i].x # sc[j].x)
ReachSandboxDiffers ==
  ~(cfg.sb /\ Ok /\ LET sb == SB
                  sc == SC
              IN \E j \in 1..Len(sc) : LET i == KeyIdx(sb, sc[j].key)
                                       IN i # 0 /\ sc[j].mk.env /\ sc[j].x.vars # sb[i].x.vars)
ReachFingerprintDiffers ==
  ~(cfg.sb /\ Ok /\ LET sb == SB
                  sc == SC
              IN \E j \in 1..Len(sc) : LET i == KeyIdx(sb, sc[j].key)
                                       IN i # 0 /\ sc[j].h # <<>> /\ sb[i].h = <<>> /\ sc[j].x = sb[i].x)
ReachWeakToolBIdSame ==
  ~(ed.k = "toolvariant" /\ ~cfg.sb /\ Ok /\
    LET sb == SB
        sc == SC
    IN \E j \in 1..Len(sc) : LET i == KeyIdx(sb, sc[j].key)
                             IN i # 0 /\ sc[j].x # sb[i].x /\ sc[j].bx = sb[i].bx /\ sc[j].flat.kind = "build")

----------------------------------------------------------------------------
(* generation: every state is printed as one JSON case for the drivers *)

HolderVal == CASE ed.h = "rec" -> cur.rec[ed.t]
               [] ed.h = "cls" -> cur.cls[ed.t]
               [] ed.h = "renv" -> cur.renv
               [] OTHER -> ""
FlatList(sts) == [i \in 1..Len(sts) |-> <<sts[i].key, sts[i].flat>>]

Case ==
  CASE stage = "base" /\ cfg = Cfg0 ->
         [t |-> "base", id |-> base.id, proj |-> base, steps |-> FlatList(SB)]
    [] stage = "nb" /\ Mode = "c02" ->
         LET sb == SB
             sc == SC
             all == sb \o sc
         IN [t |-> "nb", id |-> base.id, ed |-> ed, hv |-> HolderVal, keys |-> Keys(sc),
             \* flat tuples of the steps that are new or whose own tuple changed
             chg |-> SelectSeq(FlatList(sc), LAMBDA kf : LET i == KeyIdx(sb, kf[1]) IN i = 0 \/ sb[i].flat # kf[2]),
             \* TLC's own partition of the steps of base and neighbour: index of the first step with an equal tuple
             cls |-> [i \in 1..Len(all) |->
                        CHOOSE j \in 1..i : all[j].x = all[i].x /\ \A m \in 1..(j - 1) : all[m].x # all[i].x]]
    [] stage = "rev" -> [t |-> "rev"]
    [] OTHER ->
         LET sb == SB
             sc == SC
         IN [t |-> "cfg", id |-> base.id, ed |-> ed, hv |-> HolderVal, cfg |-> cfg, keys |-> Keys(sc),
             veq |-> [j \in 1..Len(sc) |-> LET i == KeyIdx(sb, sc[j].key) IN i # 0 /\ sb[i].x = sc[j].x /\ sb[i].h = sc[j].h],
             beq |-> [j \in 1..Len(sc) |-> LET i == KeyIdx(sb, sc[j].key) IN i # 0 /\ sb[i].bx = sc[j].bx /\ sb[i].bh = sc[j].bh],
             mk |-> [j \in 1..Len(sc) |-> sc[j].mk],
             fl |-> [j \in 1..Len(sc) |-> <<sc[j].flat.kind, sc[j].flat.fp, sc[j].flat.sbd>>]]

GenPrint == (Gen /\ Ok) => PrintT(<<"@@", ToJson(Case)>>)

=============================================================================
