------------------------------ MODULE GitCheckout ------------------------------
(* Source checkouts of Bob in develop mode (property C12): the switch-or-attic
   decision of the builder (pym/bob/builder.py _cookCheckoutStep 1162-1366), the git
   SCM (pym/bob/scm/git.py invoke/switch/status), the url and import SCMs as simpler
   siblings (scm/url.py, scm/imp.py) and `bob clean -s` / `bob clean --attic`
   (cmds/build/clean.py).

   Universe
     up[u]      upstream bare repository u: branches master/dev and tag T pointing into a
                fixed commit DAG  c0 <- c1 <- c3,  c0 <- c2.   f.txt differs in every
                commit, g.txt is the same everywhere, only c2 has h.txt.
     fver[F]    content version of the upstream file F (url SCM); iver: import source dir
     rec        the recipe: inTree (package referenced from a root), slot a = git SCM
                (url, br, tag, commit, dir in {".","sub"}) or none, slot b = auxiliary SCM
                at dir "aux" (url without digest / url with digest / import) or none
     g          the git work repository Bob created for slot a (HEAD, local branches,
                remote-tracking refs, local tag, fetched commits, dirty tracked files,
                untracked files); lpar = parents of the user-made commits L1, L2
     aux        what is at "aux";  wsEx: the workspace directory exists
     ds         Bob's directory state (dir -> recorded SCM spec); attic: moved-away repos
   Ghosts (P layer)
     userWork   everything the user made (dirty edits, untracked files, commits)
     touched    the user touched the current work repository
     tagStale / rewritten / seen   documented exemptions: a tag was moved in some upstream
                repository (tags are taken as immutable) / a branch was moved non-fast-forward
                after the workspace had seen that url (branch tracking is fast-forward only)

   M layer = one action per Bob command / user command / upstream or recipe change; the
   decisions inside a Bob command follow the code (line numbers in comments).  Weak selects
   weakenings of the mechanism whose TLC counterexamples become targeted replay histories.
   Weak = {} is the intended (repaired) mechanism.
     ResetHard, NoUnpushedRefusal, NoDetachedRefusal, AtticDeletes, CleanIgnoresStatus,
     UrlSwitchAnyUrl, SwitchNoFetch     mistakes the code does not make (targeted tests)
     UrlKeepsMismatch                   what url.py does at the time of writing (finding D1): a file
                                        whose digest mismatches is kept, the checkout fails forever
     FFAcceptsBehind                    what git.py does at the time of writing (finding D2): an inline
                                        switch whose new upstream branch is behind the local branch
                                        "succeeds" and leaves the workspace ahead of the recipe
   Not modelled: stash, submodules, shallow/singleBranch/rebase, svn/cvs, tarball extraction.       *)
EXTENDS Naturals, Sequences, FiniteSets, TLC, Json

CONSTANTS MaxSteps, MaxEdit, MaxUp, MaxUser, MaxBob,
          Urls,        \* subset of {"U1","U2"}
          AuxKinds,    \* subset of {"url","urld","imp"}
          Dirs,        \* subset of {".","sub"}
          Weak, GenDepth

VARIABLES up, fver, iver, rec, g, lpar, aux, wsEx, ds, attic,
          userWork, touched, tagStale, rewritten, seen, last, ldec,
          nedit, nup, nuser, nbob, hist

vars == <<up, fver, iver, rec, g, lpar, aux, wsEx, ds, attic, userWork, touched, tagStale, rewritten, seen, last, ldec,
          nedit, nup, nuser, nbob, hist>>
view == <<up, fver, iver, rec, g, lpar, aux, wsEx, ds, attic, userWork, touched, tagStale, rewritten, seen, last, ldec,
          nedit, nup, nuser, nbob>>

UC  == {"c0", "c1", "c2", "c3"}          \* upstream commits
LC  == {"L1", "L2"}                      \* user commits
UBr == {"master", "dev"}
LBr == {"master", "dev", "mine"}
Files == {"F1", "F2"}
AncU == [c0 |-> {"c0"}, c1 |-> {"c0", "c1"}, c2 |-> {"c0", "c2"}, c3 |-> {"c0", "c1", "c3"}]
Children == [c0 |-> {"c1", "c2"}, c1 |-> {"c3"}, c2 |-> {}, c3 |-> {}]

NoA == [kind |-> "none", url |-> "U1", br |-> "none", tag |-> "none", commit |-> "none", dir |-> "."]
NoB == [kind |-> "none", url |-> "F1", dv |-> 0]
NoAux == [kind |-> "none", v |-> 0]
NoRepo == [ex |-> FALSE, dir |-> ".", origin |-> "U1", head |-> <<"u">>,
           lb |-> [b \in LBr |-> "none"], rt |-> [b \in UBr |-> "none"], tg |-> "none",
           have |-> {}, dF |-> FALSE, dG |-> FALSE, untr |-> {}]

----------------------------------------------------------------------------
(* commit graph *)

RECURSIVE Anc(_)
Anc(c) == IF c = "none" THEN {} ELSE IF c \in UC THEN AncU[c] ELSE {c} \cup Anc(lpar[c])
RECURSIVE Base(_)
Base(c) == IF c \in UC THEN c ELSE IF c = "none" THEN "none" ELSE Base(lpar[c])   \* decides the content of f.txt
HasH(c) == Base(c) = "c2"

HeadCommit(r) == IF r.head[1] = "b" THEN r.lb[r.head[2]] ELSE IF r.head[1] = "d" THEN r.head[2] ELSE "none"
ReachBr(u) == UNION {AncU[up[u].br[b]] : b \in UBr}

Ok(r) == [ok |-> TRUE, r |-> r]
Fail(r) == [ok |-> FALSE, r |-> r]

----------------------------------------------------------------------------
(* git's own rules *)

\* a checkout / merge / reset --keep to commit `to` refuses to overwrite a locally modified file
\* that differs between the two commits, or an untracked file that the target tracks
Conflict(r, to) ==
  \/ r.dF /\ HeadCommit(r) # "none" /\ Base(HeadCommit(r)) # Base(to)
  \/ "h" \in r.untr /\ HasH(to)

CoDetach(r, c) == IF Conflict(r, c) THEN Fail(r) ELSE Ok([r EXCEPT !.head = <<"d", c>>])
CoBranch(r, b) == IF Conflict(r, r.lb[b]) THEN Fail(r) ELSE Ok([r EXCEPT !.head = <<"b", b>>])
CoNewBranch(r, b, c) == IF Conflict(r, c) THEN Fail(r) ELSE Ok([r EXCEPT !.lb[b] = c, !.head = <<"b", b>>])

\* git merge --ff-only refs/remotes/origin/b   (git.py 513-517)
MergeFF(r, b) ==
  LET cur == r.lb[b]  t == r.rt[b] IN
  IF t = "none" THEN Fail(r)
  ELSE IF t \in Anc(cur) THEN Ok(r)                                   \* already up to date
  ELSE IF cur \in Anc(t) THEN (IF Conflict(r, t) THEN Fail(r) ELSE Ok([r EXCEPT !.lb[b] = t]))
  ELSE Fail(r)                                                        \* diverged

MoveHead(r, c) == IF r.head[1] = "b" THEN [r EXCEPT !.lb[r.head[2]] = c] ELSE [r EXCEPT !.head = <<"d", c>>]
\* git reset --keep c   (git.py 391-392)
ResetKeep(r, c) ==
  IF "ResetHard" \in Weak
    THEN Ok([MoveHead(r, c) EXCEPT !.dF = FALSE, !.dG = FALSE, !.untr = IF HasH(c) THEN @ \ {"h"} ELSE @])
    ELSE IF Conflict(r, c) THEN Fail(r) ELSE Ok(MoveHead(r, c))

\* git fetch -p origin +refs/heads/*:refs/remotes/origin/* [refs/tags/T:refs/tags/T]   (git.py 238-283)
\* tags are auto-followed when missing; an explicit tag refspec refuses to clobber a different local tag
Fetch(r, s) ==
  LET u == s.url
      clobber == s.tag # "none" /\ r.tg # "none" /\ r.tg # up[u].tag
      r1 == [r EXCEPT !.origin = u, !.rt = up[u].br, !.have = @ \cup ReachBr(u),
                      !.tg = IF @ = "none" THEN up[u].tag ELSE @]
  IN IF clobber THEN Fail(r1) ELSE Ok(r1)
\* weakening: an inline switch that does not fetch from the (new) remote
FetchSw(r, s, sw) == IF sw /\ "SwitchNoFetch" \in Weak /\ r.head[1] # "u" THEN Ok([r EXCEPT !.origin = s.url]) ELSE Fetch(r, s)

----------------------------------------------------------------------------
(* GitScm.invoke, git.py 209-297 *)

Target(r, s) == IF s.commit # "none" THEN s.commit ELSE r.tg

\* __checkoutBranch 452-493
InvBranch(r, s, sw) ==
  LET f == FetchSw(r, s, sw)  r1 == f.r  b == s.br IN
  IF ~f.ok THEN f
  ELSE IF r1.head[1] = "u" THEN
         (IF r1.rt[b] = "none" THEN Fail(r1) ELSE CoNewBranch(r1, b, r1.rt[b]))
  ELSE IF sw THEN
         (IF r1.lb[b] = "none"
            THEN (IF r1.rt[b] = "none" THEN Fail(r1) ELSE CoNewBranch(r1, b, r1.rt[b]))
            ELSE LET c == CoBranch(r1, b)  m == MergeFF(c.r, b) IN
                 IF ~c.ok THEN c
                 ELSE IF m.ok /\ "FFAcceptsBehind" \notin Weak /\ m.r.lb[b] # m.r.rt[b]
                        THEN Fail(m.r)       \* repaired: a switch must end where a fresh checkout would be
                        ELSE m)
  ELSE IF r1.head = <<"b", b>> THEN MergeFF(r1, b)
  ELSE Ok(r1)                                     \* "Not updating ... branch was changed manually"

\* __checkoutTag 395-420
InvTag(r, s, sw) ==
  IF r.head[1] # "u" /\ ~sw THEN Ok(r)
  ELSE LET f == FetchSw(r, s, sw)  r1 == f.r  t == Target(f.r, s) IN
       IF ~f.ok THEN f
       ELSE IF t = "none" \/ (t \in UC /\ t \notin r1.have) THEN Fail(r1)
       ELSE CoDetach(r1, t)

\* `git branch -a --contains HEAD`: some remote-tracking or other local branch holds the commit (git.py 374-389)
HeldElsewhere(r, b) ==
  LET c == r.lb[b] IN
  \/ \E x \in UBr : c \in Anc(r.rt[x])
  \/ \E y \in LBr \ {b} : c \in Anc(r.lb[y])

\* __checkoutTagOnBranch 299-393
InvTagOnBranch(r, s, sw) ==
  LET valid == r.head[1] # "u"
      already == valid /\ (~sw \/ (IF s.commit # "none" THEN HeadCommit(r) = s.commit
                                   ELSE r.tg # "none" /\ r.tg = HeadCommit(r)))
  IN IF already THEN Ok(r)
  ELSE LET f == FetchSw(r, s, sw)  r1 == f.r  t == Target(f.r, s)  b == s.br IN
       IF ~f.ok THEN f
       ELSE IF t = "none" \/ (t \in UC /\ t \notin r1.have) THEN Fail(r1)
       ELSE IF t \notin Anc(r1.rt[b]) THEN Fail(r1)               \* "Branch does not contain"
       ELSE IF ~valid \/ r1.lb[b] = "none" THEN CoNewBranch(r1, b, t)
       ELSE LET c == CoBranch(r1, b) IN
            IF ~c.ok THEN c
            ELSE IF "NoUnpushedRefusal" \notin Weak /\ ~HeldElsewhere(c.r, b) THEN Fail(c.r)   \* "Current state would be lost"
            ELSE ResetKeep(c.r, t)

Invoke(r0, s, sw) ==
  LET r == IF r0.ex THEN r0 ELSE [NoRepo EXCEPT !.ex = TRUE, !.dir = s.dir, !.origin = s.url] IN
  IF (s.tag # "none" \/ s.commit # "none") /\ s.br # "none" THEN InvTagOnBranch(r, s, sw)
  ELSE IF s.tag # "none" \/ s.commit # "none" THEN InvTag(r, s, sw)
  ELSE InvBranch(r, s, sw)

\* GitScm.switch 676-713
Switch(r, s, old) ==
  LET oldc == IF old.commit # "none" THEN old.commit ELSE IF old.tag # "none" THEN r.tg ELSE "none"
      refuse == /\ r.head[1] = "d" /\ "NoDetachedRefusal" \notin Weak
                /\ \/ oldc = "none"                                  \* user moved from branch to detached HEAD
                   \/ (HeadCommit(r) # oldc /\ HeadCommit(r) # s.commit)
  IN IF refuse THEN Fail(r) ELSE Invoke(r, s, TRUE)

\* GitScm.canSwitch 642-674: only url / branch / tag / commit may differ
CanSwitchA(new, old) == new.kind = "git" /\ old.kind = "git" /\ new.dir = old.dir
\* UrlScm.canSwitch (url.py): digests may be added/changed/removed as long as the url stays
CanSwitchB(new, old) == new.kind \in {"url", "urld"} /\ old.kind \in {"url", "urld"} /\ (new.url = old.url \/ "UrlSwitchAnyUrl" \in Weak)

\* GitScm.status 864-937 -> ScmStatus.dirty / expendable (scm.py 151-184)
Status(r, s, nested) ==
  LET hc == HeadCommit(r)
      switched == \/ r.origin # s.url
                  \/ (s.commit # "none" /\ hc # s.commit)
                  \/ (s.commit = "none" /\ s.tag # "none" /\ (r.tg = "none" \/ hc # r.tg))
                  \/ (s.commit = "none" /\ s.tag = "none" /\ r.head # <<"b", s.br>>)
      onBranch == s.commit = "none" /\ s.tag = "none" /\ r.head = <<"b", s.br>>
      unpMain == onBranch /\ Anc(hc) \ Anc(r.rt[s.br]) # {}
      modified == r.dF \/ r.dG \/ r.untr # {} \/ nested
      pushed == UNION {Anc(r.rt[x]) : x \in UBr} \cup Anc(r.tg)
      local == UNION {Anc(r.lb[y]) : y \in LBr} \cup Anc(hc)
      unpLocal == (local \ pushed) \ (IF onBranch THEN Anc(hc) ELSE {}) # {}
      dirty == r.head[1] = "u" \/ switched \/ unpMain \/ modified
  IN [dirty |-> dirty, expendable |-> ~dirty /\ ~unpLocal]

----------------------------------------------------------------------------
(* recipe -> directory state, digests (asDigestScript), determinism *)

SlotA(d) == IF rec.a.kind = "git" /\ rec.a.dir = d THEN rec.a ELSE NoA
NewDs == [dot |-> SlotA("."), sub |-> SlotA("sub"), aux |-> rec.b, vid |-> TRUE]
NoDs == [dot |-> NoA, sub |-> NoA, aux |-> NoB, vid |-> FALSE]

DigA(s) == IF s.kind = "none" THEN <<"none", "-", "-">>
           ELSE IF s.commit # "none" THEN <<"c", "-", s.commit>>          \* git.py 725-732
           ELSE IF s.tag # "none" THEN <<"t", s.url, s.tag>>
           ELSE <<"b", s.url, s.br>>
DigB(s) == IF s.kind = "none" THEN <<"none", "-", 0>>
           ELSE IF s.kind = "urld" THEN <<"urld", "-", s.dv>>              \* url.py asDigestScript: digest, not url
           ELSE <<s.kind, s.url, 0>>
DetA(s) == s.kind = "none" \/ s.tag # "none" \/ s.commit # "none"
DetB(s) == s.kind \in {"none", "urld"}

\* what a fresh checkout of the recipe gives (the oracle of Converges)
FreshCommit(s) == IF s.commit # "none" THEN s.commit ELSE IF s.tag # "none" THEN up[s.url].tag ELSE up[s.url].br[s.br]
FreshOkA(s) == \/ s.kind = "none"
               \/ /\ FreshCommit(s) \in ReachBr(s.url)
                  /\ (s.br # "none" => FreshCommit(s) \in AncU[up[s.url].br[s.br]])
FreshOkB(s) == s.kind = "urld" => fver[s.url] = s.dv
FreshHead(s) == IF s.br # "none" THEN <<"b", s.br>> ELSE <<"d", FreshCommit(s)>>
FreshAuxV(s) == IF s.kind = "imp" THEN iver ELSE IF s.kind = "urld" THEN s.dv ELSE fver[s.url]

----------------------------------------------------------------------------
Hist(a) == hist' = Append(hist, a)
Steps == nedit + nup + nuser + nbob
Quiet == last' = "none" /\ ldec' = <<>>

Init ==
  /\ up = [u \in Urls |-> [br |-> [b \in UBr |-> "c0"], tag |-> "c0"]]
  /\ fver = [f \in Files |-> 0] /\ iver = 0
  /\ rec = [inTree |-> TRUE, a |-> [kind |-> "git", url |-> "U1", br |-> "master", tag |-> "none", commit |-> "none", dir |-> "."], b |-> NoB]
  /\ g = NoRepo /\ lpar = [c \in LC |-> "none"] /\ aux = NoAux /\ wsEx = FALSE
  /\ ds = NoDs /\ attic = {}
  /\ userWork = {} /\ touched = FALSE /\ tagStale = FALSE /\ rewritten = FALSE /\ seen = {} /\ last = "none"
  /\ ldec = <<>> /\ nedit = 0 /\ nup = 0 /\ nuser = 0 /\ nbob = 0 /\ hist = <<>>

WS == UNCHANGED <<g, lpar, aux, wsEx, ds, attic>>
Ghost == UNCHANGED <<userWork, touched>>

----------------------------------------------------------------------------
(* recipe edits *)

ValidRev(u, br, tag, commit) ==
  /\ ~(br = "none" /\ tag = "none" /\ commit = "none")
  /\ ~(tag # "none" /\ commit # "none")
  /\ commit # "none" => commit \in ReachBr(u)

EditRec(r2, what) ==
  /\ nedit < MaxEdit /\ Steps < MaxSteps /\ r2 # rec
  /\ rec' = r2 /\ nedit' = nedit + 1 /\ Quiet
  /\ Hist([a |-> "Edit", what |-> what, rec |-> r2])
  /\ UNCHANGED <<up, fver, iver, nup, nuser, nbob, tagStale, rewritten, seen>> /\ WS /\ Ghost

EditUrl == \E u \in Urls : rec.a.kind = "git" /\ u # rec.a.url /\ (rec.a.commit # "none" => rec.a.commit \in ReachBr(u))
                           /\ EditRec([rec EXCEPT !.a.url = u], "url")
EditRev == \E br \in UBr \cup {"none"}, tag \in {"none", "T"}, c \in UC \cup {"none"} :
             /\ rec.a.kind = "git" /\ ValidRev(rec.a.url, br, tag, c)
             /\ EditRec([rec EXCEPT !.a.br = br, !.a.tag = tag, !.a.commit = c], "rev")
EditDir == \E d \in Dirs : rec.a.kind = "git" /\ d # rec.a.dir /\ EditRec([rec EXCEPT !.a.dir = d], "dir")
EditRemoveA == rec.a.kind = "git" /\ rec.b.kind # "none" /\ EditRec([rec EXCEPT !.a = NoA], "removeA")
EditAddA == \E d \in Dirs : rec.a.kind = "none" /\
              EditRec([rec EXCEPT !.a = [kind |-> "git", url |-> "U1", br |-> "master", tag |-> "none", commit |-> "none", dir |-> d]], "addA")
EditAux == \E k \in AuxKinds \cup {"none"}, f \in Files :
             /\ (k = "none" => f = "F1" /\ rec.a.kind # "none") /\ (k = "imp" => f = "F1")
             /\ EditRec([rec EXCEPT !.b = IF k = "none" THEN NoB ELSE [kind |-> k, url |-> f, dv |-> IF k = "urld" THEN fver[f] ELSE 0]], "aux")
EditTree == EditRec([rec EXCEPT !.inTree = ~@], "tree")

----------------------------------------------------------------------------
(* upstream *)

UpDo(u, up2, what, arg) ==
  /\ nup < MaxUp /\ Steps < MaxSteps
  /\ up' = up2 /\ nup' = nup + 1 /\ Quiet
  /\ Hist([a |-> what, u |-> u, arg |-> arg, up |-> up2[u]])
  /\ UNCHANGED <<fver, iver, rec, nedit, nuser, nbob, seen>> /\ WS /\ Ghost

UpstreamCommit == \E u \in Urls, b \in UBr : \E c \in Children[up[u].br[b]] :
  /\ UpDo(u, [up EXCEPT ![u].br[b] = c], "UpstreamCommit", <<b, c>>) /\ UNCHANGED <<tagStale, rewritten>>

\* forced branch move (rewind or sideways, not a fast-forward); the tag stays on a branch
MoveBranch == \E u \in Urls, b \in UBr, c \in UC :
  LET up2 == [up EXCEPT ![u].br[b] = c]
      reach2 == UNION {AncU[up2[u].br[x]] : x \in UBr} IN
  /\ c \in ReachBr(u) /\ up[u].br[b] \notin AncU[c]
  /\ up[u].tag \in reach2
  /\ UpDo(u, up2, "MoveBranch", <<b, c>>)
  /\ rewritten' = (rewritten \/ u \in seen) /\ UNCHANGED tagStale

MoveTag == \E u \in Urls, c \in UC :
  /\ c \in ReachBr(u) /\ c # up[u].tag
  /\ UpDo(u, [up EXCEPT ![u].tag = c], "MoveTag", <<"T", c>>)
  /\ tagStale' = TRUE /\ UNCHANGED rewritten          \* a tag name is assumed to denote one commit everywhere, forever

UpstreamFile == \E f \in Files :
  /\ nup < MaxUp /\ Steps < MaxSteps /\ fver[f] < 1 /\ AuxKinds \cap {"url", "urld"} # {}
  /\ fver' = [fver EXCEPT ![f] = @ + 1] /\ nup' = nup + 1 /\ Quiet
  /\ Hist([a |-> "UpstreamFile", f |-> f, v |-> fver[f] + 1])
  /\ UNCHANGED <<up, iver, rec, nedit, nuser, nbob, tagStale, rewritten, seen>> /\ WS /\ Ghost

ImportEdit ==
  /\ nup < MaxUp /\ Steps < MaxSteps /\ iver < 1 /\ "imp" \in AuxKinds
  /\ iver' = iver + 1 /\ nup' = nup + 1 /\ Quiet
  /\ Hist([a |-> "ImportEdit", v |-> iver + 1])
  /\ UNCHANGED <<up, fver, rec, nedit, nuser, nbob, tagStale, rewritten, seen>> /\ WS /\ Ghost

----------------------------------------------------------------------------
(* the user, in the git work tree *)

UserDo(g2, lpar2, work, what, arg) ==
  /\ nuser < MaxUser /\ Steps < MaxSteps /\ g.ex /\ g.head[1] # "u"
  /\ g' = g2 /\ lpar' = lpar2 /\ userWork' = userWork \cup work /\ touched' = TRUE
  /\ nuser' = nuser + 1 /\ Quiet
  /\ Hist([a |-> what, arg |-> arg])
  /\ UNCHANGED <<up, fver, iver, rec, aux, wsEx, ds, attic, nedit, nup, nbob, tagStale, rewritten, seen>>

UserDirtyF == ~g.dF /\ UserDo([g EXCEPT !.dF = TRUE], lpar, {"dF"}, "UserDirty", "f")
UserDirtyG == ~g.dG /\ UserDo([g EXCEPT !.dG = TRUE], lpar, {"dG"}, "UserDirty", "g")
UserUntracked == \E n \in {"u", "h", "x"} :
  /\ n \notin g.untr /\ n \notin userWork
  /\ (n = "h" => ~HasH(HeadCommit(g)))
  /\ (n = "x" => g.dir = "." /\ aux.kind = "none")                  \* aux/u.txt inside the work tree
  /\ UserDo([g EXCEPT !.untr = @ \cup {n}], lpar, {n}, "UserUntracked", n)
UserCommit == \E l \in LC :
  /\ lpar[l] = "none" /\ (l = "L2" => lpar["L1"] # "none")
  /\ UserDo(MoveHead(g, l), [lpar EXCEPT ![l] = HeadCommit(g)], {l}, "UserCommit", l)
UserNewBranch == g.lb["mine"] = "none" /\ UserDo([g EXCEPT !.lb["mine"] = HeadCommit(g), !.head = <<"b", "mine">>], lpar, {}, "UserNewBranch", "mine")
UserCheckout == \E b \in LBr :
  /\ g.lb[b] # "none" /\ g.head # <<"b", b>> /\ ~Conflict(g, g.lb[b])
  /\ (g.head[1] = "d" => \/ HeadCommit(g) \notin LC                   \* the user does not abandon own commits
                          \/ \E y \in LBr : HeadCommit(g) \in Anc(g.lb[y]))
  /\ UserDo([g EXCEPT !.head = <<"b", b>>], lpar, {}, "UserCheckout", b)
UserDetach == g.head[1] = "b" /\ UserDo([g EXCEPT !.head = <<"d", HeadCommit(g)>>], lpar, {}, "UserDetach", "-")

----------------------------------------------------------------------------
(* bob dev [--clean-checkout]: builder.py 1162-1366 *)

ExistsAuxPath(gg, ax) == ax.kind # "none" \/ (gg.ex /\ gg.dir = "." /\ "x" \in gg.untr)

\* one old SCM directory of the git slot (d = "." or "sub"): 1248-1291
\* st = [g, aux, ds, attic, dec]; returns the new st
LoopA(st, d, old, new, force) ==
  IF old.kind = "none" THEN st
  ELSE IF DigA(old) = DigA(new) /\ ~force THEN st
  ELSE
    LET sw == IF ~force /\ CanSwitchA(new, old) /\ st.g.ex THEN Switch(st.g, new, old) ELSE Fail(st.g)
        setd(x, v) == IF d = "." THEN [x EXCEPT !.dot = v] ELSE [x EXCEPT !.sub = v]
    IN IF sw.ok THEN [st EXCEPT !.g = sw.r, !.ds = setd(st.ds, new), !.dec = Append(@, "switch")]
       ELSE \* 1274-1291 move to attic (with everything nested below ".")
         LET nestedAux == d = "."
             gone == "AtticDeletes" \in Weak
         IN [st EXCEPT !.g = NoRepo,
                       !.aux = IF nestedAux THEN NoAux ELSE @,
                       !.ds = IF nestedAux THEN [setd(st.ds, NoA) EXCEPT !.aux = NoB] ELSE setd(st.ds, NoA),
                       !.attic = IF sw.r.ex /\ ~gone THEN @ \cup {[r |-> sw.r, s |-> old, nested |-> nestedAux /\ st.aux.kind # "none", n |-> nbob]} ELSE @,
                       !.dec = Append(@, "attic")]

LoopB(st, old, new) ==
  IF old.kind = "none" THEN st
  ELSE IF DigB(old) = DigB(new) THEN st
  ELSE IF CanSwitchB(new, old) /\ st.aux.kind # "none"
         THEN [st EXCEPT !.ds.aux = new, !.dec = Append(@, "switchB")]     \* UrlScm.switch: nothing to do, see InvokeB
  ELSE [st EXCEPT !.aux = NoAux, !.ds.aux = NoB, !.dec = Append(@, "atticB")]

\* url / import invoke (url.py 702-765, imp.py 169-179): [ok, aux]
InvokeB(ax, s) ==
  IF s.kind = "imp" THEN [ok |-> TRUE, aux |-> [kind |-> "imp", v |-> iver]]
  ELSE IF s.kind = "url" THEN      \* copied when the upstream file is younger than the local one (url.py _fetch)
         [ok |-> TRUE, aux |-> [kind |-> "url", v |-> IF ax.kind # "none" /\ ax.v > fver[s.url] THEN ax.v ELSE fver[s.url]]]
  ELSE \* with digest: download if absent; repaired: also if the existing file does not match the digest
       \* (as is, url.py 718-733 keeps a mismatching file forever: Weak "UrlKeepsMismatch")
       LET file == IF ax.kind = "none" \/ (ax.v # s.dv /\ "UrlKeepsMismatch" \notin Weak)
                   THEN [kind |-> "urld", v |-> fver[s.url]] ELSE [kind |-> "urld", v |-> ax.v]
       IN [ok |-> file.v = s.dv, aux |-> file]

DevResult(clean) ==
  LET nds == NewDs
      nestedNow == g.ex /\ g.dir = "." /\ aux.kind # "none"
      forceDot == clean /\ ds.dot.kind = "git" /\ DigA(ds.dot) = DigA(nds.dot) /\ g.ex /\ Status(g, nds.dot, nestedNow).dirty
      forceSub == clean /\ ds.sub.kind = "git" /\ DigA(ds.sub) = DigA(nds.sub) /\ g.ex /\ Status(g, nds.sub, FALSE).dirty
      reason == \/ ~wsEx \/ ~ds.vid \/ ~DetA(rec.a) \/ ~DetB(rec.b)    \* 1228-1240; the variant id is stored only after success (1305-1310, 1328)
                \/ DigA(ds.dot) # DigA(nds.dot) \/ DigA(ds.sub) # DigA(nds.sub) \/ DigB(ds.aux) # DigB(nds.aux)
                \/ forceDot \/ forceSub
      st0 == [g |-> g, aux |-> aux, ds |-> IF wsEx THEN ds ELSE NoDs, attic |-> attic, dec |-> <<>>]
      st1 == LoopA(st0, ".", st0.ds.dot, nds.dot, forceDot)
      st2 == LoopB(st1, st1.ds.aux, nds.aux)
      st3 == LoopA(st2, "sub", st2.ds.sub, nds.sub, forceSub)
      \* 1296-1303 collision of new checkouts with existing paths
      collide == \/ nds.aux.kind # "none" /\ st3.ds.aux.kind = "none" /\ ExistsAuxPath(st3.g, st3.aux)
                 \/ nds.sub.kind # "none" /\ st3.ds.sub.kind = "none" /\ st3.g.ex /\ st3.g.dir = "sub"
      ia == IF rec.a.kind = "git" THEN Invoke(st3.g, rec.a, FALSE) ELSE Ok(st3.g)
      ib == IF rec.b.kind # "none" /\ ia.ok THEN InvokeB(st3.aux, rec.b) ELSE [ok |-> TRUE, aux |-> st3.aux]
  IN IF ~reason THEN [ok |-> TRUE, g |-> g, aux |-> aux, ds |-> ds, attic |-> attic, dec |-> <<"skip">>]
     ELSE IF collide THEN [ok |-> FALSE, g |-> st3.g, aux |-> st3.aux, ds |-> st3.ds, attic |-> st3.attic, dec |-> Append(st3.dec, "collide")]
     ELSE [ok |-> ia.ok /\ ib.ok, g |-> ia.r, aux |-> ib.aux, ds |-> [nds EXCEPT !.vid = ia.ok /\ ib.ok], attic |-> st3.attic,
           dec |-> Append(st3.dec, IF ia.ok /\ ib.ok THEN "checkout" ELSE "error")]

Obs(gg, ax, at, ok, dec) ==
  [ok |-> ok, dec |-> dec, ex |-> gg.ex, dir |-> gg.dir, head |-> gg.head, commit |-> HeadCommit(gg),
   dF |-> gg.dF, dG |-> gg.dG, untr |-> gg.untr, aux |-> ax, nattic |-> Cardinality(at)]

BobDevCmd(clean) ==
  /\ nbob < MaxBob /\ Steps < MaxSteps /\ rec.inTree
  /\ LET r == DevResult(clean) IN
     /\ g' = r.g /\ aux' = r.aux /\ ds' = r.ds /\ attic' = r.attic /\ wsEx' = TRUE
     /\ last' = IF r.ok THEN "devok" ELSE "devfail"
     /\ ldec' = r.dec
     /\ touched' = IF r.g.ex /\ g.ex /\ r.attic = attic THEN touched ELSE FALSE      \* a re-created work tree is untouched
     /\ Hist([a |-> IF clean THEN "BobDevClean" ELSE "BobDev", rec |-> rec,
              obs |-> Obs(r.g, r.aux, r.attic, r.ok, r.dec)])
  /\ seen' = IF rec.a.kind = "git" THEN seen \cup {rec.a.url} ELSE seen
  /\ nbob' = nbob + 1
  /\ UNCHANGED <<up, fver, iver, rec, lpar, userWork, tagStale, rewritten, nedit, nup, nuser>>

BobDev == BobDevCmd(FALSE)
BobDevCleanCheckout == BobDevCmd(TRUE)

\* bob clean -s: clean.py 58-85, 208-234; only workspaces of packages that are no longer referenced
BobCleanSrc ==
  /\ nbob < MaxBob /\ Steps < MaxSteps /\ ~rec.inTree /\ wsEx
  /\ LET nestedNow == g.ex /\ g.dir = "." /\ aux.kind # "none"
         okA(s) == s.kind = "none" \/ (g.ex /\ Status(g, s, nestedNow /\ s.dir = ".").expendable)
         del == "CleanIgnoresStatus" \in Weak \/ (okA(ds.dot) /\ okA(ds.sub))
     IN /\ IF del THEN /\ g' = NoRepo /\ aux' = NoAux /\ wsEx' = FALSE
                       /\ ds' = NoDs /\ touched' = FALSE
                  ELSE UNCHANGED <<g, aux, wsEx, ds, touched>>
        /\ Hist([a |-> "BobCleanSrc", obs |-> [deleted |-> del, nattic |-> Cardinality(attic)]])
  /\ last' = "clean" /\ ldec' = <<>> /\ nbob' = nbob + 1
  /\ UNCHANGED <<up, fver, iver, rec, lpar, attic, userWork, tagStale, rewritten, seen, nedit, nup, nuser>>

\* bob clean --attic: clean.py 87-92, 157-159
BobCleanAttic ==
  /\ nbob < MaxBob /\ Steps < MaxSteps /\ attic # {}
  /\ LET keep == {e \in attic : "CleanIgnoresStatus" \notin Weak /\ ~Status(e.r, e.s, e.nested).expendable} IN
     /\ attic' = keep
     /\ Hist([a |-> "BobCleanAttic", obs |-> [deleted |-> Cardinality(attic) - Cardinality(keep), nattic |-> Cardinality(keep)]])
  /\ last' = "clean" /\ ldec' = <<>> /\ nbob' = nbob + 1
  /\ UNCHANGED <<up, fver, iver, rec, g, lpar, aux, wsEx, ds, userWork, touched, tagStale, rewritten, seen, nedit, nup, nuser>>

Done == Steps = MaxSteps /\ UNCHANGED vars

Next ==
  \/ EditUrl \/ EditRev \/ EditDir \/ EditRemoveA \/ EditAddA \/ EditAux \/ EditTree
  \/ UpstreamCommit \/ MoveBranch \/ MoveTag \/ UpstreamFile \/ ImportEdit
  \/ UserDirtyF \/ UserDirtyG \/ UserUntracked \/ UserCommit \/ UserNewBranch \/ UserCheckout \/ UserDetach
  \/ BobDev \/ BobDevCleanCheckout \/ BobCleanSrc \/ BobCleanAttic
  \/ Done

Spec == Init /\ [][Next]_vars

----------------------------------------------------------------------------
(* P layer *)

Holds(r, w) ==
  /\ r.ex
  /\ IF w = "dF" THEN r.dF ELSE IF w = "dG" THEN r.dG
     ELSE IF w \in {"u", "h", "x"} THEN w \in r.untr
     ELSE w \in Anc(HeadCommit(r)) \cup UNION {Anc(r.lb[b]) : b \in LBr}      \* reachable from HEAD or a local branch

\* every piece of user work is still in the work tree or in an attic directory
NoUserWorkLost == \A w \in userWork : Holds(g, w) \/ \E e \in attic : Holds(e.r, w)

Exempt == \/ rec.a.kind = "git" /\ rec.a.tag # "none" /\ tagStale           \* tags are documented as immutable
          \/ rec.a.kind = "git" /\ rec.a.br # "none" /\ rewritten           \* branch tracking is fast-forward only (documented)
FreshOk == FreshOkA(rec.a) /\ FreshOkB(rec.b)

EqualsFresh ==
  /\ IF rec.a.kind = "none" THEN ~g.ex
     ELSE /\ g.ex /\ g.dir = rec.a.dir /\ ~g.dF /\ ~g.dG /\ g.untr = {}
          /\ HeadCommit(g) = FreshCommit(rec.a)
          /\ (DetA(rec.a) \/ g.head = FreshHead(rec.a))   \* pinned tag/commit: "already on the correct commit -> do nothing"
                                                          \* (git.py 305-318); HEAD attachment is compared by ConvergesBranch
  /\ IF rec.b.kind = "none" THEN aux.kind = "none"
     ELSE aux.kind = rec.b.kind /\ aux.v = FreshAuxV(rec.b)

\* an untouched workspace equals a fresh checkout after a successful build ...
Converges == (last = "devok" /\ ~touched /\ ~Exempt /\ FreshOk) => EqualsFresh
\* ... and a build of an untouched workspace does not fail when a fresh checkout would work
NoSpuriousRefusal == (last = "devfail" /\ ~touched /\ ~Exempt) => ~FreshOk
\* stricter variants (documented exemptions removed / branch name compared also for pinned commits): findings-by-design
ConvergesStrict == (last = "devok" /\ ~touched /\ FreshOk) => EqualsFresh
ConvergesBranch == (last = "devok" /\ ~touched /\ ~Exempt /\ FreshOk /\ rec.a.kind = "git") => g.head = FreshHead(rec.a)

TypeOK == /\ g.head[1] \in {"u", "b", "d"} /\ last \in {"none", "devok", "devfail", "clean"}
          /\ (("h" \in g.untr) => ~HasH(HeadCommit(g)))

\* vacuity companions (negated reachability; each must be VIOLATED)
LastDec(d) == \E i \in DOMAIN ldec : ldec[i] = d
ReachSwitchKeepsWork == ~(LastDec("switch") /\ last = "devok" /\ userWork # {} /\ \A w \in userWork : Holds(g, w))
ReachAtticHoldsWork == ~(LastDec("attic") /\ \E e \in attic : \E w \in userWork : Holds(e.r, w) /\ ~Holds(g, w))
ReachCollide == ~LastDec("collide")
ReachCleanKeeps == ~(last = "clean" /\ ~rec.inTree /\ g.ex /\ userWork # {} /\ nbob > 1)
ReachCleanDeletes == ~(last = "clean" /\ ~wsEx /\ nbob > 1)
ReachAtticCleaned == ~(last = "clean" /\ attic = {} /\ nbob > 2)
ReachAtticKept == ~(last = "clean" /\ attic # {} /\ hist[Len(hist)].a = "BobCleanAttic")
ReachDetachedRefusal == ~(LastDec("attic") /\ \E e \in attic : e.r.head[1] = "d" /\ HeadCommit(e.r) \in LC)
ReachNestedAttic == ~(LastDec("attic") /\ rec.b.kind # "none" /\ last = "devok" /\ g.ex /\ g.dir = ".")

\* counterexample printer for the weakened mechanisms: prints the history of every violating state, never fails
CexPrint == (NoUserWorkLost /\ Converges /\ NoSpuriousRefusal) \/ PrintT(<<"@@", ToJson(hist)>>)
GenPrint == (GenDepth > 0 /\ TLCGet("level") = GenDepth) => PrintT(<<"@@", ToJson(hist)>>)
=============================================================================
