SPECIFICATION Spec
CONSTANTS MaxEdits = 2  MaxInv = 2  MaxDrop = 0  MaxRequery = 0  MtimeEdits = FALSE  GenDepth = 0
CONSTANT Weak = {"KeyIgnoresSandbox"}
VIEW view
INVARIANT CexPrint
CHECK_DEADLOCK FALSE
