SPECIFICATION Spec
CONSTANTS MaxEdit = 3  MaxInv = 4  GenDepth = 260
CONSTANT Weak = {}
CONSTANT WSs = {1, 2}
CONSTANT UpModes = {TRUE, FALSE}
CONSTANT DlModes = {"no", "deps", "yes"}
CONSTANT SbxModes = {TRUE}
CONSTANT Shared = {"tool", "sbx"}
CONSTANT Knobs = {"src_app", "src_lib", "bl", "ba", "dl", "bt", "meta", "gc"}
INVARIANT GenPrint
CHECK_DEADLOCK FALSE
