SPECIFICATION Spec
CONSTANTS MaxJobs = 3  MaxFail = 1  GenDepth = 0  WeakDeps = FALSE  WeakOnce = FALSE  WeakBound = FALSE  Dags = {1, 2, 3, 4, 5, 6}
INVARIANT NoDoubleExec
INVARIANT DepsFirst
INVARIANT Bounded
INVARIANT FailureConfined
INVARIANT RcCorrect
INVARIANT KeepGoingComplete
INVARIANT Independence
