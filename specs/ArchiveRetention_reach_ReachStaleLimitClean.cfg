SPECIFICATION Spec
CONSTANTS MaxArt = 3  MaxHist = 3  MaxCmd = 2  Sweep = "both"  GenDepth = 0
CONSTANT Recs <- RecsTiny
CONSTANT Shapes <- ShapesSmall
CONSTANT ExprLists <- ExprListsSmall
VIEW viewL
INVARIANT ReachStaleLimitClean
CHECK_DEADLOCK FALSE
