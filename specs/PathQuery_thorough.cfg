SPECIFICATION Spec
CONSTANTS Tier = 1  MaxLen = 3  GraphLo = 1  GraphHi = 99  GenNodes = 0  Emit = TRUE
INVARIANT TypeOK
INVARIANT DescendantIsChildClosure
INVARIANT SetSemanticsAgree
INVARIANT AbbreviationsAgree
INVARIANT WitnessesReal
INVARIANT ErrClassesOrdered
INVARIANT BackwardAgrees
INVARIANT GenPrint
CHECK_DEADLOCK FALSE
