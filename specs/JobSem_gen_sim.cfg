SPECIFICATION Spec
CONSTANTS K = 4  N = 2  Recursive = FALSE  Rounds = 2  MaxChild = 1  MaxChildOps = 3  GenDepth = 60  FixHandover = FALSE
INVARIANT GenPrint
CHECK_DEADLOCK FALSE
