SPECIFICATION Spec
CONSTANTS MaxEdit = 2  MaxInv = 3  MaxKill = 1  MaxFail = 1  GenDepth = 0
CONSTANT Flags = {"plain"}
CONSTANT Weak = {}
VIEW view
INVARIANT IncrementalEqClean
INVARIANT Idempotent
CHECK_DEADLOCK FALSE
