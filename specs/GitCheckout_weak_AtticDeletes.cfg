SPECIFICATION Spec
CONSTANTS
  MaxSteps = 4
  MaxEdit = 1
  MaxUp = 0
  MaxUser = 2
  MaxBob = 2
  Urls = {"U1", "U2"}
  AuxKinds = {"imp"}
  Dirs = {".", "sub"}
  Weak = {"AtticDeletes"}
  GenDepth = 0
VIEW view
INVARIANTS CexPrint
