\* vacuity control: ReachStaleSkip must be VIOLATED (= the situation is reachable)
INIT Init
NEXT Next
CONSTANTS Contents = {1, 2, 3}  Modes = {1, 2}  NewContents = {1, 3}  NewModes = {1}
           Targets = {1}  DirModes = {1}
          Bases = {2, 3}  MaxOps = 2  MaxBurst = 1  Gen = FALSE
VIEW view
INVARIANT ReachStaleSkip
CHECK_DEADLOCK FALSE
