SPECIFICATION Spec
CONSTANTS
  Uploaders = {"U1", "U2", "U3"}
  Mirrors = {"M1"}
  Readers = {"R1"}
  Archives = {"A", "B"}
  UpArchives = {"A"}
  Kinds = {"pkg"}
  MirrorSrc = "A"
  MirrorDst = "B"
  N = 2
  UseChmod = FALSE
  Drain = TRUE
  PkgReplace = FALSE
  MaxFault = 1
  MaxCrash = 1
  Planned = FALSE
  GenDepth = 0
VIEW view
INVARIANT TypeOK
INVARIANT Atomic
INVARIANT NoTempUnderName
INVARIANT FailedLeavesNothing
INVARIANT ReaderOK
INVARIANT NoTempLeft
INVARIANT MirrorFaithful
PROPERTY NeverOverwrite
CHECK_DEADLOCK FALSE
