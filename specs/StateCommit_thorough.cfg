SPECIFICATION Spec
CONSTANTS MaxSnap = 6  MaxInv = 4  MaxCrash = 3  MaxAsync = 2  GenDepth = 0
VIEW view
INVARIANT TypeOK
INVARIANT LoadNeverErrors
INVARIANT LoadsSavedSnapshot
INVARIANT NotOlderThanCompleted
INVARIANT SingleWriter
INVARIANT PickleDurable
CHECK_DEADLOCK FALSE
