\* C02 thorough: all single edits of the thorough catalogue of base projects; every state printed for the replay
SPECIFICATION Spec
CONSTANTS Level = 2  Mode = "c02"  NOrd = 1  Gen = TRUE
CONSTRAINT WellFormed
INVARIANT TypeOK
INVARIANT RevertRestores
INVARIANT Propagates
INVARIANT GenPrint
CHECK_DEADLOCK FALSE
