--------------------------- MODULE ArtifactPack ---------------------------
(* Binary artifact packing / extraction / verification of Bob, property C08.

   Three parts, selected by the variable `part` (constant Parts says which are explored):

   (i)   "tree"    abstract tree algebra: the case space of workspace trees that are packed with the
                   real TarHelper._pack and extracted again (round trip fidelity is decided by the
                   driver on real bytes; TLA+ supplies the exhaustive case space).
   (ii)  "extract" the EXTRACTOR STATE MACHINE: a hostile member sequence is processed one member
                   per action under the rules the code implements
                     pym/bob/archive.py  TarHelper._extract 156-161, __extractPackage 128-154
                     pym/bob/utils.py    _tarExtractFilter 869-887
                     CPython 3.12 tarfile._extract_member / makefile / makedir / makelink / makedev
                     pym/bob/builder.py  _downloadPackage 1609-1620 (audit presence, result hash)
                   over an abstract file system; P: Confined.
   (iii) "corrupt" corruption classes of a valid artifact, what the stream reader can make of them
                   (M, deliberately non-deterministic where bytes decide) and the verification the
                   builder performs afterwards; P: AcceptRule.

   M layer = one named action per rule of the code (file:line in comments).
   P layer = Confined, AcceptRule, RejectedNeverUsed at the end.
   mseq is the observation variable (member sequence) hidden by VIEW in the exhaustive configs.  *)
EXTENDS Naturals, Sequences, FiniteSets, TLC, Json

CONSTANTS Parts,        \* subset of {"tree","extract","corrupt"}
          MaxNodes,     \* (i) nodes per tree
          FullNodes,    \* (i) trees up to this size carry every mode/name-class combination ...
          MaxHostile,   \* (i) ... larger trees at most this many nodes with a non-default mode or name class
          MaxMembers,   \* (ii) members per hostile archive
          HardLinkRule, \* (ii) "prefix" = archive.py 136 as written (linkname must start with content/);
                        \*      "resolved" = the link target must resolve inside the workspace (a repaired extractor)
          Gen           \* TRUE: print every case as JSON (generation configs)

VARIABLES part,
          tree,                                                        \* (i)
          vsn, ws, touched, nm, dec, hasAudit, lastx, lastl, hm, mseq, \* (ii) (dec, hm also (iii))
          cls, xtree, xaudit                                           \* (iii)

vars  == <<part, tree, vsn, ws, touched, nm, dec, hasAudit, lastx, lastl, hm, mseq, cls, xtree, xaudit>>
view  == <<part, tree, vsn, ws, touched, nm, dec, hasAudit, lastx, lastl, hm, cls, xtree, xaudit>>

----------------------------------------------------------------------------
(* (i) tree algebra *)

Kinds       == {"file", "dir", "sym", "hlp"}       \* dir without children = empty directory; hlp = hard link pair
Modes       == {"ma", "mb"}                        \* file 0644/0750, dir 0755/0700, symlink: relative/escaping target
NameClasses == {"plain", "unicode", "shell", "dash", "space"}
Nodes       == [k : Kinds, m : Modes, n : NameClasses, p : 0..(MaxNodes - 1)]   \* p = index of parent dir, 0 = root

KindIx(k) == CASE k = "file" -> 0 [] k = "dir" -> 1 [] k = "sym" -> 2 [] k = "hlp" -> 3
NameIx(n) == CASE n = "plain" -> 0 [] n = "unicode" -> 1 [] n = "shell" -> 2 [] n = "dash" -> 3 [] n = "space" -> 4
Code(nd)  == KindIx(nd.k) * 10 + (IF nd.m = "ma" THEN 0 ELSE 5) + NameIx(nd.n)
Hostile(nd) == nd.n # "plain" \/ nd.m # "ma"
HostileCount(t) == Cardinality({i \in 1..Len(t) : Hostile(t[i])})
HostileBound(n) == IF n <= FullNodes THEN n ELSE MaxHostile

\* canonical (breadth first, siblings sorted) listing: every tree shape is generated at least once
Canonical(t) == \A i \in 1..Len(t) :
                  /\ t[i].p < i
                  /\ t[i].p > 0 => t[t[i].p].k = "dir"
                  /\ i > 1 => (t[i].p > t[i-1].p \/ (t[i].p = t[i-1].p /\ Code(t[i]) >= Code(t[i-1])))

AddNode(nd) ==
  /\ part = "tree" /\ Len(tree) < MaxNodes
  /\ LET t2 == Append(tree, nd) IN
       /\ Canonical(t2)
       /\ HostileCount(t2) <= HostileBound(Len(t2))
       /\ tree' = t2
  /\ UNCHANGED <<part, vsn, ws, touched, nm, dec, hasAudit, lastx, lastl, hm, mseq, cls, xtree, xaudit>>

----------------------------------------------------------------------------
(* (ii) extractor state machine

   Concrete meaning of the abstract names (instantiated by the driver), W = target workspace,
   D = dirname(W) (holds the audit file A = D/audit.json.gz), O = an absolute directory elsewhere:
     member names   cx    content/x            cl    content/l         clx  content/l/x
                    ch    content/h            cup   content/../victim cabs content//<O>/victim
                    abs   /<O>/victim          top   evil              metax meta/other
                    audit meta/audit.json.gz   cdir  content
     symlink targets  up ".."   absdir "<O>"   upfile "../victim"
     hard link names  cx content/x   cl content/l   cupfile content/../victim
                      meta meta/audit.json.gz       absfile /<O>/victim
     pre-existing outside files: D/victim (inode V), O/victim (inode OV)                        *)

M(t, n, l) == [t |-> t, n |-> n, l |-> l]
Alphabet ==
  { M("reg", "cx", "-"), M("reg", "cl", "-"), M("reg", "clx", "-"), M("reg", "ch", "-"),
    M("reg", "cup", "-"), M("reg", "cabs", "-"), M("reg", "abs", "-"), M("reg", "top", "-"),
    M("reg", "metax", "-"), M("reg", "audit", "-"), M("dir", "cdir", "-"), M("dir", "cl", "-"),
    M("sym", "cl", "up"), M("sym", "cl", "absdir"), M("sym", "cl", "upfile"),
    M("lnk", "ch", "cx"), M("lnk", "ch", "cupfile"), M("lnk", "ch", "meta"), M("lnk", "ch", "absfile"),
    M("lnk", "ch", "cl"), M("chr", "cx", "-"), M("sym", "audit", "upfile"), M("dir", "audit", "-") }

WsNames == {"x", "l", "lx", "h", "absin"}
E(ty, a) == [ty |-> ty, a |-> a]      \* ty: none/file/dir/sym/dev;  a: inode of a file, target of a symlink, else "-"
NoneE    == E("none", "-")
Versions == {"v1", "v0", "v2", "vnone"}

IsContent(n) == n \in {"cx", "cl", "clx", "ch", "cup", "cabs"}                  \* archive.py 134
Key(n) == CASE n = "cx" -> "x" [] n = "cl" -> "l" [] n = "clx" -> "lx" [] n = "ch" -> "h" [] n = "cabs" -> "absin"
               [] OTHER -> "x"
FreshIno(k) == CASE k = "x" -> "ix" [] k = "l" -> "il" [] k = "lx" -> "ilx" [] k = "h" -> "ih" [] OTHER -> "iabs"

\* utils.py 870-885: realpath(join(path, name)) leaves the destination. A leading "/" is stripped first (874-876),
\* so cabs stays inside. All symlink targets of the grammar point outside.
ResolvesOut(n) == \/ n = "cup"
                  \/ n \in {"cl", "clx"} /\ ws["l"].ty = "sym"
                  \/ n = "ch" /\ ws["h"].ty = "sym"

SymLoc(tgt) == CASE tgt = "up" -> "out:pdir" [] tgt = "absdir" -> "out:odir" [] OTHER -> "out:victim"
InoOut(i)   == i \in {"V", "OV"}
InoLoc(i)   == IF i = "V" THEN "out:victim" ELSE "out:ovictim"
\* tarfile.chown/chmod/utime on a workspace name follow symbolic links and act on the shared inode of hard links
AttrTouch(e) == IF e.ty = "file" /\ InoOut(e.a) THEN {InoLoc(e.a)}
                ELSE IF e.ty = "sym" THEN {SymLoc(e.a)} ELSE {}

\* archive.py 135-138 (as written: prefix test only) / repaired variant
LinkSrc(l) == CASE l = "cx" -> ws["x"] [] l = "cl" -> ws["l"] [] OTHER -> E("file", "V")
LinkRuleOK(l) == IF HardLinkRule = "prefix" THEN l \in {"cx", "cl", "cupfile"}
                 ELSE l \in {"cx", "cl"} /\ LinkSrc(l).ty # "sym"

Rule(m) == IF IsContent(m.n)
             THEN IF m.t = "lnk" /\ ~LinkRuleOK(m.l) THEN "badlink"
                  ELSE IF ResolvesOut(m.n) THEN "filter" ELSE "extract"
           ELSE IF m.n = "audit" THEN "audit"
           ELSE IF m.n = "cdir" THEN "pass" ELSE "unknown"

Running == part = "extract" /\ dec = "run" /\ nm < MaxMembers
Obs(m)  == mseq' = Append(mseq, m) /\ nm' = nm + 1
Keep23  == UNCHANGED <<part, tree, vsn, hm, cls, xtree, xaudit>>

\* archive.py 157-160: tarfileOpen reads the first header (incl. the global pax header), then
\* removePath(audit), removePath(content), makedirs(content); 129-130: version test
XStart(v) ==
  /\ part = "extract" /\ dec = "init"
  /\ vsn' = v /\ touched' = {"ws", "audit"}
  /\ dec' = IF v = "v1" THEN "run" ELSE "rej_vsn"
  /\ UNCHANGED <<part, tree, ws, nm, hasAudit, lastx, lastl, hm, mseq, cls, xtree, xaudit>>

\* archive.py 152-153
XUnknown(m) ==
  /\ Running /\ Rule(m) = "unknown" /\ Obs(m)
  /\ dec' = "rej_unknown"
  /\ UNCHANGED <<ws, touched, hasAudit, lastx, lastl>> /\ Keep23

\* archive.py 150-151
XPass(m) ==
  /\ Running /\ Rule(m) = "pass" /\ Obs(m)
  /\ UNCHANGED <<ws, touched, dec, hasAudit, lastx, lastl>> /\ Keep23

\* archive.py 146-149: extractfile + copy to the audit path (tarfile: StreamError for links in a stream,
\* None for members without data -> `with None` raises TypeError)
XAudit(m) ==
  /\ Running /\ Rule(m) = "audit" /\ Obs(m)
  /\ IF m.t = "reg" THEN /\ hasAudit' = TRUE /\ touched' = touched \cup {"audit"} /\ UNCHANGED dec
     ELSE /\ dec' = (IF m.t \in {"sym", "lnk"} THEN "rej_tar" ELSE "crash") /\ UNCHANGED <<hasAudit, touched>>
  /\ UNCHANGED <<ws, lastx, lastl>> /\ Keep23

\* archive.py 135-138
XBadLink(m) ==
  /\ Running /\ Rule(m) = "badlink" /\ Obs(m)
  /\ dec' = "rej_badlink"
  /\ UNCHANGED <<ws, touched, hasAudit, lastx, lastl>> /\ Keep23

\* utils.py 883-885
XFilter(m) ==
  /\ Running /\ Rule(m) = "filter" /\ Obs(m)
  /\ dec' = "rej_filter"
  /\ UNCHANGED <<ws, touched, hasAudit, lastx, lastl>> /\ Keep23

\* tarfile._extract_member 2401-2406: missing upper directories are created; an upper "directory" that is a
\* file makes the member fail with ENOTDIR (OSError, errorlevel=1 -> raised)
UpperOK(k) == k # "lx" \/ ws["l"].ty \in {"none", "dir"}
WithUpper(k) == IF k = "lx" /\ ws["l"].ty = "none" THEN [ws EXCEPT !["l"] = E("dir", "-")] ELSE ws
Track(m) == /\ lastx' = (IF m.n = "cx" THEN m.t ELSE lastx)
            /\ lastl' = (IF m.n = "cl" THEN m.t ELSE lastl)

\* archive.py 140-142 + tarfile.makefile: open(target, "wb") writes through an existing hard link
XReg(m) ==
  /\ Running /\ Rule(m) = "extract" /\ m.t = "reg" /\ Obs(m)
  /\ LET k == Key(m.n)  e == ws[k] IN
       IF ~UpperOK(k) \/ e.ty = "dir"
         THEN /\ dec' = "rej_oserror" /\ UNCHANGED <<ws, touched, lastx, lastl>>
         ELSE /\ ws' = (IF e.ty = "none" THEN [WithUpper(k) EXCEPT ![k] = E("file", FreshIno(k))] ELSE ws)
              /\ touched' = touched \cup AttrTouch(e)
              /\ Track(m) /\ UNCHANGED dec
  /\ UNCHANGED hasAudit /\ Keep23

\* tarfile.makedir: mkdir, EEXIST ignored; chmod/utime on whatever is there
XDir(m) ==
  /\ Running /\ Rule(m) = "extract" /\ m.t = "dir" /\ Obs(m)
  /\ LET k == Key(m.n)  e == ws[k] IN
       /\ ws' = (IF e.ty = "none" THEN [ws EXCEPT ![k] = E("dir", "-")] ELSE ws)
       /\ touched' = touched \cup AttrTouch(e)
  /\ Track(m) /\ UNCHANGED <<dec, hasAudit>> /\ Keep23

\* tarfile.makelink (symbolic): unlink what is there, symlink(); the target is NOT examined by any rule.
\* On a directory unlink fails -> fallback searches the whole stream for the target -> StreamError at next()
XSym(m) ==
  /\ Running /\ Rule(m) = "extract" /\ m.t = "sym" /\ Obs(m)
  /\ LET k == Key(m.n)  e == ws[k] IN
       IF e.ty = "dir"
         THEN /\ dec' = "rej_tar" /\ UNCHANGED <<ws, lastx, lastl>>
         ELSE /\ ws' = [ws EXCEPT ![k] = E("sym", m.l)] /\ Track(m) /\ UNCHANGED dec
  /\ UNCHANGED <<touched, hasAudit>> /\ Keep23

\* tarfile.makedev: mknod (needs CAP_MKNOD: both outcomes allowed), EEXIST -> OSError
XDev(m) ==
  /\ Running /\ Rule(m) = "extract" /\ m.t = "chr" /\ Obs(m)
  /\ LET k == Key(m.n)  e == ws[k] IN
       \/ /\ e.ty = "none" /\ ws' = [ws EXCEPT ![k] = E("dev", "-")] /\ Track(m) /\ UNCHANGED dec
       \/ /\ dec' = "rej_oserror" /\ UNCHANGED <<ws, lastx, lastl>>
  /\ UNCHANGED <<touched, hasAudit>> /\ Keep23

\* tarfile.makelink (hard): the link target exists -> os.link + chown/chmod/utime on the new name
XLink(m) ==
  /\ Running /\ Rule(m) = "extract" /\ m.t = "lnk" /\ Obs(m)
  /\ LET src == LinkSrc(m.l) IN
       /\ src.ty \notin {"none", "dir"} /\ ws["h"].ty = "none"
       /\ ws' = [ws EXCEPT !["h"] = src]
       /\ touched' = touched \cup AttrTouch(src)
  /\ UNCHANGED <<dec, hasAudit, lastx, lastl>> /\ Keep23

\* tarfile.makelink: target does not exist and is no earlier member -> KeyError escapes (not a BuildError)
XLinkMissing(m) ==
  /\ Running /\ Rule(m) = "extract" /\ m.t = "lnk" /\ Obs(m)
  /\ LinkSrc(m.l).ty = "none"
  /\ dec' = "crash"
  /\ UNCHANGED <<ws, touched, hasAudit, lastx, lastl>> /\ Keep23

\* tarfile.makelink: os.link fails (name exists / target is a directory) -> the latest earlier member of that name
\* is extracted onto the link name instead; finding it loads the whole stream, so that extraction ends with
\* StreamError at the next header at the latest. chown/chmod/utime of the link member are applied afterwards.
XLinkFallback(m) ==
  /\ Running /\ Rule(m) = "extract" /\ m.t = "lnk" /\ Obs(m)
  /\ LET src == LinkSrc(m.l)  e == ws["h"]
         found == CASE m.l = "cx" -> lastx [] m.l = "cl" -> lastl [] OTHER -> "none" IN
       /\ src.ty # "none" /\ (src.ty = "dir" \/ e.ty # "none")
       /\ CASE found = "chr" /\ e.ty # "none" ->         \* mknod: EEXIST
                 (dec' = "rej_oserror" /\ UNCHANGED <<ws, touched>>)
            [] found = "dir" ->                          \* mkdir (EEXIST ignored) + attributes
                 (/\ dec' = "rej_tar"
                  /\ ws' = (IF e.ty = "none" THEN [ws EXCEPT !["h"] = E("dir", "-")] ELSE ws)
                  /\ touched' = touched \cup AttrTouch(e))
            [] found = "sym" ->                          \* unlink + symlink, then attributes THROUGH the new symlink
                 (/\ dec' = "rej_tar"
                  /\ ws' = [ws EXCEPT !["h"] = E("sym", ws["l"].a)]
                  /\ touched' = touched \cup {SymLoc(ws["l"].a)})
            [] OTHER ->                                  \* reg: seeking backwards in the stream; none: nothing found
                 (dec' = "rej_tar" /\ UNCHANGED <<ws, touched>>)
  /\ UNCHANGED <<hasAudit, lastx, lastl>> /\ Keep23

\* archive.py 132-133/154: end of archive (an archive without any member is refused when it is opened)
XEnd ==
  /\ part = "extract" /\ dec = "run" /\ nm >= 1
  /\ dec' = "extracted"
  /\ UNCHANGED <<part, tree, vsn, ws, touched, nm, hasAudit, lastx, lastl, hm, mseq, cls, xtree, xaudit>>

\* builder.py 1613-1614
BNoAudit ==
  /\ part = "extract" /\ dec = "extracted" /\ ~hasAudit
  /\ dec' = "rej_noaudit"
  /\ UNCHANGED <<part, tree, vsn, ws, touched, nm, hasAudit, lastx, lastl, hm, mseq, cls, xtree, xaudit>>

\* builder.py 1618-1620: the audit of a hostile archive may or may not carry the hash of what was extracted
BHash(match) ==
  /\ part = "extract" /\ dec = "extracted" /\ hasAudit
  /\ hm' = (IF match THEN "match" ELSE "mismatch")
  /\ dec' = (IF match THEN "accepted" ELSE "rej_hash")
  /\ UNCHANGED <<part, tree, vsn, ws, touched, nm, hasAudit, lastx, lastl, mseq, cls, xtree, xaudit>>

----------------------------------------------------------------------------
(* (iii) corruption of a valid artifact

   trunc: empty (0 bytes), gzhdr (cut inside the gzip header), body (cut before everything up to the padded end
          of the last member can be inflated), tail (cut later: end-of-archive blocks, padding, CRC32/ISIZE)
   flip:  one bit in: magic (ID1 ID2 CM), gzflags (FLG), gzmeta (MTIME XFL OS FNAME), deflate start/middle/end
          thirds, trailer (CRC32 ISIZE)
   format: garbage, gzip of a non-tar, zip, ustar tar.gz without the pax version header, the same tar
          uncompressed / xz-compressed (both are read transparently by mode "r|*")
   mismatch: well-formed artifact whose content differs from what its audit trail describes              *)

CorruptClasses ==
  {<<"trunc", z>> : z \in {"empty", "gzhdr", "body", "tail"}} \cup
  {<<"flip", r>> : r \in {"magic", "gzflags", "gzmeta", "dstart", "dmid", "dend", "trailer"}} \cup
  {<<"format", f>> : f \in {"garbage", "gznontar", "zip", "ustar", "plaintar", "xztar"}} \cup
  {<<"mismatch", w>> : w \in {"filechanged", "fileadded", "fileremoved", "modechanged", "auditswapped"}}

R(r, t, a) == [r |-> r, t |-> t, a |-> a]
Err   == {R("error", "-", "-")}
Crash == {R("crash", "-", "-")}
Same  == {R("ok", "same", "same")}
\* the tar stream reader (tarfile "r|*", errorlevel=1) neither reads nor checks the gzip trailer; a stream that
\* ends at a header position is taken as end of archive; the audit member is itself a gzip file whose CRC
\* is checked by Audit.fromFile -> a changed audit payload is unreadable, never silently different
AnyDecode == Err \cup Crash \cup {R("ok", t, a) : t \in {"same", "diff"}, a \in {"same", "unreadable", "missing"}}
ReadOutcomes(c) ==
  CASE c = <<"trunc", "empty">> -> Err
    [] c = <<"trunc", "gzhdr">> -> Err \cup Crash
    [] c = <<"trunc", "body">>  -> Err \cup {R("ok", "diff", a) : a \in {"same", "missing"}}
                                   \cup Same    \* only the entry of the workspace root itself is cut off
    [] c = <<"trunc", "tail">>  -> Same
    [] c = <<"flip", "magic">>  -> Err
    [] c = <<"flip", "gzflags">> -> Err \cup Crash \cup Same
    [] c = <<"flip", "gzmeta">> -> Err \cup Same
    [] c = <<"flip", "trailer">> -> Same
    [] c[1] = "flip" /\ c[2] \in {"dstart", "dmid", "dend"} -> AnyDecode
    [] c[1] = "format" /\ c[2] \in {"plaintar", "xztar"} -> Same
    [] c[1] = "format" /\ c[2] \notin {"plaintar", "xztar"} -> Err
    [] c = <<"mismatch", "auditswapped">> -> {R("ok", "same", "other")}
    [] OTHER -> {R("ok", "diff", "same")}

CChoose(c) ==
  /\ part = "corrupt" /\ dec = "init"
  /\ cls' = c /\ dec' = "fetched"
  /\ UNCHANGED <<part, tree, vsn, ws, touched, nm, hasAudit, lastx, lastl, hm, mseq, xtree, xaudit>>

\* archive.py 456-463: Tee + _extract; tarfile.TarError/OSError -> BuildError
CRead(o) ==
  /\ part = "corrupt" /\ dec = "fetched" /\ o \in ReadOutcomes(cls)
  /\ xtree' = o.t /\ xaudit' = o.a
  /\ dec' = (CASE o.r = "ok" -> "extracted" [] o.r = "error" -> "rej_extract" [] OTHER -> "crash")
  /\ UNCHANGED <<part, tree, vsn, ws, touched, nm, hasAudit, lastx, lastl, hm, mseq, cls>>

\* builder.py 1613-1614
CNoAudit ==
  /\ part = "corrupt" /\ dec = "extracted" /\ xaudit = "missing"
  /\ dec' = "rej_noaudit"
  /\ UNCHANGED <<part, tree, vsn, ws, touched, nm, hasAudit, lastx, lastl, hm, mseq, cls, xtree, xaudit>>

\* builder.py 1619 Audit.fromFile: gzip CRC / JSON errors -> ParseError
CAuditUnreadable ==
  /\ part = "corrupt" /\ dec = "extracted" /\ xaudit = "unreadable"
  /\ dec' = "rej_audit"
  /\ UNCHANGED <<part, tree, vsn, ws, touched, nm, hasAudit, lastx, lastl, hm, mseq, cls, xtree, xaudit>>

\* builder.py 1618-1620: hashWorkspace == audit result hash. Assumption: the directory hash separates the trees.
\* The original audit carries the hash of the packed tree, a swapped one the hash of some other tree.
CHash ==
  /\ part = "corrupt" /\ dec = "extracted" /\ xaudit \in {"same", "other"}
  /\ hm' = (IF xaudit = "same" /\ xtree = "same" THEN "match" ELSE "mismatch")
  /\ dec' = (IF hm' = "match" THEN "accepted" ELSE "rej_hash")
  /\ UNCHANGED <<part, tree, vsn, ws, touched, nm, hasAudit, lastx, lastl, mseq, cls, xtree, xaudit>>

----------------------------------------------------------------------------
Init ==
  /\ part \in Parts
  /\ tree = <<>>
  /\ vsn = "-" /\ ws = [k \in WsNames |-> NoneE] /\ touched = {} /\ nm = 0 /\ dec = "init"
  /\ hasAudit = FALSE /\ lastx = "none" /\ lastl = "none" /\ hm = "na" /\ mseq = <<>>
  /\ cls = <<"none", "-">> /\ xtree = "-" /\ xaudit = "-"

Next ==
  \/ \E nd \in Nodes : AddNode(nd)
  \/ \E v \in Versions : XStart(v)
  \/ \E m \in Alphabet : \/ XUnknown(m) \/ XPass(m) \/ XAudit(m) \/ XBadLink(m) \/ XFilter(m)
                         \/ XReg(m) \/ XDir(m) \/ XSym(m) \/ XDev(m)
                         \/ XLink(m) \/ XLinkMissing(m) \/ XLinkFallback(m)
  \/ XEnd \/ BNoAudit \/ \E b \in BOOLEAN : BHash(b)
  \/ \E c \in CorruptClasses : CChoose(c)
  \/ \E o \in AnyDecode \cup {R("ok", "same", "other")} : CRead(o)
  \/ CNoAudit \/ CAuditUnreadable \/ CHash

Spec == Init /\ [][Next]_vars

----------------------------------------------------------------------------
(* P layer *)

Decisions == {"init", "run", "fetched", "extracted", "accepted", "crash", "rej_vsn", "rej_unknown", "rej_badlink",
              "rej_filter", "rej_oserror", "rej_tar", "rej_noaudit", "rej_hash", "rej_extract", "rej_audit"}
TypeOK ==
  /\ part \in Parts /\ dec \in Decisions /\ nm \in 0..MaxMembers /\ Len(tree) <= MaxNodes
  /\ \A k \in WsNames : ws[k].ty \in {"none", "file", "dir", "sym", "dev"}
  /\ Canonical(tree)

\* no archive member, however named or linked, creates or modifies a path outside {workspace, audit file}
Confined == touched \subseteq {"ws", "audit"}

\* an artifact is used as package result only with the packed tree and the unchanged audit trail
AcceptRule == (part = "corrupt" /\ dec = "accepted") => (xtree = "same" /\ xaudit = "same")

\* a hostile archive becomes a package result only through both builder checks
RejectedNeverUsed == (part = "extract" /\ dec = "accepted") => (vsn = "v1" /\ hasAudit /\ hm = "match")

\* vacuity companions (negated reachability; each must be VIOLATED)
ReachSymlinkThenWrite == ~(part = "extract" /\ dec = "rej_filter" /\ ws["l"].ty = "sym" /\ nm >= 2)
ReachHostileAccepted  == ~(part = "extract" /\ dec = "accepted" /\ nm = MaxMembers /\ ws["l"].ty = "sym")
ReachHashReject       == ~(part = "corrupt" /\ dec = "rej_hash" /\ cls[1] = "flip")
ReachDeepTree         == ~(part = "tree" /\ Len(tree) = MaxNodes /\ tree[Len(tree)].p = Len(tree) - 1 /\ MaxNodes > 1)

----------------------------------------------------------------------------
(* generation: every tree, every finished hostile sequence, every corruption outcome as one JSON line *)
Final == dec \notin {"init", "run", "fetched", "extracted"}
Case ==
  CASE part = "tree" -> [part |-> "tree", nodes |-> tree]
    [] part = "extract" -> [part |-> "extract", vsn |-> vsn, members |-> mseq, hm |-> hm, dec |-> dec,
                            touched |-> touched, ws |-> ws, hasAudit |-> hasAudit]
    [] OTHER -> [part |-> "corrupt", cls |-> cls, dec |-> dec, xtree |-> xtree, xaudit |-> xaudit]
GenPrint == (Gen /\ (part = "tree" \/ Final)) => PrintT(<<"@@", ToJson(Case)>>)

=============================================================================
