SPECIFICATION Spec
CONSTANTS DepNames = {"da", "db"}  MaxDeps = 2  Emit = TRUE
INVARIANT TypeOK
INVARIANT CarryForward
INVARIANT WeakLikeStrong
INVARIANT OnlyDeclared
INVARIANT FingerprintSubset
INVARIANT NoHostLeak
INVARIANT PreserveShowsAll
INVARIANT DeclaredWins
INVARIANT WhitelistMonotone
INVARIANT WhitelistRules
INVARIANT VisibleMonotoneInE
INVARIANT ArgsShape
INVARIANT ToolCarryForward
INVARIANT LibPathComplete
INVARIANT VisibleByProfile
INVARIANT MountsSound
INVARIANT ModeTable
INVARIANT DocMatchesCode
INVARIANT EmitCase
CHECK_DEADLOCK FALSE
