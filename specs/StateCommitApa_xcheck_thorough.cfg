SPECIFICATION Spec
CONSTANTS MaxSnap = 6  MaxInv = 4  MaxCrash = 3  MaxAsync = 2  Weak = "none"
INVARIANT TypeOK
INVARIANT LoadNeverErrors
INVARIANT LoadsSavedSnapshot
INVARIANT NotOlderThanCompleted
INVARIANT SingleWriter
INVARIANT PickleDurable
INVARIANT IndInv
CHECK_DEADLOCK FALSE
