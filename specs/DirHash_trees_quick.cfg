\* enumeration of a smaller tree universe for the content-exactness (bucket) check, quick tier
INIT InitTrees
NEXT Next
CONSTANTS Contents = {1, 2}  Modes = {1, 2}  NewContents = {1, 2}  NewModes = {1, 2}
           Targets = {1}  DirModes = {1, 2}
          Bases = {1}  MaxOps = 0  MaxBurst = 1  Gen = FALSE
INVARIANT TreePrint
CHECK_DEADLOCK FALSE
