SPECIFICATION Spec
CONSTANTS MaxEdit = 2  MaxInv = 3  MaxKill = 0  MaxFail = 0  GenDepth = 0
CONSTANT Flags = {"plain"}
CONSTANT Weak = {"DigestIgnoresVars"}
VIEW view
CONSTRAINT CexPrint
CHECK_DEADLOCK FALSE
