\* vacuity control: ReachFingerprintDiffers must be VIOLATED
SPECIFICATION Spec
CONSTANTS Level = 1  Mode = "c03"  NOrd = 1  Gen = FALSE
CONSTRAINT WellFormed
INVARIANT ReachFingerprintDiffers
CHECK_DEADLOCK FALSE
