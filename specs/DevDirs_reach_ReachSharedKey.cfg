SPECIFICATION Spec
CONSTANTS Pkg <- PkgMulti  RecipeOf <- RecipeMulti  StrPrefix <- PrefixNone
CONSTANTS NV = 1  NS = 1  MaxLen = 2  MaxChg = 1  MaxNum = 2  GenDepth = 0  KeepRule = "prefix"
CONSTANT Weak = {}
VIEW viewL
INVARIANT ReachSharedKey
CHECK_DEADLOCK FALSE
