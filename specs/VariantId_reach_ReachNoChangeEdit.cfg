\* vacuity control: ReachNoChangeEdit must be VIOLATED
SPECIFICATION Spec
CONSTANTS Level = 1  Mode = "c02"  NOrd = 1  Gen = FALSE
CONSTRAINT WellFormed
INVARIANT ReachNoChangeEdit
CHECK_DEADLOCK FALSE
