SPECIFICATION Spec
CONSTANTS K = 4  N = 3  Recursive = FALSE  Rounds = 2  MaxChild = 2  MaxChildOps = 3  GenDepth = 0  FixHandover = FALSE
INVARIANT TypeOK
INVARIANT Bounded
INVARIANT Conservation
INVARIANT NoDuplication
INVARIANT QuiescentAllBack
INVARIANT NoCrash
INVARIANT NoOrphanWaiter
INVARIANT MechConsistent
