------------------------- MODULE TraceSharedStore -------------------------
(* Code -> spec: validates batches of event traces recorded from REAL OS processes
   (real blocking flock) that run use / install / gc / rm -rf loops of the real
   bob.share.LocalShare + LocalBuilder bookkeeping on one store (property C15)
   against SharedStore, the model of the code as it is (Weak = {"LinkAfterUnlock"}).

   One event per SharedStore action.  The recorder (checks/c15_trace.py) emits the
   event of an action at its linearization point:
     * lock acquisitions  after the real (blocking) flock returned,
     * lock releases      before the real flock(LOCK_UN),
     * everything else    atomically with the real file-system operation,
   always under a global recorder flock that hands out the sequence number, i.e. every
   event is written while the store lock that protects the change is held; traces are
   ordered by that number, never by time.  Every event carries actor p, build-id b and
   the cheap scalar state that the action determines or observes (result of isdir /
   islink / open / rename, length of the users list, number and size of the recorded
   packages, link targets).  They are bound to the model state *before* the action.
   No action of the model is unlogged, so no silent steps are needed; the last event
   ("End") binds the real store at quiescence (workspace links, visible packages).

   TRACE_FILE (env) = JSON array of traces [init |-> header, ev |-> array of events].
   Register 1: per trace the longest matched prefix (accepted iff = Len(ev)).
   Register 2: per trace the first state (matched prefix length) in which a P invariant
               of SharedStore is false, the names of the violated invariants and the
               history variables dangling / err / polviol that name the shape.
   Every P invariant is evaluated in every state of every matched behaviour (Track is a
   CONSTRAINT); InstalledOncePerBid, an action property, on every matched step.
   -workers 1; POSTCONDITION prints the registers.                                    *)
EXTENDS SharedStore, IOUtils, TLCExt

Traces == JsonDeserialize(IOEnv.TRACE_FILE)

VARIABLES tid, l

tvars == <<vars, tid, l>>

Tr == Traces[tid].ev
Hdr == Traces[tid].init
Cur == Tr[l]
P == Cur.p
IsEvent(e) == l <= Len(Tr) /\ Cur.e = e /\ Cur.p \in Procs /\ l' = l + 1 /\ tid' = tid
\* the operation in progress of the actor is about the logged build-id
OpB == Cur.b \in BIds /\ op[P].b = Cur.b
Big == 1000000
Unknown == 99
RepoN == Len(repo.seq)
RepoSize == SumSet(SeqToSet(repo.seq))
WsTag(w) == IF w[1] = "link" THEN w[2] ELSE w[1]

NoViol == [at |-> 0, inv |-> {}, dangling |-> {}, err |-> {}, polviol |-> {}]

TrackInit == /\ TLCSet(1, [i \in 1..Len(Traces) |-> 0])
             /\ TLCSet(2, [i \in 1..Len(Traces) |-> NoViol])

\* the initial store is the one the harness has set up through the real API (header of the trace)
TraceInit ==
  /\ TrackInit
  /\ tid \in 1..Len(Traces) /\ l = 1
  /\ quota = Hdr.quota
  /\ repoLock = NoLock /\ pkgLock = [b \in BIds |-> NoLock]
  /\ claim = [p \in Procs |-> NONE]
  /\ pc = [p \in Procs |-> "idle"] /\ op = [p \in Procs |-> IdleOp] /\ loc = [p \in Procs |-> NoLoc]
  /\ todo = [p \in Procs |-> Big] /\ total = 0 /\ nunlink = 0
  /\ err = {} /\ dangling = {} /\ polviol = {} /\ stable = [p \in Procs |-> {}] /\ stale = {}
  /\ ninst = 2
  /\ sdir = TRUE
  /\ repo = IF Hdr.kind = "emptydir" THEN NoRepo ELSE [st |-> "map", seq |-> Hdr.repo, mt |-> FALSE]
  /\ pkg = [b \in BIds |-> IF InSeq(b, Hdr.repo)
                             THEN [vis |-> TRUE, inst |-> Size(b), users |-> <<>>, ok |-> TRUE, complete |-> TRUE, mt |-> FALSE]
                             ELSE NoPkg]
  /\ order = Hdr.order
  /\ ws = [p \in Procs |-> NONE]
  /\ hist = <<>>

\* InstalledOncePerBid on this very step
StepProps ==
  \/ \A b \in BIds : (pkg[b].vis /\ pkg'[b].vis) => pkg'[b].inst = pkg[b].inst
  \/ (IF TLCGet(2)[tid].at = 0
        THEN TLCSet(2, [TLCGet(2) EXCEPT ![tid] = [NoViol EXCEPT !.at = l, !.inv = {"InstalledOncePerBid"}]])
        ELSE TRUE)

TraceNext ==
  /\ \/ IsEvent("StartUse") /\ Cur.b \in BIds /\ StartUse(P, Cur.b)
     \/ IsEvent("StartInst") /\ Cur.b \in BIds /\ StartInst(P, Cur.b, Cur.mv, FALSE)
     \/ IsEvent("StartGc") /\ StartGc(P, FALSE, Cur.pn)
     \/ IsEvent("Unlink") /\ Unlink(P)
     \* useSharedPackage
     \/ IsEvent("U_OpenRepo") /\ OpB /\ (repo.st # "none") = Cur.ok /\ U_OpenRepo(P)
     \/ IsEvent("U_LockRepo") /\ OpB /\ U_LockRepo(P)
     \/ IsEvent("U_OpenPkg") /\ OpB /\ pkg[Cur.b].vis = Cur.ok /\ U_OpenPkg(P)
     \/ IsEvent("U_LockPkg") /\ OpB /\ U_LockPkg(P)
     \/ IsEvent("U_IsDir") /\ OpB /\ pkg[Cur.b].vis = Cur.res /\ U_IsDir(P)
     \/ IsEvent("U_Register") /\ OpB /\ (~InSeq(P, pkg[Cur.b].users)) = Cur.new /\ U_Register(P)
     \/ IsEvent("U_UnlockPkg") /\ OpB /\ (Cur.nusers = Unknown \/ Len(pkg[Cur.b].users) = Cur.nusers) /\ U_UnlockPkg(P)
     \/ IsEvent("U_ClosePkg") /\ OpB /\ U_ClosePkg(P)
     \/ IsEvent("U_UnlockRepo") /\ OpB /\ (loc[P].fail = "") = Cur.reg /\ U_UnlockRepo(P)
     \* builder bookkeeping
     \/ IsEvent("B_Prune") /\ OpB /\ B_Prune(P)
     \/ IsEvent("B_Link") /\ OpB /\ pkg[Cur.b].vis = Cur.there /\ B_Link(P)
     \/ IsEvent("B_Unshare") /\ OpB /\ B_Unshare(P)
     \* installSharedPackage
     \/ IsEvent("I_Quick") /\ OpB /\ pkg[Cur.b].vis = Cur.res /\ I_Quick(P)
     \/ IsEvent("R_Touch") /\ OpB /\ R_Touch(P)
     \/ IsEvent("I_MkDirs") /\ OpB /\ I_MkDirs(P)
     \/ IsEvent("I_Prepare") /\ OpB /\ I_Prepare(P)
     \/ IsEvent("I_Meta") /\ OpB /\ I_Meta(P)
     \/ IsEvent("I_Rename") /\ OpB /\ (~pkg[Cur.b].vis) = Cur.ok /\ I_Rename(P)
     \/ IsEvent("A_Open") /\ OpB /\ (repo.st # "none") = Cur.ok /\ A_Open(P)
     \/ IsEvent("A_Create") /\ OpB /\ (repo.st = "none") = Cur.ok /\ A_Create(P)
     \/ IsEvent("A_Open2") /\ OpB /\ A_Open2(P)
     \/ IsEvent("A_LockC") /\ OpB /\ A_LockC(P)
     \/ IsEvent("A_Lock") /\ OpB /\ A_Lock(P)
     \/ IsEvent("A_Unlock") /\ OpB /\ RepoN = Cur.n /\ RepoSize = Cur.size /\ A_Unlock(P)
     \/ IsEvent("A_Close") /\ OpB /\ A_Close(P)
     \* gc (stand-alone or automatic)
     \/ IsEvent("G_IsDir") /\ (repo.st # "none") = Cur.res /\ G_IsDir(P)
     \/ IsEvent("G_OpenRepo") /\ (repo.st # "none") = Cur.ok /\ G_OpenRepo(P)
     \/ IsEvent("G_LockRepo") /\ G_LockRepo(P)
     \/ IsEvent("G_OpenPkg") /\ pc[P] = "g_openpkg" /\ Head(loc[P].scan) = Cur.b /\ pkg[Cur.b].vis = Cur.ok /\ G_OpenPkg(P)
     \/ IsEvent("G_LockPkg") /\ pc[P] = "g_lockpkg" /\ loc[P].cur = Cur.b /\ Len(pkg[Cur.b].users) = Cur.nusers /\ G_LockPkg(P)
     \/ IsEvent("G_IsLink") /\ pc[P] = "g_islink" /\ Head(loc[P].us) = Cur.u /\ IsLink(ws[Cur.u]) = Cur.res /\ G_IsLink(P)
     \/ IsEvent("G_ReadLink") /\ pc[P] = "g_readlink" /\ Head(loc[P].us) = Cur.u /\ WsTag(ws[Cur.u]) = Cur.tb /\ G_ReadLink(P)
     \/ IsEvent("G_UnlockPkg") /\ pc[P] = "g_unlockpkg" /\ loc[P].cur = Cur.b /\ G_UnlockPkg(P)
     \/ IsEvent("G_Remove") /\ pc[P] = "g_remove" /\ NextCand(loc[P].cands).b = Cur.b /\ G_Remove(P)
     \/ IsEvent("G_UnlockRepo") /\ RepoN = Cur.n /\ RepoSize = Cur.size /\ G_UnlockRepo(P)
     \/ IsEvent("G_Close") /\ G_Close(P)
     \* the real store at quiescence
     \/ /\ l <= Len(Tr) /\ Cur.e = "End" /\ l' = l + 1 /\ tid' = tid
        /\ Quiescent
        /\ \A p \in Procs : WsTag(ws[p]) = Cur.ws[p]
        /\ Visible = SeqToSet(Cur.vis)
        /\ (IF repo.st = "none" THEN Unknown ELSE RepoN) = Cur.n
        /\ UNCHANGED vars
  /\ StepProps

TraceSpec == TraceInit /\ [][TraceNext]_tvars

\* the P layer of SharedStore, by name
PInv == << <<"TypeOK", TypeOK>>, <<"VisibleIsComplete", VisibleIsComplete>>, <<"HashMatches", HashMatches>>,
           <<"NoDanglingUse", NoDanglingUse>>, <<"NoDanglingInst", NoDanglingInst>>, <<"NoDanglingLost", NoDanglingLost>>,
           <<"NoDanglingLinked", NoDanglingLinked>>, <<"NoDanglingUnregistered", NoDanglingUnregistered>>,
           <<"NoDanglingDuring", NoDanglingDuring>>, <<"NoDanglingLinkToCollected", NoDanglingLinkToCollected>>,
           <<"NoGcFailEmptyStore", NoGcFailEmptyStore>>, <<"NoJsonFailureGc", NoJsonFailureGc>>,
           <<"NoJsonFailureInstall", NoJsonFailureInstall>>, <<"NoJsonFailureUse", NoJsonFailureUse>>,
           <<"NoInspectFailure", NoInspectFailure>>, <<"SizeAccounting", SizeAccounting>>,
           <<"AutoCleanPolicy", AutoCleanPolicy>>, <<"LocksFreeAtQuiescence", LocksFreeAtQuiescence>>,
           <<"NoLockDeadlock", NoLockDeadlock>> >>
Violated == {PInv[i][1] : i \in {j \in 1..Len(PInv) : ~PInv[j][2]}}

\* evaluated on every reachable state (as a CONSTRAINT): longest prefix per trace, first P violation per trace
Track ==
  /\ TLCSet(1, [TLCGet(1) EXCEPT ![tid] = IF @ < l - 1 THEN l - 1 ELSE @])
  /\ IF Violated # {} /\ TLCGet(2)[tid].at = 0
       THEN TLCSet(2, [TLCGet(2) EXCEPT ![tid] = [at |-> l - 1, inv |-> Violated, dangling |-> dangling,
                                                  err |-> err, polviol |-> polviol]])
       ELSE TRUE

Report == PrintT(<<"@@", ToJson([matched |-> TLCGet(1), viol |-> TLCGet(2)])>>)
=============================================================================
