SPECIFICATION TraceSpec
CONSTANTS MaxSnap = 100000  MaxInv = 100000  MaxCrash = 100000  MaxAsync = 100  GenDepth = 0
CONSTRAINT Track
INVARIANT LoadNeverErrors
INVARIANT LoadsSavedSnapshot
INVARIANT NotOlderThanCompleted
INVARIANT SingleWriter
INVARIANT PickleDurable
POSTCONDITION Report
CHECK_DEADLOCK FALSE
