SPECIFICATION Spec
CONSTANTS MaxEdit = 1  MaxInv = 3  GenDepth = 0
CONSTANT Weak = {}
VIEW view
INVARIANT ReachRebuildAfterFp
CHECK_DEADLOCK FALSE
