\* vacuity control: ReachUseBlockedByGc is a negated reachability statement and must be VIOLATED
SPECIFICATION Spec
CONSTANTS Procs = {"A", "B"}  BIds = {"b1"}  MaxOps = 1  MaxTotal = 2
CONSTANT OpKinds = {"use", "gcA"}
CONSTANT Quotas = {99}
CONSTANT InitKinds = {"pop"}
CONSTANT InitPerm = FALSE  MaxUnlink = 0  Gen = FALSE
CONSTANT Weak = {}
VIEW view
INVARIANT ReachUseBlockedByGc
CHECK_DEADLOCK FALSE
