SPECIFICATION Spec
CONSTANTS Pkg <- PkgMulti  RecipeOf <- RecipeMulti  StrPrefix <- PrefixNone
CONSTANTS NV = 2  NS = 1  MaxLen = 2  MaxChg = 2  MaxNum = 3  GenDepth = 0  KeepRule = "always"
CONSTANT Weak = {}
VIEW view
PROPERTY Stable
INVARIANT Injective
INVARIANT Assigned
CHECK_DEADLOCK FALSE
INVARIANT TypeOK
INVARIANT EmptiedBeforeReuse
PROPERTY CleanOnlyGarbage
PROPERTY NoUpToDateResultLost
