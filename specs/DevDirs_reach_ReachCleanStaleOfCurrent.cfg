SPECIFICATION Spec
CONSTANTS Pkg <- PkgOne  RecipeOf <- RecipeOne  StrPrefix <- PrefixNone
CONSTANTS NV = 2  NS = 1  MaxLen = 1  MaxChg = 2  MaxNum = 2  GenDepth = 0  KeepRule = "prefix"
CONSTANT Weak = {}
VIEW viewL
INVARIANT ReachCleanStaleOfCurrent
CHECK_DEADLOCK FALSE
