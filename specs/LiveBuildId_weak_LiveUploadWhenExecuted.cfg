SPECIFICATION Spec
CONSTANTS MaxOps = 5  MaxHead = 1  GenDepth = 0
CONSTANT Weak = {"LiveUploadWhenExecuted"}
VIEW view
CONSTRAINT CexPrint
CHECK_DEADLOCK FALSE
