SPECIFICATION Spec
CONSTANTS DepNames = {"da", "db"}  MaxDeps = 2  Emit = FALSE
INVARIANT ReachWeakFingerprint
CHECK_DEADLOCK FALSE
