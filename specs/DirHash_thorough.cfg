\* thorough exhaustive: every sequence of <= 4 modifications from the two base trees with sub-directory / link+dir
INIT Init
NEXT Next
CONSTANTS Contents = {1, 2, 3}  Modes = {1, 2}  NewContents = {1, 3}  NewModes = {1}
           Targets = {1}  DirModes = {1}
          Bases = {3, 5}  MaxOps = 4  MaxBurst = 1  Gen = FALSE
VIEW view
INVARIANT TypeOK
INVARIANT CacheTransparent
INVARIANT IndexSorted
INVARIANT IndexNeverLies
INVARIANT OutSorted
CHECK_DEADLOCK FALSE
