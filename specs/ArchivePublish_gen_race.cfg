SPECIFICATION Spec
CONSTANTS
  Uploaders = {"U1", "U2"}
  Mirrors = {"M1"}
  Readers = {"R1"}
  Archives = {"A", "B"}
  UpArchives = {"A"}
  Kinds = {"pkg"}
  MirrorSrc = "A"
  MirrorDst = "B"
  N = 2
  UseChmod = TRUE
  Drain = TRUE
  PkgReplace = FALSE
  MaxFault = 2
  MaxCrash = 2
  Planned = TRUE
  GenDepth = 32
ACTION_CONSTRAINT GenBias
INVARIANT GenPrint
CHECK_DEADLOCK FALSE
