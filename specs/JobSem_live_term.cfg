SPECIFICATION LiveSpec
CONSTANTS K = 3  N = 2  Recursive = FALSE  Rounds = 2  MaxChild = 1  MaxChildOps = 2  GenDepth = 0  FixHandover = FALSE
PROPERTY WaiterServed
PROPERTY Termination
