SPECIFICATION Spec
CONSTANTS K = 3  N = 1  Recursive = TRUE  Rounds = 2  MaxChild = 1  MaxChildOps = 2  GenDepth = 40  FixHandover = FALSE
INVARIANT GenPrint
CHECK_DEADLOCK FALSE
