SPECIFICATION SpecRelMode
CONSTANTS Pkg <- PkgMulti  RecipeOf <- RecipeMulti  StrPrefix <- PrefixNone
CONSTANTS NV = 3  NS = 2  MaxLen = 3  MaxChg = 6  MaxNum = 6  GenDepth = 16  KeepRule = "prefix"
CONSTANT Weak = {}
INVARIANT GenPrint
CHECK_DEADLOCK FALSE
