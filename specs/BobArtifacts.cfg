SPECIFICATION Spec
CONSTANTS MaxEdit = 1  MaxInv = 3  GenDepth = 0
CONSTANT Weak = {}
VIEW view
INVARIANT DownloadEqLocal
INVARIANT FullReuse
INVARIANT ArchiveSound
PROPERTY NeverOverwrite
CHECK_DEADLOCK FALSE
