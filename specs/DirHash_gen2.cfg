\* generation: exhaustive enumeration of every behaviour with 2 modifications (hash after each)
INIT Init
NEXT Next
CONSTANTS Contents = {1, 2, 3}  Modes = {1, 2}  NewContents = {1, 2, 3}  NewModes = {1, 2}
           Targets = {1}  DirModes = {1}
          Bases = {1, 2, 3, 4, 5, 6}  MaxOps = 2  MaxBurst = 1  Gen = TRUE
INVARIANT GenPrint
CHECK_DEADLOCK FALSE
