--------------------------- MODULE ArchivePublish ---------------------------
(* Publish protocol of Bob's file archive (pym/bob/archive.py), property C09.

   Name space: every archive (directory) has one artifact name per kind for the
   ONE build-id under consideration:  <<a, "pkg">>  (.../xx/yy/<id>-1.tgz, never
   overwritten) and <<a, "meta">> (.../<id>-1.buildid, overwritable).
   Files are inodes named after the process that created them (every writer
   creates at most one):  wr[w] = number of chunks written (0..N), closed[w] =
   the writer closed it, pay[w] = payload it carries.  art[n] = inode linked
   under the artifact name n ("-" = nothing), tmp = set of writers whose
   temporary name still exists in the archive directory.

   M layer = one action per file-system operation of the code, in code order
   (line numbers of archive.py in comments).  P layer = the invariants and the
   action property at the end.  hist is an observation variable for behaviour
   generation (hidden by VIEW in the exhaustive configs).

   Weakening constants (only used by the vacuity configs, the real design has
   Drain = TRUE, PkgReplace = FALSE):
     Drain      = the cache mirror holds the whole source before it is committed
     PkgReplace = packages are published with replace() like metadata files     *)
EXTENDS Naturals, Sequences, FiniteSets, TLC, Json

CONSTANTS Uploaders,    \* process names (strings) of uploaders
          Mirrors,      \* cache-mirroring downloaders
          Readers,      \* readers
          Archives,     \* archive names (strings)
          UpArchives,   \* archives an uploader may choose
          Kinds,        \* kinds an uploader may choose, subset of {"pkg", "meta"}
          MirrorSrc, MirrorDst,
          N,            \* chunks per file
          UseChmod,     \* fileMode configured (archive.py 839-840)
          Drain, PkgReplace,
          MaxFault, MaxCrash,
          Planned,      \* generation mode: the behaviour's fault / crash point is chosen in Init (see Plans)
          GenDepth      \* behaviour length in generation mode (0 = no printing)

VARIABLES art, tmp, wr, closed, pay, tgt, pc, pub, rino, robs, fleft, cleft, plan, hist

vars == <<art, tmp, wr, closed, pay, tgt, pc, pub, rino, robs, fleft, cleft, plan, hist>>
view == <<art, tmp, wr, closed, pay, tgt, pc, pub, rino, robs, fleft, cleft, plan>>

Writers == Uploaders \cup Mirrors
Procs   == Writers \cup Readers
Names   == Archives \X {"pkg", "meta"}
NoName  == <<"-", "-">>

Complete(w) == wr[w] = N

\* the history is only kept in generation mode (GenDepth > 0)
\* (last conjunct of every action: obs is the abstract content of the archives after the step)
Obs == {<<n[1], n[2], pay'[art'[n]], wr'[art'[n]] = N>> : n \in {m \in Names : art'[m] # "-"}}
H(p, op, a, k) == hist' = IF GenDepth > 0 THEN Append(hist, [p |-> p, op |-> op, a |-> a, k |-> k, obs |-> Obs]) ELSE hist

FaultPcs == {"mktemp", "write", "close", "chmod", "link", "replace", "unlink", "eclose", "eunlink"}
LivePcs  == FaultPcs \cup {"exists"}

(* Generation mode (Planned): instead of "a fault/crash may strike anywhere" (exhaustive configs) the
   initial state fixes at most one fault point and one crash point <<process, pc, chunk>>, so that a
   random walk visits every point equally often; GenBias (an ACTION_CONSTRAINT of the generation
   configs) then forces the planned event when its point is reached. *)
NoP    == <<"-", "-", 0>>
Points(pcs) == {NoP} \cup {<<p, c, n>> \in Writers \X pcs \X (0..(N-1)) : n = 0 \/ c = "write"}
Plans  == IF Planned THEN [f : Points(FaultPcs), c : Points(LivePcs)] ELSE {[f |-> NoP, c |-> NoP]}
At(p)  == <<p, pc[p], IF pc[p] = "write" THEN wr[p] ELSE 0>>

Init ==
  /\ plan \in Plans
  /\ art = [n \in Names |-> "-"]
  /\ tmp = {}
  /\ wr = [w \in Writers |-> 0]
  /\ closed = [w \in Writers |-> FALSE]
  /\ pay = [w \in Writers |-> IF w \in Uploaders THEN w ELSE "-"]
  /\ tgt = [w \in Writers |-> NoName]
  /\ pc = [p \in Procs |-> "idle"]
  /\ pub = [w \in Writers |-> FALSE]
  /\ rino = [r \in Readers |-> "-"]
  /\ robs = [r \in Readers |-> "none"]
  /\ fleft \in IF Planned THEN {IF plan.f = NoP THEN 0 ELSE 1} ELSE 0..MaxFault   \* fault / crash budget of the behaviour
  /\ cleft \in IF Planned THEN {IF plan.c = NoP THEN 0 ELSE 1} ELSE 0..MaxCrash
  /\ hist = <<>>

----------------------------------------------------------------------------
(* Uploader: BaseArchive._uploadPackage 537-556 / _uploadLocalFile 570-589,
   LocalArchive._openUploadFile 774-790, LocalArchiveUploader.__exit__ 835-861 *)

\* uploadPackage(step, buildId, ...) on archive a, or upload of a metadata file
Start(p, a, k) ==
  /\ p \in Uploaders /\ pc[p] = "idle"
  /\ tgt' = [tgt EXCEPT ![p] = <<a, k>>]
  /\ pc' = [pc EXCEPT ![p] = IF k = "pkg" THEN "exists" ELSE "mktemp"]   \* 776: overwrite => no check
  /\ UNCHANGED <<art, tmp, wr, closed, pay, pub, rino, robs, fleft, cleft, plan>>
  /\ H(p, "Start", a, k)

\* 776-777: if not overwrite and os.path.isfile(dest): raise ArtifactExistsError  (-> "skipped", 545-546 / 428-429)
Exists(p) ==
  /\ p \in Writers /\ pc[p] = "exists"
  /\ pc' = [pc EXCEPT ![p] = IF art[tgt[p]] # "-" THEN "skipped" ELSE "mktemp"]
  /\ UNCHANGED <<art, tmp, wr, closed, pay, tgt, pub, rino, robs, fleft, cleft, plan>>
  /\ H(p, "Exists", "", "")

\* 780-790: isdir / makedirs(exist_ok) / NamedTemporaryFile(dir=dest dir, delete=False)
MkTemp(p) ==
  /\ p \in Writers /\ pc[p] = "mktemp"
  /\ tmp' = tmp \cup {p}
  /\ pc' = [pc EXCEPT ![p] = "write"]
  /\ UNCHANGED <<art, wr, closed, pay, tgt, pub, rino, robs, fleft, cleft, plan>>
  /\ H(p, "MkTemp", "", "")

\* 544 _pack -> gzip/tar writes; 579 writeFileOrHandle; mirror: MirrorLeecher.read 725-739 -> MirrorWriter.write 707-708
Write(p) ==
  /\ p \in Writers /\ pc[p] = "write" /\ wr[p] < N
  /\ wr' = [wr EXCEPT ![p] = @ + 1]
  /\ pc' = [pc EXCEPT ![p] = IF wr[p] + 1 = N THEN "close" ELSE "write"]
  /\ UNCHANGED <<art, tmp, closed, pay, tgt, pub, rino, robs, fleft, cleft, plan>>
  /\ H(p, "Write", "", "")

\* Tee.__exit__ 682-697 when the extractor is done although the source was not read to its end
\* (tarfile stops at the end-of-archive blocks).  Excluded by the intended design (Drain).
Stop(p) ==
  /\ p \in Mirrors /\ pc[p] = "write" /\ wr[p] >= 1 /\ ~Drain
  /\ pc' = [pc EXCEPT ![p] = "close"]
  /\ UNCHANGED <<art, tmp, wr, closed, pay, tgt, pub, rino, robs, fleft, cleft, plan>>
  /\ H(p, "Stop", "", "")

PublishPc(p) == IF tgt[p][2] = "meta" \/ PkgReplace THEN "replace" ELSE "link"

\* 836: self.tmp.close()   (commit path: 710-713 MirrorWriter.commit)
Close(p) ==
  /\ p \in Writers /\ pc[p] = "close"
  /\ closed' = [closed EXCEPT ![p] = TRUE]
  /\ pc' = [pc EXCEPT ![p] = IF UseChmod THEN "chmod" ELSE PublishPc(p)]
  /\ UNCHANGED <<art, tmp, wr, pay, tgt, pub, rino, robs, fleft, cleft, plan>>
  /\ H(p, "Close", "", "")

\* 839-840: os.chmod(tmp, fileMode)
Chmod(p) ==
  /\ p \in Writers /\ pc[p] = "chmod"
  /\ pc' = [pc EXCEPT ![p] = PublishPc(p)]
  /\ UNCHANGED <<art, tmp, wr, closed, pay, tgt, pub, rino, robs, fleft, cleft, plan>>
  /\ H(p, "Chmod", "", "")

\* 848-851: os.link(tmp, dest); FileExistsError -> lost race
Link(p) ==
  /\ p \in Writers /\ pc[p] = "link"
  /\ IF art[tgt[p]] = "-"
       THEN /\ art' = [art EXCEPT ![tgt[p]] = p] /\ pub' = [pub EXCEPT ![p] = TRUE]
       ELSE UNCHANGED <<art, pub, plan>>
  /\ pc' = [pc EXCEPT ![p] = "unlink"]
  /\ UNCHANGED <<tmp, wr, closed, pay, tgt, rino, robs, fleft, cleft, plan>>
  /\ H(p, "Link", "", "")

\* 842-843: os.replace(tmp, dest)   (overwritable metadata files)
Replace(p) ==
  /\ p \in Writers /\ pc[p] = "replace"
  /\ art' = [art EXCEPT ![tgt[p]] = p]
  /\ tmp' = tmp \ {p}
  /\ pub' = [pub EXCEPT ![p] = TRUE]
  /\ pc' = [pc EXCEPT ![p] = "done"]
  /\ UNCHANGED <<wr, closed, pay, tgt, rino, robs, fleft, cleft, plan>>
  /\ H(p, "Replace", "", "")

\* 852-853: finally: os.unlink(tmp)
Unlink(p) ==
  /\ p \in Writers /\ pc[p] = "unlink"
  /\ tmp' = tmp \ {p}
  /\ pc' = [pc EXCEPT ![p] = "done"]
  /\ UNCHANGED <<art, wr, closed, pay, tgt, pub, rino, robs, fleft, cleft, plan>>
  /\ H(p, "Unlink", "", "")

\* error path, 836 + 859-860 (__exit__ with an exception; MirrorWriter.abort 715-718): close, unlink
EClose(p) ==
  /\ p \in Writers /\ pc[p] = "eclose"
  /\ closed' = [closed EXCEPT ![p] = TRUE]
  /\ pc' = [pc EXCEPT ![p] = "eunlink"]
  /\ UNCHANGED <<art, tmp, wr, pay, tgt, pub, rino, robs, fleft, cleft, plan>>
  /\ H(p, "EClose", "", "")

EUnlink(p) ==
  /\ p \in Writers /\ pc[p] = "eunlink"
  /\ tmp' = tmp \ {p}
  /\ pc' = [pc EXCEPT ![p] = "failed"]
  /\ UNCHANGED <<art, wr, closed, pay, tgt, pub, rino, robs, fleft, cleft, plan>>
  /\ H(p, "EUnlink", "", "")

----------------------------------------------------------------------------
(* Cache-mirroring downloader: BaseArchive._downloadPackage 436-469 with caches = [MirrorDst],
   LocalArchiveDownloader 813-825, Tee 660-697, cachePackage 425-434 (= _openUploadFile of MirrorDst).
   After MOpen it runs the uploader's actions Exists .. Unlink on <<MirrorDst, "pkg">>. *)

\* 816: open(src name, "rb"); FileNotFoundError -> artifact not found
MOpen(p) ==
  /\ p \in Mirrors /\ pc[p] = "idle"
  /\ LET s == art[<<MirrorSrc, "pkg">>] IN
       IF s = "-"
         THEN /\ pc' = [pc EXCEPT ![p] = "notfound"] /\ UNCHANGED <<pay, tgt, plan>>
         ELSE /\ pc' = [pc EXCEPT ![p] = "exists"]
              /\ pay' = [pay EXCEPT ![p] = pay[s]]
              /\ tgt' = [tgt EXCEPT ![p] = <<MirrorDst, "pkg">>]
  /\ UNCHANGED <<art, tmp, wr, closed, pub, rino, robs, fleft, cleft, plan>>
  /\ H(p, "MOpen", "", "")

----------------------------------------------------------------------------
(* Reader: opens what is under a name (keeps the inode), reads it later *)

ROpen(r, n) ==
  /\ r \in Readers /\ pc[r] = "idle"
  /\ rino' = [rino EXCEPT ![r] = art[n]]
  /\ pc' = [pc EXCEPT ![r] = IF art[n] = "-" THEN "done" ELSE "opened"]
  /\ UNCHANGED <<art, tmp, wr, closed, pay, tgt, pub, robs, fleft, cleft, plan>>
  /\ H(r, "ROpen", n[1], n[2])

RRead(r) ==
  /\ r \in Readers /\ pc[r] = "opened"
  /\ robs' = [robs EXCEPT ![r] = IF Complete(rino[r]) /\ closed[rino[r]] THEN "ok" ELSE "bad"]
  /\ pc' = [pc EXCEPT ![r] = "done"]
  /\ UNCHANGED <<art, tmp, wr, closed, pay, tgt, pub, rino, fleft, cleft, plan>>
  /\ H(r, "RRead", "", "")

----------------------------------------------------------------------------
(* environment *)

\* I/O error (OSError) raised by the pending operation; the code's error path runs:
\*   mktemp            -> nothing created, upload fails
\*   write             -> with-block left with exception: __exit__ closes and unlinks the temp file
\*   link (not EEXIST) -> finally: unlink
\*   close/chmod/replace/unlink/eclose/eunlink -> exception leaves __exit__, temp file stays
AfterFault(at) == CASE at = "write" -> "eclose"
                    [] at = "link"  -> "eunlink"
                    [] OTHER        -> "failed"

Fault(p) ==
  /\ p \in Writers /\ fleft > 0 /\ pc[p] \in FaultPcs
  /\ Planned => plan.f = At(p)
  /\ fleft' = fleft - 1
  /\ pc' = [pc EXCEPT ![p] = AfterFault(pc[p])]
  /\ UNCHANGED <<art, tmp, wr, closed, pay, tgt, pub, rino, robs, cleft, plan>>
  /\ H(p, "Fault", pc[p], "")

\* kill -9: the process vanishes at the pending operation, its temp file stays
Crash(p) ==
  /\ p \in Writers /\ cleft > 0 /\ pc[p] \in LivePcs
  /\ Planned => plan.c = At(p)
  /\ cleft' = cleft - 1
  /\ pc' = [pc EXCEPT ![p] = "crashed"]
  /\ UNCHANGED <<art, tmp, wr, closed, pay, tgt, pub, rino, robs, fleft, plan>>
  /\ H(p, "Crash", pc[p], "")

FinalPcs == {"done", "skipped", "failed", "crashed", "notfound"}

\* every process has run and is finished (stuttering keeps generated behaviours at one length)
Done == (\A p \in Procs : pc[p] \in FinalPcs) /\ UNCHANGED vars

Next ==
  \/ \E p \in Uploaders, a \in UpArchives, k \in Kinds : Start(p, a, k)
  \/ \E p \in Writers : Exists(p) \/ MkTemp(p) \/ Write(p) \/ Stop(p) \/ Close(p) \/ Chmod(p) \/ Link(p)
                        \/ Replace(p) \/ Unlink(p) \/ EClose(p) \/ EUnlink(p) \/ Fault(p) \/ Crash(p)
  \/ \E p \in Mirrors : MOpen(p)
  \/ \E r \in Readers : RRead(r) \/ \E n \in Names : ROpen(r, n)
  \/ Done

Spec == Init /\ [][Next]_vars

----------------------------------------------------------------------------
(* P layer *)

TypeOK ==
  /\ \A n \in Names : art[n] \in Writers \cup {"-"}
  /\ tmp \subseteq Writers
  /\ \A w \in Writers : wr[w] \in 0..N
  /\ \A p \in Procs : pc[p] \in FinalPcs \cup LivePcs \cup {"idle", "opened"}

\* a reader finds under the artifact name either nothing or a complete artifact
Atomic == \A n \in Names : art[n] # "-" => Complete(art[n])

\* what is under an artifact name is not a file somebody still writes to
NoTempUnderName == \A n \in Names : art[n] # "-" => closed[art[n]]

\* an artifact that is present is never replaced or modified by a later package upload
NeverOverwrite ==
  [][\A n \in Names : (n[2] = "pkg" /\ art[n] # "-") =>
        /\ art'[n] = art[n]
        /\ wr'[art[n]] = wr[art[n]]
        /\ pay'[art[n]] = pay[art[n]]]_vars

\* an upload that failed (or was killed) before its publish operation leaves nothing under a name
FailedLeavesNothing ==
  \A p \in Writers : (pc[p] \in {"failed", "crashed", "eclose", "eunlink"} /\ ~pub[p]) => \A n \in Names : art[n] # p

\* whatever a reader opened it reads completely (also when it was replaced in between)
ReaderOK == \A r \in Readers : robs[r] # "bad"

\* temporary names outlive their writer only after a kill or an error raised while cleaning up
NoTempLeft == \A p \in tmp : pc[p] \notin {"done", "skipped", "notfound", "idle"}

\* the mirror is a copy of what the source held when it was opened
MirrorFaithful == \A p \in Mirrors : (art[<<MirrorDst, "pkg">>] = p) => pay[p] \in Uploaders

----------------------------------------------------------------------------
(* vacuity companions (negated reachability; each must be VIOLATED) *)
ReachLostRace      == ~(\E p \in Writers : pc[p] = "unlink" /\ ~pub[p])
ReachMirrorCommit  == ~(art[<<MirrorDst, "pkg">>] \in Mirrors /\ MirrorDst # MirrorSrc)
ReachMirrorLost    == ~(\E p \in Mirrors : pc[p] = "unlink" /\ ~pub[p])
ReachMetaReplaced  == ~(\E p, q \in Uploaders : p # q /\ pub[p] /\ pub[q] /\ tgt[p] = tgt[q] /\ tgt[p][2] = "meta")
ReachFaultCleanup  == ~(\E p \in Writers : pc[p] = "failed" /\ p \notin tmp /\ wr[p] > 0)
ReachCrashTemp     == ~(\E p \in Writers : pc[p] = "crashed" /\ p \in tmp /\ \E q \in Writers : q # p /\ pub[q] /\ tgt[q] = tgt[p])

----------------------------------------------------------------------------
(* generation *)
\* ACTION_CONSTRAINT of the generation configs: force the planned fault / crash at its point; let the
\* mirror and the reader open only when there is something to find or nobody can publish any more
GenBias ==
  /\ \A p \in Writers :
        ((pc'[p] # pc[p] \/ wr'[p] # wr[p]) /\ ((fleft > 0 /\ plan.f = At(p)) \/ (cleft > 0 /\ plan.c = At(p))))
          => (fleft' < fleft \/ cleft' < cleft)
  /\ \A m \in Mirrors : (pc[m] = "idle" /\ pc'[m] # "idle") =>
        (art[<<MirrorSrc, "pkg">>] # "-" \/ \A u \in Uploaders : pc[u] \in FinalPcs)
  /\ \A r \in Readers : (pc[r] = "idle" /\ pc'[r] # "idle") =>
        (rino'[r] # "-" \/ \A w \in Writers : pc[w] \in FinalPcs)

(* print the history of every behaviour of length GenDepth *)
GenPrint == (GenDepth > 0 /\ TLCGet("level") = GenDepth) => PrintT(<<"@@", ToJson(hist)>>)

=============================================================================
