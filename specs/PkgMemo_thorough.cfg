SPECIFICATION Spec
CONSTANTS MaxEdits = 2  MaxInv = 3  MaxDrop = 1  MaxRequery = 1  MtimeEdits = FALSE  GenDepth = 0
CONSTANT Weak = {}
VIEW view
INVARIANT TypeOK
INVARIANT MemoSound
INVARIANT DiskSound
CHECK_DEADLOCK FALSE
