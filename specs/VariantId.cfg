\* C02 quick: all single edits of the quick catalogue of base projects; every state printed for the replay
SPECIFICATION Spec
CONSTANTS Level = 1  Mode = "c02"  NOrd = 1  Gen = TRUE
CONSTRAINT WellFormed
INVARIANT TypeOK
INVARIANT RevertRestores
INVARIANT Propagates
INVARIANT GenPrint
CHECK_DEADLOCK FALSE
