SPECIFICATION Spec
CONSTANTS MaxSnap = 4  MaxInv = 3  MaxCrash = 2  MaxAsync = 2  Weak = "none"
INVARIANT TypeOK
INVARIANT LoadNeverErrors
INVARIANT LoadsSavedSnapshot
INVARIANT NotOlderThanCompleted
INVARIANT SingleWriter
INVARIANT PickleDurable
INVARIANT IndInv
CHECK_DEADLOCK FALSE
