------------------------------ MODULE PkgMemo ------------------------------
(* Package-graph caches of Bob (pym/bob/input.py, pym/bob/pathspec.py), property C04:
   the package graph is the same whether it is served from the caches or recomputed.

   Abstract project (rendered into a real project by checks/c04_pkgmemo.py):
     root -> top1, top2 ;  top_i -> lib, mid, box, tag ;  mid -> [lib] [, extra if the sandbox is on]
     box -> iso with `inherit: false` (iso must see no tool, whatever is ambient around box)
     tag: metaEnvironment FLAVOUR = ${B} (and a `use: []` dependency under if: ${B}); B is not
          used by its steps
     top1 hands down the root environment, tool cc variant 1, no sandbox;
     top2 hands down the root environment with ONE variable flipped, tool variant ttool
          and (tsb = 1) a sandbox.  tld = 1 / 2: top1 / top2 also hands down a tool ld
          that nobody uses (the SETS of ambient tools differ).
   Files (content = tuple of small numbers, <<>> = file absent):
     default <<a>>   default.yaml: A            req  <<b>>   require:d yaml: B (b = 2: B is NOT SET)
     user    <<b, s>> OPTIONAL include: B, and (s = 1) an scmOverrides entry that rewrites the
                     checkout of lib            inc  <<iv>>  script include of lib ($<'..'>)
     cls     <<cv>>  class of lib (cv = 1: lib also reads B)
     lib     <<lv>>  lv = 0: reads A, reads B only if A = 1, uses tool cc only if A = 0
                     lv = 1: reads B, reads A only if B = 1, always uses tool cc
     mid     <<mv>>  mv = 1: depends on lib only if A = 1 (reads A)
     top     <<tv, ttool, tsb, tld>>  tv = 0: top2 flips B for its dependencies (unset -> 1), tv = 1:
                     flips A; ttool = 3: top1 hands down NO tool cc (tool value 0), top2 variant 2
   def = <<>> | <<a>> : -D A=a (or -c config) given on the command line.

   M layer, transcribed from the code:
     Env.touched / touchReset / touch        stringparser.py 434-437, 567-575
     Recipe.prepare lookup + touch propagation  input.py 2522-2533   (LookupHit/LookupMiss)
     prepare body                                input.py 2535-2918   (ComputeBegin, CallDep)
     remember + sharing by result id             input.py 2920-2933, PackageMatcher 3120-3151
     YamlCache.loadYaml / loadBinary             input.py 4452-4495   (LoadYaml*, LoadBinary)
     generatePackages cache key                  input.py 4366-4375   (CacheKey)
     __generatePackages pickle                   input.py 4316-4350   (PickleHit/Miss/Store)
     PkgGraphNode.init (.bob-tree.sqlite3)       pathspec.py 580-604  (TreeHit/TreeMiss)
   P layer: MemoSound, DiskSound (end of module).
   Weak: documented weakenings; their counterexamples become targeted replay histories.
     NoTouchOnHit          a memo hit does not touch the keys of the reused package in the caller
     MemoIgnoresTools      the memo key leaves out the touched tools
     MemoIgnoresSandbox    the memo key leaves out the sandbox
     MemoIgnoresUnsetTouched  the memo key keeps only touched variables / tools that were DEFINED
                           (touched-but-unset is forgotten: unset on the path visited first, set later)
     DiffNamesAmbientTools AS THE CODE STANDS: the reference to an `inherit: false` dependency names
                           the tools that were ambient when the package was first computed
     ByIdIgnoresMeta       AS THE CODE STANDS: packages are shared by the result id of the package
                           step, which does not cover metaEnvironment / unused dependencies
     KeyIgnoresDefines     cache key without the -D overrides
     KeyIgnoresInclude     cache key without the digest of the optional include
     KeyIgnoresBinary      cache key without the digests of script includes (loadBinary)
     KeyIgnoresSandbox     cache key without the sandbox flag
     YamlMtimeOnly         yaml rows are valid when the mtime is unchanged
     Weak = {} is the mechanism of the repaired code (mutants/fix_c04_*.diff).
   hist: observation variable (hidden by VIEW in exhaustive configs).               *)
EXTENDS Naturals, Integers, Sequences, FiniteSets, TLC, Json

CONSTANTS MaxEdits,     \* bound on project edits (incl. command line changes)
          MaxInv,       \* bound on Bob invocations (processes)
          MaxDrop,      \* bound on "user deletes one cache file"
          MaxRequery,   \* second query inside the same process
          MtimeEdits,   \* TRUE: edits that keep the mtime (cp -p, checkout within the granularity) exist
          Weak,         \* set of weakenings
          GenDepth

VARIABLES content, stat, def,               \* project files + command line
          yaml, pkgPickle, treeDb,          \* on-disk caches
          inv,                              \* control state of the running invocation
          data, digs, key, tree, graph,     \* per-process: parsed yaml, file digests, cache key, results
          matchers, byId, tchE, tchT, stack, \* per-process: memo tables, packages by result id, touched
                                            \* stacks, prepare() frames
          memoOK, diskOK,
          nedits, ninv, ndrop, since,
          hist

proj == <<content, stat, def>>
disk == <<yaml, pkgPickle, treeDb>>
proc == <<data, digs, key, tree, graph>>
memo == <<matchers, byId, tchE, tchT, stack>>
ok   == <<memoOK, diskOK>>
vars == <<content, stat, def, yaml, pkgPickle, treeDb, inv, data, digs, key, tree, graph,
          matchers, byId, tchE, tchT, stack, memoOK, diskOK, nedits, ninv, ndrop, since, hist>>
view == <<content, stat, def, yaml, pkgPickle, treeDb, inv, data, digs, key, tree, graph,
          matchers, byId, tchE, tchT, stack, memoOK, diskOK, nedits, ninv, ndrop, since>>

Vals   == {0, 1}
YFiles == {"default", "req", "user", "cls", "lib", "mid", "top"}
BFiles == {"inc"}
Files  == YFiles \cup BFiles
LoadOrder == <<"default", "req", "user", "cls", "inc", "lib", "mid", "top">>
R      == {"root", "top1", "top2", "mid", "lib", "box", "tag"}
EmptyF == [k \in {} |-> 0]
Blank  == [f \in Files |-> <<>>]
Zero   == [r \in R |-> 0]

InitContent == [f \in Files |->
   CASE f = "default" -> <<1>> [] f = "req" -> <<0>> [] f = "user" -> <<>> [] f = "cls" -> <<0>>
     [] f = "inc" -> <<0>> [] f = "lib" -> <<0>> [] f = "mid" -> <<0>> [] f = "top" -> <<0, 1, 0, 0>>]

----------------------------------------------------------------------------
(* meaning of the project: pure functions of the parsed data d *)

LV(d) == d["lib"][1]
CV(d) == d["cls"][1]
IV(d) == d["inc"][1]
MV(d) == d["mid"][1]
TV(d) == d["top"][1]
TTool(d) == d["top"][2]
TSb(d) == d["top"][3]
TLd(d) == d["top"][4]
\* a setting of the optional include that is NOT visible in the root environment
SO(d) == IF d["user"] # <<>> THEN d["user"][2] ELSE 0

\* RecipeSet.__parse 3974-3982: default env, overridden by included files, then by -D
RootEnv(d, df) ==
  [A |-> IF df # <<>> THEN df[1] ELSE d["default"][1],
   B |-> IF d["user"] # <<>> THEN d["user"][1] ELSE d["req"][1]]
RootInp(d, df) == [env |-> RootEnv(d, df), tool |-> 0, sb |-> 0, amb |-> {}]

\* environment keys a recipe reads itself: DEPENDS ON VALUES (if: guarded entries)
ReadsE(d, r, inp) ==
  CASE r = "lib"  -> (IF LV(d) = 0 THEN {"A"} \cup (IF inp.env.A = 1 THEN {"B"} ELSE {})
                                   ELSE {"B"} \cup (IF inp.env.B = 1 THEN {"A"} ELSE {}))
                     \cup (IF CV(d) = 1 THEN {"B"} ELSE {})
    [] r = "mid"  -> IF MV(d) = 1 THEN {"A"} ELSE {}
    [] r = "top2" -> IF TV(d) = 0 THEN {"B"} ELSE {"A"}
    [] r = "tag"  -> {"B"}
    [] OTHER      -> {}
\* lib asks $(is-tool-defined,cc) (touches cc, present or not) and uses the tool if it is there
UsesTool(d, r, inp) == r = "lib" /\ inp.tool # 0 /\ (LV(d) = 1 \/ inp.env.A = 0)
ReadsT(d, r, inp) == IF r = "lib" THEN {"cc"} ELSE {}
T1Tool(d) == IF TTool(d) = 3 THEN 0 ELSE 1
T2Tool(d) == IF TTool(d) = 3 THEN 2 ELSE TTool(d)
Unset == 2

Call(r, inp) == [r |-> r, inp |-> inp]
Deps(d, r, inp) ==
  CASE r = "root" -> << Call("top1", inp), Call("top2", inp) >>
    [] r = "top1" -> LET i1 == [env |-> inp.env, tool |-> T1Tool(d), sb |-> 0,
                                 amb |-> (IF T1Tool(d) # 0 THEN {"cc"} ELSE {}) \cup (IF TLd(d) = 1 THEN {"ld"} ELSE {})]
                     IN << Call("lib", i1), Call("mid", i1), Call("box", i1), Call("tag", i1) >>
    [] r = "top2" -> LET e  == IF TV(d) = 0 THEN [inp.env EXCEPT !.B = IF @ = 1 THEN 0 ELSE 1]
                                               ELSE [inp.env EXCEPT !.A = 1 - @]
                         i2 == [env |-> e, tool |-> T2Tool(d), sb |-> TSb(d),
                                 amb |-> {"cc"} \cup (IF TLd(d) = 2 THEN {"ld"} ELSE {})]
                     IN << Call("lib", i2), Call("mid", i2), Call("box", i2), Call("tag", i2) >>
    [] r = "mid"  -> IF MV(d) = 0 \/ inp.env.A = 1 THEN << Call("lib", inp) >> ELSE << >>
    [] OTHER      -> << >>

\* the package computed by prepare() from its full inputs and the results of its dependencies
Mk(d, flag, r, inp, depres) ==
  [ r     |-> r,
    v     |-> CASE r = "lib" -> <<LV(d), CV(d), IV(d), SO(d)>> [] r = "mid" -> <<MV(d)>>
                [] r \in {"top1", "top2"} -> d["top"] [] OTHER -> <<>>,
    env   |-> IF r = "tag" THEN EmptyF ELSE [k \in ReadsE(d, r, inp) |-> inp.env[k]],   \* what the steps see
    tool  |-> IF UsesTool(d, r, inp) THEN inp.tool ELSE 0,
    sb    |-> IF flag /\ r # "root" THEN inp.sb ELSE 0,
    deps  |-> depres,
    extra |-> r = "mid" /\ flag /\ inp.sb = 1,       \* dependency under if: $(is-sandbox-enabled)
    iso   |-> {},                                     \* tools visible to the `inherit: false` dependency of box
    err   |-> FALSE,                                  \* dereferencing raises
    meta  |-> IF r = "tag" THEN inp.env.B ELSE 0 ]    \* metaEnvironment (+ unused dependency) of tag
NoRes == [r |-> "none", v |-> <<>>, env |-> EmptyF, tool |-> 0, sb |-> 0, deps |-> <<>>, extra |-> FALSE,
          iso |-> {}, err |-> FALSE, meta |-> 0]

RECURSIVE Recompute(_, _, _, _)
Recompute(d, flag, r, inp) ==
  LET ds == Deps(d, r, inp)
  IN Mk(d, flag, r, inp, [j \in 1..Len(ds) |-> Recompute(d, flag, ds[j].r, ds[j].inp)])

\* what .bob-tree.sqlite3 keeps: names and edges only (pathspec.py 673-701)
RECURSIVE Graph(_)
Graph(res) == [r |-> res.r, extra |-> res.extra, deps |-> [j \in 1..Len(res.deps) |-> Graph(res.deps[j])]]
NoGraph == [r |-> "none", extra |-> FALSE, deps |-> <<>>]

\* Results are pure functions of what they were computed from.  To keep states small a stored
\* package / tree / graph is represented by its PROVENANCE (the full inputs of the computation
\* that produced it); Val* give the value.  Equivalent to storing the value as long as every
\* memo hit so far was sound, and exploration stops at the first unsound one (Alive).
\* ValPkg = the Package obtained by dereferencing, under the inputs cur, the CorePackage computed under
\* the inputs src (CoreRef.refDeref, input.py 526-554).  The only part of a package that is kept as a
\* DIFF against its inputs and not recomputed at dereference time is the tool set of an
\* `inherit: false` dependency: as the code stands (Weak "DiffNamesAmbientTools", input.py 2607) the
\* diff names every tool that was ambient at computation time; the repaired mechanism clears all tools.
ValPkg(d, flag, r, src, cur) ==
  LET p == Recompute(d, flag, r, src)
  IN IF r = "box" /\ "DiffNamesAmbientTools" \in Weak
       THEN [p EXCEPT !.iso = cur.amb \ src.amb, !.err = ~(src.amb \subseteq cur.amb)]
       ELSE p
\* the key of Recipe.__corePackagesById (input.py 2922): as the code stands the result id of the package
\* step, which covers neither the metaEnvironment nor unused dependencies (Weak "ByIdIgnoresMeta");
\* the repaired mechanism keys on everything that makes up the package
PidOf(d, flag, r, src) ==
  LET p == Recompute(d, flag, r, src)
  IN IF "ByIdIgnoresMeta" \in Weak THEN [p EXCEPT !.meta = 0] ELSE p
ValTree(p) == Recompute(p.d, p.fl, "root", RootInp(p.d, p.df))
NoProv   == [d |-> Blank, df |-> <<>>, fl |-> FALSE]

NoKey    == [digs |-> [f \in Files |-> <<9>>], env |-> [A |-> 9, B |-> 9], sb |-> FALSE]
NoPickle == [key |-> NoKey, tree |-> NoProv]
NoTree   == [key |-> NoKey, graph |-> NoProv]
NoYaml   == [stat |-> <<0, 0>>, digest |-> <<>>, data |-> <<>>]
IdleInv  == [ph |-> "idle", flag |-> FALSE, n |-> 0, src |-> "none", tsrc |-> "none", yh |-> {},
             rq |-> 0, hits |-> Zero, comps |-> Zero]

H(e) == hist' = Append(hist, e)
Alive == memoOK /\ diskOK          \* nothing is explored beyond a violation

Init ==
  /\ content = InitContent /\ stat = [f \in Files |-> <<1, 1>>] /\ def = <<>>
  /\ yaml = [f \in YFiles |-> NoYaml] /\ pkgPickle = [b \in BOOLEAN |-> NoPickle] /\ treeDb = NoTree
  /\ inv = IdleInv
  /\ data = Blank /\ digs = Blank /\ key = NoKey /\ tree = NoProv /\ graph = NoProv
  /\ matchers = [r \in R |-> <<>>] /\ byId = [r \in R |-> <<>>]
  /\ tchE = << {} >> /\ tchT = << {} >> /\ stack = <<>>
  /\ memoOK = TRUE /\ diskOK = TRUE
  /\ nedits = 0 /\ ninv = 0 /\ ndrop = 0 /\ since = 0
  /\ hist = << [a |-> "Init", content |-> InitContent] >>

----------------------------------------------------------------------------
(* environment: edits of the project and of the command line, between invocations *)

\* generation mode only (GenDepth > 0): at most two edits between invocations, the first
\* invocation runs on the initial project, so that random walks alternate edits and queries
EditOK == /\ inv.ph = "idle" /\ nedits < MaxEdits /\ Alive
          /\ (GenDepth > 0 => (since < 2 /\ ninv > 0))
Since1 == since' = IF GenDepth > 0 THEN since + 1 ELSE since
Keeps  == IF MtimeEdits THEN BOOLEAN ELSE {FALSE}

\* every modification changes the stat data; keep = the mtime is preserved (size/ctime/inode still change)
SetContent(kind, f, c, keep) ==
  /\ content' = [content EXCEPT ![f] = c]
  /\ stat' = [stat EXCEPT ![f] = IF keep THEN <<@[1], @[2] + 1>> ELSE <<@[1] + 1, @[2] + 1>>]
  /\ nedits' = nedits + 1 /\ Since1
  /\ H([a |-> kind, f |-> f, c |-> c, keep |-> keep])
  /\ UNCHANGED <<def, disk, inv, proc, memo, ok, ninv, ndrop>>

Flip1(f) == <<1 - content[f][1]>>

EditRecipe ==
  /\ EditOK
  /\ \E keep \in Keeps :
       \/ SetContent("EditRecipe", "lib", Flip1("lib"), keep)
       \/ SetContent("EditRecipe", "mid", Flip1("mid"), keep)
       \/ LET t == content["top"]
          IN \E c \in { <<1 - t[1], t[2], t[3], t[4]>>, <<t[1], (t[2] % 3) + 1, t[3], t[4]>>,
                         <<t[1], ((t[2] + 1) % 3) + 1, t[3], t[4]>>, <<t[1], t[2], 1 - t[3], t[4]>>,
                         <<t[1], t[2], t[3], (t[4] + 1) % 3>>, <<t[1], t[2], t[3], (t[4] + 2) % 3>> } :
               SetContent("EditRecipe", "top", c, keep)

EditClass == EditOK /\ \E keep \in Keeps : SetContent("EditClass", "cls", Flip1("cls"), keep)

\* included files: the script include of lib, the require:d yaml, the optional yaml (when present)
EditInclude ==
  /\ EditOK
  /\ \E keep \in Keeps :
       \/ SetContent("EditInclude", "inc", Flip1("inc"), FALSE)
       \/ \E c \in { <<0>>, <<1>>, <<Unset>> } \ { content["req"] } : SetContent("EditInclude", "req", c, keep)
       \/ /\ content["user"] # <<>>
          /\ \E c \in { <<1 - content["user"][1], content["user"][2]>>, <<content["user"][1], 1 - content["user"][2]>> } :
               SetContent("EditInclude", "user", c, keep)

EditDefault == EditOK /\ \E keep \in Keeps : SetContent("EditDefault", "default", Flip1("default"), keep)

OptionalIncludeAppears ==
  /\ EditOK /\ content["user"] = <<>>
  /\ \E b \in Vals, s \in Vals : SetContent("OptionalIncludeAppears", "user", <<b, s>>, FALSE)

OptionalIncludeDisappears ==
  /\ EditOK /\ content["user"] # <<>>
  /\ SetContent("OptionalIncludeDisappears", "user", <<>>, FALSE)

\* -D A=a / -c config on the command line of all following invocations
SetDefine ==
  /\ EditOK
  /\ \E a \in Vals : /\ def # <<a>>
                     /\ def' = <<a>>
                     /\ H([a |-> "SetDefine", v |-> a])
  /\ nedits' = nedits + 1 /\ Since1
  /\ UNCHANGED <<content, stat, disk, inv, proc, memo, ok, ninv, ndrop>>

ClearDefine ==
  /\ EditOK /\ def # <<>>
  /\ def' = <<>> /\ nedits' = nedits + 1 /\ Since1
  /\ H([a |-> "ClearDefine"])
  /\ UNCHANGED <<content, stat, disk, inv, proc, memo, ok, ninv, ndrop>>

\* the user removes ONE of the cache files
DropCache ==
  /\ inv.ph = "idle" /\ ndrop < MaxDrop /\ Alive /\ ninv > 0
  /\ \E c \in {"yaml", "pickle", "tree"} :
       /\ yaml' = IF c = "yaml" THEN [f \in YFiles |-> NoYaml] ELSE yaml
       /\ pkgPickle' = IF c = "pickle" THEN [b \in BOOLEAN |-> NoPickle] ELSE pkgPickle
       /\ treeDb' = IF c = "tree" THEN NoTree ELSE treeDb
       /\ H([a |-> "DropCache", c |-> c])
  /\ ndrop' = ndrop + 1
  /\ UNCHANGED <<proj, inv, proc, memo, ok, nedits, ninv, since>>

----------------------------------------------------------------------------
(* one Bob invocation = one process *)

InvBegin ==
  /\ inv.ph = "idle" /\ ninv < MaxInv /\ Alive
  /\ \E fl \in BOOLEAN :
       /\ inv' = [IdleInv EXCEPT !.ph = "parse", !.flag = fl, !.n = 1]
       /\ H([a |-> "Invoke", sb |-> fl, def |-> def])
  /\ ninv' = ninv + 1 /\ since' = 0
  /\ UNCHANGED <<proj, disk, proc, memo, ok, nedits, ndrop>>

CurFile == LoadOrder[inv.n]
Parsing == Alive /\ inv.ph = "parse" /\ inv.n <= Len(LoadOrder)

\* YamlCache.loadYaml 4454-4461: row with the same name and the same stat data
StatMatch(s1, s2) == IF "YamlMtimeOnly" \in Weak THEN s1[1] = s2[1] ELSE s1 = s2

LoadYamlHit ==
  /\ Parsing /\ CurFile \in YFiles /\ content[CurFile] # <<>>
  /\ StatMatch(yaml[CurFile].stat, stat[CurFile])
  /\ data' = [data EXCEPT ![CurFile] = yaml[CurFile].data]
  /\ digs' = [digs EXCEPT ![CurFile] = yaml[CurFile].digest]
  /\ inv' = [inv EXCEPT !.n = @ + 1, !.yh = @ \cup {CurFile}]
  /\ UNCHANGED <<proj, disk, key, tree, graph, memo, ok, nedits, ninv, ndrop, since, hist>>

\* 4463-4480: read, parse, remember stat + digest + data
LoadYamlMiss ==
  /\ Parsing /\ CurFile \in YFiles /\ content[CurFile] # <<>>
  /\ ~StatMatch(yaml[CurFile].stat, stat[CurFile])
  /\ data' = [data EXCEPT ![CurFile] = content[CurFile]]
  /\ digs' = [digs EXCEPT ![CurFile] = content[CurFile]]
  /\ yaml' = [yaml EXCEPT ![CurFile] = [stat |-> stat[CurFile], digest |-> content[CurFile], data |-> content[CurFile]]]
  /\ inv' = [inv EXCEPT !.n = @ + 1]
  /\ UNCHANGED <<proj, pkgPickle, treeDb, key, tree, graph, memo, ok, nedits, ninv, ndrop, since, hist>>

\* 4484-4485: a missing file contributes nothing
LoadYamlAbsent ==
  /\ Parsing /\ CurFile \in YFiles /\ content[CurFile] = <<>>
  /\ data' = [data EXCEPT ![CurFile] = <<>>]
  /\ digs' = [digs EXCEPT ![CurFile] = <<>>]
  /\ inv' = [inv EXCEPT !.n = @ + 1]
  /\ UNCHANGED <<proj, disk, key, tree, graph, memo, ok, nedits, ninv, ndrop, since, hist>>

\* 4491-4495: script includes and plugins are always read; their digest is recorded
LoadBinary ==
  /\ Parsing /\ CurFile \in BFiles
  /\ data' = [data EXCEPT ![CurFile] = content[CurFile]]
  /\ digs' = [digs EXCEPT ![CurFile] = content[CurFile]]
  /\ inv' = [inv EXCEPT !.n = @ + 1]
  /\ UNCHANGED <<proj, disk, key, tree, graph, memo, ok, nedits, ninv, ndrop, since, hist>>

\* generatePackages 4366-4375
CacheKey ==
  /\ Alive /\ inv.ph = "parse" /\ inv.n > Len(LoadOrder)
  /\ key' = [digs |-> [f \in Files |->
                        IF \/ (f = "user" /\ "KeyIgnoresInclude" \in Weak)
                           \/ (f = "inc" /\ "KeyIgnoresBinary" \in Weak)
                          THEN <<>> ELSE digs[f]],
             env  |-> RootEnv(data, IF "KeyIgnoresDefines" \in Weak THEN <<>> ELSE def),
             sb   |-> IF "KeyIgnoresSandbox" \in Weak THEN FALSE ELSE inv.flag]
  /\ inv' = [inv EXCEPT !.ph = "pickle"]
  /\ UNCHANGED <<proj, disk, data, digs, tree, graph, memo, ok, nedits, ninv, ndrop, since, hist>>

\* __generatePackages 4323-4330
PickleHit ==
  /\ Alive /\ inv.ph = "pickle" /\ pkgPickle[inv.flag].key = key
  /\ tree' = pkgPickle[inv.flag].tree
  /\ inv' = [inv EXCEPT !.ph = "tree", !.src = "pickle"]
  /\ UNCHANGED <<proj, disk, data, digs, key, graph, memo, ok, nedits, ninv, ndrop, since, hist>>

Frame(r, inp) == [r |-> r, inp |-> inp, ph |-> "L", i |-> 1]

\* 4337-4338
PickleMiss ==
  /\ Alive /\ inv.ph = "pickle" /\ pkgPickle[inv.flag].key # key
  /\ stack' = << Frame("root", RootInp(data, def)) >>
  /\ inv' = [inv EXCEPT !.ph = "prep"]
  /\ UNCHANGED <<proj, disk, proc, matchers, byId, tchE, tchT, ok, nedits, ninv, ndrop, since, hist>>

----------------------------------------------------------------------------
(* Recipe.prepare *)

Top    == stack[Len(stack)]
InPrep == Alive /\ inv.ph = "prep" /\ stack # <<>>
AddAll(tch, S) == [j \in 1..Len(tch) |-> tch[j] \cup S]
Pop(s) == SubSeq(s, 1, Len(s) - 1)

\* PackageMatcher.matches 3136-3147
Matches(m, inp) ==
  /\ \A k \in DOMAIN m.env : m.env[k] = inp.env[k]
  /\ \A t \in DOMAIN m.tools : m.tools[t] = inp.tool
  /\ ("MemoIgnoresSandbox" \in Weak \/ m.sb = inp.sb)
MatchIdx(r, inp) == {j \in 1..Len(matchers[r]) : Matches(matchers[r][j], inp)}
FirstMatch(r, inp) == IF MatchIdx(r, inp) = {} THEN 0
                      ELSE CHOOSE j \in MatchIdx(r, inp) : \A j2 \in MatchIdx(r, inp) : j <= j2

\* hand a result to the caller (or to __generatePackages)
Return(invU) ==
  IF Len(stack) = 1
    THEN /\ stack' = <<>> /\ tree' = [d |-> data, df |-> def, fl |-> inv.flag]
         /\ inv' = [invU EXCEPT !.ph = "store"]
    ELSE /\ stack' = SubSeq(stack, 1, Len(stack) - 2) \o
                     << [stack[Len(stack) - 1] EXCEPT !.i = @ + 1] >>
         /\ tree' = tree /\ inv' = invU

\* 2523-2531: hit => the keys the reused package depends on are touched in ALL open sets of the caller
LookupHit ==
  /\ InPrep /\ Top.ph = "L" /\ FirstMatch(Top.r, Top.inp) > 0
  /\ LET m == matchers[Top.r][FirstMatch(Top.r, Top.inp)]
     IN /\ tchE' = IF "NoTouchOnHit" \in Weak THEN tchE ELSE AddAll(tchE, DOMAIN m.env)
        /\ tchT' = IF "NoTouchOnHit" \in Weak THEN tchT ELSE AddAll(tchT, DOMAIN m.tools)
        /\ memoOK' = (ValPkg(data, inv.flag, Top.r, m.src, Top.inp) = ValPkg(data, inv.flag, Top.r, Top.inp, Top.inp))
        /\ Return([inv EXCEPT !.hits[Top.r] = @ + 1])
  /\ UNCHANGED <<proj, disk, data, digs, key, graph, matchers, byId, diskOK, nedits, ninv, ndrop, since, hist>>

LookupMiss ==
  /\ InPrep /\ Top.ph = "L" /\ FirstMatch(Top.r, Top.inp) = 0
  /\ stack' = Pop(stack) \o << [Top EXCEPT !.ph = "B"] >>
  /\ UNCHANGED <<proj, disk, inv, proc, matchers, byId, tchE, tchT, ok, nedits, ninv, ndrop, since, hist>>

\* 2539-2549 touchReset pushes a fresh set; every read adds the key to ALL sets
ComputeBegin ==
  /\ InPrep /\ Top.ph = "B"
  /\ tchE' = AddAll(Append(tchE, {}), ReadsE(data, Top.r, Top.inp))
  /\ tchT' = AddAll(Append(tchT, {}), ReadsT(data, Top.r, Top.inp))
  /\ stack' = Pop(stack) \o << [Top EXCEPT !.ph = "D"] >>
  /\ UNCHANGED <<proj, disk, inv, proc, matchers, byId, ok, nedits, ninv, ndrop, since, hist>>

\* 2573-2631
CallDep ==
  /\ InPrep /\ Top.ph = "D"
  /\ LET ds == Deps(data, Top.r, Top.inp)
     IN /\ Top.i <= Len(ds)
        /\ stack' = Append(stack, Frame(ds[Top.i].r, ds[Top.i].inp))
  /\ UNCHANGED <<proj, disk, inv, proc, matchers, byId, tchE, tchT, ok, nedits, ninv, ndrop, since, hist>>

\* 2920-2928 + PackageMatcher.__init__ 3124-3134: the computed package is exchanged for an earlier one with
\* the same key in __corePackagesById; the matcher keeps the inputs restricted to the touched keys
Remember ==
  /\ InPrep /\ Top.ph = "D" /\ Top.i > Len(Deps(data, Top.r, Top.inp))
  /\ LET weakU == "MemoIgnoresUnsetTouched" \in Weak
         pid  == PidOf(data, inv.flag, Top.r, Top.inp)
         same == {j \in 1..Len(byId[Top.r]) : PidOf(data, inv.flag, Top.r, byId[Top.r][j]) = pid}
         ret  == IF same = {} THEN Top.inp ELSE byId[Top.r][CHOOSE j \in same : \A j2 \in same : j <= j2]
         m == [env    |-> [k \in {x \in tchE[Len(tchE)] : ~(weakU /\ Top.inp.env[x] = Unset)} |-> Top.inp.env[k]],
               tools  |-> IF "MemoIgnoresTools" \in Weak \/ (weakU /\ Top.inp.tool = 0) THEN EmptyF
                          ELSE [t \in tchT[Len(tchT)] |-> Top.inp.tool],
               sb     |-> Top.inp.sb,
               src    |-> ret]              \* the package Mk(data, flag, r, ret, results of Deps)
     IN /\ matchers' = [matchers EXCEPT ![Top.r] = <<m>> \o @]
        /\ byId' = IF same = {} THEN [byId EXCEPT ![Top.r] = Append(@, Top.inp)] ELSE byId
        /\ memoOK' = (ValPkg(data, inv.flag, Top.r, ret, Top.inp) = ValPkg(data, inv.flag, Top.r, Top.inp, Top.inp))
        /\ Return([inv EXCEPT !.comps[Top.r] = @ + 1])
  /\ tchE' = Pop(tchE) /\ tchT' = Pop(tchT)
  /\ UNCHANGED <<proj, disk, data, digs, key, graph, diskOK, nedits, ninv, ndrop, since, hist>>

----------------------------------------------------------------------------

\* 4341-4346
PickleStore ==
  /\ Alive /\ inv.ph = "store"
  /\ pkgPickle' = [pkgPickle EXCEPT ![inv.flag] = [key |-> key, tree |-> tree]]
  /\ inv' = [inv EXCEPT !.ph = "tree", !.src = "prepare"]
  /\ UNCHANGED <<proj, yaml, treeDb, proc, memo, ok, nedits, ninv, ndrop, since, hist>>

\* pathspec.py 588-602
TreeHit ==
  /\ Alive /\ inv.ph = "tree" /\ treeDb.key = key
  /\ graph' = treeDb.graph
  /\ inv' = [inv EXCEPT !.ph = "end", !.tsrc = "hit"]
  /\ UNCHANGED <<proj, disk, data, digs, key, tree, memo, ok, nedits, ninv, ndrop, since, hist>>

TreeMiss ==
  /\ Alive /\ inv.ph = "tree" /\ treeDb.key # key
  /\ graph' = tree                         \* Graph(ValTree(tree))
  /\ treeDb' = [key |-> key, graph |-> tree]
  /\ inv' = [inv EXCEPT !.ph = "end", !.tsrc = "miss"]
  /\ UNCHANGED <<proj, yaml, pkgPickle, data, digs, key, tree, memo, ok, nedits, ninv, ndrop, since, hist>>

\* the query is answered; P: it must be what the files mean
InvEnd ==
  /\ Alive /\ inv.ph = "end"
  /\ LET truth == Recompute(content, inv.flag, "root", RootInp(content, def))
     IN diskOK' = (ValTree(tree) = truth /\ Graph(ValTree(graph)) = Graph(truth))
  /\ inv' = [inv EXCEPT !.ph = "post"]
  /\ H([a |-> "End", src |-> inv.src, tsrc |-> inv.tsrc, yh |-> inv.yh, hits |-> inv.hits, comps |-> inv.comps])
  /\ UNCHANGED <<proj, disk, proc, memo, memoOK, nedits, ninv, ndrop, since>>

\* a second generatePackages() on the same RecipeSet (same flag); optionally the pickle was removed
\* in between, which sends the query through the in-memory memo tables
Requery ==
  /\ inv.ph = "post" /\ inv.rq < MaxRequery /\ Alive
  /\ \E drop \in BOOLEAN :
       /\ pkgPickle' = IF drop THEN [pkgPickle EXCEPT ![inv.flag] = NoPickle] ELSE pkgPickle
       /\ H([a |-> "Requery", drop |-> drop])
  /\ inv' = [inv EXCEPT !.ph = "pickle", !.rq = @ + 1, !.src = "none", !.tsrc = "none",
                        !.hits = Zero, !.comps = Zero]
  /\ UNCHANGED <<proj, yaml, treeDb, proc, memo, ok, nedits, ninv, ndrop, since>>

ProcExit ==
  /\ Alive /\ inv.ph = "post"
  /\ inv' = IdleInv
  /\ data' = Blank /\ digs' = Blank /\ key' = NoKey /\ tree' = NoProv /\ graph' = NoProv
  /\ matchers' = [r \in R |-> <<>>] /\ byId' = [r \in R |-> <<>>]
  /\ tchE' = << {} >> /\ tchT' = << {} >> /\ stack' = <<>>
  /\ UNCHANGED <<proj, disk, ok, nedits, ninv, ndrop, since, hist>>

\* a violating state is terminal (its history is the counterexample)
Done ==
  /\ ~Alive \/ (inv.ph = "idle" /\ ninv = MaxInv)
  /\ UNCHANGED vars

Next ==
  \/ EditRecipe \/ EditClass \/ EditInclude \/ EditDefault
  \/ OptionalIncludeAppears \/ OptionalIncludeDisappears \/ SetDefine \/ ClearDefine \/ DropCache
  \/ InvBegin \/ LoadYamlHit \/ LoadYamlMiss \/ LoadYamlAbsent \/ LoadBinary \/ CacheKey
  \/ PickleHit \/ PickleMiss
  \/ LookupHit \/ LookupMiss \/ ComputeBegin \/ CallDep \/ Remember
  \/ PickleStore \/ TreeHit \/ TreeMiss \/ InvEnd \/ Requery \/ ProcExit \/ Done

Spec == Init /\ [][Next]_vars

----------------------------------------------------------------------------
(* P layer *)

TypeOK ==
  /\ inv.ph \in {"idle", "parse", "pickle", "prep", "store", "tree", "end", "post"}
  /\ Len(tchE) = Len(tchT)
  /\ (inv.ph = "prep") = (stack # <<>>)
  /\ (stack # <<>>) => (Len(tchE) = 1 + Cardinality({j \in 1..Len(stack) : stack[j].ph = "D"}))

\* the package prepare() hands out (memo hit, or computed and exchanged for an earlier one with the same
\* result id), seen from the new user, is the one a computation from the full inputs yields
MemoSound == memoOK
\* the tree and the graph an invocation works on are the ones the files on disk mean
DiskSound == diskOK

\* vacuity companions (negated reachability; each must be VIOLATED)
\* a lookup of mid missed ONLY because of keys that were propagated from a memo hit below it
ReachPropagatedMiss ==
  ~(InPrep /\ Top.r = "mid" /\ Top.ph = "B" /\
    \E j \in 1..Len(matchers["mid"]) :
       LET m == matchers["mid"][j]
       IN /\ \A k \in (DOMAIN m.env) \cap ReadsE(data, "mid", Top.inp) : m.env[k] = Top.inp.env[k]
          /\ m.sb = Top.inp.sb
          /\ ~Matches(m, Top.inp))
\* the pickle was reused although a file had to be read again (content as before, new stat)
ReachPickleHitAfterReread ==
  ~(inv.ph = "tree" /\ inv.src = "pickle" /\ \E f \in YFiles : content[f] # <<>> /\ f \notin inv.yh)
\* yaml rows reused and re-read in one parse, package tree recomputed
ReachYamlMixed ==
  ~(inv.ph = "prep" /\ inv.yh # {} /\ \E f \in YFiles : content[f] # <<>> /\ f \notin inv.yh)
ReachTreeHitPickleMiss == ~(inv.ph = "end" /\ inv.src = "prepare" /\ inv.tsrc = "hit")
\* lib computed below top1 is reused below top2
ReachHitAcrossParents ==
  ~(InPrep /\ Len(stack) = 3 /\ stack[2].r = "top2" /\ Top.r = "lib" /\ Top.ph = "L" /\ FirstMatch("lib", Top.inp) > 0)
\* the in-memory tables answer a second query
ReachRequeryMemo == ~(InPrep /\ inv.rq > 0 /\ Top.r = "root" /\ Top.ph = "L" /\ FirstMatch("root", Top.inp) > 0)

----------------------------------------------------------------------------
(* generation *)
GenPrint == (GenDepth > 0 /\ TLCGet("level") = GenDepth) => PrintT(<<"@@", ToJson(hist)>>)
\* weakened configs: always true, prints the history of every violating state
CexPrint == Alive \/ PrintT(<<"@@", ToJson(hist)>>)

=============================================================================
