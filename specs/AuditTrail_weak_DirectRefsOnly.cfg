SPECIFICATION Spec
CONSTANTS MaxEdit = 1  MaxInv = 2  GenDepth = 0
CONSTANT Weak = {"DirectRefsOnly"}
CONSTANT WSs = {1}
CONSTANT UpModes = {FALSE}
CONSTANT DlModes = {"no"}
CONSTANT SbxModes = {TRUE, FALSE}
CONSTANT Shared = {"tool"}
CONSTANT Knobs = {"src_lib", "src_app"}
VIEW view
CONSTRAINT CexPrintLate
CHECK_DEADLOCK FALSE
