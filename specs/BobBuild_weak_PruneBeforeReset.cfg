SPECIFICATION Spec
CONSTANTS MaxEdit = 2  MaxInv = 3  MaxKill = 1  MaxFail = 0  GenDepth = 0
CONSTANT Flags = {"plain"}
CONSTANT Weak = {"PruneBeforeReset"}
VIEW view
CONSTRAINT CexPrint
CHECK_DEADLOCK FALSE
