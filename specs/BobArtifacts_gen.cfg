SPECIFICATION Spec
CONSTANTS MaxEdit = 4  MaxInv = 5  GenDepth = 60
CONSTANT Weak = {}
INVARIANT GenPrint
CHECK_DEADLOCK FALSE
