SPECIFICATION Spec
CONSTANTS
  Uploaders = {"U1", "U2"}
  Mirrors = {"M1"}
  Readers = {"R1"}
  Archives = {"A", "B"}
  UpArchives = {"A", "B"}
  Kinds = {"pkg", "meta"}
  MirrorSrc = "A"
  MirrorDst = "B"
  N = 3
  UseChmod = TRUE
  Drain = TRUE
  PkgReplace = FALSE
  MaxFault = 2
  MaxCrash = 2
  Planned = FALSE
  GenDepth = 0
VIEW view
INVARIANT TypeOK
INVARIANT Atomic
INVARIANT NoTempUnderName
INVARIANT FailedLeavesNothing
INVARIANT ReaderOK
INVARIANT NoTempLeft
INVARIANT MirrorFaithful
PROPERTY NeverOverwrite
CHECK_DEADLOCK FALSE
