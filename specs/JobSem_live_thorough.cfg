SPECIFICATION LoopFairSpec
CONSTANTS K = 4  N = 3  Recursive = FALSE  Rounds = 2  MaxChild = 2  MaxChildOps = 3  GenDepth = 0  FixHandover = FALSE
PROPERTY NoLostWakeup
