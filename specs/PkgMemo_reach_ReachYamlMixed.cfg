SPECIFICATION Spec
CONSTANTS MaxEdits = 1  MaxInv = 2  MaxDrop = 1  MaxRequery = 1  MtimeEdits = FALSE  GenDepth = 0
CONSTANT Weak = {}
VIEW view
INVARIANT ReachYamlMixed
CHECK_DEADLOCK FALSE
