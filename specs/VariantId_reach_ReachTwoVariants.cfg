\* vacuity control: ReachTwoVariants must be VIOLATED
SPECIFICATION Spec
CONSTANTS Level = 1  Mode = "c02"  NOrd = 1  Gen = FALSE
CONSTRAINT WellFormed
INVARIANT ReachTwoVariants
CHECK_DEADLOCK FALSE
