\* the protocol of the code as it is: NoInspectFailure must be VIOLATED; the counterexample (printed as JSON by CexNoInspectFailure)
\* is replayed against the real code by checks/c15_sharedstore.py
SPECIFICATION Spec
CONSTANTS Procs = {"A", "B"}  BIds = {"b1", "b2"}  MaxOps = 1  MaxTotal = 2
CONSTANT OpKinds = {"use", "gcA"}
CONSTANT Quotas = {99}
CONSTANT InitKinds = {"pop"}
CONSTANT InitPerm = FALSE  MaxUnlink = 0  Gen = FALSE
CONSTANT Weak = {"LinkAfterUnlock", "LostRaceUnregistered", "GcNeedsRepoJson", "RepoCreateWindow", "UnlockBeforeFlush", "InspectRace"}
VIEW view
INVARIANT CexNoInspectFailure
CHECK_DEADLOCK FALSE
