SPECIFICATION Spec
CONSTANTS MaxSize = 2  Rich = TRUE  TowerDepth = 2  ProtLen = 1  RawLen = 1
          MaxESize = 2  ETower = 1  RawELen = 1  BigEnv = TRUE  Emit = TRUE
INVARIANT TypeOK
INVARIANT NounsetOnlyAddsErrors
INVARIANT DqTransparent
INVARIANT ProtectedUnchanged
INVARIANT UntakenIrrelevant
INVARIANT InfixEqualsFun
INVARIANT NotNot
INVARIANT Trichotomy
INVARIANT EProtTrue
INVARIANT IllIsError
INVARIANT EmitCase
CHECK_DEADLOCK FALSE
