SPECIFICATION Spec
CONSTANTS MaxEdit = 1  MaxInv = 2  GenDepth = 0
CONSTANT Weak = {"IdIgnoresMeta"}
CONSTANT WSs = {1}
CONSTANT UpModes = {FALSE}
CONSTANT DlModes = {"no"}
CONSTANT SbxModes = {TRUE, FALSE}
CONSTANT Shared = {"tool"}
CONSTANT Knobs = {"meta"}
VIEW view
CONSTRAINT CexPrint
CHECK_DEADLOCK FALSE
