SPECIFICATION Spec
CONSTANTS MaxEdit = 2  MaxInv = 3  GenDepth = 0
CONSTANT Weak = {}
CONSTANT WSs = {1, 2}
CONSTANT UpModes = {TRUE, FALSE}
CONSTANT DlModes = {"no", "deps", "yes"}
CONSTANT SbxModes = {FALSE}
CONSTANT Shared = {"tool"}
CONSTANT Knobs = {"src_app", "src_lib", "bl", "ba", "dl", "bt", "meta", "gc"}
VIEW view
INVARIANT Carries
INVARIANT Closed
INVARIANT Complete
INVARIANT TruthfulHash
INVARIANT TruthfulIds
INVARIANT ArtifactIdFunctional
INVARIANT StoredTruthful
CHECK_DEADLOCK FALSE
