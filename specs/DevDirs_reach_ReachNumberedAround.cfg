SPECIFICATION Spec
CONSTANTS Pkg <- PkgOne  RecipeOf <- RecipeOne  StrPrefix <- PrefixNone
CONSTANTS NV = 3  NS = 1  MaxLen = 2  MaxChg = 3  MaxNum = 3  GenDepth = 0  KeepRule = "prefix"
CONSTANT Weak = {}
VIEW viewL
INVARIANT ReachNumberedAround
CHECK_DEADLOCK FALSE
