SPECIFICATION Spec
CONSTANTS DepNames = {"da", "db"}  MaxDeps = 2  Emit = FALSE
INVARIANT ReachStableImage
CHECK_DEADLOCK FALSE
