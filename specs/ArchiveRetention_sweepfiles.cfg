SPECIFICATION Spec
CONSTANTS MaxArt = 3  MaxHist = 4  MaxCmd = 2  Sweep = "files"  GenDepth = 0
CONSTANT Recs <- RecsTiny
CONSTANT Shapes <- ShapesOne
CONSTANT ExprLists <- ExprListsTwo
VIEW view
INVARIANT CleanExactProbe
CHECK_DEADLOCK FALSE
