SPECIFICATION TraceSpec
CONSTANTS MaxJobs = 64  MaxFail = 64  GenDepth = 0  WeakDeps = FALSE  WeakOnce = FALSE  WeakBound = FALSE  Dags = {1, 2, 3, 4, 5, 6, 7}
CONSTRAINT Track
INVARIANT NoDoubleExec
INVARIANT DepsFirst
INVARIANT Bounded
INVARIANT FailureConfined
INVARIANT RcCorrect
INVARIANT KeepGoingComplete
INVARIANT Independence
POSTCONDITION Report
CHECK_DEADLOCK FALSE
