SPECIFICATION Spec
CONSTANTS Pkg <- PkgOne  RecipeOf <- RecipeOne  StrPrefix <- PrefixNone
CONSTANTS NV = 2  NS = 1  MaxLen = 2  MaxChg = 2  MaxNum = 2  GenDepth = 0  KeepRule = "prefix"
CONSTANT Weak = {"DryDeletes"}
VIEW view
INVARIANT TypeOK
INVARIANT Injective
INVARIANT Assigned
INVARIANT EmptiedBeforeReuse
PROPERTY StableIfNamerUnchanged
PROPERTY CleanOnlyGarbage
PROPERTY DryRunDeletesNothing
PROPERTY NoUpToDateResultLost
CHECK_DEADLOCK FALSE
