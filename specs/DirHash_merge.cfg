\* all pairs (old index, tree): 5 names x {absent, version 1, version 2} on both sides, one cached hash
INIT InitMerge
NEXT Next
CONSTANTS Contents = {1, 2}  Modes = {1}  NewContents = {1, 2}  NewModes = {1}
           Targets = {1}  DirModes = {1}
          Bases = {1}  MaxOps = 0  MaxBurst = 1  Gen = FALSE
VIEW view
INVARIANT TypeOK
INVARIANT CacheTransparent
INVARIANT IndexSorted
INVARIANT IndexNeverLies
INVARIANT OutSorted
CHECK_DEADLOCK FALSE
