SPECIFICATION Spec
CONSTANTS
  Uploaders = {"U1", "U2", "U3"}
  Mirrors = {"M1", "M2"}
  Readers = {"R1", "R2"}
  Archives = {"A", "B"}
  UpArchives = {"A", "B"}
  Kinds = {"pkg", "meta"}
  MirrorSrc = "A"
  MirrorDst = "B"
  N = 2
  UseChmod = TRUE
  Drain = TRUE
  PkgReplace = FALSE
  MaxFault = 2
  MaxCrash = 2
  Planned = TRUE
  GenDepth = 54
ACTION_CONSTRAINT GenBias
INVARIANT GenPrint
CHECK_DEADLOCK FALSE
