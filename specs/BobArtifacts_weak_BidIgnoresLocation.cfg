SPECIFICATION Spec
CONSTANTS MaxEdit = 2  MaxInv = 3  GenDepth = 0
CONSTANT Weak = {"BidIgnoresLocation"}
VIEW view
CONSTRAINT CexPrint
CHECK_DEADLOCK FALSE
