SPECIFICATION SpecSel
CONSTANTS MaxArt = 4  MaxHist = 0  MaxCmd = 1  Sweep = "both"  GenDepth = 0
CONSTANT Recs <- RecsSmall
CONSTANT Shapes <- ShapesSmall
CONSTANT ExprLists <- ExprListsSel
VIEW view
INVARIANT TypeOK
INVARIANT CleanExact
INVARIANT FindExact
CHECK_DEADLOCK FALSE
