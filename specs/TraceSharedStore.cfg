\* code -> spec trace validation of real multi-process runs against the model of the code as it is
\* (Weak = CODE_WEAK of checks/c15_sharedstore.py).  Run with -workers 1, TRACE_FILE in the environment.
\* The P invariants are evaluated by Track in every state (register 2) so that one violating trace does not
\* end the validation of the batch.
SPECIFICATION TraceSpec
CONSTANTS Procs = {"P0", "P1", "P2", "P3"}  BIds = {"b1", "b2"}  MaxOps = 1000000  MaxTotal = 1000000
CONSTANT OpKinds = {"use", "inst", "instmv", "gc", "gcA"}
CONSTANT Quotas = {0, 1, 2, 3, 99}
CONSTANT InitKinds = {"emptydir", "pop"}
CONSTANT InitPerm = FALSE  MaxUnlink = 1000000  Gen = FALSE
CONSTANT Weak = {"LinkAfterUnlock"}
CONSTRAINT Track
POSTCONDITION Report
CHECK_DEADLOCK FALSE
