SPECIFICATION Spec
CONSTANTS MaxOps = 7  MaxHead = 2  GenDepth = 8
CONSTANT Weak = {}
INVARIANT GenPrint
CHECK_DEADLOCK FALSE
