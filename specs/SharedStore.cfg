\* quick exhaustive check (one build-id, two projects, two operations, every operation kind, every initial store):
\* the repaired protocol (Weak = {}) satisfies all of P.  checks/c15_sharedstore.py derives the config for the
\* protocol of the code as it is by replacing the Weak line (and dropping the invariants that state a weakness).
SPECIFICATION Spec
CONSTANTS Procs = {"A", "B"}  BIds = {"b1"}  MaxOps = 2  MaxTotal = 2
CONSTANT OpKinds = {"use", "inst", "instmv", "instbad", "gc", "gcA", "gcU"}
CONSTANT Quotas = {0, 1, 99}
CONSTANT InitKinds = {"nodir", "emptydir", "pop"}
CONSTANT InitPerm = TRUE  MaxUnlink = 1  Gen = FALSE
CONSTANT Weak = {}
VIEW view
INVARIANT TypeOK
INVARIANT VisibleIsComplete
INVARIANT HashMatches
INVARIANT NoDanglingUse
INVARIANT NoDanglingInst
INVARIANT NoDanglingLost
INVARIANT NoDanglingLinked
INVARIANT NoDanglingUnregistered
INVARIANT NoDanglingDuring
INVARIANT NoDanglingLinkToCollected
INVARIANT NoGcFailEmptyStore
INVARIANT NoJsonFailureGc
INVARIANT NoJsonFailureInstall
INVARIANT NoJsonFailureUse
INVARIANT NoInspectFailure
INVARIANT SizeAccounting
INVARIANT AutoCleanPolicy
INVARIANT LocksFreeAtQuiescence
INVARIANT NoLockDeadlock
PROPERTY InstalledOncePerBid
CHECK_DEADLOCK FALSE
