SPECIFICATION Spec
CONSTANTS Procs = {"A", "B"}  BIds = {"b1", "b2"}  MaxOps = 2  MaxTotal = 3
CONSTANT OpKinds = {"use", "inst", "instmv", "instbad", "gc", "gcA", "gcU"}
CONSTANT Quotas = {1, 2, 99}
CONSTANT InitKinds = {"nodir", "emptydir", "pop"}
CONSTANT InitPerm = FALSE  MaxUnlink = 1  Gen = FALSE
CONSTANT Weak = {}
VIEW view
INVARIANT TypeOK
INVARIANT VisibleIsComplete
INVARIANT HashMatches
INVARIANT NotCollectedWhileUsed
INVARIANT NoSpuriousFailure
INVARIANT SizeAccounting
INVARIANT AutoCleanPolicy
INVARIANT LocksFreeAtQuiescence
INVARIANT NoLockDeadlock
PROPERTY InstalledOncePerBid
CHECK_DEADLOCK FALSE
