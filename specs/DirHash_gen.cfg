\* generation: -simulate, prints hist of every completed behaviour (MaxOps modifications, <= 2 per burst)
INIT Init
NEXT Next
CONSTANTS Contents = {1, 2, 3}  Modes = {1, 2}  NewContents = {1, 2, 3}  NewModes = {1, 2}
           Targets = {1, 2}  DirModes = {1, 2}
          Bases = {1, 2, 3, 4, 5, 6}  MaxOps = 8  MaxBurst = 2  Gen = TRUE
INVARIANT GenPrint
CHECK_DEADLOCK FALSE
