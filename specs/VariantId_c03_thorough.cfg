\* C03 thorough: id-irrelevant edits x process configurations (path, hash seed, file order, sandbox, parse count)
SPECIFICATION Spec
CONSTANTS Level = 2  Mode = "c03"  NOrd = 3  Gen = TRUE
CONSTRAINT WellFormed
INVARIANT TypeOK
INVARIANT Purity
INVARIANT WeakToolBuildId
INVARIANT GenPrint
CHECK_DEADLOCK FALSE
