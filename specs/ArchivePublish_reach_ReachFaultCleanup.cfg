SPECIFICATION Spec
CONSTANTS
  Uploaders = {"U1", "U2"}
  Mirrors = {"M1"}
  Readers = {}
  Archives = {"A", "B"}
  UpArchives = {"A", "B"}
  Kinds = {"pkg", "meta"}
  MirrorSrc = "A"
  MirrorDst = "B"
  N = 2
  UseChmod = TRUE
  Drain = TRUE
  PkgReplace = FALSE
  MaxFault = 1
  MaxCrash = 1
  Planned = FALSE
  GenDepth = 0
VIEW view
INVARIANT ReachFaultCleanup
CHECK_DEADLOCK FALSE
