SPECIFICATION Spec
CONSTANTS MaxJobs = 3  MaxFail = 1  GenDepth = 80  WeakDeps = FALSE  WeakOnce = FALSE  WeakBound = FALSE
INVARIANT GenPrint
CHECK_DEADLOCK FALSE
