SPECIFICATION Spec
CONSTANTS MaxJobs = 3  MaxFail = 1  GenDepth = 80  WeakDeps = FALSE  WeakOnce = FALSE  WeakBound = FALSE  Dags = {1, 2, 3, 4, 5, 6, 7}
INVARIANT GenPrint
CHECK_DEADLOCK FALSE
