SPECIFICATION Spec
CONSTANTS Parts = {"corrupt"}  MaxNodes = 3  FullNodes = 2  MaxHostile = 1
          MaxMembers = 3  HardLinkRule = "resolved"  Gen = FALSE
VIEW view
INVARIANT ReachHashReject
CHECK_DEADLOCK FALSE
