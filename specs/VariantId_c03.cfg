\* C03 quick: id-irrelevant edits x process configurations (path, hash seed, file order, sandbox, parse count)
SPECIFICATION Spec
CONSTANTS Level = 1  Mode = "c03"  NOrd = 2  Gen = TRUE
CONSTRAINT WellFormed
INVARIANT TypeOK
INVARIANT Purity
INVARIANT WeakToolBuildId
INVARIANT GenPrint
CHECK_DEADLOCK FALSE
