SPECIFICATION Spec
CONSTANTS
  MaxSteps = 5
  MaxEdit = 2
  MaxUp = 0
  MaxUser = 2
  MaxBob = 3
  Urls = {"U1"}
  AuxKinds = {}
  Dirs = {".", "sub"}
  Weak = {"CleanIgnoresStatus"}
  GenDepth = 0
VIEW view
INVARIANTS CexPrint
