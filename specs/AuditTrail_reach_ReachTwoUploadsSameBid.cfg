SPECIFICATION Spec
CONSTANTS MaxEdit = 1  MaxInv = 2  GenDepth = 0
CONSTANT Weak = {}
CONSTANT WSs = {1, 2}
CONSTANT UpModes = {TRUE, FALSE}
CONSTANT DlModes = {"no", "deps", "yes"}
CONSTANT SbxModes = {TRUE, FALSE}
CONSTANT Shared = {"tool"}
CONSTANT Knobs = {"src_app", "src_lib", "bl", "ba", "dl", "bt", "meta"}
VIEW view
INVARIANT ReachTwoUploadsSameBid
CHECK_DEADLOCK FALSE
