SPECIFICATION Spec
CONSTANTS K = 2  N = 1  Recursive = FALSE  Rounds = 2  MaxChild = 1  MaxChildOps = 1  GenDepth = 24  FixHandover = FALSE
INVARIANT GenPrint
CONSTRAINT GenBound
CHECK_DEADLOCK FALSE
