SPECIFICATION Spec
CONSTANTS Parts = {"tree", "extract", "corrupt"}  MaxNodes = 3  FullNodes = 2  MaxHostile = 1
          MaxMembers = 3  HardLinkRule = "resolved"  Gen = TRUE
INVARIANT GenPrint
CHECK_DEADLOCK FALSE
