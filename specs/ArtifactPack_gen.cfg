SPECIFICATION Spec
CONSTANTS Parts = {"tree", "extract", "corrupt"}  MaxNodes = 3  FullNodes = 2  MaxHostile = 1
          MaxMembers = 3  HardLinkRule = "prefix"  Gen = TRUE
INVARIANT GenPrint
CHECK_DEADLOCK FALSE
