SPECIFICATION Spec
CONSTANTS MinN = 5  MaxN = 6  NameIdx = {1, 3, 4, 6, 7}  MaxKids = 3  MaxEdges = 9  MaxIso = 1  MaxExtraRoots = 1
          RootPerm = FALSE  Topo = FALSE  SkipTaken = TRUE  Gen = TRUE
INVARIANT TypeOK
INVARIANT Acyclic
INVARIANT AcyclicFinal
INVARIANT BuildOrderExists
INVARIANT UniqueNames
INVARIANT EveryPackageInExactlyOneJob
INVARIANT JobDependsOnDepsJobs
INVARIANT ChildsComplete
INVARIANT PrefixNonEmpty
CHECK_DEADLOCK FALSE
INVARIANT GenPrint
