SPECIFICATION Spec
CONSTANTS MaxEdit = 2  MaxInv = 2  GenDepth = 0
CONSTANT Weak = {"BidIgnoresFingerprint"}
VIEW view
CONSTRAINT CexPrint
CHECK_DEADLOCK FALSE
