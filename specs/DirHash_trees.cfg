\* enumeration of the bounded tree universe for the content-exactness (bucket) check
INIT InitTrees
NEXT Next
CONSTANTS Contents = {1, 2, 3}  Modes = {1, 2}  NewContents = {1, 2, 3}  NewModes = {1, 2}
           Targets = {1, 2}  DirModes = {1, 2}
          Bases = {1}  MaxOps = 0  MaxBurst = 1  Gen = FALSE
INVARIANT TreePrint
CHECK_DEADLOCK FALSE
