\* behaviour generation (tlc -simulate): prints hist of every maximal behaviour
SPECIFICATION Spec
CONSTANTS Procs = {"A", "B", "C"}  BIds = {"b1", "b2"}  MaxOps = 2  MaxTotal = 4
CONSTANT OpKinds = {"use", "inst", "instmv", "instbad", "gc", "gcA", "gcU", "gcUA"}
CONSTANT Quotas = {0, 1, 2, 3, 99}
CONSTANT InitKinds = {"nodir", "emptydir", "pop"}
CONSTANT InitPerm = TRUE  MaxUnlink = 1  Gen = TRUE
CONSTANT Weak = {"LinkAfterUnlock", "LostRaceUnregistered", "GcNeedsRepoJson", "RepoCreateWindow", "InspectRace"}
INVARIANT GenPrint
CHECK_DEADLOCK FALSE
