\* the protocol of the code as it is: NoJsonFailureInstall must be VIOLATED; the counterexample (printed as JSON by CexNoJsonFailureInstall)
\* is replayed against the real code by checks/c15_sharedstore.py
SPECIFICATION Spec
CONSTANTS Procs = {"A", "B"}  BIds = {"b1", "b2"}  MaxOps = 1  MaxTotal = 2
CONSTANT OpKinds = {"instmv"}
CONSTANT Quotas = {99}
CONSTANT InitKinds = {"emptydir"}
CONSTANT InitPerm = FALSE  MaxUnlink = 0  Gen = FALSE
CONSTANT Weak = {"LinkAfterUnlock", "LostRaceUnregistered", "GcNeedsRepoJson", "RepoCreateWindow", "UnlockBeforeFlush", "InspectRace"}
VIEW view
INVARIANT CexNoJsonFailureInstall
CHECK_DEADLOCK FALSE
