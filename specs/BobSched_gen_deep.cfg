SPECIFICATION Spec
CONSTANTS MaxJobs = 2  MaxFail = 1  GenDepth = 80  WeakDeps = FALSE  WeakOnce = FALSE  WeakBound = FALSE  Dags = {7}
INVARIANT GenPrint
CHECK_DEADLOCK FALSE
