----------------------------- MODULE BobSched -----------------------------
(* Abstract scheduler of one `bob dev/build -j N [-k]` invocation, property C06 (P layer).

   A project is a package DAG from the catalogue below.  Every package has three steps
   (checkout, build, package); a step is identified by its WORKSPACE: <<"c", checkout id>>,
   <<"b", package>>, <<"p", package>>.  Two packages with the same checkout id share one
   checkout workspace (same recipe built in two variants); a package that is reached on several
   paths is one package (one workspace per step).
     deps(build p)   = {checkout of p} \cup {package d : d \in deps p}
     deps(package p) = {build p}

   Events (what the recorders / the step scripts observe): Start(s), EndOk(s), EndFail(s),
   Finish(rc).  `Notice` is internal: the builder has seen a failure; without keep-going nothing
   starts afterwards.  A step that was about to start when another one failed may still start, so
   P does not say more than the property: dependants of a failed step never start, a step runs at
   most once and never before all of its dependencies succeeded, at most `jobs` steps run at once,
   rc # 0 iff a step failed, with keep-going everything that does not depend on a failed step is
   built, and the results at Finish(0) are those of the sequential build.

   The real builder (builder.py cook/_cook/_cookStep 971-1160, __createCookTask 884-913,
   __taskWrapper 932-969, __yieldJobWhile 1948-1965, __workspaceLock 682-687, wasRun 615-633)
   chooses the schedule itself; its recorded traces are validated against this module by
   TraceBobSched.tla.  No M layer of the builder recursion is given here.

   WeakDeps / WeakOnce / WeakBound drop one enabling condition each: the weak configs must violate
   the corresponding invariants AND Independence (vacuity control of the P layer).            *)
EXTENDS Naturals, Sequences, FiniteSets, TLC, Json

CONSTANTS MaxJobs, MaxFail, GenDepth, WeakDeps, WeakOnce, WeakBound,
          Dags      \* catalogue indices Init may choose

Catalogue == <<
  [name |-> "chain",   pk |-> {"r", "a", "l"},
   deps |-> [r |-> {"a"}, a |-> {"l"}, l |-> {}],
   co |-> [r |-> "r", a |-> "a", l |-> "l"], roots |-> {"r"}],
  [name |-> "diamond", pk |-> {"r", "a", "b", "l"},
   deps |-> [r |-> {"a", "b"}, a |-> {"l"}, b |-> {"l"}, l |-> {}],
   co |-> [r |-> "r", a |-> "a", b |-> "b", l |-> "l"], roots |-> {"r"}],
  [name |-> "twopath", pk |-> {"r", "a", "l"},
   deps |-> [r |-> {"a", "l"}, a |-> {"l"}, l |-> {}],
   co |-> [r |-> "r", a |-> "a", l |-> "l"], roots |-> {"r"}],
  [name |-> "wide",    pk |-> {"r", "a", "b", "c"},
   deps |-> [r |-> {"a", "b", "c"}, a |-> {}, b |-> {}, c |-> {}],
   co |-> [r |-> "r", a |-> "a", b |-> "b", c |-> "c"], roots |-> {"r"}],
  [name |-> "sharedco", pk |-> {"r", "a", "l1", "l2"},
   deps |-> [r |-> {"a", "l2"}, a |-> {"l1"}, l1 |-> {}, l2 |-> {}],
   co |-> [r |-> "r", a |-> "a", l1 |-> "l", l2 |-> "l"], roots |-> {"r"}],
  [name |-> "tworoots", pk |-> {"r1", "r2", "l"},
   deps |-> [r1 |-> {"l"}, r2 |-> {"l"}, l |-> {}],
   co |-> [r1 |-> "r1", r2 |-> "r2", l |-> "l"], roots |-> {"r1", "r2"}],
  \* x is needed by a (shallow) and at the end of the chain w-v-u-t-s (five levels deeper); y is independent.
  \* With 2 jobs the expansion of the deep path is still queued for a job slot when x fails (both slots are held
  \* by the scripts of x and y): s asks for x only AFTER x has failed and must see the same failure.
  \* (generation / trace validation only: too large for the exhaustive configs, which use Dags = 1..6)
  [name |-> "deepshare", pk |-> {"r", "a", "y", "w", "v", "u", "t", "s", "x"},
   deps |-> [r |-> {"a", "y", "w"}, a |-> {"x"}, y |-> {}, w |-> {"v"}, v |-> {"u"}, u |-> {"t"}, t |-> {"s"},
             s |-> {"x"}, x |-> {}],
   co |-> [r |-> "r", a |-> "a", y |-> "y", w |-> "w", v |-> "v", u |-> "u", t |-> "t", s |-> "s", x |-> "x"],
   roots |-> {"r"}]
>>

VARIABLES di, jobs, kg,      \* the invocation: catalogue index, -j, --keep-going
          status,            \* step -> "new" | "running" | "ok" | "failed"
          runs,              \* step -> number of executions started
          inp,               \* step -> snapshot of the dependency results taken when the step started
          content,           \* step -> abstract content of the workspace
          noticed, fin, nfail,
          fb,                \* failures the environment will inject at most (chosen at the start)
          pick,              \* generation mode only: the step that is made to fail (uniform over the steps, so that
                             \* late build/package failures are generated as often as early checkout failures)
          hist

vars == <<di, jobs, kg, status, runs, inp, content, noticed, fin, nfail, fb, pick, hist>>
view == <<di, jobs, kg, status, runs, inp, content, noticed, fin, nfail, fb, pick>>

D == Catalogue[di]
Steps == {<<"c", D.co[p]>> : p \in D.pk} \cup {<<"b", p>> : p \in D.pk} \cup {<<"p", p>> : p \in D.pk}
Deps(s) == IF s[1] = "c" THEN {}
           ELSE IF s[1] = "b" THEN {<<"c", D.co[s[2]]>>} \cup {<<"p", q>> : q \in D.deps[s[2]]}
           ELSE {<<"b", s[2]>>}

RECURSIVE TDeps(_)
TDeps(s) == Deps(s) \cup UNION {TDeps(x) : x \in Deps(s)}

Running == {s \in Steps : status[s] = "running"}
Failed  == {s \in Steps : status[s] = "failed"}
Tainted(s) == TDeps(s) \cap Failed # {}
Startable == {s \in Steps : status[s] = "new" /\ \A x \in Deps(s) : status[x] = "ok"}

\* the result of the sequential build: a structural term over the inputs
RECURSIVE SeqTerm(_)
SeqTerm(s) == <<"res", s, [x \in Deps(s) |-> SeqTerm(x)]>>

H(r) == hist' = IF GenDepth > 0 THEN Append(hist, r) ELSE hist

Init ==
  /\ di \in Dags /\ jobs \in 1..MaxJobs /\ kg \in BOOLEAN
  /\ status = [s \in Steps |-> "new"] /\ runs = [s \in Steps |-> 0]
  /\ inp = [s \in Steps |-> <<>>] /\ content = [s \in Steps |-> <<"none">>]
  /\ noticed = FALSE /\ fin = "run" /\ nfail = 0 /\ fb \in 0..MaxFail
  /\ pick \in (IF GenDepth > 0 THEN Steps ELSE {<<"-", "-">>})
  /\ hist = IF GenDepth > 0 THEN <<[e |-> "Config", dag |-> di, jobs |-> jobs, kg |-> kg, def |-> D]>> ELSE <<>>

Start(s) ==
  /\ fin = "run" /\ ~noticed
  /\ IF WeakOnce THEN status[s] \in {"new", "ok"} ELSE status[s] = "new"
  /\ WeakDeps \/ \A x \in Deps(s) : status[x] = "ok"
  /\ WeakBound \/ Cardinality(Running) < jobs
  /\ status' = [status EXCEPT ![s] = "running"]
  /\ runs' = [runs EXCEPT ![s] = @ + 1]
  /\ inp' = [inp EXCEPT ![s] = [x \in Deps(s) |-> content[x]]]
  /\ content' = [content EXCEPT ![s] = <<"partial">>]
  /\ UNCHANGED <<di, jobs, kg, noticed, fin, nfail, fb, pick>>
  /\ H([e |-> "Start", k |-> s[1], n |-> s[2]])

EndOk(s) ==
  /\ status[s] = "running"
  /\ (GenDepth > 0 /\ nfail < fb) => s # pick
  /\ status' = [status EXCEPT ![s] = "ok"]
  /\ content' = [content EXCEPT ![s] = <<"res", s, inp[s]>>]
  /\ UNCHANGED <<di, jobs, kg, runs, inp, noticed, fin, nfail, fb, pick>>
  /\ H([e |-> "EndOk", k |-> s[1], n |-> s[2]])

EndFail(s) ==
  /\ status[s] = "running" /\ nfail < fb
  /\ GenDepth > 0 => s = pick
  /\ status' = [status EXCEPT ![s] = "failed"]
  /\ nfail' = nfail + 1
  /\ UNCHANGED <<di, jobs, kg, runs, inp, content, noticed, fin, fb, pick>>
  /\ H([e |-> "EndFail", k |-> s[1], n |-> s[2]])

\* internal: the builder has seen the failure (builder.py 950-952: __running = False)
Notice ==
  /\ fin = "run" /\ ~kg /\ Failed # {} /\ ~noticed
  /\ noticed' = TRUE
  /\ UNCHANGED <<di, jobs, kg, status, runs, inp, content, fin, nfail, fb, pick, hist>>

Finish ==
  /\ fin = "run" /\ Running = {}
  /\ IF Failed = {}
       THEN /\ \A s \in Steps : status[s] = "ok"
            /\ fin' = "ok"
       ELSE /\ (noticed \/ Startable = {})       \* keep-going: noticed is always FALSE, so everything startable ran
            /\ fin' = "err"
  /\ UNCHANGED <<di, jobs, kg, status, runs, inp, content, noticed, nfail, fb, pick>>
  /\ H([e |-> "Finish", rc |-> IF Failed = {} THEN 0 ELSE 1])

Done == fin # "run" /\ GenDepth = 0 /\ UNCHANGED vars

Next == (\E s \in Steps : Start(s) \/ EndOk(s) \/ EndFail(s)) \/ Notice \/ Finish \/ Done

Spec == Init /\ [][Next]_vars
LiveSpec == Spec /\ WF_vars(Next)

----------------------------------------------------------------------------
(* P layer *)

NoDoubleExec == \A s \in Steps : runs[s] <= 1
DepsFirst == \A s \in Steps : status[s] = "running" => \A x \in Deps(s) : status[x] = "ok"
Bounded == Cardinality(Running) <= jobs
FailureConfined == \A s \in Steps : Tainted(s) => status[s] = "new"
RcCorrect == /\ fin = "ok" => \A s \in Steps : status[s] = "ok"
             /\ fin = "err" => Failed # {}
KeepGoingComplete == (fin = "err" /\ kg) => \A s \in Steps : (~Tainted(s) /\ s \notin Failed) => status[s] = "ok"
\* schedule independence: whatever the interleaving, job count and timing, a successful build ends with the sequential results
Independence == fin = "ok" => \A s \in Steps : content[s] = SeqTerm(s)
\* every behaviour ends (no scheduling dead end in P itself)
Termination == <>(fin # "run")

\* vacuity companions (negated reachability; must be VIOLATED)
ReachFullParallel == ~(Cardinality(Running) = 3)
ReachKeepGoingPartial == ~(fin = "err" /\ kg /\ \E s \in Steps : s[1] = "p" /\ status[s] = "ok")
ReachStartAfterFailure == ~(~kg /\ Failed # {} /\ Running # {} /\ \E s \in Running : runs[s] = 1 /\ ~noticed /\ nfail = 1 /\ Cardinality(Running) >= 2)
ReachSharedCheckout == ~(D.name = "sharedco" /\ fin = "ok")

----------------------------------------------------------------------------
(* generation *)
WeakConstraint == \A s \in Steps : runs[s] <= 2
GenPrint == (GenDepth > 0 /\ fin # "run") => PrintT(<<"@@", ToJson(hist)>>)

=============================================================================
