SPECIFICATION Spec
CONSTANTS Pkg <- PkgMulti  RecipeOf <- RecipeMulti  StrPrefix <- PrefixNone
CONSTANTS NV = 1  NS = 1  MaxLen = 1  MaxChg = 2  MaxNum = 2  GenDepth = 0  KeepRule = "prefix"
CONSTANT Weak = {}
VIEW viewL
INVARIANT ReachCleanDeletesSrc
CHECK_DEADLOCK FALSE
