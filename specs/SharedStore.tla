--------------------------- MODULE SharedStore ---------------------------
(* Shared package store of Bob (pym/bob/share.py LocalShare + the builder's
   workspace bookkeeping in pym/bob/builder.py), property C15.

   World
     sdir            the share directory exists
     repo            repo.json: [st, seq, mt]  st = "none" (no file) | "empty" (created,
                     nothing written yet) | "map"; seq = recorded build-ids in file
                     order (the recorded size of b is the constant Size(b)); mt = the
                     file on disk is empty at the moment because a rewrite has not
                     been flushed yet
     pkg[b]          the directory <share>/xx/yy/zz-3 of build-id b:
                     [vis, inst, users, ok, complete, mt]; inst identifies the
                     installation (who renamed it into place), users = pkg.json
                     "users" in file order, ok = content hash equals the recorded
                     one, complete = pkg.json + workspace + audit present, mt = pkg.json
                     on disk is empty at the moment (unflushed rewrite)
     order           ages: tokens (build-id = pkg.json of the visible package,
                     process = pkg.json in that installer's temporary directory),
                     least recently written/touched first  (st_mtime_ns of pkg.json)
     repoLock, pkgLock[b]   flock state: [sh, ex] sets of holders
     ws[p]           the package workspace of project p: <<"none">> | <<"dir">> | <<"link", b>>
     claim[p]        a share API call of p has returned the path of b and the
                     builder has not yet created the link: <<b, how>> | <<"none">>
     quota           configured quota (NoQuota = none)

   M layer: one action per lock operation / visible file-system operation of the
   code in code order (line numbers of share.py / builder.py in comments; the
   name of the real operation that *is* the action in brackets: the replay
   driver parks every actor before exactly these operations).  Everything between
   two such operations is private to the process (temporary directory, data read
   or written under the respective lock) and folded into the preceding action.

   Weak selects the mechanisms of the code as it is (each one is the cause of a
   confirmed defect); Weak = {} is the repaired protocol:
     "LinkAfterUnlock"      the builder creates the workspace link after the share
                            API has returned, outside all locks (builder.py
                            1499-1532, 1736-1750)  [repaired: under the repo lock]
     "LostRaceUnregistered" installSharedPackage returns (path, False) on a lost
                            race without recording the caller in pkg.json "users"
                            (share.py 252-253, 298-300)  [repaired: register like
                            useSharedPackage, retry when the package vanished]
     "GcNeedsRepoJson"      gc opens repo.json unconditionally (share.py 330)
                            [repaired: nothing to collect]
     "RepoCreateWindow"     repo.json is created empty, then locked, then written
                            (share.py 201-203); readers json.load() it (182, 331)
                            [repaired: an empty file reads as {}, creator merges]
     "UnlockBeforeFlush"    OpenLocked.__exit__ (share.py 55-59) releases the flock and
                            only then closes the file: the JSON text written under the
                            lock sits in the user-space buffer, the file on disk is
                            empty (truncate() flushed) until close()  [repaired: flush
                            before unlock]
     "InspectRace"          sameWorkspace: islink() then readlink() (share.py
                            116-117), a vanished link is a BuildError
                            [repaired: a vanished link is "not the same workspace"];
                            the same BuildError when the link of a user points to a
                            package that has been collected (samefile, share.py 123)

   P layer: the invariants at the end.  dangling / polviol / err are history
   variables that record P-level events at the step where they happen.
   hist is the observation variable for behaviour generation (hidden by VIEW). *)
EXTENDS Naturals, Sequences, FiniteSets, TLC, Json

CONSTANTS Procs,       \* logical projects / processes (strings)
          BIds,        \* build-ids, subset of {"b1", "b2"}
          MaxOps,      \* operations per process
          MaxTotal,    \* operations over all processes
          OpKinds,     \* subset of {"use","inst","instmv","instbad","gc","gcU","gcA","gcUA"}
          Quotas,      \* possible quota values (NoQuota = 99: none)
          InitKinds,   \* subset of {"nodir","emptydir","pop"}
          InitPerm,    \* TRUE: all orders of users / repo entries / ages in populated initial stores
          MaxUnlink,   \* how often a project directory is deleted by its user
          Weak,
          Gen          \* TRUE: print hist of every maximal behaviour

VARIABLES sdir, repo, pkg, order, ninst,
          repoLock, pkgLock,
          ws, claim,
          pc, op, loc,
          todo, total, nunlink, quota,
          err, dangling, polviol, stable, stale,
          hist

store  == <<sdir, repo, pkg, order, ninst>>
locks  == <<repoLock, pkgLock>>
ctl    == <<pc, op, loc>>
budget == <<todo, total, nunlink, quota>>
ghost2 == <<err, dangling, polviol, stale>>
ghost  == <<err, dangling, polviol, stale, stable>>
vars == <<sdir, repo, pkg, order, ninst, repoLock, pkgLock, ws, claim, pc, op, loc,
          todo, total, nunlink, quota, err, dangling, polviol, stable, stale, hist>>
view == <<sdir, repo, pkg, order, ninst, repoLock, pkgLock, ws, claim, pc, op, loc,
          todo, total, nunlink, quota, err, dangling, polviol, stable, stale>>

NoQuota == 99
Size(b) == IF b = "b1" THEN 1 ELSE 2
SumSet(S) == (IF "b1" \in S THEN 1 ELSE 0) + (IF "b2" \in S THEN 2 ELSE 0)

NONE == <<"none">>
DIR == <<"dir">>
LINK(b) == <<"link", b>>
IsLink(w) == w[1] = "link"

NoPkg == [vis |-> FALSE, inst |-> 0, users |-> <<>>, ok |-> TRUE, complete |-> TRUE, mt |-> FALSE]
NoRepo == [st |-> "none", seq |-> <<>>, mt |-> FALSE]
NoLock == [sh |-> {}, ex |-> {}]
Free(l) == l.sh = {} /\ l.ex = {}
IdleOp == [kind |-> "idle", b |-> "-", mv |-> FALSE, bad |-> FALSE, pu |-> FALSE, pn |-> FALSE, inst |-> 0]
NoLoc == [sub |-> "", fail |-> "", how |-> "", scan |-> <<>>, cur |-> "-", us |-> <<>>,
          cands |-> {}, size |-> 0, newpkg |-> "-", gpu |-> FALSE, gpn |-> FALSE, after |-> "", dirty |-> FALSE,
          \* history: claims / workspaces when this gc took the repo lock
          sc |-> [q \in Procs |-> <<"none">>], sw |-> [q \in Procs |-> <<"none">>]]

SeqToSet(s) == {s[i] : i \in DOMAIN s}
InSeq(x, s) == \E i \in DOMAIN s : s[i] = x
Remove(s, x) == SelectSeq(s, LAMBDA y : y # x)
Touch(s, x) == Append(Remove(s, x), x)
Replace(s, x, y) == [i \in DOMAIN s |-> IF s[i] = x THEN y ELSE s[i]]
Index(s, x) == CHOOSE i \in DOMAIN s : s[i] = x
Perms(S) == {s \in [1..Cardinality(S) -> S] : \A i, j \in 1..Cardinality(S) : i # j => s[i] # s[j]}
Canon(S) == CHOOSE s \in Perms(S) : TRUE

H(a, p, x) == hist' = Append(hist, [a |-> a, p |-> p, x |-> x])

W(x) == x \in Weak

(* P-level notion of "used": a workspace link or a pending claim *)
PUsed(b) == \E p \in Procs : ws[p] = LINK(b) \/ claim[p][1] = b

\* history variable stable[g]: packages that were unused (P-level) ever since gc g took the repo lock;
\* Mark(b): b is taken into use (claim or link) now
Mark(b) == stable' = [q \in Procs |-> stable[q] \ {b}]

GcPcs == {"g_openpkg", "g_lockpkg", "g_islink", "g_readlink", "g_unlockpkg", "g_remove", "g_unlockrepo"}

----------------------------------------------------------------------------
Init ==
  /\ quota \in Quotas
  /\ repoLock = NoLock /\ pkgLock = [b \in BIds |-> NoLock]
  /\ claim = [p \in Procs |-> NONE]
  /\ pc = [p \in Procs |-> "idle"] /\ op = [p \in Procs |-> IdleOp] /\ loc = [p \in Procs |-> NoLoc]
  /\ todo = [p \in Procs |-> MaxOps] /\ total = 0 /\ nunlink = 0
  /\ err = {} /\ dangling = {} /\ polviol = {} /\ stable = [p \in Procs |-> {}] /\ stale = {}
  /\ ninst = 2
  /\ \E k \in InitKinds :
       \/ /\ k = "nodir" /\ sdir = FALSE /\ repo = NoRepo
          /\ pkg = [b \in BIds |-> NoPkg] /\ order = <<>> /\ ws = [p \in Procs |-> NONE]
          /\ hist = <<[a |-> "Init", p |-> "-", x |-> "nodir", quota |-> quota]>>
       \/ /\ k = "emptydir" /\ sdir = TRUE /\ repo = NoRepo
          /\ pkg = [b \in BIds |-> NoPkg] /\ order = <<>> /\ ws = [p \in Procs |-> NONE]
          /\ hist = <<[a |-> "Init", p |-> "-", x |-> "emptydir", quota |-> quota]>>
       \/ /\ k = "pop" /\ sdir = TRUE
          /\ \E S \in SUBSET BIds :
              \E sq \in (IF InitPerm THEN Perms(S) ELSE {Canon(S)}), od \in (IF InitPerm THEN Perms(S) ELSE {Canon(S)}) :
               \E us \in [S -> UNION {(IF InitPerm THEN Perms(U) ELSE {Canon(U)}) : U \in SUBSET Procs}] :
                 /\ repo = [st |-> "map", seq |-> sq, mt |-> FALSE] /\ order = od
                 /\ pkg = [b \in BIds |-> IF b \in S THEN [vis |-> TRUE, inst |-> Size(b), users |-> us[b],
                                                          ok |-> TRUE, complete |-> TRUE, mt |-> FALSE] ELSE NoPkg]
                 /\ ws \in {w \in [Procs -> {NONE} \cup {LINK(b) : b \in S}] :
                              \A p \in Procs : IsLink(w[p]) => InSeq(p, us[w[p][2]])}
                 /\ hist = <<[a |-> "Init", p |-> "-", x |-> "pop",
                              repo |-> sq, order |-> od, users |-> [b \in S |-> us[b]], ws |-> ws, quota |-> quota]>>

----------------------------------------------------------------------------
(* operation start / end: no file-system effect *)

Done(p) == /\ pc' = [pc EXCEPT ![p] = "idle"] /\ op' = [op EXCEPT ![p] = IdleOp] /\ loc' = [loc EXCEPT ![p] = NoLoc]
Fail(p, what) == Done(p) /\ err' = err \cup {what}

CanStart(p) == pc[p] = "idle" /\ todo[p] > 0 /\ total < MaxTotal
Started(p) == /\ todo' = [todo EXCEPT ![p] = @ - 1] /\ total' = total + 1 /\ UNCHANGED <<nunlink, quota>>

\* builder.py 1118: _useSharedPackage
StartUse(p, b) ==
  /\ CanStart(p) /\ "use" \in OpKinds
  /\ op' = [op EXCEPT ![p] = [IdleOp EXCEPT !.kind = "use", !.b = b]]
  /\ pc' = [pc EXCEPT ![p] = "u_open"] /\ UNCHANGED loc
  /\ Started(p) /\ H("StartUse", p, b)
  /\ UNCHANGED <<store, locks, ws, claim, ghost>>

\* builder.py 1136-1154: the package was built/downloaded into a real directory, then _installSharedPackage;
\* mv = self.__useSharedPackages (mayMove and link afterwards); bad = the content at the destination hashes differently
StartInst(p, b, mv, bad) ==
  /\ CanStart(p) /\ ~IsLink(ws[p])
  /\ (IF bad THEN "instbad" ELSE IF mv THEN "instmv" ELSE "inst") \in OpKinds
  /\ op' = [op EXCEPT ![p] = [IdleOp EXCEPT !.kind = "inst", !.b = b, !.mv = mv, !.bad = bad]]
  /\ ws' = [ws EXCEPT ![p] = DIR]
  /\ pc' = [pc EXCEPT ![p] = "i_quick"] /\ UNCHANGED loc
  /\ Started(p) /\ H("StartInst", p, <<b, mv, bad>>)
  /\ UNCHANGED <<store, locks, claim, ghost>>

\* bob clean --shared [--used] [--all-unused]  (clean.py 160-171); share.py 318-319: nothing to do without quota
StartGc(p, pu, pn) ==
  /\ CanStart(p)
  /\ (IF pu /\ pn THEN "gcUA" ELSE IF pu THEN "gcU" ELSE IF pn THEN "gcA" ELSE "gc") \in OpKinds
  /\ (quota = NoQuota => (pn /\ ~pu))     \* quota none: no-op without --all-unused; --used needs a quota (see assumptions)
  /\ op' = [op EXCEPT ![p] = [IdleOp EXCEPT !.kind = "gc", !.pu = pu, !.pn = pn]]
  /\ loc' = [loc EXCEPT ![p] = [NoLoc EXCEPT !.gpu = pu, !.gpn = pn]]
  /\ pc' = [pc EXCEPT ![p] = "g_isdir"]
  /\ Started(p) /\ H("StartGc", p, <<pu, pn>>)
  /\ UNCHANGED <<store, locks, ws, claim, ghost>>

\* the user deletes project p (rm -rf): workspace and Bob's state of it are gone; pkg.json still lists it
Unlink(p) ==
  /\ pc[p] = "idle" /\ nunlink < MaxUnlink /\ ws[p] # NONE
  /\ total < MaxTotal /\ \E q \in Procs : todo[q] > 0
  /\ ws' = [ws EXCEPT ![p] = NONE] /\ nunlink' = nunlink + 1
  /\ H("Unlink", p, "")
  /\ stale' = stale \ {p}
  /\ UNCHANGED <<store, locks, claim, ctl, todo, total, quota, err, dangling, polviol, stable>>

----------------------------------------------------------------------------
(* useSharedPackage, share.py 217-247  (also the registration sub-protocol of the repaired install) *)

\* end of the share API call on the failure path (returns None, None): builder.py 1534-1548
UseApiNone(p) ==
  IF loc[p].sub = "lostreg"
    THEN \* repaired install: the competing package vanished -> try again
         /\ pc' = [pc EXCEPT ![p] = IF loc[p].how = "quick" THEN "i_mkdirs" ELSE "i_rename"]
         /\ loc' = [loc EXCEPT ![p] = [NoLoc EXCEPT !.how = loc[p].how]] /\ UNCHANGED <<op, claim>>
    ELSE IF loc[p].sub = "instlink"
    THEN Done(p) /\ UNCHANGED claim
    ELSE IF IsLink(ws[p])
    THEN /\ pc' = [pc EXCEPT ![p] = "b_unshare"] /\ loc' = [loc EXCEPT ![p] = NoLoc] /\ UNCHANGED <<op, claim>>
    ELSE Done(p) /\ UNCHANGED claim

\* where the builder continues once it knows the shared path (builder.py 1499-1532 / 1736-1750)
TailPc(p, b) == IF ws[p] = LINK(b) THEN "b_same" ELSE IF ws[p] = NONE THEN "b_link" ELSE "b_prune"

\* 221 [open.r repo.json]
U_OpenRepo(p) ==
  /\ pc[p] = "u_open"
  /\ IF repo.st = "none"
       THEN UseApiNone(p) /\ H("U_OpenRepo", p, "none")
       ELSE pc' = [pc EXCEPT ![p] = "u_lockrepo"] /\ UNCHANGED <<op, loc, claim>> /\ H("U_OpenRepo", p, "")
  /\ UNCHANGED <<store, locks, ws, budget, ghost>>

\* 221 [flock.sh repo.json]
U_LockRepo(p) ==
  /\ pc[p] = "u_lockrepo" /\ repoLock.ex = {}
  /\ repoLock' = [repoLock EXCEPT !.sh = @ \cup {p}]
  /\ pc' = [pc EXCEPT ![p] = "u_openpkg"] /\ H("U_LockRepo", p, "")
  /\ UNCHANGED <<store, pkgLock, ws, claim, op, loc, budget, ghost>>

\* 223 [open.r+ pkg.json]  FileNotFoundError -> 240
U_OpenPkg(p) ==
  /\ pc[p] = "u_openpkg"
  /\ IF pkg[op[p].b].vis
       THEN pc' = [pc EXCEPT ![p] = "u_lockpkg"] /\ UNCHANGED loc
       ELSE pc' = [pc EXCEPT ![p] = "u_unlockrepo"] /\ loc' = [loc EXCEPT ![p].fail = "none"]
  /\ H("U_OpenPkg", p, "")
  /\ UNCHANGED <<store, locks, ws, claim, op, budget, ghost>>

\* 223 [flock.ex pkg.json]
U_LockPkg(p) ==
  /\ pc[p] = "u_lockpkg" /\ Free(pkgLock[op[p].b])
  /\ pkgLock' = [pkgLock EXCEPT ![op[p].b].ex = {p}]
  /\ pc' = [pc EXCEPT ![p] = "u_isdir"] /\ H("U_LockPkg", p, "")
  /\ UNCHANGED <<store, repoLock, ws, claim, op, loc, budget, ghost>>

\* 224-229 [path.isdir <pkg>] then json.load (245: "Corrupt meta info")
U_IsDir(p) ==
  /\ pc[p] = "u_isdir"
  /\ IF pkg[op[p].b].vis /\ ~pkg[op[p].b].mt
       THEN pc' = [pc EXCEPT ![p] = "u_register"] /\ UNCHANGED loc
       ELSE /\ pc' = [pc EXCEPT ![p] = "u_unlockpkg"]
            /\ loc' = [loc EXCEPT ![p].fail = IF pkg[op[p].b].vis THEN "json-use" ELSE "none"]
  /\ H("U_IsDir", p, "")
  /\ UNCHANGED <<store, locks, ws, claim, op, budget, ghost>>

\* 226-239 [truncate pkg.json | utime pkg.json]
U_Register(p) ==
  LET b == op[p].b IN
  /\ pc[p] = "u_register"
  /\ pkg' = [pkg EXCEPT ![b].users = IF InSeq(p, @) THEN @ ELSE Append(@, p),
                         ![b].mt = ~InSeq(p, pkg[b].users) /\ W("UnlockBeforeFlush")]
  /\ order' = Touch(order, b)
  /\ IF W("LinkAfterUnlock")
       THEN pc' = [pc EXCEPT ![p] = "u_unlockpkg"] /\ loc' = [loc EXCEPT ![p].dirty = ~InSeq(p, pkg[b].users)]
       ELSE \* repaired: the builder links before the locks are released
            /\ pc' = [pc EXCEPT ![p] = IF TailPc(p, b) = "b_same" THEN "u_unlockpkg" ELSE TailPc(p, b)]
            /\ loc' = [loc EXCEPT ![p].after = "unlock", ![p].dirty = ~InSeq(p, pkg[b].users)]
  /\ H("U_Register", p, "")
  /\ UNCHANGED <<sdir, repo, ninst, locks, ws, claim, op, budget, ghost>>

\* 223 exit [flock.un pkg.json]
U_UnlockPkg(p) ==
  /\ pc[p] = "u_unlockpkg"
  /\ pkgLock' = [pkgLock EXCEPT ![op[p].b].ex = {}]
  /\ pc' = [pc EXCEPT ![p] = "u_closepkg"] /\ H("U_UnlockPkg", p, "")
  \* (repaired: the rewritten text was flushed before this unlock, still within U_Register's critical section)
  /\ UNCHANGED <<store, repoLock, ws, claim, op, loc, budget, ghost>>

\* 59 [close pkg.json]: the buffered rewrite reaches the file
U_ClosePkg(p) ==
  /\ pc[p] = "u_closepkg"
  /\ pkg' = IF loc[p].dirty THEN [pkg EXCEPT ![op[p].b].mt = FALSE] ELSE pkg
  /\ order' = IF loc[p].dirty /\ W("UnlockBeforeFlush") /\ pkg[op[p].b].vis THEN Touch(order, op[p].b) ELSE order
  /\ pc' = [pc EXCEPT ![p] = "u_unlockrepo"] /\ H("U_ClosePkg", p, "")
  /\ UNCHANGED <<sdir, repo, ninst, locks, ws, claim, op, loc, budget, ghost>>

\* 221 exit [flock.un repo.json]; the API returns
U_UnlockRepo(p) ==
  LET b == op[p].b IN
  /\ pc[p] = "u_unlockrepo"
  /\ repoLock' = [repoLock EXCEPT !.sh = @ \ {p}]
  /\ order' = IF loc[p].fail # "" THEN order ELSE Remove(order, p)    \* repaired lost race: the temporary copy is dropped
  /\ IF loc[p].fail = "json-use"
       THEN Fail(p, "json-use") /\ UNCHANGED claim /\ H("U_UnlockRepo", p, "error")     \* BuildError: Corrupt meta info
       ELSE UNCHANGED err /\
       IF loc[p].fail = "none"
       THEN UseApiNone(p) /\ H("U_UnlockRepo", p, "none")
       ELSE IF ~W("LinkAfterUnlock")
       THEN Done(p) /\ UNCHANGED claim /\ H("U_UnlockRepo", p, "linked")
       ELSE IF TailPc(p, b) = "b_same"
       THEN Done(p) /\ UNCHANGED claim /\ H("U_UnlockRepo", p, "same")     \* builder.py 1502-1506 already shared
       ELSE /\ claim' = [claim EXCEPT ![p] = <<b, IF op[p].kind = "use" THEN "use" ELSE "lost">>]
            /\ pc' = [pc EXCEPT ![p] = TailPc(p, b)] /\ loc' = [loc EXCEPT ![p] = NoLoc] /\ UNCHANGED op
            /\ H("U_UnlockRepo", p, "ok")
  /\ Mark(b)
  /\ UNCHANGED <<sdir, repo, pkg, ninst, pkgLock, ws, budget, dangling, polviol, stale>>

----------------------------------------------------------------------------
(* the builder's workspace bookkeeping, builder.py 1507-1532, 1541-1546, 1736-1750 *)

\* 1510 / 1514 / 1740 [unlink <ws> | removePath <ws>]
B_Prune(p) ==
  /\ pc[p] = "b_prune"
  /\ ws' = [ws EXCEPT ![p] = NONE]
  /\ pc' = [pc EXCEPT ![p] = "b_link"] /\ H("B_Prune", p, "")
  /\ stale' = IF claim[p] = NONE THEN stale \ {p} ELSE stale
  /\ UNCHANGED <<store, locks, claim, op, loc, budget, err, dangling, polviol, stable>>

\* 1522 / 1744 [symlink <ws>]
B_Link(p) ==
  /\ pc[p] = "b_link"
  /\ ws' = [ws EXCEPT ![p] = LINK(op[p].b)]
  /\ claim' = [claim EXCEPT ![p] = NONE]
  /\ LET nl == [g \in Procs |-> IF g # p /\ pc[g] \in GcPcs
                                   THEN [loc[g] EXCEPT !.sw = [@ EXCEPT ![p] = <<"during", claim[p][IF claim[p] = NONE THEN 1 ELSE 2]>>]]
                                   ELSE loc[g]] IN
     IF loc[p].after = "unlock"
       THEN pc' = [pc EXCEPT ![p] = "u_unlockpkg"] /\ UNCHANGED op /\ loc' = nl
       ELSE /\ pc' = [pc EXCEPT ![p] = "idle"] /\ op' = [op EXCEPT ![p] = IdleOp]
            /\ loc' = [nl EXCEPT ![p] = NoLoc]
  \* the share API handed out the path of a package that is not there (any more) and nobody forced its removal
  \* (also when somebody else has installed the build-id again in the meantime: the link works, but it is not p's package)
  /\ LET gone == ~pkg[op[p].b].vis
                 \/ (op[p].inst # 0 /\ pkg[op[p].b].inst # op[p].inst /\ ~InSeq(p, pkg[op[p].b].users)) IN
     /\ dangling' = IF gone /\ p \notin stale THEN dangling \cup {"linked-to-collected"} ELSE dangling
     /\ stale' = IF gone THEN stale \cup {p} ELSE stale \ {p}
  /\ H("B_Link", p, "")
  /\ Mark(op[p].b)
  /\ UNCHANGED <<store, locks, budget, err, polviol>>

\* 1541-1546 [unlink <ws>]: the share does not have the package (any more)
B_Unshare(p) ==
  /\ pc[p] = "b_unshare"
  /\ ws' = [ws EXCEPT ![p] = NONE]
  /\ Done(p) /\ H("B_Unshare", p, "")
  /\ stale' = stale \ {p}
  /\ UNCHANGED <<store, locks, claim, budget, err, dangling, polviol, stable>>

----------------------------------------------------------------------------
(* installSharedPackage, share.py 249-315 *)

\* the API returns (path, True): builder.py 1736-1750
InstReturn(p) ==
  IF ~op[p].mv THEN Done(p) /\ UNCHANGED <<claim, stable>>
  ELSE IF W("LinkAfterUnlock")
  THEN /\ claim' = [claim EXCEPT ![p] = <<op[p].b, "inst">>] /\ Mark(op[p].b)
       /\ pc' = [pc EXCEPT ![p] = IF ws[p] = NONE THEN "b_link" ELSE "b_prune"]
       /\ loc' = [loc EXCEPT ![p] = NoLoc] /\ UNCHANGED op
  ELSE /\ pc' = [pc EXCEPT ![p] = "u_open"]
       /\ loc' = [loc EXCEPT ![p] = [NoLoc EXCEPT !.sub = "instlink"]] /\ UNCHANGED <<op, claim, stable>>

\* the API returns (path, False): 253 / 300
Lost(p, how) ==
  IF ~op[p].mv THEN Done(p) /\ UNCHANGED <<claim, stable>>       \* install-only project: nothing will be linked
  ELSE IF W("LostRaceUnregistered")
  THEN /\ claim' = [claim EXCEPT ![p] = <<op[p].b, "lost">>] /\ Mark(op[p].b)
       /\ pc' = [pc EXCEPT ![p] = IF how = "quick" THEN "b_prune" ELSE "b_link"]
       /\ loc' = [loc EXCEPT ![p] = NoLoc] /\ UNCHANGED op
  ELSE /\ pc' = [pc EXCEPT ![p] = "r_touch"]
       /\ loc' = [loc EXCEPT ![p] = [NoLoc EXCEPT !.sub = "lostreg", !.how = how]] /\ UNCHANGED <<op, claim, stable>>

\* 252 [path.isdir <pkg>]
I_Quick(p) ==
  /\ pc[p] = "i_quick"
  /\ IF pkg[op[p].b].vis
       THEN Lost(p, "quick") /\ H("I_Quick", p, "lost")
       ELSE pc' = [pc EXCEPT ![p] = "i_mkdirs"] /\ UNCHANGED <<op, loc, claim, stable>> /\ H("I_Quick", p, "")
  /\ UNCHANGED <<store, locks, ws, budget, ghost2>>

\* repaired lost race: make sure repo.json exists so that the registration can take the repo lock [open.a repo.json]
R_Touch(p) ==
  /\ pc[p] = "r_touch"
  /\ repo' = IF repo.st = "none" THEN [NoRepo EXCEPT !.st = "empty"] ELSE repo
  /\ pc' = [pc EXCEPT ![p] = "u_open"] /\ H("R_Touch", p, "")
  /\ UNCHANGED <<sdir, pkg, order, ninst, locks, ws, claim, op, loc, budget, ghost>>

\* 260-261 [makedirs <share>/xx/yy] (+ mkdtemp)
I_MkDirs(p) ==
  /\ pc[p] = "i_mkdirs"
  /\ sdir' = TRUE
  /\ pc' = [pc EXCEPT ![p] = "i_prepare"] /\ H("I_MkDirs", p, "")
  /\ UNCHANGED <<repo, pkg, order, ninst, locks, ws, claim, op, loc, budget, ghost>>

\* 262-287 [shutil.move <ws> | shutil.copytree <ws>], hash verification; a mismatch is the BuildError the caller asked for
I_Prepare(p) ==
  /\ pc[p] = "i_prepare"
  /\ ws' = [ws EXCEPT ![p] = IF op[p].mv THEN NONE ELSE DIR]
  /\ IF op[p].bad
       THEN Done(p) /\ H("I_Prepare", p, "badhash")
       ELSE pc' = [pc EXCEPT ![p] = "i_meta"] /\ UNCHANGED <<op, loc>> /\ H("I_Prepare", p, "")
  /\ UNCHANGED <<store, locks, claim, budget, ghost>>

\* 288-293 [open.w <tmp>/pkg/pkg.json]
I_Meta(p) ==
  /\ pc[p] = "i_meta"
  /\ order' = Append(order, p)
  /\ pc' = [pc EXCEPT ![p] = "i_rename"] /\ H("I_Meta", p, "")
  /\ UNCHANGED <<sdir, repo, pkg, ninst, locks, ws, claim, op, loc, budget, ghost>>

\* 297 [rename <tmp>/pkg <pkg>]  ENOTEMPTY -> 300
I_Rename(p) ==
  LET b == op[p].b IN
  /\ pc[p] = "i_rename"
  /\ IF pkg[b].vis
       THEN /\ IF W("LostRaceUnregistered") \/ ~op[p].mv THEN order' = Remove(order, p) ELSE UNCHANGED order
            /\ Lost(p, "rename") /\ H("I_Rename", p, "lost")
            /\ UNCHANGED <<pkg, ninst>>
       ELSE /\ pkg' = [pkg EXCEPT ![b] = [vis |-> TRUE, inst |-> ninst + 1, users |-> <<p>>, ok |-> TRUE, complete |-> TRUE, mt |-> FALSE]]
            /\ ninst' = ninst + 1
            /\ order' = Replace(order, p, b)
            /\ pc' = [pc EXCEPT ![p] = "a_open"] /\ UNCHANGED <<loc, claim, stable>>
            /\ op' = [op EXCEPT ![p].inst = ninst + 1]
            /\ H("I_Rename", p, "")
  /\ UNCHANGED <<sdir, repo, locks, ws, budget, ghost2>>

(* __addPackage, share.py 180-209 *)

\* 196 [open.r+ repo.json]
A_Open(p) ==
  /\ pc[p] = "a_open"
  /\ pc' = [pc EXCEPT ![p] = IF repo.st = "none" THEN "a_create" ELSE "a_lock"]
  /\ H("A_Open", p, "")
  /\ UNCHANGED <<store, locks, ws, claim, op, loc, budget, ghost>>

\* 201 [open.x repo.json]  FileExistsError -> 206
A_Create(p) ==
  /\ pc[p] = "a_create"
  /\ IF repo.st = "none"
       THEN repo' = [NoRepo EXCEPT !.st = "empty"] /\ pc' = [pc EXCEPT ![p] = "a_lockc"]
       ELSE UNCHANGED repo /\ pc' = [pc EXCEPT ![p] = "a_open2"]
  /\ H("A_Create", p, "")
  /\ UNCHANGED <<sdir, pkg, order, ninst, locks, ws, claim, op, loc, budget, ghost>>

\* 206 [open.r+ repo.json]
A_Open2(p) ==
  /\ pc[p] = "a_open2"
  /\ pc' = [pc EXCEPT ![p] = "a_lock"] /\ H("A_Open2", p, "")
  /\ UNCHANGED <<store, locks, ws, claim, op, loc, budget, ghost>>

\* 201-203 [flock.ex repo.json] then json.dump of a fresh map
A_LockC(p) ==
  LET b == op[p].b
      nseq == IF W("RepoCreateWindow") \/ repo.st # "map" THEN <<b>>
              ELSE IF InSeq(b, repo.seq) THEN repo.seq ELSE Append(repo.seq, b) IN
  /\ pc[p] = "a_lockc" /\ Free(repoLock)
  /\ repoLock' = [repoLock EXCEPT !.ex = {p}]
  /\ repo' = [st |-> "map", seq |-> nseq, mt |-> W("UnlockBeforeFlush")]
  /\ loc' = [loc EXCEPT ![p].size = SumSet(SeqToSet(nseq)), ![p].dirty = TRUE]
  /\ pc' = [pc EXCEPT ![p] = "a_unlock"] /\ H("A_LockC", p, "")
  /\ UNCHANGED <<sdir, pkg, order, ninst, pkgLock, ws, claim, op, budget, ghost>>

\* 196/206 [flock.ex repo.json] then update(): json.load, add, json.dump
A_Lock(p) ==
  LET b == op[p].b
      nseq == IF repo.st # "map" THEN <<b>> ELSE IF InSeq(b, repo.seq) THEN repo.seq ELSE Append(repo.seq, b) IN
  /\ pc[p] = "a_lock" /\ Free(repoLock)
  /\ repoLock' = [repoLock EXCEPT !.ex = {p}]
  /\ IF (repo.st = "empty" /\ W("RepoCreateWindow")) \/ repo.mt
       THEN UNCHANGED repo /\ loc' = [loc EXCEPT ![p].fail = "json-install"]     \* JSONDecodeError
       ELSE /\ repo' = [st |-> "map", seq |-> nseq, mt |-> W("UnlockBeforeFlush")]
            /\ loc' = [loc EXCEPT ![p].size = SumSet(SeqToSet(nseq)), ![p].dirty = TRUE]
  /\ pc' = [pc EXCEPT ![p] = "a_unlock"] /\ H("A_Lock", p, "")
  /\ UNCHANGED <<sdir, pkg, order, ninst, pkgLock, ws, claim, op, budget, ghost>>

\* exit of OpenLocked, 57 [flock.un repo.json]
A_Unlock(p) ==
  /\ pc[p] = "a_unlock"
  /\ repoLock' = [repoLock EXCEPT !.ex = {}]
  /\ pc' = [pc EXCEPT ![p] = "a_close"] /\ H("A_Unlock", p, "")
  /\ UNCHANGED <<store, pkgLock, ws, claim, op, loc, budget, ghost>>

\* 59 [close repo.json]: the buffered rewrite reaches the file; 308-315: quota check, automatic gc, return
A_Close(p) ==
  /\ pc[p] = "a_close"
  /\ repo' = IF loc[p].dirty THEN [repo EXCEPT !.mt = FALSE] ELSE repo
  /\ IF loc[p].fail # ""
       THEN Fail(p, loc[p].fail) /\ UNCHANGED <<claim, dangling, polviol, stale, stable>> /\ H("A_Close", p, "error")
       ELSE /\ UNCHANGED ghost2
            /\ IF quota # NoQuota /\ loc[p].size > quota
                 THEN /\ pc' = [pc EXCEPT ![p] = "g_isdir"]
                      /\ loc' = [loc EXCEPT ![p] = [NoLoc EXCEPT !.sub = "auto", !.newpkg = op[p].b]]
                      /\ UNCHANGED <<op, claim, stable>> /\ H("A_Close", p, "autoclean")
                 ELSE InstReturn(p) /\ H("A_Close", p, "ok")
  /\ UNCHANGED <<sdir, pkg, order, ninst, locks, ws, budget>>

----------------------------------------------------------------------------
(* gc, share.py 317-361  (stand-alone or as the automatic gc of an install, 310) *)

GcReturn(p, x) ==
  IF loc[p].fail # ""
    THEN Fail(p, loc[p].fail) /\ UNCHANGED <<claim, stable>> /\ H(x, p, "error")
    ELSE /\ UNCHANGED err
         /\ IF loc[p].sub = "auto" THEN InstReturn(p) ELSE Done(p) /\ UNCHANGED <<claim, stable>>
         /\ H(x, p, "ok")

\* 320 [path.isdir <share>] (+ mkdtemp of the attic)   (repaired: [path.isfile repo.json])
G_IsDir(p) ==
  /\ pc[p] = "g_isdir"
  /\ IF (IF W("GcNeedsRepoJson") THEN sdir ELSE repo.st # "none")
       THEN pc' = [pc EXCEPT ![p] = "g_openrepo"] /\ UNCHANGED <<op, loc, claim, err, stable>> /\ H("G_IsDir", p, "")
             ELSE GcReturn(p, "G_IsDir")
  /\ UNCHANGED <<store, locks, ws, budget, dangling, polviol, stale>>

\* 330 [open.r+ repo.json]
G_OpenRepo(p) ==
  /\ pc[p] = "g_openrepo"
  /\ IF repo.st = "none"
       THEN IF W("GcNeedsRepoJson")
              THEN Fail(p, "gc-norepo") /\ UNCHANGED <<claim, stable>> /\ H("G_OpenRepo", p, "error")    \* raw FileNotFoundError
              ELSE GcReturn(p, "G_OpenRepo")
       ELSE pc' = [pc EXCEPT ![p] = "g_lockrepo"] /\ UNCHANGED <<op, loc, claim, err, stable>> /\ H("G_OpenRepo", p, "")
  /\ UNCHANGED <<store, locks, ws, budget, dangling, polviol, stale>>

\* candidate order of sorted(candidates), 348: used ones first, then by age
Key(c) == (IF c.unused THEN 100 ELSE 0) + Index(order, c.b)
NextCand(cs) == CHOOSE c \in cs : \A d \in cs : Key(c) <= Key(d)
\* 349: does the loop go on with the next candidate?
GoesOn(cs, size, pn) == cs # {} /\ ~((~NextCand(cs).unused \/ ~pn) /\ size <= quota)
LoopPc(cs, size, pn) == IF GoesOn(cs, size, pn) THEN "g_remove" ELSE "g_unlockrepo"
ScanPc(scan, cs, size, pn) == IF scan # <<>> THEN "g_openpkg" ELSE LoopPc(cs, size, pn)

\* 330-331 [flock.ex repo.json] then json.load
G_LockRepo(p) ==
  /\ pc[p] = "g_lockrepo" /\ Free(repoLock)
  /\ repoLock' = [repoLock EXCEPT !.ex = {p}]
  /\ IF (repo.st = "empty" /\ W("RepoCreateWindow")) \/ repo.mt
       THEN /\ loc' = [loc EXCEPT ![p].fail = "json-gc"]                \* JSONDecodeError
            /\ pc' = [pc EXCEPT ![p] = "g_unlockrepo"] /\ UNCHANGED stable
       ELSE LET sq == IF repo.st = "map" THEN repo.seq ELSE <<>>
                sz == SumSet(SeqToSet(sq)) IN
            /\ loc' = [loc EXCEPT ![p].scan = sq, ![p].size = sz, ![p].cands = {}, ![p].sc = claim, ![p].sw = ws]
            /\ pc' = [pc EXCEPT ![p] = ScanPc(sq, {}, sz, loc[p].gpn)]
            /\ stable' = [stable EXCEPT ![p] = {b \in BIds : ~PUsed(b)}]
  /\ H("G_LockRepo", p, "")
  /\ UNCHANGED <<store, pkgLock, ws, claim, op, budget, ghost2>>

\* 338 [open.r pkg.json]  FileNotFoundError -> 344
G_OpenPkg(p) ==
  LET b == Head(loc[p].scan) IN
  /\ pc[p] = "g_openpkg"
  /\ IF pkg[b].vis
       THEN /\ loc' = [loc EXCEPT ![p].cur = b, ![p].scan = Tail(@)]
            /\ pc' = [pc EXCEPT ![p] = "g_lockpkg"]
       ELSE /\ loc' = [loc EXCEPT ![p].scan = Tail(@)]
            /\ pc' = [pc EXCEPT ![p] = ScanPc(Tail(loc[p].scan), loc[p].cands, loc[p].size, loc[p].gpn)]
  /\ H("G_OpenPkg", p, b)
  /\ UNCHANGED <<store, locks, ws, claim, op, budget, ghost>>

\* 338-340 [flock.sh pkg.json] then json.load, fstat
G_LockPkg(p) ==
  LET b == loc[p].cur IN
  /\ pc[p] = "g_lockpkg" /\ pkgLock[b].ex = {}
  /\ pkgLock' = [pkgLock EXCEPT ![b].sh = @ \cup {p}]
  /\ IF pkg[b].mt
       THEN /\ loc' = [loc EXCEPT ![p].fail = "json-gcpkg"] /\ pc' = [pc EXCEPT ![p] = "g_unlockpkg"]
       ELSE /\ loc' = [loc EXCEPT ![p].us = pkg[b].users]
            /\ pc' = [pc EXCEPT ![p] = IF pkg[b].users = <<>> THEN "g_unlockpkg" ELSE "g_islink"]
  /\ H("G_LockPkg", p, b)
  /\ UNCHANGED <<store, repoLock, ws, claim, op, budget, ghost>>

\* record the verdict of checkUnused for the current package (341-343)
Verdict(p, unused) ==
  LET b == loc[p].cur
      un == unused /\ b # loc[p].newpkg IN
  IF un \/ loc[p].gpu THEN loc[p].cands \cup {[b |-> b, unused |-> un]} ELSE loc[p].cands

\* 116 [path.islink <ws of the next user>]
G_IsLink(p) ==
  LET u == Head(loc[p].us) IN
  /\ pc[p] = "g_islink"
  /\ IF IsLink(ws[u])
       THEN /\ pc' = [pc EXCEPT ![p] = "g_readlink"] /\ UNCHANGED loc
       ELSE IF Tail(loc[p].us) # <<>>
       THEN /\ loc' = [loc EXCEPT ![p].us = Tail(@)] /\ UNCHANGED pc
       ELSE /\ loc' = [loc EXCEPT ![p].us = <<>>, ![p].cands = Verdict(p, TRUE)]
            /\ pc' = [pc EXCEPT ![p] = "g_unlockpkg"]
  /\ H("G_IsLink", p, u)
  /\ UNCHANGED <<store, locks, ws, claim, op, budget, ghost>>

\* 117, 123 [readlink <ws of that user>] then samefile
G_ReadLink(p) ==
  LET u == Head(loc[p].us)
      b == loc[p].cur IN
  /\ pc[p] = "g_readlink"
  /\ IF ~IsLink(ws[u]) /\ W("InspectRace")
       THEN /\ loc' = [loc EXCEPT ![p].fail = "gc-inspect"]           \* BuildError("Error inspecting workspace")
            /\ pc' = [pc EXCEPT ![p] = "g_unlockpkg"]
       ELSE IF IsLink(ws[u]) /\ ~pkg[ws[u][2]].vis /\ W("InspectRace")
       THEN \* 123: samefile() of a link whose package was collected (forced gc, or one of the races) -> same BuildError
            /\ loc' = [loc EXCEPT ![p].fail = "gc-inspect-dangling"]
            /\ pc' = [pc EXCEPT ![p] = "g_unlockpkg"]
       ELSE IF ws[u] = LINK(b)
       THEN /\ loc' = [loc EXCEPT ![p].us = <<>>, ![p].cands = Verdict(p, FALSE)]
            /\ pc' = [pc EXCEPT ![p] = "g_unlockpkg"]
       ELSE IF Tail(loc[p].us) # <<>>
       THEN /\ loc' = [loc EXCEPT ![p].us = Tail(@)] /\ pc' = [pc EXCEPT ![p] = "g_islink"]
       ELSE /\ loc' = [loc EXCEPT ![p].us = <<>>, ![p].cands = Verdict(p, TRUE)]
            /\ pc' = [pc EXCEPT ![p] = "g_unlockpkg"]
  /\ H("G_ReadLink", p, u)
  /\ UNCHANGED <<store, locks, ws, claim, op, budget, ghost>>

\* 338 exit [flock.un pkg.json]
G_UnlockPkg(p) ==
  LET b == loc[p].cur
      cs == IF pkg[b].users = <<>> /\ loc[p].fail = "" THEN Verdict(p, TRUE) ELSE loc[p].cands IN
  /\ pc[p] = "g_unlockpkg"
  /\ pkgLock' = [pkgLock EXCEPT ![b].sh = @ \ {p}]
  /\ loc' = [loc EXCEPT ![p].cands = cs, ![p].cur = "-"]
  /\ pc' = [pc EXCEPT ![p] = IF loc[p].fail # "" THEN "g_unlockrepo"
                             ELSE ScanPc(loc[p].scan, cs, loc[p].size, loc[p].gpn)]
  /\ H("G_UnlockPkg", p, b)
  /\ UNCHANGED <<store, repoLock, ws, claim, op, budget, ghost>>

\* 349-359 [rename <pkg> <attic>/b] then rewrite of repo.json under the lock
G_Remove(p) ==
  LET c == NextCand(loc[p].cands)
      b == c.b
      cs == loc[p].cands \ {c}
      sz == loc[p].size - Size(b)
      \* (a link that a forced gc has broken before does not count, even if the package has been installed again)
      victims == {q \in Procs \ stale : ws[q] = LINK(b) \/ claim[q][1] = b}
      \* what the victim was doing when this gc took the repo lock
      \* (the installer's claim may begin just after the lock was taken: its API call ends with unlocked steps)
      how(q) == IF claim[q][1] = b
                  THEN (IF loc[p].sc[q] = claim[q] \/ claim[q][2] = "inst" THEN claim[q][2] ELSE "during")
                ELSE IF loc[p].sw[q] = LINK(b) THEN (IF InSeq(q, pkg[b].users) THEN "linked" ELSE "linked-unregistered")
                ELSE IF loc[p].sc[q][1] = b THEN loc[p].sc[q][2]
                ELSE IF loc[p].sw[q] = <<"during", "inst">> THEN "inst"
                ELSE "during"
      older == {d \in stable[p] : d # b /\ d # loc[p].newpkg /\ pkg[d].vis /\ InSeq(d, repo.seq)
                                   /\ Index(order, d) < Index(order, b)} IN
  /\ pc[p] = "g_remove"
  /\ pkg' = [pkg EXCEPT ![b] = NoPkg]
  /\ order' = Remove(order, b)
  /\ repo' = [repo EXCEPT !.seq = Remove(@, b), !.mt = W("UnlockBeforeFlush")]
  /\ loc' = [loc EXCEPT ![p].cands = cs, ![p].size = sz, ![p].dirty = TRUE]
  /\ pc' = [pc EXCEPT ![p] = LoopPc(cs, sz, loc[p].gpn)]
  /\ dangling' = IF loc[p].gpu THEN dangling ELSE dangling \cup {how(q) : q \in victims}
  /\ stale' = IF loc[p].gpu THEN stale \cup {q \in Procs : ws[q] = LINK(b) \/ claim[q][1] = b} ELSE stale
  /\ polviol' = polviol
        \cup (IF ~loc[p].gpu /\ ~loc[p].gpn /\ loc[p].size <= quota THEN {"below-quota"} ELSE {})
        \cup (IF ~loc[p].gpu /\ older # {} THEN {"not-oldest"} ELSE {})
  /\ H("G_Remove", p, b)
  /\ UNCHANGED <<sdir, ninst, locks, ws, claim, op, budget, err, stable>>

\* 330 exit, 57 [flock.un repo.json]
G_UnlockRepo(p) ==
  LET left == {d \in stable[p] : d # loc[p].newpkg /\ pkg[d].vis /\ InSeq(d, repo.seq)} IN
  /\ pc[p] = "g_unlockrepo"
  /\ repoLock' = [repoLock EXCEPT !.ex = {}]
  /\ polviol' = IF loc[p].fail = "" /\ ~loc[p].gpu /\ left # {} /\ (loc[p].gpn \/ loc[p].size > quota)
                  THEN polviol \cup {"unused-left"} ELSE polviol
  /\ pc' = [pc EXCEPT ![p] = "g_close"] /\ H("G_UnlockRepo", p, "")
  /\ stable' = [stable EXCEPT ![p] = {}]
  /\ UNCHANGED <<store, pkgLock, ws, claim, op, loc, budget, err, dangling, stale>>

\* 59 [close repo.json] (+ removal of the attic); gc returns
G_Close(p) ==
  /\ pc[p] = "g_close"
  /\ repo' = IF loc[p].dirty THEN [repo EXCEPT !.mt = FALSE] ELSE repo
  /\ GcReturn(p, "G_Close")
  /\ UNCHANGED <<sdir, pkg, order, ninst, locks, ws, budget, dangling, polviol, stale>>

----------------------------------------------------------------------------
Step(p) ==
  \/ \E b \in BIds : StartUse(p, b)
  \/ \E b \in BIds, mv, bad \in BOOLEAN : StartInst(p, b, mv, bad)
  \/ \E pu, pn \in BOOLEAN : StartGc(p, pu, pn)
  \/ Unlink(p)
  \/ U_OpenRepo(p) \/ U_LockRepo(p) \/ U_OpenPkg(p) \/ U_LockPkg(p) \/ U_IsDir(p) \/ U_Register(p)
  \/ U_UnlockPkg(p) \/ U_ClosePkg(p) \/ U_UnlockRepo(p)
  \/ B_Prune(p) \/ B_Link(p) \/ B_Unshare(p)
  \/ I_Quick(p) \/ R_Touch(p) \/ I_MkDirs(p) \/ I_Prepare(p) \/ I_Meta(p) \/ I_Rename(p)
  \/ A_Open(p) \/ A_Create(p) \/ A_Open2(p) \/ A_LockC(p) \/ A_Lock(p) \/ A_Unlock(p) \/ A_Close(p)
  \/ G_IsDir(p) \/ G_OpenRepo(p) \/ G_LockRepo(p) \/ G_OpenPkg(p) \/ G_LockPkg(p) \/ G_IsLink(p)
  \/ G_ReadLink(p) \/ G_UnlockPkg(p) \/ G_Remove(p) \/ G_UnlockRepo(p) \/ G_Close(p)

Next == \E p \in Procs : Step(p)

Spec == Init /\ [][Next]_vars

----------------------------------------------------------------------------
(* P layer *)

Quiescent == \A p \in Procs : pc[p] = "idle"
Visible == {b \in BIds : pkg[b].vis}

TypeOK ==
  /\ sdir \in BOOLEAN /\ repo.st \in {"none", "empty", "map"}
  /\ \A b \in BIds : pkg[b].vis \in BOOLEAN
  /\ \A p \in Procs : ws[p][1] \in {"none", "dir", "link"}
  /\ Cardinality(repoLock.ex) <= 1 /\ (repoLock.ex # {} => repoLock.sh = {})
  /\ \A b \in BIds : Cardinality(pkgLock[b].ex) <= 1 /\ (pkgLock[b].ex # {} => pkgLock[b].sh = {})

\* a package that is visible in the shared location is complete ...
VisibleIsComplete == \A b \in BIds : pkg[b].vis => pkg[b].complete
\* ... and matches its recorded content hash
HashMatches == \A b \in BIds : pkg[b].vis => pkg[b].ok
\* ... is installed at most once per build-id: a visible package is never replaced by another installation
InstalledOncePerBid ==
  [][\A b \in BIds : (pkg[b].vis /\ pkg'[b].vis) => pkg'[b].inst = pkg[b].inst]_vars
\* ... and is never collected while a workspace still uses it unless the user forces it
NotCollectedWhileUsed == dangling = {}
NoDanglingUse == "use" \notin dangling                       \* use returned, gc collected, builder links
NoDanglingInst == "inst" \notin dangling                     \* install returned (installed), gc collected, builder links
NoDanglingLost == "lost" \notin dangling                     \* install returned (lost race), gc collected, builder links
NoDanglingLinked == "linked" \notin dangling                 \* registered and linked
NoDanglingUnregistered == "linked-unregistered" \notin dangling  \* linked after a lost install race, never registered
NoDanglingLinkToCollected == "linked-to-collected" \notin dangling   \* the API returned the path of a package already collected
NoDanglingDuring == "during" \notin dangling                 \* a use/install got through while gc held the repo lock
\* end-to-end form: no workspace link without a package behind it (forced gc excepted: checked only without gcU/gcUA)
NoDanglingLink == \A p \in Procs : IsLink(ws[p]) => pkg[ws[p][2]].vis
\* no install, use or clean operation fails because of concurrency or an empty store
NoSpuriousFailure == err = {}
NoGcFailEmptyStore == "gc-norepo" \notin err
NoJsonFailure == err \cap {"json-gc", "json-install", "json-use", "json-gcpkg"} = {}
NoJsonFailureUse == "json-use" \notin err /\ "json-gcpkg" \notin err
NoJsonFailureGc == "json-gc" \notin err
NoJsonFailureInstall == "json-install" \notin err
NoInspectFailure == "gc-inspect" \notin err /\ "gc-inspect-dangling" \notin err
\* after any operation the recorded repository size equals the sum of the installed packages
\* (an operation that failed half way is reported by NoSpuriousFailure; its leftovers are not judged again here)
SizeAccounting == (Quiescent /\ err = {}) => (IF repo.st = "map" THEN SeqToSet(repo.seq) = Visible ELSE Visible = {})
\* automatic cleaning only removes unused packages (NotCollectedWhileUsed), oldest first, until the quota is met
AutoCleanPolicy == polviol = {}
\* lock discipline
LocksFreeAtQuiescence == Quiescent => (Free(repoLock) /\ \A b \in BIds : Free(pkgLock[b]))

\* no cyclic waiting on the file locks
Blocked(p) == \/ pc[p] = "u_lockrepo" /\ repoLock.ex # {}
              \/ pc[p] = "u_lockpkg" /\ ~Free(pkgLock[op[p].b])
              \/ pc[p] \in {"a_lockc", "a_lock", "g_lockrepo"} /\ ~Free(repoLock)
              \/ pc[p] = "g_lockpkg" /\ pkgLock[loc[p].cur].ex # {}
NoLockDeadlock == (\E p \in Procs : pc[p] # "idle") => \E p \in Procs : pc[p] # "idle" /\ ~Blocked(p)

ASSUME "LostRaceUnregistered" \notin Weak => "RepoCreateWindow" \notin Weak
ASSUME "RepoCreateWindow" \notin Weak => "UnlockBeforeFlush" \notin Weak

\* counterexample printing variants for the Weak configs (the behaviour is replayed against the code)
Cex(name, inv) == inv \/ ~PrintT(<<"@@", ToJson([cex |-> name, hist |-> hist])>>)
CexNoDanglingUse == Cex("NoDanglingUse", NoDanglingUse)
CexNoDanglingInst == Cex("NoDanglingInst", NoDanglingInst)
CexNoDanglingLost == Cex("NoDanglingLost", NoDanglingLost)
CexNoDanglingUnregistered == Cex("NoDanglingUnregistered", NoDanglingUnregistered)
CexNoDanglingLinkToCollected == Cex("NoDanglingLinkToCollected", NoDanglingLinkToCollected)
CexNoGcFailEmptyStore == Cex("NoGcFailEmptyStore", NoGcFailEmptyStore)
CexNoJsonFailureGc == Cex("NoJsonFailureGc", NoJsonFailureGc)
CexNoJsonFailureInstall == Cex("NoJsonFailureInstall", NoJsonFailureInstall)
CexNoJsonFailureUse == Cex("NoJsonFailureUse", NoJsonFailureUse)
CexNoInspectFailure == Cex("NoInspectFailure", NoInspectFailure)

\* vacuity companions (negated reachability; each must be VIOLATED)
ReachLostRename == \A p \in Procs : ~(pc[p] = "i_rename" /\ pkg[op[p].b].vis)
ReachCreateRace == \A p \in Procs : pc[p] # "a_open2"
ReachAutoRemove == \A p \in Procs : ~(pc[p] = "g_remove" /\ loc[p].sub = "auto")
ReachUsedKept == \A p \in Procs : ~(pc[p] = "g_unlockrepo" /\ loc[p].fail = "" /\ ~loc[p].gpu /\ loc[p].size > quota
                                    /\ quota # NoQuota /\ Visible # {})
ReachTwoCandidates == \A p \in Procs : ~(pc[p] = "g_remove" /\ Cardinality(loc[p].cands) >= 2 /\ ~loc[p].gpu)
ReachUseBlockedByGc == \A p \in Procs : ~(pc[p] = "u_lockrepo" /\ repoLock.ex # {})

----------------------------------------------------------------------------
(* generation: print the history of every maximal behaviour *)
Terminal == Quiescent /\ (total = MaxTotal \/ \A p \in Procs : todo[p] = 0)
GenPrint == (Gen /\ Terminal) => PrintT(<<"@@", ToJson(hist)>>)

=============================================================================
