SPECIFICATION Spec
CONSTANTS MaxJobs = 2  MaxFail = 0  GenDepth = 0  WeakDeps = FALSE  WeakOnce = TRUE  WeakBound = FALSE
INVARIANT NoDoubleExec
