SPECIFICATION Spec
CONSTANTS MaxJobs = 2  MaxFail = 0  GenDepth = 0  WeakDeps = FALSE  WeakOnce = TRUE  WeakBound = FALSE  Dags = {1, 2, 3, 4, 5, 6}
INVARIANT NoDoubleExec
