--------------------------- MODULE StringSubst ---------------------------
(* Reference semantics of Bob's string substitution language and of `!expr`
   conditions (property C17), written from doc/manual/configuration.rst
   ("String substitution", "Boolean properties") and doc/manpages/bobpaths.rst
   ("String literals", "String function calls", operator table) - NOT from
   pym/bob/stringparser.py.

   Strings are sequences of one-character TLA+ strings ("char seqs"); Cat turns
   them into a TLA+ string (built with \o) for printing.

   Substitution AST ("str" = sequence of items):
     <<"lit", cs>>            plain text (no character special in its context)
     <<"esc", c>>             \c
     <<"sq", cs>>             '...'
     <<"dq", str>>            "..."   (new substitution context)
     <<"bare", n>>            $n
     <<"var", n>>             ${n}
     <<"def", n, colon, str>> ${n-str}  ${n:-str}
     <<"alt", n, colon, str>> ${n+str}  ${n:+str}
     <<"fun", name, <<str,...>>>>   $(name,arg,...)
   !expr AST:
     <<"lit", str>> "..." (two-stage escaping)   <<"sq", cs>> '...'
     <<"call", name, <<e,...>>>>   <<"par", e>>   <<"not", e>>
     <<"cmp", op, l, r>>  op in == != < <= > >=    <<"and", l, r>>  <<"or", l, r>>

   Results: <<"val", x>> | <<"err">> (parse error) | <<"any">> (the manual does
   not define the result: only "no internal exception" is required).

   TLC enumerates cases: every state <<"case", kind, family, ast, env, aux>> is
   one case; Emit prints it as JSON.  Raw strings are states <<"raw"|"rawe", seq>>. *)
EXTENDS Naturals, Sequences, FiniteSets, TLC, Json

CONSTANTS MaxSize,     \* cost bound of generated substitution ASTs
          Rich,        \* TRUE: the cost-2 atoms cost 1
          TowerDepth,  \* nesting depth of the tower family
          ProtLen,     \* protected texts: all texts over Sym up to this length
          RawLen,      \* raw substitution strings over Sym up to this length
          MaxESize,    \* cost bound of generated !expr ASTs
          ETower,      \* nesting depth of expression towers
          RawELen,     \* raw expression strings over ESym up to this length
          BigEnv,      \* TRUE: larger value catalogue for variable A
          Emit         \* TRUE: print one JSON record per case

VARIABLE st

----------------------------------------------------------------------------
(* characters and char seqs *)

Chars(s) == [i \in 1..Len(s) |-> SubSeq(s, i, i)]

RECURSIVE Cat(_)
Cat(s) == IF Len(s) = 0 THEN "" ELSE s[1] \o Cat(Tail(s))

Ascii == Chars(" !\"#$%&'()*+,-./0123456789:;<=>?@ABCDEFGHIJKLMNOPQRSTUVWXYZ[\\]^_`abcdefghijklmnopqrstuvwxyz{|}~")
CodeF == [c \in {Ascii[i] : i \in 1..95} |-> CHOOSE i \in 1..95 : Ascii[i] = c]
Code(c) == IF c = "\t" THEN 9 ELSE 31 + CodeF[c]        \* Unicode code point
Lower(c) == LET k == Code(c) IN IF k >= 65 /\ k <= 90 THEN Ascii[k + 1] ELSE c
LowerSeq(s) == [i \in 1..Len(s) |-> Lower(s[i])]
IsNameChar(c) == LET k == Code(c) IN (k >= 48 /\ k <= 57) \/ (k >= 65 /\ k <= 90) \/ (k >= 97 /\ k <= 122) \/ k = 95
IsSpace(c) == c \in {" ", "\t"}

RECURSIVE StripL(_), StripR(_)
StripL(s) == IF Len(s) > 0 /\ IsSpace(s[1]) THEN StripL(Tail(s)) ELSE s
StripR(s) == IF Len(s) > 0 /\ IsSpace(s[Len(s)]) THEN StripR(SubSeq(s, 1, Len(s) - 1)) ELSE s
Strip(s) == StripR(StripL(s))

\* "String comparison is done character by character, based on the Unicode code
\* point. If the end of string is reached the string lengths are compared."
RECURSIVE SeqLess(_, _)
SeqLess(s, t) == IF Len(t) = 0 THEN FALSE
                 ELSE IF Len(s) = 0 THEN TRUE
                 ELSE IF s[1] = t[1] THEN SeqLess(Tail(s), Tail(t))
                 ELSE Code(s[1]) < Code(t[1])

Contains(x, p) == \E i \in 0..(Len(x) - Len(p)) : SubSeq(x, i + 1, i + Len(p)) = p
HasPrefix(x, p) == Len(p) <= Len(x) /\ SubSeq(x, 1, Len(p)) = p
HasSuffix(x, p) == Len(p) <= Len(x) /\ SubSeq(x, Len(x) - Len(p) + 1, Len(x)) = p

\* "Replace every occurence of from with to in text" (from non-empty; leftmost, non overlapping)
RECURSIVE Rep(_, _, _)
Rep(f, t, x) == IF Len(x) < Len(f) THEN x
                ELSE IF SubSeq(x, 1, Len(f)) = f THEN t \o Rep(f, t, SubSeq(x, Len(f) + 1, Len(x)))
                ELSE <<x[1]>> \o Rep(f, t, Tail(x))

V(x) == <<"val", x>>
Err  == <<"err">>
Undef  == <<"any">>
TrueS  == Chars("true")
FalseS == Chars("false")
Bool(b) == IF b THEN TrueS ELSE FalseS

\* "The empty string, "0" (zero) and "false" (case insensitive) are considered as
\* logical false. Any other value is considered as true."  The manual is silent on
\* surrounding white space (" 0 "): "?" = not decided by the manual.
FalseSet == {<<>>, <<"0">>, FalseS}
BoolOf(s) == IF LowerSeq(s) \in FalseSet THEN "f"
             ELSE IF LowerSeq(Strip(s)) \in FalseSet THEN "?" ELSE "t"

----------------------------------------------------------------------------
(* string functions, as documented *)

FEq == Chars("eq")            FNe == Chars("ne")        FNot == Chars("not")
FOr == Chars("or")            FAnd == Chars("and")      FIte == Chars("if-then-else")
FStrip == Chars("strip")      FSubst == Chars("subst")  FMatch == Chars("match")
FSb == Chars("is-sandbox-enabled")     FTool == Chars("is-tool-defined")
FToolEnv == Chars("get-tool-env")      FResubst == Chars("resubst")
FNoFun == Chars("nofun")      \* not a function

\* the fixed context: one tool "t" whose environment defines V = "tv"
ToolName == Chars("t")
ToolVar  == Chars("V")
ToolVal  == Chars("tv")

\* regular expressions: only a small catalogue of pattern shapes has a reference meaning
RegexLit(c) == IsNameChar(c) \/ c \in {" ", ",", ":", "\"", "'", "\t"}
AllLit(p) == \A i \in 1..Len(p) : RegexLit(p[i])
MatchPat(x0, p0, ic) ==
  LET x == IF ic THEN LowerSeq(x0) ELSE x0
      p == IF ic THEN LowerSeq(p0) ELSE p0
  IN IF AllLit(p) THEN V(Bool(Contains(x, p)))
     ELSE IF p[1] = "^" /\ AllLit(Tail(p)) THEN V(Bool(HasPrefix(x, Tail(p))))
     ELSE IF p[Len(p)] = "$" /\ AllLit(SubSeq(p, 1, Len(p) - 1)) THEN V(Bool(HasSuffix(x, SubSeq(p, 1, Len(p) - 1))))
     ELSE IF p = <<".">> THEN V(Bool(Len(x) > 0))
     ELSE Undef

Apply(f, a, env) ==
  CASE f = FEq -> IF Len(a) = 2 THEN V(Bool(a[1] = a[2])) ELSE Err
    [] f = FNe -> IF Len(a) = 2 THEN V(Bool(a[1] # a[2])) ELSE Err
    [] f = FNot -> IF Len(a) = 1
                   THEN (LET b == BoolOf(a[1]) IN IF b = "?" THEN Undef ELSE V(Bool(b = "f")))
                   ELSE Err
    [] f = FOr -> IF Len(a) < 2 THEN Undef
                  ELSE IF \E i \in 1..Len(a) : BoolOf(a[i]) = "t" THEN V(TrueS)
                  ELSE IF \E i \in 1..Len(a) : BoolOf(a[i]) = "?" THEN Undef ELSE V(FalseS)
    [] f = FAnd -> IF Len(a) < 2 THEN Undef
                   ELSE IF \E i \in 1..Len(a) : BoolOf(a[i]) = "f" THEN V(FalseS)
                   ELSE IF \E i \in 1..Len(a) : BoolOf(a[i]) = "?" THEN Undef ELSE V(TrueS)
    [] f = FIte -> IF Len(a) = 3
                   THEN (LET b == BoolOf(a[1]) IN IF b = "?" THEN Undef ELSE IF b = "f" THEN V(a[3]) ELSE V(a[2]))
                   ELSE Err
    [] f = FStrip -> IF Len(a) = 1 THEN V(Strip(a[1])) ELSE Err
    [] f = FSubst -> IF Len(a) = 3 THEN (IF Len(a[1]) = 0 THEN Undef ELSE V(Rep(a[1], a[2], a[3]))) ELSE Err
    [] f = FMatch -> IF Len(a) = 2 THEN MatchPat(a[1], a[2], FALSE)
                     ELSE IF Len(a) = 3 THEN (IF a[3] = <<"i">> THEN MatchPat(a[1], a[2], TRUE) ELSE Undef)
                     ELSE Err
    [] f = FSb -> IF Len(a) = 0 THEN V(Bool(env.sb)) ELSE Err
    [] f = FTool -> IF Len(a) = 1 THEN V(Bool(a[1] = ToolName)) ELSE Err
    [] f = FToolEnv -> IF Len(a) \notin {2, 3} THEN Err
                       ELSE IF a[1] # ToolName THEN Err
                       ELSE IF a[2] = ToolVar THEN V(ToolVal)
                       ELSE IF Len(a) = 3 THEN V(a[3]) ELSE Err
    [] f = FResubst -> IF Len(a) \notin {3, 4} THEN Err
                       ELSE IF Len(a) = 3 /\ Len(a[1]) > 0 /\ AllLit(a[1]) /\ (\A i \in 1..Len(a[2]) : a[2][i] # "\\")
                            THEN V(Rep(a[1], a[2], a[3]))
                            ELSE Undef
    [] OTHER -> Err      \* unknown function

----------------------------------------------------------------------------
(* substitution: concrete syntax and value *)

RECURSIVE RenderStr(_), RenderItem(_), RenderArgs(_)
RenderStr(a) == IF Len(a) = 0 THEN <<>> ELSE RenderItem(a[1]) \o RenderStr(Tail(a))
RenderArgs(as) == IF Len(as) = 0 THEN <<>> ELSE <<",">> \o RenderStr(as[1]) \o RenderArgs(Tail(as))
RenderItem(it) ==
  CASE it[1] = "lit"  -> it[2]
    [] it[1] = "esc"  -> <<"\\", it[2]>>
    [] it[1] = "sq"   -> <<"'">> \o it[2] \o <<"'">>
    [] it[1] = "dq"   -> <<"\"">> \o RenderStr(it[2]) \o <<"\"">>
    [] it[1] = "bare" -> <<"$", it[2]>>
    [] it[1] = "var"  -> <<"$", "{", it[2], "}">>
    [] it[1] = "def"  -> <<"$", "{", it[2]>> \o (IF it[3] THEN <<":">> ELSE <<>>) \o <<"-">> \o RenderStr(it[4]) \o <<"}">>
    [] it[1] = "alt"  -> <<"$", "{", it[2]>> \o (IF it[3] THEN <<":">> ELSE <<>>) \o <<"+">> \o RenderStr(it[4]) \o <<"}">>
    [] it[1] = "fun"  -> <<"$", "(">> \o it[2] \o RenderArgs(it[3]) \o <<")">>

\* env = [v |-> [name -> <<"unset">> | <<"set", cs>>], sb |-> BOOLEAN]
\* "unset or null" test of ${n:-d} / ${n:+a}; without colon "a test only for var being unset"
UnsetOrNull(it, env) == LET e == env.v[it[2]] IN e[1] = "unset" \/ (it[3] /\ Len(e[2]) = 0)

\* strict combination: an error wins, then "undefined by the manual", then the values
Comb(h, t, x) == IF h[1] = "err" \/ t[1] = "err" THEN Err
                 ELSE IF h[1] = "any" \/ t[1] = "any" THEN Undef ELSE V(x)

RECURSIVE ValStr(_, _, _), ValItem(_, _, _), ValArgs(_, _, _)
ValStr(a, env, ns) ==
  IF Len(a) = 0 THEN V(<<>>)
  ELSE LET h == ValItem(a[1], env, ns)
           t == ValStr(Tail(a), env, ns)
       IN Comb(h, t, IF h[1] = "val" /\ t[1] = "val" THEN h[2] \o t[2] ELSE <<>>)
ValArgs(as, env, ns) ==
  IF Len(as) = 0 THEN V(<<>>)
  ELSE LET h == ValStr(as[1], env, ns)
           t == ValArgs(Tail(as), env, ns)
       IN Comb(h, t, IF h[1] = "val" /\ t[1] = "val" THEN <<h[2]>> \o t[2] ELSE <<>>)
ValItem(it, env, ns) ==
  CASE it[1] = "lit" -> V(it[2])
    [] it[1] = "esc" -> V(<<it[2]>>)
    [] it[1] = "sq"  -> V(it[2])
    [] it[1] = "dq"  -> ValStr(it[2], env, ns)
    [] it[1] \in {"bare", "var"} ->
         \* "The variable has to be defined or an error will be raised" (nounset);
         \* in !expr literals "unset variables are expanded to empty strings"
         LET e == env.v[it[2]] IN IF e[1] = "set" THEN V(e[2]) ELSE IF ns THEN Err ELSE V(<<>>)
    [] it[1] = "def" ->
         \* LAZY: the default is expanded only if it is substituted
         IF UnsetOrNull(it, env) THEN ValStr(it[4], env, ns) ELSE V(env.v[it[2]][2])
    [] it[1] = "alt" ->
         IF UnsetOrNull(it, env) THEN V(<<>>) ELSE ValStr(it[4], env, ns)
    [] it[1] = "fun" ->
         \* functions are called with their (expanded) arguments: strict
         LET av == ValArgs(it[3], env, ns)
         IN IF av[1] = "val" THEN Apply(it[2], av[2], env) ELSE av

----------------------------------------------------------------------------
(* !expr: concrete syntax, types, truth, function forms *)

\* "sorted by decreasing precedence"; all binary operators left associative, ! right
Prec(e) == CASE e[1] = "or" -> 1 [] e[1] = "and" -> 2 [] e[1] = "not" -> 9
             [] e[1] = "cmp" -> (CASE e[2] = "!=" -> 3 [] e[2] = "==" -> 4 [] e[2] = ">=" -> 5
                                   [] e[2] = ">" -> 6 [] e[2] = "<=" -> 7 [] e[2] = "<" -> 8)
             [] OTHER -> 10

\* stage one of the two-stage escaping: \" and \\ are resolved by the expression parser
RECURSIVE Esc2(_)
Esc2(s) == IF Len(s) = 0 THEN <<>>
           ELSE (IF s[1] \in {"\\", "\""} THEN <<"\\", s[1]>> ELSE <<s[1]>>) \o Esc2(Tail(s))

RECURSIVE RenderE(_), RenderEArgs(_)
Paren(x) == <<"(">> \o x \o <<")">>
RenderEArgs(as) == IF Len(as) = 0 THEN <<>>
                   ELSE IF Len(as) = 1 THEN RenderE(as[1])
                   ELSE RenderE(as[1]) \o <<",", " ">> \o RenderEArgs(Tail(as))
RenderBin(p, op, l, r) ==
     (IF Prec(l) < p THEN Paren(RenderE(l)) ELSE RenderE(l))
  \o <<" ">> \o Chars(op) \o <<" ">>
  \o (IF Prec(r) <= p THEN Paren(RenderE(r)) ELSE RenderE(r))
RenderE(e) ==
  CASE e[1] = "lit"  -> <<"\"">> \o Esc2(RenderStr(e[2])) \o <<"\"">>
    [] e[1] = "sq"   -> <<"'">> \o e[2] \o <<"'">>
    [] e[1] = "call" -> e[2] \o <<"(">> \o RenderEArgs(e[3]) \o <<")">>
    [] e[1] = "par"  -> Paren(RenderE(e[2]))
    [] e[1] = "not"  -> <<"!">> \o (IF Prec(e[2]) < 9 THEN Paren(RenderE(e[2])) ELSE RenderE(e[2]))
    [] e[1] = "cmp"  -> RenderBin(Prec(e), e[2], e[3], e[4])
    [] e[1] = "and"  -> RenderBin(2, "&&", e[2], e[3])
    [] e[1] = "or"   -> RenderBin(1, "||", e[2], e[3])

RECURSIVE TypeOf(_), WellTyped(_), SVal(_, _), SArgs(_, _), TruthR(_, _)
TypeOf(e) == IF e[1] \in {"lit", "sq", "call"} THEN "str"
             ELSE IF e[1] = "par" THEN TypeOf(e[2]) ELSE "bool"
\* operand type of the comparison operators is "String"
WellTyped(e) ==
  CASE e[1] \in {"lit", "sq"} -> TRUE
    [] e[1] = "call" -> \A i \in 1..Len(e[3]) : WellTyped(e[3][i])
    [] e[1] \in {"par", "not"} -> WellTyped(e[2])
    [] e[1] = "cmp" -> TypeOf(e[3]) = "str" /\ TypeOf(e[4]) = "str" /\ WellTyped(e[3]) /\ WellTyped(e[4])
    [] e[1] \in {"and", "or"} -> WellTyped(e[2]) /\ WellTyped(e[3])

SArgs(as, env) ==
  IF Len(as) = 0 THEN V(<<>>)
  ELSE LET h == SVal(as[1], env)
           t == SArgs(Tail(as), env)
       IN Comb(h, t, IF h[1] = "val" /\ t[1] = "val" THEN <<h[2]>> \o t[2] ELSE <<>>)
\* value of a string typed expression
SVal(e, env) ==
  CASE e[1] = "lit"  -> ValStr(e[2], env, FALSE)
    [] e[1] = "sq"   -> V(e[2])
    [] e[1] = "par"  -> SVal(e[2], env)
    [] e[1] = "call" -> LET av == SArgs(e[3], env) IN IF av[1] = "val" THEN Apply(e[2], av[2], env) ELSE av

TruthOfVal(r) == IF r[1] # "val" THEN r
                 ELSE LET b == BoolOf(r[2]) IN IF b = "?" THEN Undef ELSE <<"val", b = "t">>
CmpOp(op, a, b) == CASE op = "==" -> a = b [] op = "!=" -> a # b
                     [] op = "<" -> SeqLess(a, b) [] op = "<=" -> ~SeqLess(b, a)
                     [] op = ">" -> SeqLess(b, a) [] op = ">=" -> ~SeqLess(a, b)
TruthR(e, env) ==
  CASE TypeOf(e) = "str" -> TruthOfVal(SVal(e, env))
    [] e[1] = "par" -> TruthR(e[2], env)
    [] e[1] = "not" -> LET t == TruthR(e[2], env) IN IF t[1] = "val" THEN <<"val", ~t[2]>> ELSE t
    [] e[1] = "cmp" -> LET a == SVal(e[3], env)
                           b == SVal(e[4], env)
                       IN Comb(a, b, IF a[1] = "val" /\ b[1] = "val" THEN CmpOp(e[2], a[2], b[2]) ELSE FALSE)
    [] e[1] \in {"and", "or"} ->
         LET a == TruthR(e[2], env)
             b == TruthR(e[3], env)
             dom == (e[1] = "or")      \* the dominating operand value
         IN IF a[1] = "err" \/ b[1] = "err" THEN Err
            ELSE IF (a[1] = "val" /\ a[2] = dom) \/ (b[1] = "val" /\ b[2] = dom) THEN <<"val", dom>>
            ELSE IF a[1] = "any" \/ b[1] = "any" THEN Undef ELSE <<"val", ~dom>>
\* truth of an expression; an ill typed expression is an error whatever its operands are
Truth(e, env) == IF WellTyped(e) THEN TruthR(e, env) ELSE Err

\* the equivalent function forms: == eq, != ne, && and, || or, ! not  (< <= > >= have none)
RECURSIVE HasFun(_), ToFun(_), ToCall(_)
\* a string literal as (part of) a function argument: in double quotes (double quoted
\* parts of the literal stay as they are, the runs between them get their own quotes)
RECURSIVE LitRuns(_, _)
LitRuns(a, acc) ==
  LET flush == IF Len(acc) = 0 THEN <<>> ELSE << <<"dq", acc>> >>
  IN IF Len(a) = 0 THEN flush
     ELSE IF a[1][1] = "dq" THEN flush \o <<a[1]>> \o LitRuns(Tail(a), <<>>)
     ELSE LitRuns(Tail(a), Append(acc, a[1]))
LitArg(a) == IF Len(a) = 0 THEN << <<"dq", <<>> >> >> ELSE LitRuns(a, <<>>)
HasFun(e) ==
  CASE e[1] \in {"lit", "sq"} -> TRUE
    [] e[1] = "call" -> \A i \in 1..Len(e[3]) : HasFun(e[3][i])
    [] e[1] \in {"par", "not"} -> HasFun(e[2])
    [] e[1] = "cmp" -> e[2] \in {"==", "!="} /\ HasFun(e[3]) /\ HasFun(e[4])
    [] e[1] \in {"and", "or"} -> HasFun(e[2]) /\ HasFun(e[3])
\* ... as a substitution str  $(fun,...)
ToFun(e) ==
  CASE e[1] = "lit"  -> LitArg(e[2])
    [] e[1] = "sq"   -> << <<"sq", e[2]>> >>
    [] e[1] = "call" -> << <<"fun", e[2], [i \in 1..Len(e[3]) |-> ToFun(e[3][i])]>> >>
    [] e[1] = "par"  -> ToFun(e[2])
    [] e[1] = "not"  -> << <<"fun", FNot, <<ToFun(e[2])>> >> >>
    [] e[1] = "cmp"  -> << <<"fun", IF e[2] = "==" THEN FEq ELSE FNe, <<ToFun(e[3]), ToFun(e[4])>> >> >>
    [] e[1] = "and"  -> << <<"fun", FAnd, <<ToFun(e[2]), ToFun(e[3])>> >> >>
    [] e[1] = "or"   -> << <<"fun", FOr, <<ToFun(e[2]), ToFun(e[3])>> >> >>
\* ... as a direct function call of the expression language  fun("..", ..)
ToCall(e) ==
  CASE e[1] \in {"lit", "sq"} -> e
    [] e[1] = "call" -> <<"call", e[2], [i \in 1..Len(e[3]) |-> ToCall(e[3][i])]>>
    [] e[1] = "par"  -> ToCall(e[2])
    [] e[1] = "not"  -> <<"call", FNot, <<ToCall(e[2])>> >>
    [] e[1] = "cmp"  -> <<"call", IF e[2] = "==" THEN FEq ELSE FNe, <<ToCall(e[3]), ToCall(e[4])>> >>
    [] e[1] = "and"  -> <<"call", FAnd, <<ToCall(e[2]), ToCall(e[3])>> >>
    [] e[1] = "or"   -> <<"call", FOr, <<ToCall(e[2]), ToCall(e[3])>> >>
\* the function form as an expression: a "simple string" "$(...)"
FunExpr(e) == <<"lit", ToFun(e)>>

----------------------------------------------------------------------------
(* generation of substitution ASTs, bounded by cost.

   Context of a str = which characters terminate it and therefore may not occur
   unprotected: "top" none, "def" } (inside ${n-..}), "arg" , ) (function
   argument), "both".  Double quotes start a new context "dq": nothing but the
   closing quote terminates it, so a double quoted part cannot occur directly
   in it (it can inside a nested ${..} or $(..)).                                *)

BraceOK(c) == c \in {"top", "arg", "dq"}
CommaOK(c) == c \in {"top", "def", "dq"}
InDef(c) == IF c \in {"top", "def", "dq"} THEN "def" ELSE "both"
InArg(c) == IF c \in {"top", "arg", "dq"} THEN "arg" ELSE "both"

L(s) == <<"lit", Chars(s)>>
NoFun == <<"fun", FNoFun, <<>> >>

A1(c) == {L("a"), L(" "), L("0"), <<"esc", "$">>, <<"sq", Chars("$A")>>,
          <<"bare", "A">>, <<"var", "A">>, <<"var", "B">>, NoFun}
         \cup (IF BraceOK(c) THEN {L("}")} ELSE {})
         \cup (IF CommaOK(c) THEN {L(",")} ELSE {})
A2(c) == {L("true"), L("False"), L(" a\t"), L("ab"), L("{"), L("("), L(":-"), L("+"), L("A"),
          <<"esc", "}">>, <<"esc", ",">>, <<"esc", "\\">>, <<"esc", "\"">>, <<"esc", "a">>,
          <<"sq", Chars(",)}\"\\")>>, <<"sq", <<>> >>, <<"bare", "B">>,
          <<"def", "A", FALSE, <<>> >>, <<"def", "A", TRUE, <<>> >>, <<"alt", "A", TRUE, <<>> >>,
          <<"fun", FSb, <<>> >>, <<"fun", FEq, <<>> >>,
          <<"fun", FNot, << <<>> >> >>, <<"fun", FStrip, << <<>> >> >>, <<"fun", FEq, << <<>>, <<>> >> >>}
         \cup (IF CommaOK(c) THEN {L(")")} ELSE {})
         \cup (IF c # "dq" THEN {<<"dq", <<>> >>} ELSE {})
Atoms(k, c) == IF Rich THEN (IF k = 1 THEN A1(c) \cup A2(c) ELSE {})
               ELSE (IF k = 1 THEN A1(c) ELSE IF k = 2 THEN A2(c) ELSE {})

DefForms == {<<"def", "A", TRUE>>, <<"def", "A", FALSE>>, <<"alt", "A", TRUE>>, <<"alt", "A", FALSE>>,
             <<"def", "B", FALSE>>, <<"alt", "B", TRUE>>}

\* <<name, argument kinds>>; "s" any str, "p" pattern catalogue, "i" flag, "tool", "tvar", "rl"
FunSpecs == {<<FEq, <<"s", "s">> >>, <<FEq, <<"s">> >>, <<FNe, <<"s", "s">> >>,
             <<FNot, <<"s">> >>, <<FNot, <<"s", "s">> >>,
             <<FOr, <<"s", "s">> >>, <<FOr, <<"s", "s", "s">> >>, <<FAnd, <<"s", "s">> >>,
             <<FIte, <<"s", "s", "s">> >>, <<FIte, <<"s", "s">> >>,
             <<FStrip, <<"s">> >>, <<FSubst, <<"s", "s", "s">> >>,
             <<FMatch, <<"s", "p">> >>, <<FMatch, <<"s", "p", "i">> >>,
             <<FTool, <<"tool">> >>, <<FToolEnv, <<"tool", "tvar">> >>, <<FToolEnv, <<"tool", "tvar", "s">> >>,
             <<FResubst, <<"rl", "s", "s">> >>}
PatStrs == {<<L("a")>>, << <<"sq", Chars("^a")>> >>, << <<"sq", Chars("a$")>> >>, <<L(".")>>, <<L("A")>>}

RECURSIVE Str(_, _), Item(_, _), ArgTuples(_, _, _)
ArgSet(kind, j, c) ==
  CASE kind = "s" -> Str(j, c)
    [] kind = "p" -> IF j = 1 THEN PatStrs ELSE {}
    [] kind = "i" -> IF j = 1 THEN {<<L("i")>>} ELSE {}
    [] kind = "tool" -> IF j = 1 THEN {<<L("t")>>, <<L("a")>>} ELSE {}
    [] kind = "tvar" -> IF j = 1 THEN {<<L("V")>>, <<L("W")>>} ELSE {}
    [] kind = "rl" -> IF j = 1 THEN {<<L("a")>>} ELSE {}
ArgTuples(spec, m, c) ==
  IF Len(spec) = 0 THEN (IF m = 0 THEN {<<>>} ELSE {})
  ELSE UNION {{<<a>> \o rest : a \in ArgSet(spec[1], j, c), rest \in ArgTuples(Tail(spec), m - j, c)} : j \in 0..m}

Item(k, c) ==
  Atoms(k, c) \cup
  (IF k < 2 THEN {}
   ELSE (IF c # "dq" THEN {<<"dq", s>> : s \in Str(k - 1, "dq")} ELSE {})
        \cup {<<f[1], f[2], f[3], s>> : f \in DefForms, s \in Str(k - 1, InDef(c))}
        \cup UNION {{<<"fun", fs[1], as>> : as \in ArgTuples(fs[2], k - 1, InArg(c))} : fs \in FunSpecs})

\* $A followed by a name character would be a different variable; lit lit = one lit
Compat(it, r) == Len(r) = 0 \/ (/\ ~(it[1] = "lit" /\ r[1][1] = "lit")
                                /\ ~(it[1] = "bare" /\ IsNameChar(RenderStr(r)[1])))
Str(n, c) ==
  IF n = 0 THEN {<<>>}
  ELSE UNION {LET S == Str(n - k, c)
              IN UNION {{<<it>> \o r : r \in {r \in S : Compat(it, r)}} : it \in Item(k, c)} : k \in 1..n}

\* towers: deep nesting of the unary constructions
TowerW == {"dq", "defA", "altA", "strip"}
Wrap(w, s) == CASE w = "dq" -> << <<"dq", s>> >>
                [] w = "defA" -> << <<"def", "A", TRUE, s>> >>
                [] w = "altA" -> << <<"alt", "A", FALSE, s>> >>
                [] w = "strip" -> << <<"fun", FStrip, <<s>> >> >>
TowerBase == {<<L(" a")>>, << <<"bare", "A">> >>, <<NoFun>>, << <<"sq", Chars("},)")>>, <<"var", "B">> >>}
RECURSIVE Tower(_)
Tower(d) == IF d = 0 THEN TowerBase
            ELSE UNION {{Wrap(w, t) : w \in {w \in TowerW : ~(w = "dq" /\ t[1][1] = "dq")}} : t \in Tower(d - 1)}

\* protected text: every text over Sym, quoted in every documented way, in every context
Sym == <<"$", "{", "}", "(", ")", ",", "\"", "'", "\\", ":", "-", "+", "a", " ">>
RECURSIVE Texts(_)
Texts(n) == IF n = 0 THEN {<<>>} ELSE {<<Sym[i]>> \o t : i \in 1..Len(Sym), t \in Texts(n - 1)}
Specials(c) == {"$", "\"", "'", "\\"} \cup (IF BraceOK(c) THEN {} ELSE {"}"}) \cup (IF CommaOK(c) THEN {} ELSE {",", ")"})
QuoteMin(t, c) == [i \in 1..Len(t) |-> IF t[i] \in Specials(c) THEN <<"esc", t[i]>> ELSE <<"lit", <<t[i]>> >>]
Quote(m, t, c) == CASE m = "bsall" -> [i \in 1..Len(t) |-> <<"esc", t[i]>>]
                    [] m = "bsmin" -> QuoteMin(t, c)
                    [] m = "sq" -> << <<"sq", t>> >>
                    [] m = "dq" -> << <<"dq", QuoteMin(t, "top")>> >>
QModes(t) == {"bsall", "bsmin", "dq"} \cup (IF \A i \in 1..Len(t) : t[i] # "'" THEN {"sq"} ELSE {})
ProtWraps == {"top", "def", "arg", "dq"}
ProtAst(w, m, t) ==
  CASE w = "top" -> Quote(m, t, "top")
    [] w = "def" -> << <<"def", "B", FALSE, Quote(m, t, "def")>> >>
    [] w = "arg" -> << <<"fun", FIte, << <<L("1")>>, Quote(m, t, "arg"), <<>> >> >> >>
    [] w = "dq"  -> << <<"dq", Quote(m, t, "top")>> >>

----------------------------------------------------------------------------
(* environments: every variable mentioned is unset / empty / set *)

HV == Chars("\\$B}',)\"")      \* hostile value: must never be parsed again
AVals == {<<"unset">>, <<"set", <<>> >>, <<"set", Chars("a")>>, <<"set", HV>>}
         \cup (IF BigEnv THEN {<<"set", Chars("0")>>, <<"set", <<" ", "a", "\t">> >>} ELSE {})
BVals == {<<"unset">>, <<"set", <<>> >>, <<"set", Chars("b")>>}

RECURSIVE NamesStr(_), NamesItem(_), SbStr(_), SbItem(_)
NamesStr(a) == UNION {NamesItem(a[i]) : i \in 1..Len(a)}
NamesItem(it) ==
  CASE it[1] \in {"lit", "esc", "sq"} -> {}
    [] it[1] = "dq" -> NamesStr(it[2])
    [] it[1] \in {"bare", "var"} -> {it[2]}
    [] it[1] \in {"def", "alt"} -> {it[2]} \cup NamesStr(it[4])
    [] it[1] = "fun" -> UNION {NamesStr(it[3][i]) : i \in 1..Len(it[3])}
SbStr(a) == \E i \in 1..Len(a) : SbItem(a[i])
SbItem(it) ==
  CASE it[1] \in {"lit", "esc", "sq", "bare", "var"} -> FALSE
    [] it[1] = "dq" -> SbStr(it[2])
    [] it[1] \in {"def", "alt"} -> SbStr(it[4])
    [] it[1] = "fun" -> it[2] = FSb \/ \E i \in 1..Len(it[3]) : SbStr(it[3][i])
Envs(a) == LET ns == NamesStr(a)
           IN {[v |-> [n \in {"A", "B"} |-> IF n = "A" THEN x ELSE y], sb |-> s] :
                 x \in (IF "A" \in ns THEN AVals ELSE {<<"unset">>}),
                 y \in (IF "B" \in ns THEN BVals ELSE {<<"unset">>}),
                 s \in (IF SbStr(a) THEN BOOLEAN ELSE {FALSE})}
ProtEnv == [v |-> [n \in {"A", "B"} |-> IF n = "A" THEN <<"set", Chars("a")>> ELSE <<"unset">>], sb |-> FALSE]

----------------------------------------------------------------------------
(* generation of !expr ASTs, bounded by cost (leaves, calls, !, parentheses) *)

EL(a) == <<"lit", a>>
ELeaf1 == {EL(<<>>), EL(<<L("a")>>), EL(<< <<"var", "A">> >>), <<"sq", Chars("0")>>}
ELeaf2 == {EL(<< <<"bare", "A">> >>), EL(<< <<"esc", "$">>, L("A") >>), EL(<< <<"dq", <<L("a")>> >> >>),
           EL(<<L("b")>>), EL(<<L("False")>>), EL(<<L(" 0 ")>>), EL(<<NoFun>>),
           EL(<< <<"def", "A", TRUE, <<L("a")>> >> >>),
           EL(<< <<"fun", FEq, << << <<"bare", "A">> >>, <<L("a")>> >> >> >>),
           EL(<< <<"esc", "\\">>, <<"esc", "\"">> >>),
           <<"sq", Chars("$A")>>, <<"sq", Chars("a\"\\b")>>, <<"sq", <<>> >>, <<"sq", Chars("a")>>,
           <<"call", FNoFun, <<>> >>, <<"call", FSb, <<>> >>}
\* "slim" generators (sl = TRUE) are used for the largest expressions: few leaves, two functions
ELeafSlim == {EL(<<>>), EL(<<L("a")>>), EL(<< <<"var", "A">> >>)}
ELeaves(k, sl) == IF sl THEN (IF k = 1 THEN ELeafSlim ELSE {})
                  ELSE IF Rich THEN (IF k = 1 THEN ELeaf1 \cup ELeaf2 ELSE {})
                  ELSE (IF k = 1 THEN ELeaf1 ELSE IF k = 2 THEN ELeaf2 ELSE {})
ECallSpecs(sl) == IF sl THEN {<<FEq, <<"s", "s">> >>, <<FNot, <<"s">> >>}
                  ELSE {<<FEq, <<"s", "s">> >>, <<FNe, <<"s", "s">> >>, <<FNot, <<"s">> >>, <<FOr, <<"s", "s">> >>,
                        <<FAnd, <<"s", "s">> >>, <<FStrip, <<"s">> >>, <<FIte, <<"s", "s", "s">> >>,
                        <<FMatch, <<"s", "p">> >>, <<FTool, <<"tool">> >>, <<FEq, <<"s">> >>}
CmpOps == {"==", "!=", "<", "<=", ">", ">="}
\* all six operators on all pairs of small operands; with larger operands one equality and one order
CmpOpsAt(k, sl) == IF k <= 2 /\ ~sl THEN CmpOps ELSE {"==", "<="}

RECURSIVE StrE(_, _), EArgTuples(_, _, _), BoolE(_, _)
EArgSet(kind, j, sl) ==
  CASE kind = "s" -> IF j = 0 THEN {} ELSE StrE(j, sl)
    [] kind = "p" -> IF j = 1 THEN {<<"sq", Chars("^a")>>, EL(<<L("a")>>)} ELSE {}
    [] kind = "tool" -> IF j = 1 THEN {EL(<<L("t")>>), EL(<<L("a")>>)} ELSE {}
EArgTuples(spec, m, sl) ==
  IF Len(spec) = 0 THEN (IF m = 0 THEN {<<>>} ELSE {})
  ELSE UNION {{<<a>> \o rest : a \in EArgSet(spec[1], j, sl), rest \in EArgTuples(Tail(spec), m - j, sl)} : j \in 1..m}
\* string typed expressions
StrE(k, sl) == IF k = 0 THEN {}
               ELSE ELeaves(k, sl) \cup
                    (IF k < 2 THEN {} ELSE UNION {{<<"call", fs[1], as>> : as \in EArgTuples(fs[2], k - 1, sl)} : fs \in ECallSpecs(sl)})
\* string typed operands of comparisons may be parenthesised
StrP(k, sl) == StrE(k, sl) \cup (IF k < 2 THEN {} ELSE {<<"par", e>> : e \in StrE(k - 1, sl)})
WellE(k, sl) == StrE(k, sl) \cup BoolE(k, sl)
\* boolean typed, well typed expressions
BoolE(k, sl) ==
  IF k < 2 THEN {}
  ELSE UNION {{<<"cmp", op, l, r>> : op \in CmpOpsAt(k, sl), l \in StrP(i, sl), r \in StrP(k - i, sl)} : i \in 1..(k - 1)}
       \cup {<<"not", e>> : e \in WellE(k - 1, sl)}
       \cup {<<"par", e>> : e \in BoolE(k - 1, sl)}
       \cup UNION {{<<o, l, r>> : o \in {"and", "or"}, l \in WellE(i, sl), r \in WellE(k - i, sl)} : i \in 1..(k - 1)}
\* ill typed: a comparison with a boolean operand
SmallBool == {<<"cmp", op, l, r>> : op \in {"==", "<"}, l \in {EL(<<>>), EL(<<L("a")>>)}, r \in {EL(<<L("a")>>)}}
             \cup {<<"not", EL(<<L("a")>>)>>, <<"and", EL(<<L("a")>>), EL(<<>>)>>, <<"par", <<"not", <<"sq", Chars("0")>> >> >>}
IllE == LET ill == {<<"cmp", op, l, r>> : op \in CmpOps, l \in SmallBool, r \in {EL(<<L("a")>>), <<"sq", Chars("0")>>}}
                   \cup {<<"cmp", op, l, r>> : op \in CmpOps, l \in {EL(<<L("a")>>)}, r \in SmallBool}
        IN ill \cup {<<"not", e>> : e \in ill} \cup {<<"or", EL(<<L("a")>>), e>> : e \in ill}

\* towers of parentheses and negations, and of function calls
ETowerBase == {EL(<<L("a")>>), <<"cmp", "==", EL(<< <<"var", "A">> >>), EL(<<L("a")>>)>>}
RECURSIVE OpTower(_), CallTower(_)
OpTower(d) == IF d = 0 THEN ETowerBase
              ELSE {<<"par", e>> : e \in OpTower(d - 1)} \cup {<<"not", e>> : e \in OpTower(d - 1)}
CallTower(d) == IF d = 0 THEN {EL(<<L(" 0")>>)}
                ELSE {<<"call", FNot, <<e>> >> : e \in CallTower(d - 1)} \cup {<<"call", FStrip, <<e>> >> : e \in CallTower(d - 1)}

\* two renderings of the same protected text must compare equal
EProtPairs(t) == {<<"bsall", "bsmin">>, <<"dq", "bsall">>} \cup (IF "sq" \in QModes(t) THEN {<<"sq", "dq">>, <<"SQ", "bsmin">>} ELSE {})
EProtSide(m, t) == IF m = "SQ" THEN <<"sq", t>> ELSE EL(Quote(m, t, "top"))

RECURSIVE NamesE(_), SbE(_)
NamesE(e) ==
  CASE e[1] = "lit" -> NamesStr(e[2])
    [] e[1] = "sq" -> {}
    [] e[1] = "call" -> UNION {NamesE(e[3][i]) : i \in 1..Len(e[3])}
    [] e[1] \in {"par", "not"} -> NamesE(e[2])
    [] e[1] = "cmp" -> NamesE(e[3]) \cup NamesE(e[4])
    [] e[1] \in {"and", "or"} -> NamesE(e[2]) \cup NamesE(e[3])
SbE(e) ==
  CASE e[1] = "lit" -> SbStr(e[2])
    [] e[1] = "sq" -> FALSE
    [] e[1] = "call" -> e[2] = FSb \/ \E i \in 1..Len(e[3]) : SbE(e[3][i])
    [] e[1] \in {"par", "not"} -> SbE(e[2])
    [] e[1] = "cmp" -> SbE(e[3]) \/ SbE(e[4])
    [] e[1] \in {"and", "or"} -> SbE(e[2]) \/ SbE(e[3])
EEnvs(e) == LET ns == NamesE(e)
            IN {[v |-> [n \in {"A", "B"} |-> IF n = "A" THEN x ELSE y], sb |-> s] :
                  x \in (IF "A" \in ns THEN AVals ELSE {<<"unset">>}),
                  y \in (IF "B" \in ns THEN BVals ELSE {<<"unset">>}),
                  s \in (IF SbE(e) THEN BOOLEAN ELSE {FALSE})}

ESym == <<"\"", "'", "\\", "(", ")", "!", "=", "<", "&", "|", ",", "a", " ", "$">>

----------------------------------------------------------------------------
(* enumeration: root -> chunk states (parallel work units) -> case states *)

SCase(fam, a, env, aux) == <<"case", "s", fam, a, env, aux>>
ECase(fam, e, env) == <<"case", "e", fam, e, env, <<>> >>

Init == st = <<"root">>

\* family "gen": all strs of cost <= MaxSize, split by their first item
StartGen == /\ st = <<"root">>
            /\ \E n \in 1..MaxSize : \E k \in 1..n : \E it \in Item(k, "top") : st' = <<"gen", it, n - k>>
CaseGen == /\ st[1] = "gen"
           /\ \E r \in {r \in Str(st[3], "top") : Compat(st[2], r)} :
                LET a == <<st[2]>> \o r IN \E env \in Envs(a) : st' = SCase("gen", a, env, <<>>)

\* family "tower"
StartTower == /\ st = <<"root">>
              /\ \/ st' = <<"tow", "", "", 0>>
                 \/ \E w1 \in TowerW, w2 \in TowerW : \E d \in 0..(TowerDepth - 2) : st' = <<"tow", w1, w2, d>>
CaseTower == /\ st[1] = "tow"
             /\ \E a \in (IF st[2] = "" THEN Tower(0) \cup Tower(1) ELSE {Wrap(st[2], Wrap(st[3], t)) : t \in Tower(st[4])}) :
                  \E env \in Envs(a) : st' = SCase("tower", a, env, <<>>)

\* family "prot": protected text comes back unchanged
StartProt == /\ st = <<"root">>
             /\ \E w \in ProtWraps : \E i \in 0..Len(Sym) : st' = <<"prot", w, i>>
CaseProt == /\ st[1] = "prot"
            /\ \E t \in (IF st[3] = 0 THEN {<<>>} ELSE UNION {{<<Sym[st[3]]>> \o u : u \in Texts(n)} : n \in 0..(ProtLen - 1)}) :
                 \E m \in {m \in QModes(t) : ~(m = "dq" /\ st[2] = "dq")} : st' = SCase("prot", ProtAst(st[2], m, t), ProtEnv, t)

\* raw strings
StartRaw == st = <<"root">> /\ st' = <<"raw", <<>> >>
StepRaw == /\ st[1] = "raw" /\ Len(st[2]) < RawLen
           /\ \E i \in 1..Len(Sym) : st' = <<"raw", Append(st[2], Sym[i])>>
StartRawE == st = <<"root">> /\ st' = <<"rawe", <<>> >>
StepRawE == /\ st[1] = "rawe" /\ Len(st[2]) < RawELen
            /\ \E i \in 1..Len(ESym) : st' = <<"rawe", Append(st[2], ESym[i])>>

\* family "expr": well typed expressions of cost <= MaxESize, split by top node
ETops == {"str", "not", "par", "and", "or"} \cup CmpOps
StartExpr == /\ st = <<"root">>
             /\ \E k \in 1..MaxESize : \E top \in ETops : \E i \in 1..k : st' = <<"ex", top, k, i>>
\* expressions of cost >= 4 come from the slim generators
ExprChunk(top, k, i) ==
  LET sl == k >= 4 IN
  CASE top = "str" -> IF i = 1 THEN StrE(k, sl) \cup (IF k >= 2 THEN {<<"par", e>> : e \in StrE(k - 1, sl)} ELSE {}) ELSE {}
    [] top = "not" -> IF i = 1 /\ k >= 2 THEN {<<"not", e>> : e \in WellE(k - 1, sl)} ELSE {}
    [] top = "par" -> IF i = 1 /\ k >= 3 THEN {<<"par", e>> : e \in BoolE(k - 1, sl)} ELSE {}
    [] top \in {"and", "or"} -> IF i < k THEN {<<top, l, r>> : l \in WellE(i, sl), r \in WellE(k - i, sl)} ELSE {}
    [] top \in CmpOps -> IF i < k /\ top \in CmpOpsAt(k, sl) THEN {<<"cmp", top, l, r>> : l \in StrP(i, sl), r \in StrP(k - i, sl)} ELSE {}
CaseExpr == /\ st[1] = "ex"
            /\ \E e \in ExprChunk(st[2], st[3], st[4]) : \E env \in EEnvs(e) : st' = ECase("expr", e, env)

StartIll == st = <<"root">> /\ st' = <<"ill">>
CaseIll == st = <<"ill">> /\ \E e \in IllE : \E env \in EEnvs(e) : st' = ECase("ill", e, env)

StartETower == st = <<"root">> /\ \E d \in 0..ETower : st' = <<"etow", d>>
CaseETower == /\ st[1] = "etow"
              /\ \E e \in OpTower(st[2]) \cup CallTower(st[2]) : \E env \in EEnvs(e) : st' = ECase("etower", e, env)

StartEProt == st = <<"root">> /\ \E i \in 1..Len(Sym) : st' = <<"eprot", i>>
CaseEProt == /\ st[1] = "eprot"
             /\ \E t \in UNION {{<<Sym[st[2]]>> \o u : u \in Texts(n)} : n \in 0..1} :
                  \E p \in EProtPairs(t) :
                    st' = ECase("eprot", <<"cmp", "==", EProtSide(p[1], t), EProtSide(p[2], t)>>, ProtEnv)

Next == \/ StartGen \/ CaseGen \/ StartTower \/ CaseTower \/ StartProt \/ CaseProt
        \/ StartRaw \/ StepRaw \/ StartRawE \/ StepRawE
        \/ StartExpr \/ CaseExpr \/ StartIll \/ CaseIll \/ StartETower \/ CaseETower
        \/ StartEProt \/ CaseEProt

Spec == Init /\ [][Next]_st

----------------------------------------------------------------------------
(* self consistency of the reference semantics (checked on every case) *)

IsS == st[1] = "case" /\ st[2] = "s"
IsE == st[1] = "case" /\ st[2] = "e"
Agree(x, y) == x = y \/ x[1] = "any" \/ y[1] = "any"
IsRes(r) == r[1] \in {"val", "err", "any"}

TypeOK == /\ IsS => IsRes(ValStr(st[4], st[5], TRUE)) /\ IsRes(ValStr(st[4], st[5], FALSE))
          /\ IsE => IsRes(Truth(st[4], st[5]))

\* tolerating unset variables only ever removes errors
NounsetOnlyAddsErrors ==
  IsS => LET a == ValStr(st[4], st[5], TRUE) IN a[1] = "val" => ValStr(st[4], st[5], FALSE) = a

\* double quotes do not change the value
DqTransparent ==
  (IsS /\ \A i \in 1..Len(st[4]) : st[4][i][1] # "dq") => \A ns \in BOOLEAN : ValStr(<< <<"dq", st[4]>> >>, st[5], ns) = ValStr(st[4], st[5], ns)

\* text protected by the quoting rules comes back unchanged
ProtectedUnchanged ==
  (IsS /\ st[3] = "prot") => \A ns \in BOOLEAN : ValStr(st[4], st[5], ns) = V(st[6])

\* laziness: an untaken default/alternate does not influence the result, whatever it contains
Untaken(it, env) == \/ it[1] = "def" /\ ~UnsetOrNull(it, env)
                    \/ it[1] = "alt" /\ UnsetOrNull(it, env)
UntakenIrrelevant ==
  IsS => \A i \in 1..Len(st[4]) :
           (st[4][i][1] \in {"def", "alt"} /\ Untaken(st[4][i], st[5]))
             => LET b == [st[4] EXCEPT ![i] = <<@[1], @[2], @[3], <<NoFun, <<"var", "B">> >> >>]
                IN \A ns \in BOOLEAN : ValStr(b, st[5], ns) = ValStr(st[4], st[5], ns)

\* infix expression = function call forms (string substitution form and direct call form)
InfixEqualsFun ==
  (IsE /\ WellTyped(st[4]) /\ HasFun(st[4])) =>
     /\ Agree(Truth(st[4], st[5]), TruthOfVal(ValStr(ToFun(st[4]), st[5], FALSE)))
     /\ Agree(Truth(st[4], st[5]), Truth(FunExpr(st[4]), st[5]))
     /\ Agree(Truth(st[4], st[5]), Truth(ToCall(st[4]), st[5]))

NotNot == IsE => Truth(<<"not", <<"not", st[4]>> >>, st[5]) = Truth(st[4], st[5])

Trichotomy ==
  (IsE /\ st[4][1] = "cmp" /\ WellTyped(st[4])) =>
     LET t(op) == Truth(<<"cmp", op, st[4][3], st[4][4]>>, st[5])
     IN t("<")[1] = "val" =>
          /\ Cardinality({op \in {"<", "==", ">"} : t(op)[2]}) = 1
          /\ t("<=")[2] = ~t(">")[2] /\ t(">=")[2] = ~t("<")[2] /\ t("!=")[2] = ~t("==")[2]

EProtTrue == (IsE /\ st[3] = "eprot") => Truth(st[4], st[5]) = <<"val", TRUE>>
IllIsError == (IsE /\ st[3] = "ill") => ~WellTyped(st[4]) /\ Truth(st[4], st[5]) = Err

----------------------------------------------------------------------------
(* output: one JSON record per case *)

ResJ(r) == IF r[1] = "val" THEN <<"val", Cat(r[2])>> ELSE r
EnvJ(env) == LET ev(e) == IF e[1] = "set" THEN <<"set", Cat(e[2])>> ELSE e
             IN [A |-> ev(env.v["A"]), B |-> ev(env.v["B"]), sb |-> env.sb]

RECURSIVE TagsStr(_), TagsItem(_), TagsE(_)
TagsStr(a) == UNION {TagsItem(a[i]) : i \in 1..Len(a)}
TagsItem(it) ==
  CASE it[1] \in {"lit", "esc", "sq", "bare", "var"} -> {it[1]}
    [] it[1] = "dq" -> {"dq"} \cup TagsStr(it[2])
    [] it[1] \in {"def", "alt"} -> {it[1] \o (IF it[3] THEN "c" ELSE "")} \cup TagsStr(it[4])
    [] it[1] = "fun" -> {"fun." \o Cat(it[2])} \cup UNION {TagsStr(it[3][i]) : i \in 1..Len(it[3])}
TagsE(e) ==
  CASE e[1] = "lit" -> {"lit"} \cup TagsStr(e[2])
    [] e[1] = "sq" -> {"sq"}
    [] e[1] = "call" -> {"call." \o Cat(e[2])} \cup UNION {TagsE(e[3][i]) : i \in 1..Len(e[3])}
    [] e[1] \in {"par", "not"} -> {e[1]} \cup TagsE(e[2])
    [] e[1] = "cmp" -> {"cmp" \o e[2]} \cup TagsE(e[3]) \cup TagsE(e[4])
    [] e[1] \in {"and", "or"} -> {e[1]} \cup TagsE(e[2]) \cup TagsE(e[3])

SRec == LET r == ValStr(st[4], st[5], TRUE)
        IN [k |-> "s", f |-> st[3], src |-> Cat(RenderStr(st[4])), env |-> EnvJ(st[5]),
            ns |-> ResJ(r), nn |-> ResJ(ValStr(st[4], st[5], FALSE)),
            b |-> IF r[1] = "val" THEN BoolOf(r[2]) ELSE r[1],
            tags |-> TagsStr(st[4])]
ERec == LET hf == WellTyped(st[4]) /\ HasFun(st[4])
        IN [k |-> "e", f |-> st[3], expr |-> Cat(RenderE(st[4])), env |-> EnvJ(st[5]),
            truth |-> Truth(st[4], st[5]),
            fun |-> IF hf THEN Cat(RenderE(FunExpr(st[4]))) ELSE "",
            call |-> IF hf THEN Cat(RenderE(ToCall(st[4]))) ELSE "",
            sub |-> IF hf THEN Cat(RenderStr(ToFun(st[4]))) ELSE "",
            tags |-> TagsE(st[4])]
RawRec == [k |-> st[1], src |-> Cat(st[2])]

EmitCase ==
  Emit => /\ IsS => PrintT(<<"@@", ToJson(SRec)>>)
          /\ IsE => PrintT(<<"@@", ToJson(ERec)>>)
          /\ st[1] \in {"raw", "rawe"} => PrintT(<<"@@", ToJson(RawRec)>>)

----------------------------------------------------------------------------
(* vacuity controls: each must be VIOLATED *)

\* an untaken branch that would fail if expanded is skipped
ReachLazySkip ==
  ~(IsS /\ \E i \in 1..Len(st[4]) :
              /\ st[4][i][1] \in {"def", "alt"} /\ Untaken(st[4][i], st[5])
              /\ ValStr(st[4][i][4], st[5], TRUE) = Err
              /\ ValStr(st[4], st[5], TRUE)[1] = "val")
ReachNounsetDiffers == ~(IsS /\ ValStr(st[4], st[5], TRUE) = Err /\ ValStr(st[4], st[5], FALSE)[1] = "val")
ReachIllTyped == ~(IsE /\ ~WellTyped(st[4]))
ReachPrecedence == ~(IsE /\ st[4][1] = "and" /\ st[4][2][1] = "or" /\ Truth(st[4], st[5]) = <<"val", FALSE>>
                         /\ Truth(<<"or", st[4][2][2], <<"and", st[4][2][3], st[4][3]>> >>, st[5]) = <<"val", TRUE>>)
=============================================================================
