------------------------------ MODULE DirHash ------------------------------
(* Directory hashing of Bob (pym/bob/utils.py 385-622), property C11.

   tree : path universe -> entry.  Entries are tagged tuples of distinct lengths
          <<"none">> | <<"dir", mode>> | <<"link", target, stat>> | <<"file", content, mode, stat>>
          `stat` stands for the whole stat tuple (ctime, mtime, dev, ino, mode, size) of the
          inode; every modification takes a fresh value from `clock` (the property's assumption).
   index: the persistent hash cache = sequence of [name, stat, digest] records
          (<<>> = no cache file; a cache file always holds at least one record, utils.py 480-493).
          Directories have no records: only files and links go through FileIndex.check.

   Path universe: top level "a", "a.b", "a0"; below "a": "a/x", "a/y".  In byte order
   "a" < "a.b" < "a/x" < "a/y" < "a0" ('.'=46 < '/'=47 < '0'=48): the directory "a" must be
   listed between "a.b" and "a0" -- that is what the '/' suffix of utils.py:579 is for.
   Names are compared as sequences of character codes (Code).

   M layer: the cached hash is modelled step-wise after FileIndex.open/__readEntry/__match/
   __writeEntry/check/close (file offsets are counted in records: offset 4 = 0 records).
   P layer: CacheTransparent, IndexSorted, IndexNeverLies (+ OutSorted) at the end.
   Other INITs: InitMerge (all pairs old index x tree, one hash), InitTrees (tree universe).
   hist is the observation variable for behaviour generation (hidden by VIEW otherwise).  *)
EXTENDS Naturals, Sequences, FiniteSets, TLC, Json, SequencesExt

CONSTANTS Contents,    \* content ids of regular files (SizeOf gives the size class)
          Modes,       \* permission ids of regular files
          NewContents, \* content / permission ids that newly created files may get (subsets of the
          NewModes,    \*   above; the cache logic only sees that the stat is fresh)
          Targets,     \* link target ids
          DirModes,    \* permission ids of directories
          Bases,       \* ids of the base trees to start from
          MaxOps,      \* number of tree modifications per behaviour
          MaxBurst,    \* max. modifications between two cached hashes (1 = hash after each step)
          Gen          \* TRUE: print hist of every completed behaviour

VARIABLES tree, clock, index,
          pc, todo, inPos, inPosOld, cur, mismatch, out, res,
          result, nops, burst, hist

vars == <<tree, clock, index, pc, todo, inPos, inPosOld, cur, mismatch, out, res, result, nops, burst, hist>>
view == <<tree, clock, index, pc, todo, inPos, inPosOld, cur, mismatch, out, res, result, nops, burst>>

----------------------------------------------------------------------------
(* names *)

TopSet == {"a", "a.b", "a0"}
SubSet == {"a/x", "a/y"}
Paths  == TopSet \cup SubSet

Code == ("" :> <<>>) @@ ("a" :> <<97>>) @@ ("a.b" :> <<97, 46, 98>>) @@ ("a0" :> <<97, 48>>)
        @@ ("a/x" :> <<97, 47, 120>>) @@ ("a/y" :> <<97, 47, 121>>)
BaseCode == ("a" :> <<97>>) @@ ("a.b" :> <<97, 46, 98>>) @@ ("a0" :> <<97, 48>>)
        @@ ("a/x" :> <<120>>) @@ ("a/y" :> <<121>>)
Slash == <<47>>

\* bytes.__lt__
RECURSIVE LexLess(_, _)
LexLess(s, t) == IF t = <<>> THEN FALSE
                 ELSE IF s = <<>> THEN TRUE
                 ELSE IF s[1] < t[1] THEN TRUE
                 ELSE IF s[1] > t[1] THEN FALSE
                 ELSE LexLess(Tail(s), Tail(t))

SizeOf(c) == IF c = 3 THEN 2 ELSE 1       \* contents 1,2 (and 4) have equal size, 3 differs

----------------------------------------------------------------------------
(* entries *)

None == <<"none">>
Kind(e)   == e[1]
IsLeaf(e) == e[1] \in {"file", "link"}
IsDir(e)  == e[1] = "dir"
StatOf(e) == IF e[1] = "file" THEN e[4] ELSE e[3]
Restat(e, s) == IF e[1] = "file" THEN <<"file", e[2], e[3], s>> ELSE <<"link", e[2], s>>

\* digest of a leaf: hashFile (387-397) / __hashLink (559-565)
LeafDigest(e) == IF e[1] = "file" THEN <<"F", e[2]>> ELSE <<"L", e[2]>>
\* struct.pack("=L", st_mode), 591
ModeTerm(e) == IF e[1] = "file" THEN <<"reg", e[3]>> ELSE IF e[1] = "link" THEN <<"lnk", 0>> ELSE <<"dir", e[2]>>

ParentOK(t, p) == p \in TopSet \/ IsDir(t["a"])
Exists(t, p)   == t[p] # None
WellFormed(t)  == \A p \in SubSet : Exists(t, p) => IsDir(t["a"])

----------------------------------------------------------------------------
(* DirHasher.__hashDir 567-597: listing, sort by name with '/' appended to directories, blob *)

TopKey(t, p)  == Code[p] \o (IF IsDir(t[p]) THEN Slash ELSE <<>>)                      \* 575-579
TopSorted(t)  == SetToSortSeq({p \in TopSet : Exists(t, p)},
                              LAMBDA x, y : LexLess(TopKey(t, x), TopKey(t, y)))       \* 589
SubSorted(t, p) == IF p = "a"
                   THEN SetToSortSeq({q \in SubSet : Exists(t, q)}, LAMBDA x, y : LexLess(BaseCode[x], BaseCode[y]))
                   ELSE <<>>

\* order in which __hashEntry reaches FileIndex.check (files and links only, 540-556)
RECURSIVE Flat(_, _)
Flat(t, s) == IF s = <<>> THEN <<>>
              ELSE (IF IsDir(t[Head(s)]) THEN SubSorted(t, Head(s)) ELSE <<Head(s)>>) \o Flat(t, Tail(s))
Walk(t) == Flat(t, TopSorted(t))

\* 590-597 with the leaf digests taken from dg
SubBlob(t, p, dg) == LET s == SubSorted(t, p) IN
                     [i \in 1..Len(s) |-> <<ModeTerm(t[s[i]]), dg[s[i]], BaseCode[s[i]]>>]
EntryDigest(t, p, dg) == IF IsDir(t[p]) THEN <<"D", SubBlob(t, p, dg)>> ELSE dg[p]
RootHash(t, dg) == LET s == TopSorted(t) IN
                   <<"D", [i \in 1..Len(s) |-> <<ModeTerm(t[s[i]]), EntryDigest(t, s[i], dg), TopKey(t, s[i])>>]>>

TrueDigests(t) == [p \in Paths |-> IF IsLeaf(t[p]) THEN LeafDigest(t[p]) ELSE None]
\* NullIndex 516-527
HashPlain(t) == RootHash(t, TrueDigests(t))

----------------------------------------------------------------------------
(* base trees; their leaves carry the stats 1..5, clock starts at 5 *)

EmptyTree == [p \in Paths |-> None]
F(c, m, s) == <<"file", c, m, s>>
L(x, s)    == <<"link", x, s>>
D(m)       == <<"dir", m>>

BaseTree(b) ==
  CASE b = 1 -> EmptyTree
    [] b = 2 -> [EmptyTree EXCEPT !["a"] = F(1, 1, 1), !["a.b"] = F(1, 1, 2), !["a0"] = F(2, 1, 3)]
    [] b = 3 -> [EmptyTree EXCEPT !["a"] = D(1), !["a/x"] = F(1, 1, 1), !["a/y"] = F(2, 1, 2),
                                  !["a.b"] = F(1, 1, 3), !["a0"] = F(1, 1, 4)]
    [] b = 4 -> [EmptyTree EXCEPT !["a"] = D(1), !["a/x"] = F(1, 1, 1), !["a.b"] = L(1, 2)]
    [] b = 5 -> [EmptyTree EXCEPT !["a"] = L(1, 1), !["a.b"] = D(1), !["a0"] = F(1, 1, 2)]
    [] b = 6 -> [EmptyTree EXCEPT !["a"] = D(1), !["a/y"] = L(1, 1), !["a0"] = F(3, 1, 2)]

EmptyRec == [name |-> "", stat |-> 0, digest |-> None]        \* FileIndex.Stat() 414-423
NoRes    == [p \in Paths |-> None]

InitCommon ==
  /\ pc = "idle" /\ todo = <<>> /\ inPos = 0 /\ inPosOld = 0 /\ cur = EmptyRec
  /\ mismatch = FALSE /\ out = <<"closed">> /\ res = NoRes
  /\ result = None /\ nops = 0

Init ==
  /\ \E b \in Bases : /\ tree = BaseTree(b)
                      /\ hist = <<[a |-> "Base", b |-> b, tree |-> BaseTree(b)]>>
  /\ clock = 5 /\ index = <<>>
  /\ burst = MaxBurst            \* the first thing is a cached hash that creates the index
  /\ InitCommon

\* the history is only kept when behaviours are generated
H(r) == hist' = IF Gen THEN Append(hist, r) ELSE hist

----------------------------------------------------------------------------
(* environment: modifications of the tree between two hash runs *)

CanOp == pc = "idle" /\ nops < MaxOps /\ burst < MaxBurst

\* every op: fresh stat, forget the last result
Op(t2, r) ==
  /\ tree' = t2 /\ clock' = clock + 1 /\ nops' = nops + 1 /\ burst' = burst + 1
  /\ result' = None
  /\ H(r @@ [tree |-> t2])
  /\ UNCHANGED <<index, pc, todo, inPos, inPosOld, cur, mismatch, out, res>>

Fresh == clock + 1

\* removal of p and (for a directory) everything below
Without(t, p) == [q \in Paths |-> IF q = p \/ (p = "a" /\ q \in SubSet) THEN None ELSE t[q]]

CreateFile(p, c, m) ==
  /\ CanOp /\ ~Exists(tree, p) /\ ParentOK(tree, p)
  /\ Op([tree EXCEPT ![p] = F(c, m, Fresh)], [a |-> "CreateFile", p |-> p])

CreateLink(p, x) ==
  /\ CanOp /\ ~Exists(tree, p) /\ ParentOK(tree, p)
  /\ Op([tree EXCEPT ![p] = L(x, Fresh)], [a |-> "CreateLink", p |-> p])

MkDir(p, m) ==
  /\ CanOp /\ p \in TopSet /\ ~Exists(tree, p)
  /\ Op([tree EXCEPT ![p] = D(m)], [a |-> "MkDir", p |-> p])

\* new content of different size
Modify(p, c) ==
  /\ CanOp /\ Kind(tree[p]) = "file" /\ c # tree[p][2] /\ SizeOf(c) # SizeOf(tree[p][2])
  /\ Op([tree EXCEPT ![p] = F(c, tree[p][3], Fresh)], [a |-> "Modify", p |-> p])

\* same size, same inode, new mtime
Rewrite(p, c) ==
  /\ CanOp /\ Kind(tree[p]) = "file" /\ c # tree[p][2] /\ SizeOf(c) = SizeOf(tree[p][2])
  /\ Op([tree EXCEPT ![p] = F(c, tree[p][3], Fresh)], [a |-> "Rewrite", p |-> p])

\* same size, same mtime, new inode (cp -p / rsync -t / tar x over an existing file)
ReplaceSameMtime(p, c) ==
  /\ CanOp /\ Kind(tree[p]) = "file" /\ c # tree[p][2] /\ SizeOf(c) = SizeOf(tree[p][2])
  /\ Op([tree EXCEPT ![p] = F(c, tree[p][3], Fresh)], [a |-> "ReplaceSameMtime", p |-> p])

\* same size, same inode, same mtime: rewritten in place and the old mtime restored (cp -p onto an existing file,
\* rsync --inplace -t, touch -r): only the ctime tells -- it is part of the stat tuple all the same
RewriteSameMtime(p, c) ==
  /\ CanOp /\ Kind(tree[p]) = "file" /\ c # tree[p][2] /\ SizeOf(c) = SizeOf(tree[p][2])
  /\ Op([tree EXCEPT ![p] = F(c, tree[p][3], Fresh)], [a |-> "RewriteSameMtime", p |-> p])

Chmod(p, m) ==
  /\ CanOp
  /\ \/ /\ Kind(tree[p]) = "file" /\ m \in Modes /\ m # tree[p][3]
        /\ Op([tree EXCEPT ![p] = F(tree[p][2], m, Fresh)], [a |-> "Chmod", p |-> p])
     \/ /\ Kind(tree[p]) = "dir" /\ m \in DirModes /\ m # tree[p][2]
        /\ Op([tree EXCEPT ![p] = D(m)], [a |-> "Chmod", p |-> p])

Delete(p) ==
  /\ CanOp /\ Exists(tree, p)
  /\ Op(Without(tree, p), [a |-> "Delete", p |-> p])

\* rename of a file/link/empty directory to a free name or over an existing file/link
Rename(p, q) ==
  /\ CanOp /\ p # q /\ Exists(tree, p) /\ ParentOK(tree, q)
  /\ IsDir(tree[p]) => (q \in TopSet /\ SubSorted(tree, p) = <<>> /\ ~Exists(tree, q))
  /\ ~(p = "a" /\ q \in SubSet)
  /\ Exists(tree, q) => (IsLeaf(tree[p]) /\ IsLeaf(tree[q]))
  /\ Op([Without(tree, p) EXCEPT ![q] = IF IsLeaf(tree[p]) THEN Restat(tree[p], Fresh) ELSE tree[p]],
        [a |-> "Rename", p |-> p, q |-> q])

\* file <-> directory <-> symlink replacement
ReplaceByFile(p, c, m) ==
  /\ CanOp /\ Exists(tree, p) /\ Kind(tree[p]) # "file"
  /\ Op([Without(tree, p) EXCEPT ![p] = F(c, m, Fresh)], [a |-> "ReplaceByFile", p |-> p])

ReplaceByLink(p, x) ==
  /\ CanOp /\ Exists(tree, p) /\ Kind(tree[p]) # "link"
  /\ Op([Without(tree, p) EXCEPT ![p] = L(x, Fresh)], [a |-> "ReplaceByLink", p |-> p])

ReplaceByDir(p, m) ==
  /\ CanOp /\ p \in TopSet /\ IsLeaf(tree[p])
  /\ Op([tree EXCEPT ![p] = D(m)], [a |-> "ReplaceByDir", p |-> p])

----------------------------------------------------------------------------
(* hashDirectory(path, index): FileIndex, step-wise *)

HVars == <<tree, clock, nops, hist>>

\* __readEntry 468-478 (only called when a record is left)
ReadEntry ==
  /\ cur' = index[inPos + 1]
  /\ inPosOld' = inPos
  /\ inPos' = inPos + 1

\* open 433-456 (+ the listing of the first directory)
HashOpen ==
  /\ pc = "idle" /\ burst > 0
  /\ IF index # <<>>
       THEN /\ mismatch' = FALSE /\ cur' = index[1] /\ inPosOld' = 0 /\ inPos' = 1      \* 443-445
       ELSE /\ mismatch' = TRUE /\ cur' = EmptyRec /\ inPosOld' = 0 /\ inPos' = 0        \* 453-454
  /\ out' = <<"closed">> /\ res' = NoRes
  /\ todo' = Walk(tree)
  /\ pc' = IF Walk(tree) = <<>> THEN "close" ELSE "match"
  /\ UNCHANGED <<index, result, burst>> /\ UNCHANGED HVars

\* __match 496-497: skip old records with smaller names
MatchRead ==
  /\ pc = "match" /\ LexLess(Code[cur.name], Code[Head(todo)]) /\ inPos < Len(index)
  /\ ReadEntry
  /\ UNCHANGED <<index, pc, todo, mismatch, out, res, result, burst>> /\ UNCHANGED HVars

\* 497: __readEntry fails at the end of the old index: `current` and both offsets stay
MatchEOF ==
  /\ pc = "match" /\ LexLess(Code[cur.name], Code[Head(todo)]) /\ inPos = Len(index)
  /\ pc' = "check"
  /\ UNCHANGED <<index, todo, inPos, inPosOld, cur, mismatch, out, res, result, burst>> /\ UNCHANGED HVars

MatchStop ==
  /\ pc = "match" /\ ~LexLess(Code[cur.name], Code[Head(todo)])
  /\ pc' = "check"
  /\ UNCHANGED <<index, todo, inPos, inPosOld, cur, mismatch, out, res, result, burst>> /\ UNCHANGED HVars

\* 498-502
Matches == cur.name = Head(todo) /\ cur.stat = StatOf(tree[Head(todo)])

\* __writeEntry 480-493: the first write copies the old index up to the START of the current record
Written(d) ==
  LET prefix == IF out[1] = "open" THEN out[2]
                ELSE IF index # <<>> THEN SubSeq(index, 1, inPosOld) ELSE <<>>
  IN <<"open", Append(prefix, [name |-> Head(todo), stat |-> StatOf(tree[Head(todo)]), digest |-> d])>>

Advance(d) ==
  /\ res' = [res EXCEPT ![Head(todo)] = d]
  /\ todo' = Tail(todo)
  /\ pc' = IF Tail(todo) = <<>> THEN "close" ELSE "match"
  /\ UNCHANGED <<index, inPos, inPosOld, cur, result, burst>> /\ UNCHANGED HVars

\* check 506-514
CheckHitQuiet ==                 \* cached digest, nothing written so far
  /\ pc = "check" /\ Matches /\ ~mismatch
  /\ UNCHANGED <<mismatch, out>> /\ Advance(cur.digest)

CheckHitWrite ==                 \* cached digest, copied to the new index
  /\ pc = "check" /\ Matches /\ mismatch
  /\ out' = Written(cur.digest) /\ UNCHANGED mismatch /\ Advance(cur.digest)

CheckMissFirst ==                \* 510-511 the first difference: from here on everything is rewritten
  /\ pc = "check" /\ ~Matches /\ ~mismatch
  /\ mismatch' = TRUE /\ out' = Written(LeafDigest(tree[Head(todo)]))
  /\ Advance(LeafDigest(tree[Head(todo)]))

CheckMissLater ==
  /\ pc = "check" /\ ~Matches /\ mismatch
  /\ UNCHANGED mismatch /\ out' = Written(LeafDigest(tree[Head(todo)]))
  /\ Advance(LeafDigest(tree[Head(todo)]))

\* close 458-466 + the result of __hashDir
HashClose ==
  /\ pc = "close"
  /\ index' = IF out[1] = "open" THEN out[2] ELSE index
  /\ result' = RootHash(tree, res)
  /\ burst' = 0 /\ pc' = "idle"
  /\ H([a |-> "Hash", index |-> index', rewritten |-> (out[1] = "open"), ok |-> (result' = HashPlain(tree))])
  \* the FileIndex object is dropped (621-622)
  /\ inPos' = 0 /\ inPosOld' = 0 /\ cur' = EmptyRec /\ mismatch' = FALSE /\ out' = <<"closed">> /\ res' = NoRes
  /\ UNCHANGED <<tree, clock, nops, todo>>

Next ==
  \/ \E p \in Paths :
       \/ \E c \in NewContents, m \in NewModes : CreateFile(p, c, m) \/ ReplaceByFile(p, c, m)
       \/ \E x \in Targets : CreateLink(p, x) \/ ReplaceByLink(p, x)
       \/ \E m \in DirModes : MkDir(p, m) \/ ReplaceByDir(p, m)
       \/ \E c \in Contents : Modify(p, c) \/ Rewrite(p, c) \/ ReplaceSameMtime(p, c) \/ RewriteSameMtime(p, c)
       \/ \E m \in Modes \cup DirModes : Chmod(p, m)
       \/ Delete(p)
       \/ \E q \in Paths : Rename(p, q)
  \/ HashOpen \/ MatchRead \/ MatchEOF \/ MatchStop
  \/ CheckHitQuiet \/ CheckHitWrite \/ CheckMissFirst \/ CheckMissLater \/ HashClose

Spec == Init /\ [][Next]_vars

----------------------------------------------------------------------------
(* all pairs (old index, tree): every name absent / version 1 / version 2 in the index and in the
   tree, one cached hash.  The digest of version v is <<"F", v>> on both sides.  *)

MergeVers == {1, 2}
MergeIndexes ==
  LET order == <<"a", "a.b", "a/x", "a/y", "a0">>
      choice == [Paths -> {0} \cup MergeVers]
      recs(f) == SelectSeq([i \in 1..5 |-> [name |-> order[i], stat |-> f[order[i]], digest |-> <<"F", f[order[i]]>>]],
                           LAMBDA r : r.stat # 0)
  IN {recs(f) : f \in choice}
MergeTrees ==
  {t \in [Paths -> {None, D(1)} \cup {F(v, 1, v) : v \in MergeVers}] :
     /\ WellFormed(t) /\ \A p \in Paths \ {"a"} : ~IsDir(t[p])}

InitMerge ==
  /\ tree \in MergeTrees /\ index \in MergeIndexes
  /\ clock = 5 /\ burst = 1 /\ hist = <<>>
  /\ InitCommon

----------------------------------------------------------------------------
(* enumeration of the tree universe for the content-exactness check *)

AllTrees ==
  LET leaves == {None} \cup {F(c, m, 1) : c \in Contents, m \in Modes} \cup {L(x, 1) : x \in Targets}
      dirs == {D(m) : m \in DirModes}
  IN {t \in [Paths -> leaves \cup dirs] : WellFormed(t) /\ \A p \in SubSet : ~IsDir(t[p])}

InitTrees ==
  /\ tree \in AllTrees /\ index = <<>>
  /\ clock = 5 /\ burst = 0 /\ hist = <<>>
  /\ InitCommon

TreePrint == PrintT(<<"@@", ToJson(tree)>>)

----------------------------------------------------------------------------
(* P layer *)

\* the hash computed with the persistent cache equals the hash computed without it
CacheTransparent == result # None => result = HashPlain(tree)

IndexSorted == \A i \in 1..(Len(index) - 1) : LexLess(Code[index[i].name], Code[index[i + 1].name])

\* a record whose (name, stat) equals a live file carries that file's digest
IndexNeverLies ==
  \A i \in 1..Len(index) :
    LET p == index[i].name IN
      (IsLeaf(tree[p]) /\ StatOf(tree[p]) = index[i].stat) => index[i].digest = LeafDigest(tree[p])

\* while a new index is being written it is sorted as well and continues the walk
OutSorted ==
  out[1] = "open" =>
     /\ \A i \in 1..(Len(out[2]) - 1) : LexLess(Code[out[2][i].name], Code[out[2][i + 1].name])
     /\ (todo # <<>> /\ pc = "match") => LexLess(Code[out[2][Len(out[2])].name], Code[Head(todo)])

TypeOK ==
  /\ WellFormed(tree)
  /\ pc \in {"idle", "match", "check", "close"}
  /\ pc # "idle" => (inPos \in 0..Len(index) /\ inPosOld \in 0..Len(index) /\ inPosOld <= inPos)
  /\ nops \in 0..MaxOps /\ burst \in 0..MaxBurst

\* vacuity companions (negated reachability; each must be VIOLATED)
\* a record is reused although an earlier record was rewritten (tail copy)
ReachTailCopy == ~(pc = "check" /\ Matches /\ mismatch /\ index # <<>> /\ nops > 0)
\* records of deleted files are skipped and the index is left alone
ReachStaleSkip == ~(pc = "close" /\ out[1] = "closed" /\ nops > 0 /\ Len(index) > Len(Walk(tree)) /\ Walk(tree) # <<>>)
\* directory "a" is listed between "a.b" and "a0" and all three positions are cached
ReachSlashOrder == ~(pc = "close" /\ IsDir(tree["a"]) /\ Exists(tree, "a/x") /\ IsLeaf(tree["a.b"]) /\ IsLeaf(tree["a0"])
                     /\ out[1] = "closed" /\ nops > 0)
\* (efficiency quirk of 496-497 + 486) appending after the end of the old index drops its last record
ReachDropLast == ~(pc = "close" /\ out[1] = "open" /\ index # <<>> /\
                   \E p \in Paths : /\ IsLeaf(tree[p])
                                    /\ \E i \in 1..Len(index) : index[i].name = p /\ index[i].stat = StatOf(tree[p])
                                    /\ ~\E j \in 1..Len(out[2]) : out[2][j].name = p)

----------------------------------------------------------------------------
(* generation: print the history of every completed behaviour *)
GenPrint == (Gen /\ pc = "idle" /\ nops = MaxOps /\ burst = 0) => PrintT(<<"@@", ToJson(hist)>>)

=============================================================================
