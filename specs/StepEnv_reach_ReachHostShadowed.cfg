SPECIFICATION Spec
CONSTANTS DepNames = {"da", "db"}  MaxDeps = 2  Emit = FALSE
INVARIANT ReachHostShadowed
CHECK_DEADLOCK FALSE
