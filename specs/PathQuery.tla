----------------------------- MODULE PathQuery -----------------------------
(* Declarative meaning of Bob package path queries (doc/manpages/bobpaths.rst,
   `--query` in doc/manpages/bob.rst), property C18.

   P layer  = FORWARD semantics written from the manual: a query is evaluated
              step by step over ALL paths that start at the virtual root.
                Eval(q)      set of root paths selected by q (= admissible witnesses)
                Result(q)    their end points (the "set of packages")
                ErrClass     empty-result behaviour per query mode
   M layer  = the one optimisation of pym/bob/pathspec.py whose equivalence with
              P is a for-all statement: predicates are evaluated BACKWARDS over
              the whole graph (LocationStep.evalBackward 350-379,
              LocationPath.evalBackward 176-191).  Invariant BackwardAgrees.

   Every TLC state with Len(q.steps) = L is one test case (graph, query); it is printed
   as JSON for the replay into the real PackageSet (checks/c18_pathquery.py).
   Configs: PathQuery.cfg (quick: catalogue, <= 2 steps), PathQuery_thorough.cfg (catalogue,
   <= 3 steps, larger predicate alphabet, every consistency condition as its own invariant),
   PathQuery_dags.cfg (all 416 connected DAGs on 4 packages x provideDeps flags, small query
   alphabet), PathQuery_reach_*.cfg (negated reachability, must be violated).

   Packages: 0 is the virtual root, 1..n the packages of graph G.  Package
   names and name tests are sequences of one-character strings (TLC cannot
   index into strings).  The value of the package variable LIC is a rank into
   Vals (rank order = code point order of the strings).                        *)
EXTENDS Naturals, Sequences, FiniteSets, TLC, Json

CONSTANTS Tier,       \* 0 quick, 1 thorough, 2 all-DAGs (generated family, small query universe)
          MaxLen,     \* number of location steps of a query (1..3)
          GraphLo, GraphHi,  \* slice of the catalogue
          GenNodes,   \* 0: no generated graphs; 3 / 4: all connected DAGs on 3 / 4 packages
          Emit       \* TRUE: print every case

VARIABLES g,          \* graph id
          q,          \* query  [alias, abs, steps]
          L,          \* target number of own steps
          pp          \* position of the step that carries a predicate (0 = none)
vars == <<g, q, L, pp>>

----------------------------------------------------------------------------
(* strings *)
RECURSIVE Str(_)
Str(s) == IF s = <<>> THEN "" ELSE Head(s) \o Str(Tail(s))

STAR == <<"*">>
R    == <<"r">>
A    == <<"a">>
AB   == <<"a", "b">>
ABB  == <<"a", "b", "b">>
B    == <<"b">>
BA   == <<"b", "a">>
ZZ   == <<"z", "z">>          \* never the name of a package
ASTAR == <<"a", "*">>
STARB == <<"*", "b">>

\* "The special * wildcard character matches zero or more characters."
RECURSIVE Glob(_, _)
Glob(pat, s) ==
  IF pat = <<>> THEN s = <<>>
  ELSE IF Head(pat) = "*" THEN Glob(Tail(pat), s) \/ (s # <<>> /\ Glob(pat, Tail(s)))
  ELSE s # <<>> /\ Head(s) = Head(pat) /\ Glob(Tail(pat), Tail(s))
HasStar(pat) == \E i \in 1..Len(pat) : pat[i] = "*"
\* tabulated once for all name tests and package names that occur
AllNames == {<<>>, R, A, AB, ABB, B, BA}
AllTests == {STAR, ASTAR, STARB, R, A, AB, ABB, B, BA, ZZ}
MatchTab == [t \in AllTests |-> {nm \in AllNames : Glob(t, nm)}]
Matches(t, nm) == nm \in MatchTab[t]

\* values of the package variable LIC, in code point order; rank 0 = unset = ""
Vals == <<"", "0", "false", "x", "xy", "y">>
ValStr(r) == Vals[r + 1]
\* "The empty string, 0 and false (case insensitive) are treated as false."
Truthy(r) == r >= 3
CmpOp(op, l, r) ==
  CASE op = "<" -> l < r  [] op = "<=" -> l <= r [] op = ">" -> l > r
    [] op = ">=" -> l >= r [] op = "==" -> l = r [] op = "!=" -> l # r

----------------------------------------------------------------------------
(* package graphs.  dep = direct dependencies (0 -> root recipes), prov = the
   direct dependencies a package passes upwards (provideDeps).              *)
Cat == <<
  \* 1 provided dependency makes a short cut r ~> b next to r -> ab -> b
  [n |-> 3, name |-> <<R, AB, B>>, var |-> <<0, 3, 5>>,
   dep |-> {<<0,1>>, <<1,2>>, <<2,3>>}, prov |-> {<<2,3>>}],
  \* 2 diamond: b is shared by a and ab
  [n |-> 4, name |-> <<R, A, AB, B>>, var |-> <<0, 3, 1, 3>>,
   dep |-> {<<0,1>>, <<1,2>>, <<1,3>>, <<2,4>>, <<3,4>>}, prov |-> {}],
  \* 3 chain with a non-matching package between two a* packages
  [n |-> 4, name |-> <<R, A, B, AB>>, var |-> <<2, 3, 0, 3>>,
   dep |-> {<<0,1>>, <<1,2>>, <<2,3>>, <<3,4>>}, prov |-> {}],
  \* 4 diamond above a chain: abb is reached on two paths through the shared b
  [n |-> 5, name |-> <<R, A, AB, B, ABB>>, var |-> <<0, 1, 3, 5, 3>>,
   dep |-> {<<0,1>>, <<1,2>>, <<1,3>>, <<2,4>>, <<3,4>>, <<4,5>>}, prov |-> {}],
  \* 5 direct short cut a -> b next to a -> ab -> b
  [n |-> 4, name |-> <<R, A, AB, B>>, var |-> <<3, 0, 4, 3>>,
   dep |-> {<<0,1>>, <<1,2>>, <<2,3>>, <<3,4>>, <<2,4>>}, prov |-> {}],
  \* 6 two variants of b (same name, different LIC)
  [n |-> 5, name |-> <<R, A, AB, B, B>>, var |-> <<0, 0, 0, 3, 5>>,
   dep |-> {<<0,1>>, <<1,2>>, <<1,3>>, <<2,4>>, <<3,5>>}, prov |-> {}],
  \* 7 two root recipes sharing b; short cut target sorts before the intermediate
  [n |-> 4, name |-> <<R, A, B, AB>>, var |-> <<3, 5, 3, 0>>,
   dep |-> {<<0,1>>, <<0,2>>, <<1,3>>, <<3,4>>, <<1,4>>, <<2,4>>}, prov |-> {}],
  \* 8 transitive provideDeps: r ~> ab, r ~> b, a ~> b
  [n |-> 4, name |-> <<R, A, AB, B>>, var |-> <<0, 3, 3, 2>>,
   dep |-> {<<0,1>>, <<1,2>>, <<2,3>>, <<3,4>>}, prov |-> {<<1,2>>, <<2,3>>, <<3,4>>}],
  \* 9 provided dependency hidden by a direct dependency of the same name
  [n |-> 4, name |-> <<R, A, B, AB>>, var |-> <<1, 3, 3, 4>>,
   dep |-> {<<0,1>>, <<1,2>>, <<1,3>>, <<2,3>>, <<2,4>>}, prov |-> {<<2,3>>, <<2,4>>}],
  \* 10 wide level for globbing, one shared grandchild
  [n |-> 5, name |-> <<R, A, AB, ABB, B>>, var |-> <<0, 3, 3, 0, 5>>,
   dep |-> {<<0,1>>, <<1,2>>, <<1,3>>, <<1,4>>, <<1,5>>, <<2,5>>}, prov |-> {<<2,5>>}],
  \* 11 indirect edge deep in the graph: direct-descendant and descendant differ in paths
  [n |-> 5, name |-> <<R, A, AB, B, BA>>, var |-> <<0, 3, 0, 3, 3>>,
   dep |-> {<<0,1>>, <<1,2>>, <<2,3>>, <<3,4>>, <<2,5>>, <<4,5>>}, prov |-> {<<2,3>>, <<3,4>>}],
  \* 12 a single package
  [n |-> 1, name |-> <<R>>, var |-> <<3>>, dep |-> {<<0,1>>}, prov |-> {}],
  \* 13 variants of b below a diamond, provided upwards on one side only
  [n |-> 5, name |-> <<A, AB, ABB, B, B>>, var |-> <<3, 0, 0, 3, 1>>,
   dep |-> {<<0,1>>, <<1,2>>, <<1,3>>, <<2,4>>, <<3,5>>}, prov |-> {<<2,4>>}]
>>
NCat == Len(Cat)

\* generated family: all connected DAGs on packages r < a < ab < b (edges low -> high),
\* every edge optionally provided upwards. Code c: bit k = edge k, bit k+6 = provided.
Pairs == <<<<1,2>>, <<1,3>>, <<2,3>>, <<1,4>>, <<2,4>>, <<3,4>>>>
Bit(c, k) == (c \div (2 ^ k)) % 2 = 1
GenDep(c, n)  == {<<0,1>>} \cup {Pairs[k+1] : k \in {k \in 0..5 : Bit(c, k) /\ Pairs[k+1][2] <= n}}
GenProv(c, n) == {Pairs[k+1] : k \in {k \in 0..5 : Bit(c, k+6) /\ Pairs[k+1][2] <= n}}
GenValid(c, n) ==
  /\ \A k \in 0..5 : Bit(c, k+6) => Bit(c, k)
  /\ \A k \in 0..5 : Pairs[k+1][2] > n => ~Bit(c, k)
  /\ \A j \in 2..n : \E k \in 0..5 : Bit(c, k) /\ Pairs[k+1][2] = j
GenCodes == IF GenNodes = 0 THEN {} ELSE {c \in 0..4095 : GenValid(c, GenNodes)}
GenGraph(c) == [n |-> GenNodes, name |-> SubSeq(<<R, A, AB, B>>, 1, GenNodes),
                var |-> SubSeq(<<0, 3, 5, 3>>, 1, GenNodes),
                dep |-> GenDep(c, GenNodes), prov |-> GenProv(c, GenNodes)]
GenBase == 1000
GraphIds == {i \in 1..NCat : GraphLo <= i /\ i <= GraphHi} \cup {GenBase + c : c \in GenCodes}
RawGraph(i) == IF i < GenBase THEN Cat[i] ELSE GenGraph(i - GenBase)

\* direct children; provided packages; indirect children (on the raw records)
DChild0(G, p) == {c \in 1..G.n : <<p, c>> \in G.dep}
RECURSIVE Provided(_, _)
Provided(G, c) == UNION {{d} \cup Provided(G, d) : d \in {x \in 1..G.n : <<c, x>> \in G.prov}}
\* "the direct-child axis contains the direct children (i.e. without provided
\* dependencies)": a child is a direct dependency or a dependency provided by one.
\* A provided package whose name is already taken by a direct dependency is not
\* listed a second time. The virtual root has direct children only.
IChild0(G, p) ==
  IF p = 0 THEN {}
  ELSE {d \in UNION {Provided(G, c) : c \in DChild0(G, p)} : \A c \in DChild0(G, p) : G.name[c] # G.name[d]}
Child0(G, p) == DChild0(G, p) \cup IChild0(G, p)

\* Bob refuses recipes where two different packages of one name meet below one parent
WellFormed(G) ==
  /\ G.prov \subseteq G.dep
  /\ \A e \in G.dep : e[1] < e[2]
  /\ \A p \in 0..G.n :
       LET cand == DChild0(G, p) \cup (IF p = 0 THEN {} ELSE UNION {Provided(G, c) : c \in DChild0(G, p)})
       IN \A x, y \in cand : G.name[x] = G.name[y] => x = y
ASSUME \A i \in 1..NCat : WellFormed(Cat[i])

\* all sequences of edges (possibly none) leaving v; direct edges only if dir
RECURSIVE Ext0(_, _, _)
Ext0(G, v, dir) ==
  {<<>>} \cup UNION {{<<c>> \o e : e \in Ext0(G, c, dir)} : c \in IF dir THEN DChild0(G, v) ELSE Child0(G, v)}
Last(p) == p[Len(p)]
Range(p) == {p[i] : i \in 1..Len(p)}

\* Everything the semantics needs from a graph, tabulated once per graph (TLC evaluates
\* constant definitions once): G.dch[v], G.ch[v] children, G.ext[v] / G.dext[v] edge sequences.
GT == [i \in GraphIds |->
        LET G == RawGraph(i) IN
        [n |-> G.n, name |-> G.name, var |-> G.var, dep |-> G.dep, prov |-> G.prov,
         dch   |-> [v \in 0..G.n |-> DChild0(G, v)],
         ich   |-> [v \in 0..G.n |-> IChild0(G, v)],
         ch    |-> [v \in 0..G.n |-> Child0(G, v)],
         ext   |-> [v \in 0..G.n |-> Ext0(G, v, FALSE)],
         dext  |-> [v \in 0..G.n |-> Ext0(G, v, TRUE)],
         reach |-> {0} \cup {Last(e) : e \in Ext0(G, 0, FALSE) \ {<<>>}}]]
Graph(i) == GT[i]
DChild(G, p) == G.dch[p]
IChild(G, p) == G.ich[p]
Child(G, p)  == G.ch[p]
Ext(G, v, dir) == IF dir THEN G.dext[v] ELSE G.ext[v]
Reach(G) == G.reach                                                     \* packages of the graph

NameOf(G, v) == IF v = 0 THEN <<>> ELSE G.name[v]
VarOf(G, v)  == IF v = 0 THEN 0 ELSE G.var[v]

----------------------------------------------------------------------------
(* queries.  Step = [sep, axis, test, pred]; sep "//" stands for an additional
   /descendant-or-self@*/ in front of the step; axis "" is the abbreviated child
   axis, "." the abbreviated self@*.  pred is <<>> or <<P>>.
   Pred = [k, op, val, form, abs, steps, sub] (uniform record shape):
     k = "cmp"   "${LIC}" op literal val; form "op" | "fun" eq()/ne() | "subst" "$(eq,..)"
         "truth" the string "${LIC}" converted to a boolean
         "lit"   the literal val converted to a boolean
         "path"  exists-predicate of a location path (abs / relative to the context)
         "not" | "and" | "or" over sub                                          *)
MultiHop == {"descendant", "descendant-or-self", "direct-descendant", "direct-descendant-or-self"}

AxisExt(G, v, axis) ==
  CASE axis \in {"", "child"}               -> {<<c>> : c \in Child(G, v)}
    [] axis = "direct-child"                -> {<<c>> : c \in DChild(G, v)}
    [] axis = "descendant"                  -> Ext(G, v, FALSE) \ {<<>>}
    [] axis = "descendant-or-self"          -> Ext(G, v, FALSE)
    [] axis = "direct-descendant"           -> Ext(G, v, TRUE) \ {<<>>}
    [] axis = "direct-descendant-or-self"   -> Ext(G, v, TRUE)
    [] axis \in {"self", "."}               -> {<<>>}

RECURSIVE EvalFrom(_, _, _), StepExt(_, _, _), Holds(_, _, _)
\* all extensions of path p selected by one location step
StepExt(G, p, st) ==
  LET pre  == IF st.sep = "//" THEN {p \o e : e \in Ext(G, Last(p), FALSE)} ELSE {p}
      cand == UNION {{pq \o e : e \in AxisExt(G, Last(pq), st.axis)} : pq \in pre}
  IN {c \in cand : /\ Matches(st.test, NameOf(G, Last(c)))
                   /\ (st.pred = <<>> \/ Holds(G, st.pred[1], Last(c)))}
\* "Each package in that set is used as a context package for the following step."
EvalFrom(G, P, steps) ==
  IF steps = <<>> THEN P
  ELSE EvalFrom(G, UNION {StepExt(G, p, Head(steps)) : p \in P}, Tail(steps))
\* predicate pr evaluated with context package w
Holds(G, pr, w) ==
  CASE pr.k = "cmp"   -> CmpOp(pr.op, VarOf(G, w), pr.val)
    [] pr.k = "truth" -> Truthy(VarOf(G, w))
    [] pr.k = "lit"   -> Truthy(pr.val)
    [] pr.k = "path"  -> EvalFrom(G, {<<IF pr.abs THEN 0 ELSE w>>}, pr.steps) # {}
    [] pr.k = "not"   -> ~Holds(G, pr.sub[1], w)
    [] pr.k = "and"   -> Holds(G, pr.sub[1], w) /\ Holds(G, pr.sub[2], w)
    [] pr.k = "or"    -> Holds(G, pr.sub[1], w) \/ Holds(G, pr.sub[2], w)

\* the same in the words of the manual ("a set of packages"), used as a cross check
RECURSIVE SetEval(_, _, _)
AxisSet(G, v, axis) == {Last(<<v>> \o e) : e \in AxisExt(G, v, axis)}
SetEval(G, N, steps) ==
  IF steps = <<>> THEN N
  ELSE LET st  == Head(steps)
           pre == IF st.sep = "//" THEN UNION {AxisSet(G, v, "descendant-or-self") : v \in N} ELSE N
           ax  == UNION {AxisSet(G, v, st.axis) : v \in pre}
       IN SetEval(G, {w \in ax : Matches(st.test, NameOf(G, w)) /\ (st.pred = <<>> \/ Holds(G, st.pred[1], w))},
                  Tail(steps))

\* M layer: backward evaluation of predicates as in pathspec.py
RECURSIVE BackPred(_, _), BackSteps(_, _, _)
Parents(G, N, dir) == {p \in Reach(G) : (IF dir THEN DChild(G, p) ELSE Child(G, p)) \cap N # {}}
RECURSIVE Ancestors(_, _, _)
Ancestors(G, N, dir) == LET ps == Parents(G, N, dir) IN IF ps \subseteq N THEN N ELSE Ancestors(G, N \cup ps, dir)
AncestorsStrict(G, N, dir) == LET ps == Parents(G, N, dir) IN IF ps = {} THEN {} ELSE Ancestors(G, ps, dir)
BackAxis(G, N, axis) ==                                                  \* 362-377
  CASE axis \in {"", "child"}               -> Parents(G, N, FALSE)
    [] axis = "direct-child"                -> Parents(G, N, TRUE)
    [] axis = "descendant"                  -> AncestorsStrict(G, N, FALSE)
    [] axis = "descendant-or-self"          -> AncestorsStrict(G, N, FALSE) \cup N
    [] axis = "direct-descendant"           -> AncestorsStrict(G, N, TRUE)
    [] axis = "direct-descendant-or-self"   -> AncestorsStrict(G, N, TRUE) \cup N
    [] axis \in {"self", "."}               -> N
BackSteps(G, N, steps) ==                                                \* 184-185, 350-360
  IF steps = <<>> THEN N
  ELSE LET st == steps[Len(steps)]
           m  == {w \in N : Matches(st.test, NameOf(G, w))}
           f  == IF st.pred = <<>> THEN m ELSE m \cap BackPred(G, st.pred[1])
           a  == BackAxis(G, f, st.axis)
           b  == IF st.sep = "//" THEN AncestorsStrict(G, a, FALSE) \cup a ELSE a
       IN BackSteps(G, b, SubSeq(steps, 1, Len(steps) - 1))
BackPred(G, pr) ==
  CASE pr.k = "cmp"   -> {w \in Reach(G) : CmpOp(pr.op, VarOf(G, w), pr.val)}     \* 537-539
    [] pr.k = "truth" -> {w \in Reach(G) : Truthy(VarOf(G, w))}                  \* 451-453
    [] pr.k = "lit"   -> IF Truthy(pr.val) THEN Reach(G) ELSE {}
    [] pr.k = "path"  -> LET s == BackSteps(G, Reach(G), pr.steps)               \* 176-191
                         IN IF pr.abs THEN (IF 0 \in s THEN Reach(G) ELSE {}) ELSE s
    [] pr.k = "not"   -> Reach(G) \ BackPred(G, pr.sub[1])                       \* 400-401
    [] pr.k = "and"   -> BackPred(G, pr.sub[1]) \cap BackPred(G, pr.sub[2])
    [] pr.k = "or"    -> BackPred(G, pr.sub[1]) \cup BackPred(G, pr.sub[2])

----------------------------------------------------------------------------
(* aliases (user configuration "alias"): substituted for the first step of a
   relative location path, once.                                              *)
PlainStep(sep, axis, test) == [sep |-> sep, axis |-> axis, test |-> test, pred |-> <<>>]
AliasNames == {"top", "deepb"}
AliasBody(a) ==
  IF a = "top" THEN [abs |-> FALSE, steps |-> <<PlainStep("/", "", STAR)>>]
  ELSE [abs |-> TRUE, steps |-> <<PlainStep("//", "", B)>>]
EffSteps(qq) == IF qq.alias = "" THEN qq.steps ELSE AliasBody(qq.alias).steps \o qq.steps

----------------------------------------------------------------------------
(* concrete syntax *)
RECURSIVE PredStr(_), StepsStr(_, _), StepStr(_), Wrap(_, _)
Lic == "\"${LIC}\""
StepStr(st) ==
  (IF st.axis = "." THEN "."
   ELSE IF st.axis = "" THEN Str(st.test)
   ELSE st.axis \o "@" \o Str(st.test))
  \o (IF st.pred = <<>> THEN "" ELSE "[" \o PredStr(st.pred[1]) \o "]")
\* first = separator to print in front of the first step
StepsStr(steps, first) ==
  IF steps = <<>> THEN ""
  ELSE first \o StepStr(Head(steps)) \o
       (IF Len(steps) = 1 THEN "" ELSE StepsStr(Tail(steps), steps[2].sep))
PathStr(abs, steps) == StepsStr(steps, IF abs THEN steps[1].sep ELSE "")
PredStr(pr) ==
  CASE pr.k = "cmp" /\ pr.form = "op"    -> Lic \o " " \o pr.op \o " \"" \o ValStr(pr.val) \o "\""
    [] pr.k = "cmp" /\ pr.form = "fun"   -> (IF pr.op = "==" THEN "eq" ELSE "ne") \o "(" \o Lic \o ", '" \o ValStr(pr.val) \o "')"
    [] pr.k = "cmp" /\ pr.form = "subst" -> "\"$(" \o (IF pr.op = "==" THEN "eq" ELSE "ne") \o ",${LIC}," \o ValStr(pr.val) \o ")\""
    [] pr.k = "truth" -> Lic
    [] pr.k = "lit"   -> "'" \o ValStr(pr.val) \o "'"
    [] pr.k = "path"  -> PathStr(pr.abs, pr.steps)
    [] pr.k = "not"   -> "!" \o Wrap(pr.sub[1], 9)
    [] pr.k = "and"   -> Wrap(pr.sub[1], 2) \o " && " \o Wrap(pr.sub[2], 3)
    [] pr.k = "or"    -> Wrap(pr.sub[1], 1) \o " || " \o Wrap(pr.sub[2], 2)
\* parentheses only where the operator table of the manual requires them
\* (decreasing precedence: !, the comparisons, &&, ||; the binary operators associate to the left)
Prec(pr) == CASE pr.k = "not" -> 9
              [] pr.k = "cmp" /\ pr.form = "op" -> 5
              [] pr.k = "and" -> 2
              [] pr.k = "or"  -> 1
              [] OTHER -> 10
Wrap(pr, min) == IF Prec(pr) < min THEN "(" \o PredStr(pr) \o ")" ELSE PredStr(pr)
Render(qq) ==
  IF qq.alias = "" THEN PathStr(qq.abs, qq.steps)
  ELSE qq.alias \o (IF qq.steps = <<>> THEN "" ELSE StepsStr(qq.steps, qq.steps[1].sep))

----------------------------------------------------------------------------
(* the universe of queries (finite alphabets per tier) *)
NoPred == [k |-> "none", op |-> "", val |-> 0, form |-> "", abs |-> FALSE, steps |-> <<>>, sub |-> <<>>]
Cmp(op, v, form) == [NoPred EXCEPT !.k = "cmp", !.op = op, !.val = v, !.form = form]
TruthP  == [NoPred EXCEPT !.k = "truth"]
LitP(v) == [NoPred EXCEPT !.k = "lit", !.val = v]
PathP(abs, steps) == [NoPred EXCEPT !.k = "path", !.abs = abs, !.steps = steps]
NotP(p) == [NoPred EXCEPT !.k = "not", !.sub = <<p>>]
AndP(p, r) == [NoPred EXCEPT !.k = "and", !.sub = <<p, r>>]
OrP(p, r)  == [NoPred EXCEPT !.k = "or", !.sub = <<p, r>>]
PredStep(sep, axis, test, p) == [sep |-> sep, axis |-> axis, test |-> test, pred |-> <<p>>]

Ops == {"<", "<=", ">", ">=", "==", "!="}
CmpAtoms == {Cmp(op, 3, "op") : op \in Ops}
            \cup {Cmp("==", 0, "op"), Cmp("==", 3, "fun"), Cmp("!=", 3, "subst"), Cmp("!=", 5, "fun")}
RelPathAtoms ==
  {PathP(FALSE, <<PlainStep("/", ax, t)>>) :
      ax \in {"", "descendant", "direct-child", "direct-descendant", "descendant-or-self", "self"},
      t \in {B, ASTAR}}
  \cup {PathP(FALSE, <<PlainStep("/", "", STAR)>>),
        PathP(FALSE, <<PlainStep("/", "", STAR), PlainStep("/", "", B)>>),
        PathP(FALSE, <<PlainStep("/", ".", STAR), PlainStep("//", "", B)>>),
        PathP(FALSE, <<PlainStep("/", "", ASTAR), PlainStep("//", "direct-child", STAR)>>)}
AbsPathAtoms ==
  {PathP(TRUE, <<PlainStep("/", "", R), PlainStep("/", "", B)>>),
   PathP(TRUE, <<PlainStep("//", "", ZZ)>>),
   PathP(TRUE, <<PlainStep("//", "", BA)>>)}
Atoms == CmpAtoms \cup {TruthP, LitP(3), LitP(1)} \cup RelPathAtoms \cup AbsPathAtoms
\* a few atoms that are combined with each other
Core == {Cmp("==", 3, "op"), TruthP, PathP(FALSE, <<PlainStep("/", "", B)>>),
         PathP(FALSE, <<PlainStep("/", "descendant", ASTAR)>>), LitP(1)}
Nested ==
  {PathP(FALSE, <<PredStep("/", "", STAR, p)>>) : p \in Core}
  \cup {PathP(FALSE, <<PredStep("/", "descendant", STAR, NotP(p))>>) : p \in Core}
  \cup {PathP(TRUE, <<PredStep("//", "", ASTAR, p)>>) : p \in Core}
Level2 == Atoms \cup {NotP(p) : p \in Atoms}
          \cup {AndP(p, r) : p \in Core, r \in Core} \cup {OrP(p, r) : p \in Core, r \in Core}
          \cup Nested
\* (tier dependent so that the quick configs do not pay for the large alphabets at start-up)
Level3 == IF Tier # 1 THEN {} ELSE
          Level2 \cup {NotP(p) : p \in Nested}
          \cup {AndP(NotP(p), r) : p \in Core, r \in Core} \cup {OrP(p, NotP(r)) : p \in Core, r \in Core}
          \cup {NotP(AndP(p, r)) : p \in Core, r \in Core}
          \cup {OrP(AndP(p, r), s) : p \in Core, r \in Core, s \in {TruthP, LitP(1)}}

AxesFull  == {"", "child", "descendant", "descendant-or-self", "direct-child", "direct-descendant",
              "direct-descendant-or-self", "self"}
AxesMed   == {"", "descendant", "descendant-or-self", "direct-child", "direct-descendant", "self"}
AxesSmall == {"", "descendant", "direct-child"}
TestsFull  == {STAR, ASTAR, STARB, R, A, AB, ABB, B, ZZ}
TestsMed   == {STAR, ASTAR, R, AB, B, ZZ}
TestsSmall == {STAR, ASTAR, R, B}
Plain(axes, tests, dot) ==
  {PlainStep(sep, ax, t) : sep \in {"/", "//"}, ax \in axes, t \in tests}
  \cup (IF dot THEN {PlainStep(sep, ".", STAR) : sep \in {"/", "//"}} ELSE {})
PlainFull  == Plain(AxesFull, TestsFull, TRUE)
PlainMed   == Plain(AxesMed, TestsMed, FALSE)
PlainSmall == Plain(AxesSmall, TestsSmall, FALSE)
PlainTiny  == {PlainStep("/", "", R), PlainStep("//", "", STAR), PlainStep("/", "descendant", ASTAR),
               PlainStep("/", "", STAR)}

WithPred(carriers, preds) == {PredStep(c[1], c[2], c[3], p) : c \in carriers, p \in preds}

\* alphabet of step i of a query with l steps whose predicate step is at position ppos
NotCore == Core \cup {NotP(p) : p \in Core}
PS_gen  == WithPred({<<"//", "", STAR>>}, NotCore)
PS_q1   == IF Tier # 0 THEN {} ELSE WithPred({<<"//", "", STAR>>}, Level2) \cup WithPred({<<"/", "", STAR>>}, Atoms)
                                       \cup WithPred({<<"/", "self", STAR>>, <<"//", "self", STAR>>}, NotCore)
PS_q22  == WithPred({<<"/", "", STAR>>}, Atoms)
\* (the explicit /descendant-or-self@*[P]/ in front of a child step must not be mistaken for //)
PS_q21  == WithPred({<<"//", "", ASTAR>>, <<"/", "descendant-or-self", STAR>>}, NotCore)
PS_t1   == IF Tier # 1 THEN {} ELSE WithPred({<<"//", "", STAR>>, <<"/", "descendant-or-self", STAR>>}, Level3)
                                       \cup WithPred({<<"/", "", ASTAR>>, <<"/", "self", STAR>>}, Level2)
PS_t2   == IF Tier # 1 THEN {} ELSE WithPred({<<"//", "", STAR>>}, Level2) \cup WithPred({<<"/", "descendant-or-self", ASTAR>>}, Atoms)
\* three-step queries: exact names (so that /x/y/z has short cuts to miss), //, one multi-hop and one direct axis
Plain3  == {PlainStep("/", "", t) : t \in {STAR, R, A, AB, B}} \cup {PlainStep("//", "", t) : t \in {STAR, B, ASTAR}}
           \cup {PlainStep("/", "descendant", ASTAR), PlainStep("/", "direct-child", STAR)}
StepsAt(gid, l, ppos, i) ==
  LET gen == gid >= GenBase IN
  IF i = ppos THEN
     (CASE gen                          -> PS_gen
        [] Tier = 0 /\ l = 1             -> PS_q1
        [] Tier = 0 /\ l = 2 /\ ppos = 2 -> PS_q22
        [] Tier = 0                      -> PS_q21
        [] l = 1                         -> PS_t1
        [] l = 2 /\ ppos = 2             -> PS_t2
        [] l = 2                         -> PS_q21
        [] OTHER                         -> PS_q22)
  ELSE
     (CASE ppos > 0 -> IF (Tier = 0 /\ ppos = 2) \/ (l = 3 /\ i = 1) THEN {PlainStep("//", "", STAR), PlainStep("/", "", STAR)} ELSE PlainTiny
        [] gen      -> IF l = 1 THEN PlainMed ELSE IF i = 1 THEN PlainTiny \cup {PlainStep("/", "direct-child", STAR), PlainStep("//", "", B)} ELSE PlainSmall
        [] l = 1    -> PlainFull
        [] l = 2    -> IF i = 1 THEN (IF Tier = 0 THEN PlainSmall ELSE PlainMed)
                       ELSE (IF Tier = 0 THEN PlainMed ELSE PlainFull)
        [] OTHER    -> Plain3)

\* heads: absolute, relative, alias (aliases and relative heads only for short queries)
Heads(gid, l, ppos) == IF l <= 1 /\ ppos = 0 /\ gid < GenBase THEN {"/", "", "top", "deepb"} ELSE {"/"}

Init ==
  /\ g \in GraphIds
  /\ L \in 1..MaxLen
  /\ pp \in 0..L
  /\ (g >= GenBase /\ pp > 0 => L = 1)
  /\ (Tier = 0 /\ pp > 0 => L <= 2)
  /\ (L = 3 => pp \in {0, 3})
  /\ \E h \in Heads(g, L, pp) : q = [alias |-> IF h \in AliasNames THEN h ELSE "", abs |-> h = "/", steps |-> <<>>]

Append1(s) ==
  /\ (q.abs \/ q.alias # "" \/ q.steps # <<>> \/ s.sep = "/")        \* a relative path cannot begin with //
  /\ q' = [q EXCEPT !.steps = Append(@, s)]
  /\ UNCHANGED <<g, L, pp>>

AddPlainStep ==
  /\ Len(q.steps) < L /\ Len(q.steps) + 1 # pp
  /\ \E s \in StepsAt(g, L, pp, Len(q.steps) + 1) : s.sep = "/" /\ Append1(s)
AddDeepStep ==
  /\ Len(q.steps) < L /\ Len(q.steps) + 1 # pp
  /\ \E s \in StepsAt(g, L, pp, Len(q.steps) + 1) : s.sep = "//" /\ Append1(s)
AddPredicateStep ==
  /\ Len(q.steps) < L /\ Len(q.steps) + 1 = pp
  /\ \E s \in StepsAt(g, L, pp, pp) : Append1(s)
Done == Len(q.steps) = L /\ UNCHANGED vars

Next == AddPlainStep \/ AddDeepStep \/ AddPredicateStep \/ Done
Spec == Init /\ [][Next]_vars

----------------------------------------------------------------------------
(* the case of a state *)
IsCase == Len(q.steps) = L
Start  == {<<0>>}
Ends(S) == {Last(p) : p \in S}
\* <<S_0, ..., S_n>>: S_k = the root paths selected by the first k steps
RECURSIVE PrefixSets(_, _, _)
PrefixSets(G, P, steps) ==
  IF steps = <<>> THEN <<P>>
  ELSE <<P>> \o PrefixSets(G, UNION {StepExt(G, p, Head(steps)) : p \in P}, Tail(steps))

(* empty results.  bob.rst: "The path is evaluated from left to right and the
   policy is applied on the first occasion when an empty package set remained."
   nullglob: "Return an empty set of packages if the query involves wildcard name
   matches and/or predicates. Otherwise, that is if only direct name matches are
   used, an error is raised".  Three readings of "involves" are kept apart; where
   they disagree the manual does not decide and the class is "either":
     lit   wildcards / predicates as written, abbreviations expanded: // and . contain a wildcard
     mech  as lit, but a multi-hop axis counts as wildcard and a bare self@* does not
     whole lit over the whole query instead of the steps up to the first empty one   *)
LitComplex(st)  == st.sep = "//" \/ HasStar(st.test) \/ st.pred # <<>> \/ st.axis = "."
MechComplex(st) == st.sep = "//" \/ st.pred # <<>> \/ st.axis \in MultiHop
                   \/ (HasStar(st.test) /\ ~(st.axis \in {"self", "."} /\ st.test = STAR))
ErrClass(steps, ps) ==
  IF ps[Len(ps)] # {} THEN [nullset |-> "ok", nullfail |-> "ok", nullglob |-> "ok", mech |-> "ok"]
  ELSE LET k == CHOOSE k \in 1..Len(steps) : ps[k+1] = {} /\ ps[k] # {}
           a == \E i \in 1..k : LitComplex(steps[i])
           b == \E i \in 1..k : MechComplex(steps[i])
           c == \E i \in 1..Len(steps) : LitComplex(steps[i])
       IN [nullset |-> "ok", nullfail |-> "error",
           nullglob |-> (IF a /\ b /\ c THEN "ok" ELSE IF ~a /\ ~b /\ ~c THEN "error" ELSE "either"),
           mech |-> (IF b THEN "ok" ELSE "error")]

\* a package matched by a multi-hop step below another match, separated by non-matching packages.
\* Invariant under the abbreviations of the manual: a child step that follows /descendant-or-self@*/
\* (written out or as //, possibly with bare self@* steps in between) is the multi-hop step //x.
TrivSelf(st) == st.axis \in {"self", "."} /\ st.test = STAR /\ st.pred = <<>>
IsDos(st) == st.axis = "descendant-or-self" /\ st.test = STAR /\ st.pred = <<>>
AfterDos(steps, k) ==
  /\ steps[k].axis \in {"", "child"} /\ steps[k].sep = "/"
  /\ \E j \in 1..(k-1) : /\ \A i \in (j+1)..(k-1) : TrivSelf(steps[i]) /\ steps[i].sep = "/"
                         /\ IsDos(steps[j]) \/ (steps[j].sep = "//" /\ TrivSelf(steps[j]))
NestedMatch(G, steps, ps) ==
  \E k \in 1..Len(steps) :
    /\ steps[k].sep = "//" \/ steps[k].axis \in MultiHop \/ AfterDos(steps, k)
    /\ Cardinality(ps[k+1]) >= 2
    /\ LET N == Ends(ps[k+1])
           dir == steps[k].sep # "//" /\ steps[k].axis \in {"direct-descendant", "direct-descendant-or-self"}
       IN \E u \in N : \E e \in Ext(G, u, dir) :
            Len(e) >= 2 /\ e[Len(e)] \in N /\ \A i \in 1..(Len(e)-1) : e[i] \notin N

\* real root paths to results that are NOT admissible witnesses
Inadmissible(G, S) == LET res == Ends(S) IN {x \in {<<0>> \o e : e \in Ext(G, 0, FALSE)} : Last(x) \in res /\ x \notin S}

CaseOf(G, steps, ps) ==
  LET S == ps[Len(ps)] IN
  [g |-> g, q |-> Render(q), n |-> Len(steps), pred |-> pp > 0,
   exp |-> Ends(S),
   wit |-> {Tail(p) : p \in S},
   vis |-> UNION {UNION {Range(p) : p \in ps[k]} : k \in 1..Len(ps)},
   err |-> ErrClass(steps, ps),
   nested |-> NestedMatch(G, steps, ps)]

\* printed once: the catalogue with derived indirect edges, and the aliases
CatalogueJson ==
  [graphs |-> [i \in GraphIds |->
                 LET G == Graph(i) IN
                 [n |-> G.n, name |-> [v \in 1..G.n |-> Str(G.name[v])], var |-> [v \in 1..G.n |-> ValStr(G.var[v])],
                  dep |-> G.dep, prov |-> G.prov,
                  ind |-> {<<p, c>> \in (1..G.n) \X (1..G.n) : c \in IChild(G, p)}]],
   aliases |-> [a \in AliasNames |-> PathStr(AliasBody(a).abs, AliasBody(a).steps)]]
ASSUME Emit => PrintT(<<"@@", ToJson([catalogue |-> CatalogueJson])>>)

----------------------------------------------------------------------------
(* P-level consistency of the semantics itself.  Each condition is an operator
   over (G, steps, ps) so that one invariant can share the evaluation.        *)
TypeOK == /\ g \in GraphIds /\ L \in 1..MaxLen /\ pp \in 0..L /\ Len(q.steps) <= L

\* the path-wise meaning and the set-wise wording of the manual select the same packages
SetSemanticsAgreeP(G, steps, ps) == Ends(ps[Len(ps)]) = SetEval(G, {0}, steps)

\* "a descendant is a child or a child of a child and so on" (a property of the graph)
RECURSIVE Closure(_, _, _)
Closure(G, N, dir) ==
  LET c == UNION {IF dir THEN DChild(G, v) ELSE Child(G, v) : v \in N} IN
  IF c \subseteq N THEN N ELSE Closure(G, N \cup c, dir)
DescendantIsChildClosure ==
  q.steps = <<>> =>
  LET G == Graph(g) IN
  \A v \in Reach(G) :
    /\ AxisSet(G, v, "descendant") = Closure(G, Child(G, v), FALSE)
    /\ AxisSet(G, v, "direct-descendant") = Closure(G, DChild(G, v), TRUE)
    /\ AxisSet(G, v, "descendant-or-self") = AxisSet(G, v, "descendant") \cup {v}
    /\ AxisSet(G, v, "direct-descendant-or-self") = AxisSet(G, v, "direct-descendant") \cup {v}
    /\ AxisSet(G, v, "direct-child") \subseteq AxisSet(G, v, "child")

\* "// is short for /descendant-or-self@*/", "foo is equivalent to child@foo", ". is short for self@*"
RECURSIVE Unabbrev(_)
Unabbrev(steps) ==
  IF steps = <<>> THEN <<>>
  ELSE LET st == Head(steps)
           ax == IF st.axis = "" THEN "child" ELSE IF st.axis = "." THEN "self" ELSE st.axis
           s1 == [st EXCEPT !.sep = "/", !.axis = ax]
       IN (IF st.sep = "//" THEN <<PlainStep("/", "descendant-or-self", STAR), s1>> ELSE <<s1>>) \o Unabbrev(Tail(steps))
AbbreviationsAgreeP(G, steps, ps) == ps[Len(ps)] = EvalFrom(G, Start, Unabbrev(steps))

\* every admissible witness is a real root path
WitnessesRealP(G, steps, ps) ==
  \A p \in ps[Len(ps)] : p[1] = 0 /\ \A i \in 1..(Len(p)-1) : p[i+1] \in Child(G, p[i])

ErrClassesOrderedP(G, steps, ps) ==
  LET e == ErrClass(steps, ps) IN
  /\ e.nullset = "ok"
  /\ (e.nullfail = "error") = (ps[Len(ps)] = {})
  /\ (e.nullglob # "ok" => e.nullfail = "error")

\* M => P: backward predicate evaluation selects exactly the packages for which the predicate holds
BackwardAgreesP(G) ==
  \A i \in 1..Len(q.steps) :
    q.steps[i].pred # <<>> =>
      BackPred(G, q.steps[i].pred[1]) = {w \in Reach(G) : Holds(G, q.steps[i].pred[1], w)}

SetSemanticsAgree  == IsCase => LET G == Graph(g) steps == EffSteps(q) IN SetSemanticsAgreeP(G, steps, PrefixSets(G, Start, steps))
AbbreviationsAgree == IsCase => LET G == Graph(g) steps == EffSteps(q) IN AbbreviationsAgreeP(G, steps, PrefixSets(G, Start, steps))
WitnessesReal      == IsCase => LET G == Graph(g) steps == EffSteps(q) IN WitnessesRealP(G, steps, PrefixSets(G, Start, steps))
ErrClassesOrdered  == IsCase => LET G == Graph(g) steps == EffSteps(q) IN ErrClassesOrderedP(G, steps, PrefixSets(G, Start, steps))
BackwardAgrees     == IsCase => BackwardAgreesP(Graph(g))
GenPrint == (Emit /\ IsCase) => LET G == Graph(g) steps == EffSteps(q) IN PrintT(<<"@@", ToJson(CaseOf(G, steps, PrefixSets(G, Start, steps)))>>)

\* all of the above with one evaluation of the query (quick tier)
AllConsistent ==
  IsCase => LET G == Graph(g)
                steps == EffSteps(q)
                ps == PrefixSets(G, Start, steps)
            IN /\ SetSemanticsAgreeP(G, steps, ps)
               /\ ((\E i \in 1..Len(steps) : steps[i].sep = "//" \/ steps[i].axis = ".") => AbbreviationsAgreeP(G, steps, ps))
               /\ WitnessesRealP(G, steps, ps)
               /\ ErrClassesOrderedP(G, steps, ps)
               /\ BackwardAgreesP(G)
               /\ (Emit => PrintT(<<"@@", ToJson(CaseOf(G, steps, ps))>>))

----------------------------------------------------------------------------
(* vacuity companions: negated reachability, each must be VIOLATED *)
CaseNow == LET G == Graph(g) steps == EffSteps(q) IN CaseOf(G, steps, PrefixSets(G, Start, steps))
\* a result with two admissible witness paths (shared package)
ReachTwoWitnesses == ~(IsCase /\ \E p1, p2 \in CaseNow.wit : p1 # p2 /\ Last(p1) = Last(p2))
\* /x/y/z with exact names: a result that also has a real root path which is NOT admissible
ReachInadmissiblePath ==
  ~(IsCase /\ Len(q.steps) >= 2 /\ (\A i \in 1..Len(q.steps) : q.steps[i].axis = "" /\ q.steps[i].sep = "/")
    /\ LET G == Graph(g) IN Inadmissible(G, EvalFrom(G, Start, EffSteps(q))) # {})
\* nullglob distinguishes: an empty result that is an error, and one that is not
ReachGlobError   == ~(IsCase /\ CaseNow.err.nullglob = "error")
ReachGlobEmptyOk == ~(IsCase /\ CaseNow.exp = {} /\ CaseNow.err.nullglob = "ok")
\* nested matches of a multi-hop step
ReachNestedMatch == ~(IsCase /\ CaseNow.nested)
\* a predicate that is true for some and false for other packages, with a non-empty result
ReachPredicateSplits ==
  ~(IsCase /\ pp > 0 /\ LET G == Graph(g)
                            b == BackPred(G, q.steps[pp].pred[1])
                        IN b # {} /\ b # Reach(G) /\ CaseNow.exp # {})

=============================================================================
