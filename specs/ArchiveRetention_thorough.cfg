SPECIFICATION Spec
CONSTANTS MaxArt = 4  MaxHist = 4  MaxCmd = 2  Sweep = "both"  GenDepth = 0
CONSTANT Recs <- RecsTiny
CONSTANT Shapes <- ShapesMid
CONSTANT ExprLists <- ExprListsSmall
VIEW view
INVARIANT TypeOK
INVARIANT IndexIsSnapshot
INVARIANT IndexIndependent
INVARIANT CleanExact
INVARIANT DryRunKeepsAll
INVARIANT DryRunListsVictims
INVARIANT FindExact
INVARIANT ScanKeepsAll
INVARIANT NoScanUsesSnapshot
CHECK_DEADLOCK FALSE
