SPECIFICATION Spec
CONSTANTS Pkg <- PkgMulti  RecipeOf <- RecipeMulti  StrPrefix <- PrefixNone
CONSTANTS NV = 1  NS = 1  MaxLen = 2  MaxChg = 2  MaxNum = 2  GenDepth = 0  KeepRule = "prefix"
CONSTANT Weak = {}
VIEW view
PROPERTY Stable
INVARIANT Injective
INVARIANT Assigned
CHECK_DEADLOCK FALSE
