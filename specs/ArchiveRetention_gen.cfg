SPECIFICATION Spec
CONSTANTS MaxArt = 4  MaxHist = 4  MaxCmd = 4  Sweep = "both"  GenDepth = 9
CONSTANT Recs <- RecsGen
CONSTANT Shapes <- AllShapes
CONSTANT ExprLists <- ExprListsSmall
INVARIANT GenPrint
CHECK_DEADLOCK FALSE
