SPECIFICATION Spec
CONSTANTS MaxArt = 3  MaxHist = 3  MaxCmd = 2  Sweep = "both"  GenDepth = 0
CONSTANT Recs <- RecsTiny
CONSTANT Shapes <- ShapesOne
CONSTANT ExprLists <- ExprListsTwo
VIEW viewL
INVARIANT ReachTransitiveKeepShow
CHECK_DEADLOCK FALSE
