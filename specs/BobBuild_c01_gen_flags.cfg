SPECIFICATION Spec
CONSTANTS MaxEdit = 5  MaxInv = 7  MaxKill = 0  MaxFail = 0  GenDepth = 300
CONSTANT Flags = {"plain", "bo", "force"}
CONSTANT Weak = {}
INVARIANT GenPrint
CHECK_DEADLOCK FALSE
