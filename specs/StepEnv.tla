------------------------------ MODULE StepEnv ------------------------------
(* Property C13 "Steps run in exactly the declared environment".

   This module is a *function* specification: it states, for every configuration,
   what a checkout / build / package / fingerprint script of ONE package is
   documented to observe:

     Visible(step, cfg)      which variable classes are set, and whose value they carry
     Args(step, cfg)         the positional arguments, in order
     Tools(step, cfg)        tools on PATH, their libraries on LD_LIBRARY_PATH
     ReadableWs / WritableWs which project workspaces are reachable inside a sandbox

   Each TLC state (besides the root) is one configuration.  Values are opaque: the
   spec only says *which definition wins* ("recipe:<source>" or "host"); the property
   is "observed value = that computed value, byte for byte" and is checked by the
   driver (checks/c13_stepenv.py) on real executions.

   P layer  = the definitions Visible*, Args, Tools, Readable*, Writable (taken from the
              manual: doc/manual/configuration.rst, doc/manpages/bob-build-dev.rst; the
              line numbers are given at each definition).
   M layer  = the short transcription of what the code does (Code* operators, with
              file:line); the invariants M <=> P are checked in every state, so that a
              disagreement between documentation and code structure shows up in TLC
              before anything is executed.                                           *)
EXTENDS Naturals, Sequences, FiniteSets, TLC, Json

CONSTANTS DepNames,    \* result dependencies a package may name, e.g. {"da","db"}
          MaxDeps,     \* bound on the number of declared result dependencies
          Emit         \* print every configuration as JSON

VARIABLE st            \* <<"root">> | <<"cfg", c>>

----------------------------------------------------------------------------
(* configuration space *)

Modes     == {"none", "slim", "dev", "strict", "image"}   \* image = --sandbox
ToolSteps == {"none", "checkout", "build", "package"}
\* tools of a SECOND provider package: t3 has the same relative path/libs entries as t1, t4 distinct ones
XTools    == {"none", "same@checkout", "same@build", "distinct@build", "both@package"}
Steps     == {"checkout", "build", "package"}
FpSteps   == {"fp_build", "fp_package"}
AllSteps  == Steps \cup FpSteps

StepNo(s) == CASE s = "checkout" -> 1 [] s = "build" -> 2 [] s = "package" -> 3
                  [] s = "fp_build" -> 2 [] s = "fp_package" -> 3
Under(s)  == CASE s = "fp_build" -> "build" [] s = "fp_package" -> "package" [] OTHER -> s

RECURSIVE SeqsUpTo(_, _)
SeqsUpTo(S, n) == IF n = 0 THEN {<<>>}
                  ELSE LET sh == SeqsUpTo(S, n - 1) IN sh \cup { Append(q, x) : q \in sh, x \in S }
NoRep(q) == \A i, j \in 1..Len(q) : i # j => q[i] # q[j]
DepSeqs  == { q \in SeqsUpTo(DepNames, MaxDeps) : NoRep(q) }

Configs == { c \in [ E        : BOOLEAN,       \* bob dev -E
                     sb       : Modes,         \* sandbox mode
                     img      : BOOLEAN,       \* package picked up a sandbox image (use: [sandbox])
                     deps     : DepSeqs,       \* result dependencies in declared order
                     codep    : 0..MaxDeps,    \* index of the dependency with checkoutDep: True (0 = none)
                     pkgdep   : BOOLEAN,       \* packageDepends
                     toolstep : ToolSteps,     \* step that lists tool t1 in {checkout,build,package}Tools
                     xtool    : XTools ]       \* which tools of the second provider are listed, and where
             : c.codep <= Len(c.deps) }

----------------------------------------------------------------------------
(* variable classes (all of them are packed into every real project) *)

Sources == {"default",    \* default.yaml environment:
            "define",     \* -DNAME=value
            "recipe",     \* recipe environment:
            "private",    \* privateEnvironment:
            "meta",       \* metaEnvironment:
            "dep_use",    \* provideVars of a dependency named with use: [environment]
            "dep_nouse",  \* provideVars of a dependency named without use: [environment]
            "tool",       \* provideTools.t1.environment
            "sbox",       \* provideSandbox.environment
            "unset"}      \* declared in *Vars but defined nowhere
Decls   == {"none", "checkout", "build", "package", "checkoutWeak", "buildWeak", "packageWeak"}

DeclStep(d) == CASE d \in {"checkout", "checkoutWeak"} -> 1
                 [] d \in {"build", "buildWeak"}       -> 2
                 [] d \in {"package", "packageWeak"}   -> 3
                 [] OTHER                              -> 0
IsWeak(d)   == d \in {"checkoutWeak", "buildWeak", "packageWeak"}
Strong(d)   == CASE d = "checkoutWeak" -> "checkout" [] d = "buildWeak" -> "build"
                 [] d = "packageWeak" -> "package" [] OTHER -> d

(* a recipe variable class: where it is defined (lo; hi = a second definition of
   higher documented precedence, or "-"), how it is declared, whether it is listed in
   fingerprintVars, and whether the *host* environment has a variable of the same name
   ("no", "hidden" = not whitelisted, "wl" = whitelisted)                              *)
BaseKinds == [ lo : Sources, hi : {"-"}, decl : Decls, fp : BOOLEAN, host : {"no"} ]
CollKinds == [ lo : {"default", "recipe"}, hi : {"-"}, decl : {"none", "build", "packageWeak"},
               fp : {FALSE}, host : {"hidden", "wl"} ]
\* documented precedences: -D over default.yaml (bob-build-dev.rst 258-263); environment over
\* inherited (configuration.rst 1558-1560); privateEnvironment over inherited and consumed
\* (1903-1906); metaEnvironment over everything (1822-1823); sandbox environment over
\* provideVars (2110-2116)
PrecPairs == { <<"default", "define">>, <<"default", "recipe">>, <<"recipe", "private">>,
               <<"dep_use", "private">>, <<"private", "meta">>, <<"dep_use", "sbox">> }
PrecKinds == { [ lo |-> p[1], hi |-> p[2], decl |-> d, fp |-> FALSE, host |-> "no" ]
               : p \in PrecPairs, d \in {"build", "checkoutWeak"} }
VarKinds  == BaseKinds \cup CollKinds \cup PrecKinds

(* host variable classes: default whitelist member?, named in whitelist:, in
   whitelistRemove:, given with -e                                             *)
HostKinds == [ dflt : BOOLEAN, wl : BOOLEAN, rm : BOOLEAN, e : BOOLEAN ]

----------------------------------------------------------------------------
(* sandbox modes: doc/manpages/bob-build-dev.rst 38-52 (table) *)

ImageUsed(c) == c.img /\ c.sb \in {"image", "dev", "strict"}
Isolated(c)  == c.sb \in {"slim", "dev", "strict"} \/ (c.sb = "image" /\ c.img)
StablePath(c) == c.sb = "strict" \/ (c.sb = "image" /\ c.img)

\* the same table, written row by row as printed in the manual (redundant on purpose)
DocTable(mode, img) ==
  CASE mode = "none"   -> [iso |-> FALSE, image |-> FALSE, stable |-> FALSE]
    [] mode = "image"  -> [iso |-> img,   image |-> img,   stable |-> img]
    [] mode = "slim"   -> [iso |-> TRUE,  image |-> FALSE, stable |-> FALSE]
    [] mode = "dev"    -> [iso |-> TRUE,  image |-> img,   stable |-> FALSE]
    [] mode = "strict" -> [iso |-> TRUE,  image |-> img,   stable |-> TRUE]

\* M: pym/bob/utils.py:100-116 SandboxMode; input.py:1173-1182 Step.getSandbox;
\*    intermediate.py:152-168 getExecPath; languages.py:763-773 fat/slim
CodeSandboxEnabled(c) == c.sb \in {"dev", "image", "strict"}
CodeSlim(c)           == c.sb \in {"slim", "dev", "strict"}
CodeFat(c)            == c.img /\ CodeSandboxEnabled(c)
CodeIsolated(c)       == CodeFat(c) \/ CodeSlim(c)
CodeStable(c)         == CASE c.sb = "dev" -> FALSE [] c.sb = "strict" -> TRUE [] OTHER -> CodeFat(c)

----------------------------------------------------------------------------
(* host environment: configuration.rst 3122-3157, bob-build-dev.rst 265-271, 304-308 *)

Whitelisted(h) == ((h.dflt \/ h.wl) /\ ~h.rm) \/ h.e
HostVisible(h, c) == c.E \/ Whitelisted(h)            \* same for all four kinds of scripts

\* M: input.py:3513-3527 (whitelistRemove has priority 100, i.e. is applied after
\*    whitelist), cmds/build/build.py:291-292 (-e added last), invoker.py:212-216
CodeHostVisible(h, c) ==
  LET l0 == IF h.dflt THEN {"x"} ELSE {}
      l1 == IF h.wl THEN l0 \cup {"x"} ELSE l0
      l2 == IF h.rm THEN l1 \ {"x"} ELSE l1
      l3 == IF h.e THEN l2 \cup {"x"} ELSE l2
  IN IF c.E THEN TRUE ELSE "x" \in l3

----------------------------------------------------------------------------
(* recipe variables *)

\* A tool is available from the step that names it onwards (configuration.rst 743-749).
\* Package "tl" provides t1 (path bin, libs lib/zz lib/aa, an environment) and t2 (path sbin, no libs);
\* package "tm" provides t3 (the SAME relative entries as t1: bin, lib/zz lib/aa) and t4 (tools, l4/one l4/two).
\* t1: cfg.toolstep; t2: buildToolsWeak of every package; t3, t4: cfg.xtool.
ToolNames == <<"t1", "t2", "t3", "t4">>
ToolPkg(t)  == IF t \in {"t1", "t2"} THEN "tl" ELSE "tm"
ToolPath(t) == CASE t = "t1" -> "bin" [] t = "t2" -> "sbin" [] t = "t3" -> "bin" [] t = "t4" -> "tools"
ToolLibs(t) == CASE t = "t1" -> <<"lib/zz", "lib/aa">> [] t = "t2" -> <<>>
                 [] t = "t3" -> <<"lib/zz", "lib/aa">> [] t = "t4" -> <<"l4/one", "l4/two">>
T1From(c) == CASE c.toolstep = "checkout" -> 1 [] c.toolstep = "build" -> 2
               [] c.toolstep = "package" -> 3 [] OTHER -> 4
T3From(c) == CASE c.xtool = "same@checkout" -> 1 [] c.xtool = "same@build" -> 2
               [] c.xtool = "both@package" -> 3 [] OTHER -> 4
T4From(c) == CASE c.xtool = "distinct@build" -> 2 [] c.xtool = "both@package" -> 3 [] OTHER -> 4
Tools(s, c) == (IF T1From(c) <= StepNo(s) THEN {"t1"} ELSE {}) \cup (IF StepNo(s) >= 2 THEN {"t2"} ELSE {})
               \cup (IF T3From(c) <= StepNo(s) THEN {"t3"} ELSE {}) \cup (IF T4From(c) <= StepNo(s) THEN {"t4"} ELSE {})

(* PATH gets <workspace of the providing package>/<path> of every consumed tool, LD_LIBRARY_PATH gets
   <workspace>/<lib> for every entry of libs (configuration.rst 616-622, 713-724, 1964-1968, 1989-1992).  The order of
   the libs of ONE tool is the declared one; between tools the manual leaves the order open, the code sorts by tool
   name (intermediate.py:232-242): LibPath is that M-level order, the P-level requirement is LibsOfTool.          *)
LibsOfTool(t) == [ i \in 1..Len(ToolLibs(t)) |-> <<t, ToolPkg(t), ToolLibs(t)[i]>> ]
LibPath(s, c) == LET f(t) == IF t \in Tools(s, c) THEN LibsOfTool(t) ELSE <<>>
                 IN f("t1") \o f("t2") \o f("t3") \o f("t4")
ToolPkgs(s, c) == { ToolPkg(t) : t \in Tools(s, c) }

\* is a definition from source x part of the package environment at all?
Defined(x, c) ==
  CASE x = "dep_nouse" -> FALSE                         \* configuration.rst 2068-2071
    [] x = "unset"     -> FALSE
    [] x = "tool"      -> c.toolstep # "none"           \* "picked up by the recipe where the tool is used" (2002-2004)
    [] x = "sbox"      -> ImageUsed(c)                  \* "only consumed if the sandbox is actually used" (2110-2115)
    [] OTHER           -> TRUE
DefinedKind(k, c) == Defined(k.lo, c) \/ (k.hi # "-" /\ Defined(k.hi, c))
Winner(k, c) == IF k.hi # "-" /\ Defined(k.hi, c) THEN k.hi ELSE k.lo

(* carry-forward rule, configuration.rst 788-794 and 849-855: "A variable that is
   consumed in one step is also set in the following": checkoutVars[Weak] -> checkout,
   build, package; buildVars[Weak] -> build, package; packageVars[Weak] -> package.   *)
DeclaredIn(k, s) == DeclStep(k.decl) # 0 /\ DeclStep(k.decl) <= StepNo(s)

\* set by the recipes in a checkout/build/package script (configuration.rst 616-618, 773-780, 821-829)
RecipeVisible(k, s, c) ==
  IF s \in Steps
  THEN DeclaredIn(k, s) /\ DefinedKind(k, c)
  ELSE \* fingerprint scripts: "A subset of environment variables of the package ... as defined by
       \* fingerprintVars"; "Only variables that are selected by {checkout,build,package}Vars can be
       \* used" (configuration.rst 1635-1639, 1734-1738)
       k.fp /\ DeclaredIn(k, Under(s)) /\ DefinedKind(k, c)

HostSame(k, c) == \/ k.host = "wl"
                  \/ (k.host = "hidden" /\ c.E)

\* what the script observes for a variable of class k: <<"recipe", source>> (the value the recipes
\* computed from that source), <<"host">> (the value of the invoking environment) or <<"absent">>
Visible(k, s, c) ==
  IF RecipeVisible(k, s, c) THEN <<"recipe", Winner(k, c)>>
  ELSE IF HostSame(k, c) THEN <<"host">>
  ELSE <<"absent">>

\* M: input.py:2233-2245 (Vars sets are unioned step to step), 2764-2785 (tool env for tools of
\*    toolDepPackage, private, meta), 2682-2694 (provided env / sandbox env), 2853-2893 (Env.prune),
\*    1277-1308 (_getFingerprintScript), languages.py:264-306 (export), invoker.py:285-288
CodeVarSet(s) == { d \in Decls : DeclStep(d) # 0 /\ DeclStep(d) <= StepNo(s) }
CodeEnvHas(k, c) ==
  LET has(x) == CASE x = "tool" -> T1From(c) <= 3
                  [] x = "sbox" -> CodeSandboxEnabled(c) /\ c.img
                  [] x \in {"dep_nouse", "unset", "-"} -> FALSE
                  [] OTHER -> TRUE
  IN has(k.lo) \/ has(k.hi)
CodeExported(k, s, c) ==
  IF s \in Steps THEN k.decl \in CodeVarSet(s) /\ CodeEnvHas(k, c)
  ELSE k.decl \in CodeVarSet(Under(s)) /\ CodeEnvHas(k, c) /\ k.fp

----------------------------------------------------------------------------
(* arguments: configuration.rst 605-614, 1875-1887 *)

DistOf(q) == [ i \in 1..Len(q) |-> <<q[i], "dist">> ]
Args(s, c) ==
  CASE s = "checkout" -> IF c.codep = 0 THEN <<>> ELSE << <<c.deps[c.codep], "dist">> >>
    [] s = "build"    -> << <<"self", "src">> >> \o DistOf(c.deps)
    [] s = "package"  -> << <<"self", "build">> >> \o (IF c.pkgdep THEN DistOf(c.deps) ELSE <<>>)
    [] OTHER          -> <<>>          \* fingerprint scripts get no arguments (1635-1636)

Range(q) == { q[i] : i \in 1..Len(q) }

----------------------------------------------------------------------------
(* mounts: bob-build-dev.rst 25-27, 134-139, 222-236; languages.py:721-736 *)

OwnWs(s)  == CASE s = "checkout" -> <<"self", "src">> [] s = "build" -> <<"self", "build">>
               [] s = "package" -> <<"self", "dist">>
Earlier(s) == CASE s = "build" -> { <<"self", "src">> }
                [] s = "package" -> { <<"self", "build">>, <<"self", "src">> }
                [] OTHER -> {}
\* what must be reachable (it was declared) ...
RequiredWs(s, c) == Range(Args(s, c))
                    \cup { <<p, "dist">> : p \in ToolPkgs(s, c) }
                    \cup (IF ImageUsed(c) THEN { <<"sbx", "dist">> } ELSE {})
\* ... and what may be reachable besides the own workspace ("earlier steps of its own package")
ReadableWs(s, c) == RequiredWs(s, c) \cup Earlier(s)
WritableWs(s, c) == { OwnWs(s) }                      \* plus the private /tmp

----------------------------------------------------------------------------
(* JSON *)

\* compact identifiers (the catalogue printed once maps them back to the full class)
SrcCode(x) == CASE x = "default" -> "d" [] x = "define" -> "D" [] x = "recipe" -> "r" [] x = "private" -> "p"
                [] x = "meta" -> "m" [] x = "dep_use" -> "u" [] x = "dep_nouse" -> "n" [] x = "tool" -> "t"
                [] x = "sbox" -> "s" [] x = "unset" -> "x" [] x = "-" -> "-"
DeclCode(d) == CASE d = "none" -> "0" [] d = "checkout" -> "c" [] d = "build" -> "b" [] d = "package" -> "p"
                 [] d = "checkoutWeak" -> "C" [] d = "buildWeak" -> "B" [] d = "packageWeak" -> "P"
HostCode(h) == CASE h = "no" -> "n" [] h = "hidden" -> "h" [] h = "wl" -> "w"
KindId(k)  == SrcCode(k.lo) \o SrcCode(k.hi) \o DeclCode(k.decl) \o (IF k.fp THEN "f" ELSE "-") \o HostCode(k.host)
HostId(h)  == <<h.dflt, h.wl, h.rm, h.e>>

(* The visible variable classes depend on the configuration only through VisKey (invariant VisibleByProfile);
   they are printed once per key in the catalogue and every configuration refers to its key.                  *)
VisKeys   == BOOLEAN \X BOOLEAN \X BOOLEAN
VisKey(c) == <<c.E, c.toolstep # "none", ImageUsed(c)>>
Rep(key)  == [ E |-> key[1], sb |-> IF key[3] THEN "dev" ELSE "none", img |-> key[3], deps |-> <<>>, codep |-> 0,
               pkgdep |-> FALSE, toolstep |-> IF key[2] THEN "build" ELSE "none", xtool |-> "none" ]
VisJson(s, c) ==
  [ recipe |-> { KindId(k) \o ":" \o SrcCode(Visible(k, s, c)[2]) : k \in { x \in VarKinds : Visible(x, s, c)[1] = "recipe" } },
    host   |-> { KindId(k) : k \in { x \in VarKinds : Visible(x, s, c)[1] = "host" } } ]
HostVisJson(c) == { HostId(h) : h \in { x \in HostKinds : HostVisible(x, c) } }
ProfileJson(key) ==
  LET c == Rep(key) IN
  [ key |-> key, hostvis |-> HostVisJson(c),
    checkout |-> VisJson("checkout", c), build |-> VisJson("build", c), package |-> VisJson("package", c),
    fp_build |-> VisJson("fp_build", c), fp_package |-> VisJson("fp_package", c) ]

StepJson(s, c) ==
  [ args     |-> Args(s, c),
    tools    |-> Tools(s, c),
    libpath  |-> LibPath(s, c),
    required |-> RequiredWs(s, c),
    readable |-> ReadableWs(s, c),
    writable |-> WritableWs(s, c) ]

CfgJson(c) ==
  [ cfg      |-> c,
    isolated |-> Isolated(c), image |-> ImageUsed(c), stable |-> StablePath(c),
    viskey   |-> VisKey(c),
    checkout |-> StepJson("checkout", c),
    build    |-> StepJson("build", c),
    package  |-> StepJson("package", c) ]

\* the static catalogue (printed once): all classes, so that the driver creates one real
\* variable per class and does not need its own copy of the universe
ASSUME Emit => PrintT(<<"@@", ToJson([ catalogue |-> [ kinds |-> { <<KindId(k), k>> : k \in VarKinds },
                                                       srccodes |-> { <<SrcCode(x), x>> : x \in Sources },
                                                       hostkinds |-> { HostId(h) : h \in HostKinds },
                                                       profiles |-> { ProfileJson(k) : k \in VisKeys },
                                                       tools |-> { <<ToolNames[i], ToolPkg(ToolNames[i]), ToolPath(ToolNames[i]),
                                                                     ToolLibs(ToolNames[i])>> : i \in 1..Len(ToolNames) } ] ])>>)

----------------------------------------------------------------------------
(* state machine: one configuration per state; one action per sandbox mode (coverage) *)

Init == st = <<"root">>

ChooseNone   == st = <<"root">> /\ \E c \in Configs : c.sb = "none"   /\ st' = <<"cfg", c>>
ChooseSlim   == st = <<"root">> /\ \E c \in Configs : c.sb = "slim"   /\ st' = <<"cfg", c>>
ChooseDev    == st = <<"root">> /\ \E c \in Configs : c.sb = "dev"    /\ st' = <<"cfg", c>>
ChooseStrict == st = <<"root">> /\ \E c \in Configs : c.sb = "strict" /\ st' = <<"cfg", c>>
ChooseImage  == st = <<"root">> /\ \E c \in Configs : c.sb = "image"  /\ st' = <<"cfg", c>>
Next == ChooseNone \/ ChooseSlim \/ ChooseDev \/ ChooseStrict \/ ChooseImage
Spec == Init /\ [][Next]_st

IsCfg == st[1] = "cfg"
C     == st[2]

EmitCase == (Emit /\ IsCfg) => PrintT(<<"@@", ToJson(CfgJson(C))>>)

----------------------------------------------------------------------------
(* invariants (internal consistency of the documented rules, and documentation vs. code) *)

TypeOK == st = <<"root">> \/ (st[1] = "cfg" /\ st[2] \in Configs)

\* The invariants that quantify over all variable classes are evaluated on the representative configuration
\* of every VisKey only; VisibleByProfile (checked in EVERY state) carries them over to all configurations.
OnRep == IsCfg /\ C = Rep(VisKey(C))

\* carry-forward: visible in checkout => in build => in package
CarryForward == OnRep => \A k \in VarKinds :
  /\ RecipeVisible(k, "checkout", C) => RecipeVisible(k, "build", C)
  /\ RecipeVisible(k, "build", C) => RecipeVisible(k, "package", C)
  /\ RecipeVisible(k, "fp_build", C) => RecipeVisible(k, "fp_package", C)

\* weak declarations are exported exactly like strong ones
WeakLikeStrong == OnRep => \A k \in BaseKinds : \A s \in AllSteps :
  IsWeak(k.decl) => (RecipeVisible(k, s, C) <=> RecipeVisible([k EXCEPT !.decl = Strong(k.decl)], s, C))

\* nothing undeclared is set by the recipes; nothing undefined is set
OnlyDeclared == OnRep => \A k \in VarKinds : \A s \in AllSteps :
  RecipeVisible(k, s, C) => (k.decl # "none" /\ DefinedKind(k, C))

\* fingerprint scripts see a subset of their step, restricted to fingerprintVars
FingerprintSubset == OnRep => \A k \in VarKinds : \A s \in FpSteps :
  RecipeVisible(k, s, C) => (k.fp /\ RecipeVisible(k, Under(s), C))

\* no host variable is visible unless whitelisted or -E; -E shows all of them
NoHostLeak == OnRep => \A s \in AllSteps :
  /\ \A h \in HostKinds : (HostVisible(h, C) /\ ~C.E) => Whitelisted(h)
  /\ \A k \in VarKinds : (Visible(k, s, C) = <<"host">> /\ ~C.E) => k.host = "wl"
PreserveShowsAll == (OnRep /\ C.E) =>
  /\ \A h \in HostKinds : HostVisible(h, C)
  /\ \A k \in VarKinds : \A s \in AllSteps : k.host # "no" => Visible(k, s, C)[1] \in {"host", "recipe"}

\* a declared variable always carries the recipe value, whatever the host has
DeclaredWins == OnRep => \A k \in VarKinds : \A s \in AllSteps :
  RecipeVisible(k, s, C) => Visible(k, s, C)[1] = "recipe"

\* monotone in the whitelist settings; -e beats whitelistRemove; remove beats whitelist
Leq(h1, h2) == /\ (h1.dflt => h2.dflt)
               /\ (h1.wl => h2.wl)
               /\ (h2.rm => h1.rm)
               /\ (h1.e => h2.e)
WhitelistMonotone == \A h1, h2 \in HostKinds : (Leq(h1, h2) /\ Whitelisted(h1)) => Whitelisted(h2)
WhitelistRules == \A h \in HostKinds : /\ h.e => Whitelisted(h)
                                       /\ (h.rm /\ ~h.e) => ~Whitelisted(h)
                                       /\ (~h.dflt /\ ~h.wl /\ ~h.e) => ~Whitelisted(h)
VisibleMonotoneInE == IsCfg => \A h \in HostKinds : HostVisible(h, [C EXCEPT !.E = FALSE]) => HostVisible(h, [C EXCEPT !.E = TRUE])

\* arguments: previous step first, then the dependencies in declared order
ArgsShape == IsCfg =>
  /\ Args("build", C)[1] = <<"self", "src">>
  /\ Args("package", C)[1] = <<"self", "build">>
  /\ SubSeq(Args("build", C), 2, Len(Args("build", C))) = DistOf(C.deps)
  /\ Len(Args("package", C)) = (IF C.pkgdep THEN 1 + Len(C.deps) ELSE 1)
  /\ Len(Args("checkout", C)) <= 1
  /\ \A s \in FpSteps : Args(s, C) = <<>>

ToolCarryForward == IsCfg => /\ Tools("checkout", C) \subseteq Tools("build", C)
                             /\ Tools("build", C) \subseteq Tools("package", C)

\* every lib dir of every consumed tool is on LD_LIBRARY_PATH, per tool in declared order, nothing else;
\* identical relative entries of tools of different packages stay distinct directories
LibPathComplete == IsCfg => \A s \in Steps :
  /\ \A t \in Tools(s, C) : \A i \in 1..Len(ToolLibs(t)) :
        \E j \in 1..Len(LibPath(s, C)) : LibPath(s, C)[j] = <<t, ToolPkg(t), ToolLibs(t)[i]>>
  /\ \A t \in Tools(s, C) : SelectSeq(LibPath(s, C), LAMBDA e : e[1] = t) = LibsOfTool(t)
  /\ \A j \in 1..Len(LibPath(s, C)) : LibPath(s, C)[j][1] \in Tools(s, C)
  /\ \A i, j \in 1..Len(LibPath(s, C)) : i # j => LibPath(s, C)[i] # LibPath(s, C)[j]

\* the visible classes are a function of VisKey alone (justifies printing them once per key)
VisibleByProfile == IsCfg =>
  /\ Rep(VisKey(C)) \in Configs
  /\ HostVisJson(C) = HostVisJson(Rep(VisKey(C)))
  /\ \A s \in AllSteps : \A k \in VarKinds : Visible(k, s, C) = Visible(k, s, Rep(VisKey(C)))

\* sandbox: only declared things are reachable, none of them writable, own workspace writable
MountsSound == IsCfg => \A s \in Steps :
  /\ OwnWs(s) \notin ReadableWs(s, C)
  /\ WritableWs(s, C) \cap ReadableWs(s, C) = {}
  /\ RequiredWs(s, C) \subseteq ReadableWs(s, C)
  /\ \A w \in ReadableWs(s, C) : \/ w \in Range(Args(s, C)) \/ w \in Earlier(s)
                                 \/ (w[2] = "dist" /\ w[1] \in ToolPkgs(s, C))
                                 \/ (w = <<"sbx", "dist">> /\ ImageUsed(C))

\* documentation table = definitions; documentation = code structure
ModeTable == IsCfg => LET r == DocTable(C.sb, C.img) IN
  /\ r.iso = Isolated(C) /\ r.image = ImageUsed(C) /\ r.stable = StablePath(C)
DocMatchesCode == IsCfg =>
  /\ Isolated(C) = CodeIsolated(C) /\ ImageUsed(C) = CodeFat(C) /\ StablePath(C) = CodeStable(C)
  /\ \A h \in HostKinds : HostVisible(h, C) = CodeHostVisible(h, C)
  /\ OnRep => \A k \in VarKinds : \A s \in AllSteps : RecipeVisible(k, s, C) = CodeExported(k, s, C)

----------------------------------------------------------------------------
(* reachability (vacuity control): each must be VIOLATED *)

ReachCheckoutDepSecond == ~(IsCfg /\ C.codep = 2 /\ Len(C.deps) >= 2)
ReachStableImage       == ~(IsCfg /\ C.sb = "image" /\ StablePath(C) /\ C.toolstep = "checkout")
ReachSandboxEnvVisible == ~(IsCfg /\ \E k \in VarKinds : k.lo = "sbox" /\ Visible(k, "build", C)[1] = "recipe")
ReachHostShadowed      == ~(IsCfg /\ C.E /\ \E k \in VarKinds : k.host = "hidden" /\ Visible(k, "package", C) = <<"recipe", k.lo>>
                                          /\ Visible(k, "checkout", C) = <<"host">>)
ReachWeakFingerprint   == ~(IsCfg /\ \E k \in VarKinds : IsWeak(k.decl) /\ RecipeVisible(k, "fp_package", C) /\ ~RecipeVisible(k, "fp_build", C))
ReachSameRelLibs       == ~(IsCfg /\ \E s \in Steps : {"t1", "t3"} \subseteq Tools(s, C) /\ ToolPkg("t1") # ToolPkg("t3")
                                          /\ ToolLibs("t1") = ToolLibs("t3") /\ "t1" \notin Tools("checkout", C))
ReachPrecedence        == ~(IsCfg /\ \E k \in VarKinds : k.hi = "sbox" /\ Visible(k, "build", C) = <<"recipe", "dep_use">>)
=============================================================================
