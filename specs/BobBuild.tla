------------------------------ MODULE BobBuild ------------------------------
(* Incremental builder of Bob (pym/bob/builder.py), develop mode, properties
   C01 (incremental = clean, idempotent rebuild) and C05 (aborted builds never
   poison the workspace).  Also the skeleton for C07/C14/C16.

   Project (what the user edits): two packages, app (root) and lib.
     bver[p], pver[p]   version of the build / package script
     src[p]             version of the source tree (0 base, 1 file modified, 2 file added in a
                        sub-directory, 3 that file modified in place)
     V, usesV           value of an environment variable; whether app's build consumes it
     dep                whether app depends on lib
     pv                 value of a variable that lib provides to app
     cver               version of the build script fragment of the class "base" (inherited by both)
     tpath              path of the tool that lib provides and app's build step uses (when dep)
   Workspace: per directory d in {src,build,dist} x Pkg
     ex[d], cont[d]     exists / abstract content
     res, inp, dst, vid Bob's persistent view (result hash, input hashes,
                        directory state (digest), stored variant-id)

   M layer: one action per persistent-state update or file-system effect of the
   code, in code order (builder.py line numbers in comments).  The constant
   Weak selects documented weakenings of the mechanism; TLC's counterexamples
   for the weakened models are replayed against the real code as targeted
   tests.  Weak = {} is the mechanism the repaired code implements.
   P layer: invariants at the end.                                            *)
EXTENDS Naturals, Sequences, FiniteSets, TLC, Json

CONSTANTS MaxEdit, MaxInv, MaxKill, MaxFail, Weak, GenDepth,
          Flags       \* command line variants an invocation may use: subset of {"plain", "bo", "force"}
                      \*   plain  bob dev app            bo  bob dev -b app (--build-only)       force  bob dev -f app

Pkg == {"app", "lib"}
S(p) == <<"src", p>>
B(p) == <<"build", p>>
D(p) == <<"dist", p>>
Dirs == {S(p) : p \in Pkg} \cup {B(p) : p \in Pkg} \cup {D(p) : p \in Pkg}

VARIABLES proj, ex, cont, res, inp, dst, vid,
          mode, todo, pc, created,
          nedit, ninv, nkill, nfail, lastOk, quiet, ranInQuiet, hist

vars == <<proj, ex, cont, res, inp, dst, vid, mode, todo, pc, created,
          nedit, ninv, nkill, nfail, lastOk, quiet, ranInQuiet, hist>>
view == <<proj, ex, cont, res, inp, dst, vid, mode, todo, pc, created,
          nedit, ninv, nkill, nfail, lastOk, quiet, ranInQuiet>>

NONE == <<"none">>
TS == <<"ts">>
H(c) == <<"h", c>>
EMPTY == <<"empty">>
PARTIAL == <<"partial">>
STALE == <<"stale">>
NODEP == <<"nodep">>

----------------------------------------------------------------------------
(* ids and clean contents as structural terms *)

\* what the build step of p consumes besides its arguments: the variable V (if declared), the variable
\* provided by lib, the script fragment of the class "base" inherited by both recipes, and (app only,
\* when it depends on lib) the path of the tool that lib provides
Vars(p) == IF p = "app" THEN <<IF proj.usesV THEN proj.V ELSE 9, IF proj.dep THEN proj.pv ELSE 9, proj.cver,
                               IF proj.dep THEN proj.tpath ELSE 9>>
           ELSE <<9, 9, proj.cver, 9>>
WeakVars(p) == IF "DigestIgnoresVars" \in Weak THEN <<9, 9, 9, 9>>
               ELSE IF "DigestIgnoresTool" \in Weak THEN [Vars(p) EXCEPT ![4] = 9]
               ELSE Vars(p)
VIdS(p) == IF p = "app" THEN <<"vs", "app", proj.src["app"]>> ELSE <<"vs", "lib", 0>>
VIdBlib == <<"vb", proj.bver["lib"], Vars("lib"), VIdS("lib"), NODEP>>
VIdDlib == <<"vd", proj.pver["lib"], VIdBlib>>
VIdB(p) == IF p = "lib" THEN VIdBlib
           ELSE <<"vb", proj.bver["app"], Vars("app"), VIdS("app"), IF proj.dep THEN VIdDlib ELSE NODEP>>
VIdD(p) == <<"vd", proj.pver[p], VIdB(p)>>

Stored(d, real) == IF vid[d] = NONE THEN real ELSE vid[d]
\* builder.py 1912-1937 __getIncrementalVariantId
IncVIdB(p) == <<"vb", proj.bver[p], WeakVars(p), Stored(S(p), VIdS(p)),
                IF p = "app" /\ proj.dep THEN Stored(D("lib"), VIdDlib) ELSE NODEP>>
IncVIdD(p) == <<"vd", proj.pver[p], Stored(B(p), VIdB(p))>>

CleanS(p) == <<"s", proj.src[p]>>
CleanBlib == <<"b", proj.bver["lib"], Vars("lib"), CleanS("lib"), NODEP>>
CleanDlib == <<"d", proj.pver["lib"], CleanBlib>>
CleanB(p) == IF p = "lib" THEN CleanBlib
             ELSE <<"b", proj.bver["app"], Vars("app"), CleanS("app"), IF proj.dep THEN CleanDlib ELSE NODEP>>
CleanD(p) == <<"d", proj.pver[p], CleanB(p)>>

\* what the build script of p leaves in its (not cleaned) workspace
BuildResult(p) ==
  LET fresh == <<"b", proj.bver[p], Vars(p), cont[S(p)], IF p = "app" /\ proj.dep THEN cont[D("lib")] ELSE NODEP>>
      old == cont[B(p)]
  IN IF old = EMPTY \/ old = PARTIAL THEN fresh
     ELSE IF old = STALE THEN STALE
     ELSE IF old[2] = proj.bver[p] THEN fresh      \* same script: every output is overwritten
     ELSE STALE                                    \* leftovers of a different script remain
\* the package workspace is always emptied before the script (languages.py 'clean', invoker.py 497-504)
PackageResult(p) == <<"d", proj.pver[p], cont[B(p)]>>

BuildInputs(p) == IF p = "app" /\ proj.dep /\ "InputsIgnoreDep" \notin Weak THEN <<"l", <<res[S(p)], res[D("lib")]>>>> ELSE <<"l", <<res[S(p)]>>>>
PackageInputs(p) == <<"l", <<res[S(p)], res[B(p)]>>>>

Steps == IF proj.dep
         THEN << <<"prep","app">>, <<"co","app">>, <<"co","lib">>, <<"prep","lib">>, <<"bu","lib">>, <<"pk","lib">>, <<"bu","app">>, <<"pk","app">> >>
         ELSE << <<"prep","app">>, <<"co","app">>, <<"bu","app">>, <<"pk","app">> >>

----------------------------------------------------------------------------
Hist(a) == hist' = Append(hist, a)
NoHist == UNCHANGED hist
Knobs == UNCHANGED <<proj, nedit>>
Ctr == UNCHANGED <<ninv, nkill, nfail, lastOk, quiet, ranInQuiet>>

Init ==
  /\ proj = [bver |-> [p \in Pkg |-> 0], pver |-> [p \in Pkg |-> 0], src |-> [p \in Pkg |-> 0],
             V |-> 0, usesV |-> TRUE, dep |-> TRUE, pv |-> 0, cver |-> 0, tpath |-> 0]
  /\ ex = [d \in Dirs |-> FALSE] /\ cont = [d \in Dirs |-> EMPTY]
  /\ res = [d \in Dirs |-> NONE] /\ inp = [d \in Dirs |-> NONE]
  /\ dst = [d \in Dirs |-> NONE] /\ vid = [d \in Dirs |-> NONE]
  /\ mode = "idle" /\ todo = <<>> /\ pc = "start" /\ created = FALSE
  /\ nedit = 0 /\ ninv = 0 /\ nkill = 0 /\ nfail = 0
  /\ lastOk = FALSE /\ quiet = FALSE /\ ranInQuiet = FALSE
  /\ hist = <<>>

Cur == Head(todo)
CurK == Cur[1]
CurP == Cur[2]
\* mode = "idle" between invocations, otherwise the flag of the running invocation
IsRun == mode # "idle"
Running(k) == IsRun /\ todo # <<>> /\ CurK = k
BuildOnly == mode = "bo"
Forced == mode = "force"
WS == UNCHANGED <<ex, cont>>
ST == UNCHANGED <<res, inp, dst, vid>>
Flow == UNCHANGED <<mode, todo>>
NextStep == /\ todo' = Tail(todo) /\ pc' = "start" /\ UNCHANGED mode

\* state.py resetWorkspaceState(path, dirState)
Reset(d, digest) ==
  /\ res' = [res EXCEPT ![d] = NONE] /\ inp' = [inp EXCEPT ![d] = NONE]
  /\ vid' = [vid EXCEPT ![d] = NONE] /\ dst' = [dst EXCEPT ![d] = digest]

----------------------------------------------------------------------------
(* the user *)

Edit ==
  /\ mode = "idle" /\ nedit < MaxEdit
  /\ \/ \E p \in Pkg : proj' = [proj EXCEPT !.bver[p] = 1 - @] /\ Hist([a |-> "Edit", knob |-> "bver", p |-> p])
     \/ \E p \in Pkg : proj' = [proj EXCEPT !.pver[p] = 1 - @] /\ Hist([a |-> "Edit", knob |-> "pver", p |-> p])
     \/ \E p \in Pkg, v \in 0..3 : v # proj.src[p] /\ proj' = [proj EXCEPT !.src[p] = v]
                                   /\ Hist([a |-> "Edit", knob |-> "src", p |-> p, v |-> v])
     \/ proj' = [proj EXCEPT !.V = 1 - @] /\ Hist([a |-> "Edit", knob |-> "V"])
     \/ proj' = [proj EXCEPT !.usesV = ~@] /\ Hist([a |-> "Edit", knob |-> "usesV"])
     \/ proj' = [proj EXCEPT !.dep = ~@] /\ Hist([a |-> "Edit", knob |-> "dep"])
     \/ proj' = [proj EXCEPT !.pv = 1 - @] /\ Hist([a |-> "Edit", knob |-> "pv"])
     \/ proj' = [proj EXCEPT !.cver = 1 - @] /\ Hist([a |-> "Edit", knob |-> "cver"])
     \/ proj' = [proj EXCEPT !.tpath = 1 - @] /\ Hist([a |-> "Edit", knob |-> "tpath"])
  /\ nedit' = nedit + 1 /\ quiet' = FALSE /\ lastOk' = FALSE
  /\ UNCHANGED <<ex, cont, res, inp, dst, vid, mode, todo, pc, created, ninv, nkill, nfail, ranInQuiet>>

Begin ==
  /\ mode = "idle" /\ ninv < MaxInv
  /\ \E f \in Flags :
       /\ mode' = f
       \* only a plain invocation directly after a successful one is judged for idempotence
       /\ quiet' = (quiet /\ f = "plain")
       /\ Hist([a |-> "Begin", proj |-> proj, quiet |-> (quiet /\ f = "plain"), flag |-> f])
  /\ todo' = Steps /\ pc' = "start" /\ created' = FALSE
  /\ ninv' = ninv + 1 /\ lastOk' = FALSE
  /\ UNCHANGED <<proj, nedit, ex, cont, res, inp, dst, vid, nkill, nfail, ranInQuiet>>

\* all steps done: the invocation completed successfully
End ==
  /\ IsRun /\ todo = <<>>
  \* a --build-only invocation does not promise an up-to-date result (checkouts are not refreshed)
  /\ mode' = "idle" /\ lastOk' = ~BuildOnly /\ quiet' = ~BuildOnly
  /\ Hist([a |-> "End"])
  /\ UNCHANGED <<proj, nedit, ex, cont, res, inp, dst, vid, todo, pc, created, ninv, nkill, nfail, ranInQuiet>>

\* kill -9 between any two micro-operations (the stale lock is removed by the user)
Kill ==
  /\ IsRun /\ todo # <<>> /\ nkill < MaxKill
  /\ mode' = "idle" /\ todo' = <<>> /\ pc' = "start" /\ nkill' = nkill + 1
  /\ quiet' = FALSE /\ lastOk' = FALSE
  /\ Hist([a |-> "Kill", k |-> CurK, p |-> CurP, at |-> pc])
  /\ UNCHANGED <<proj, nedit, ex, cont, res, inp, dst, vid, created, ninv, nfail, ranInQuiet>>

----------------------------------------------------------------------------
(* _preparePackageStep, builder.py 1423-1448 *)

PrepStart ==
  /\ Running("prep") /\ pc = "start"
  /\ LET d == D(CurP) IN
     IF ex[d] /\ dst[d] # VIdD(CurP) /\ "PrepIgnoresDigest" \notin Weak
       THEN pc' = IF "PruneBeforeReset" \in Weak THEN "prune" ELSE "inval"
       ELSE IF ~ex[d] THEN pc' = "reset" ELSE pc' = "done"
  /\ Flow /\ WS /\ ST /\ Knobs /\ Ctr /\ NoHist /\ UNCHANGED created

\* repaired order: drop the directory state first so that an interrupted prune is repeated
PrepInval ==
  /\ Running("prep") /\ pc = "inval"
  /\ Reset(D(CurP), NONE) /\ pc' = "prune"
  /\ Flow /\ WS /\ Knobs /\ Ctr /\ NoHist /\ UNCHANGED created

\* 1436-1444 emptyDirectory
PrepPrune ==
  /\ Running("prep") /\ pc = "prune"
  /\ cont' = [cont EXCEPT ![D(CurP)] = EMPTY] /\ pc' = "reset"
  /\ Flow /\ UNCHANGED ex /\ ST /\ Knobs /\ Ctr /\ NoHist /\ UNCHANGED created

\* 1448 resetWorkspaceState
PrepReset ==
  /\ Running("prep") /\ pc = "reset"
  /\ Reset(D(CurP), VIdD(CurP)) /\ pc' = "done"
  /\ Flow /\ WS /\ Knobs /\ Ctr /\ NoHist /\ UNCHANGED created

PrepDone ==
  /\ Running("prep") /\ pc = "done"
  /\ NextStep /\ WS /\ ST /\ Knobs /\ Ctr /\ NoHist /\ UNCHANGED created

----------------------------------------------------------------------------
(* _cookCheckoutStep, 1162-1366.  lib: import SCM (indeterministic: runs every time, prune+copy).
   app: deterministic checkoutScript whose text is versioned by src["app"] (it changes the
   variant-id); it runs only when the stored checkout state differs. *)

Deterministic(p) == p = "app"
ScmFull(p) == <<"scmfull", VIdS(p)>>

\* 1172-1179: create directory, reset state
CoStart ==
  /\ Running("co") /\ pc = "start"
  /\ LET d == S(CurP) IN
     IF ~ex[d] THEN /\ ex' = [ex EXCEPT ![d] = TRUE] /\ cont' = [cont EXCEPT ![d] = EMPTY]
                    /\ Reset(d, <<"scm0">>)
               ELSE WS /\ ST
  /\ pc' = "reason" /\ Flow /\ Knobs /\ Ctr /\ NoHist /\ UNCHANGED created

\* 1226-1240: initial checkout / indeterministic / recipe changed (also: previous run did not complete)
CoReason ==
  /\ Running("co") /\ pc = "reason"
  /\ IF BuildOnly /\ res[S(CurP)] # NONE
       \* 1199-1219 --build-only and a result is recorded: no checkout; a local indeterministic SCM (import)
       \* is updated in place (mayUpdate), a checkoutScript is never re-run ("recipe changed but skipped")
       THEN pc' \in (IF Deterministic(CurP) THEN {"setres"} ELSE {"setres", "boupdate"})
       ELSE pc' = IF Forced \/ ~Deterministic(CurP) \/ dst[S(CurP)] # ScmFull(CurP) THEN "store" ELSE "setres"
  \* weakening BoSkipStoresState: the skipped checkout nevertheless records the new recipe state
  /\ dst' = IF "BoSkipStoresState" \in Weak /\ BuildOnly /\ res[S(CurP)] # NONE /\ Deterministic(CurP)
            THEN [dst EXCEPT ![S(CurP)] = ScmFull(CurP)] ELSE dst
  /\ Flow /\ WS /\ UNCHANGED <<res, inp, vid>> /\ Knobs /\ Ctr /\ NoHist /\ UNCHANGED created

\* 1203-1210 UPDATE of the import in build-only mode: files are copied, only the build-only part of the
\* directory state is stored
CoBoUpdate ==
  /\ Running("co") /\ pc = "boupdate"
  /\ cont' = [cont EXCEPT ![S(CurP)] = IF "ImportKeepsOld" \in Weak /\ @ # EMPTY THEN @ ELSE CleanS(CurP)]
  /\ pc' = "setres" /\ Flow /\ UNCHANGED ex /\ ST /\ Knobs /\ Ctr /\ NoHist /\ UNCHANGED created

\* 1309: store the SCM state without the script state so that a failing step runs again
CoStore ==
  /\ Running("co") /\ pc = "store"
  /\ dst' = [dst EXCEPT ![S(CurP)] = IF "CheckoutStateBeforeRun" \in Weak THEN ScmFull(CurP) ELSE <<"scmpartial">>]
  /\ pc' = "forge" /\ Flow /\ WS /\ UNCHANGED <<res, inp, vid>> /\ Knobs /\ Ctr /\ NoHist /\ UNCHANGED created

\* 1317-1319: forge result before running
CoForge ==
  /\ Running("co") /\ pc = "forge"
  /\ res' = [res EXCEPT ![S(CurP)] = IF @ = NONE THEN NONE ELSE TS]
  /\ pc' = "run" /\ Flow /\ WS /\ UNCHANGED <<inp, dst, vid>> /\ Knobs /\ Ctr /\ NoHist /\ UNCHANGED created

\* 1323: prune + copy of the import source / the checkout script regenerates its files
CoRun ==
  /\ Running("co") /\ pc = "run"
  /\ cont' = [cont EXCEPT ![S(CurP)] = IF "ImportKeepsOld" \in Weak /\ ~Deterministic(CurP) /\ @ # EMPTY THEN @ ELSE CleanS(CurP)]
  /\ ranInQuiet' = (ranInQuiet \/ (quiet /\ Deterministic(CurP)))
  /\ pc' = "commit" /\ Flow /\ UNCHANGED ex /\ ST /\ Knobs /\ NoHist /\ UNCHANGED <<created, ninv, nkill, nfail, lastOk, quiet>>

\* the checkout script fails after partial output
CoRunFail ==
  /\ Running("co") /\ pc = "run" /\ Deterministic(CurP) /\ nfail < MaxFail
  /\ cont' = [cont EXCEPT ![S(CurP)] = PARTIAL]
  /\ mode' = "idle" /\ todo' = <<>> /\ pc' = "start" /\ nfail' = nfail + 1 /\ quiet' = FALSE /\ lastOk' = FALSE
  /\ Hist([a |-> "Fail", k |-> "co", p |-> CurP])
  /\ UNCHANGED ex /\ ST /\ Knobs /\ UNCHANGED <<created, ninv, nkill, ranInQuiet>>

CoRunKilled ==
  /\ Running("co") /\ pc = "run" /\ Deterministic(CurP) /\ nkill < MaxKill
  /\ cont' = [cont EXCEPT ![S(CurP)] = PARTIAL]
  /\ mode' = "idle" /\ todo' = <<>> /\ pc' = "start" /\ nkill' = nkill + 1 /\ quiet' = FALSE /\ lastOk' = FALSE
  /\ Hist([a |-> "Kill", k |-> "co", p |-> CurP, at |-> "script"])
  /\ UNCHANGED ex /\ ST /\ Knobs /\ UNCHANGED <<created, ninv, nfail, ranInQuiet>>

\* 1328-1330: reflect the new checkout state
CoCommit ==
  /\ Running("co") /\ pc = "commit"
  /\ dst' = [dst EXCEPT ![S(CurP)] = ScmFull(CurP)]
  /\ vid' = [vid EXCEPT ![S(CurP)] = VIdS(CurP)]
  /\ pc' = "setres" /\ Flow /\ WS /\ UNCHANGED <<res, inp>> /\ Knobs /\ Ctr /\ NoHist /\ UNCHANGED created

\* 1337-1346: always rehash
CoSetRes ==
  /\ Running("co") /\ pc = "setres"
  /\ res' = [res EXCEPT ![S(CurP)] = H(cont[S(CurP)])]
  /\ NextStep /\ WS /\ UNCHANGED <<inp, dst, vid>> /\ Knobs /\ Ctr /\ NoHist /\ UNCHANGED created

----------------------------------------------------------------------------
(* _cookBuildStep, 1368-1421 *)

BuStart ==
  /\ Running("bu") /\ pc = "start"
  /\ LET d == B(CurP) IN
     /\ created' = ~ex[d]
     /\ ex' = [ex EXCEPT ![d] = TRUE]
     /\ cont' = IF ex[d] THEN cont ELSE [cont EXCEPT ![d] = EMPTY]
     /\ IF ~ex[d] THEN pc' = "reset"
        ELSE IF dst[d] # IncVIdB(CurP)
             THEN pc' = IF "NoPruneOnDigestChange" \in Weak \/ ("NoPruneWhenStateless" \in Weak /\ dst[d] = NONE) THEN "reset"
                        ELSE IF "PruneBeforeReset" \in Weak THEN "prune" ELSE "inval"
             ELSE pc' = "check"
  /\ Flow /\ ST /\ Knobs /\ Ctr /\ NoHist

BuInval ==
  /\ Running("bu") /\ pc = "inval"
  /\ Reset(B(CurP), NONE) /\ pc' = "prune"
  /\ Flow /\ WS /\ Knobs /\ Ctr /\ NoHist /\ UNCHANGED created

\* 1386-1390 emptyDirectory
BuPrune ==
  /\ Running("bu") /\ pc = "prune"
  /\ cont' = [cont EXCEPT ![B(CurP)] = EMPTY] /\ pc' = "reset"
  /\ Flow /\ UNCHANGED ex /\ ST /\ Knobs /\ Ctr /\ NoHist /\ UNCHANGED created

\* 1392 resetWorkspaceState(path, buildDigest)
BuReset ==
  /\ Running("bu") /\ pc = "reset"
  /\ Reset(B(CurP), IncVIdB(CurP)) /\ pc' = "check"
  /\ Flow /\ WS /\ Knobs /\ Ctr /\ NoHist /\ UNCHANGED created

\* 1395-1405 unchanged input -> skipped, rehash
BuSkip ==
  /\ Running("bu") /\ pc = "check"
  /\ inp[B(CurP)] = BuildInputs(CurP) /\ ~Forced
  /\ res' = [res EXCEPT ![B(CurP)] = H(cont[B(CurP)])]
  /\ NextStep /\ WS /\ UNCHANGED <<inp, dst, vid>> /\ Knobs /\ Ctr /\ NoHist /\ UNCHANGED created

\* 1411 delInputHashes
BuInv1 ==
  /\ Running("bu") /\ pc = "check"
  /\ (inp[B(CurP)] # BuildInputs(CurP) \/ Forced)
  /\ inp' = [inp EXCEPT ![B(CurP)] = IF "NoInvalidateBeforeRun" \in Weak THEN @ ELSE NONE]
  /\ pc' = "inv2" /\ Flow /\ WS /\ UNCHANGED <<res, dst, vid>> /\ Knobs /\ Ctr /\ NoHist /\ UNCHANGED created

\* 1412 setResultHash(now)
BuInv2 ==
  /\ Running("bu") /\ pc = "inv2"
  /\ res' = [res EXCEPT ![B(CurP)] = TS]
  /\ pc' = IF "CommitInputsBeforeRun" \in Weak THEN "c3first" ELSE "run"
  /\ Flow /\ WS /\ UNCHANGED <<inp, dst, vid>> /\ Knobs /\ Ctr /\ NoHist /\ UNCHANGED created

\* weakening: record the input hashes before the script ran
BuCommit3First ==
  /\ Running("bu") /\ pc = "c3first"
  /\ inp' = [inp EXCEPT ![B(CurP)] = BuildInputs(CurP)]
  /\ pc' = "run" /\ Flow /\ WS /\ UNCHANGED <<res, dst, vid>> /\ Knobs /\ Ctr /\ NoHist /\ UNCHANGED created

\* 1416 the build script succeeds
BuRunOk ==
  /\ Running("bu") /\ pc = "run"
  /\ cont' = [cont EXCEPT ![B(CurP)] = BuildResult(CurP)]
  /\ ranInQuiet' = (ranInQuiet \/ quiet)
  /\ pc' = "c1" /\ Flow /\ UNCHANGED ex /\ ST /\ Knobs /\ NoHist /\ UNCHANGED <<created, ninv, nkill, nfail, lastOk, quiet>>

\* ... or fails after producing partial output: the invocation ends with an error
BuRunFail ==
  /\ Running("bu") /\ pc = "run" /\ nfail < MaxFail
  /\ cont' = [cont EXCEPT ![B(CurP)] = PARTIAL]
  /\ mode' = "idle" /\ todo' = <<>> /\ pc' = "start" /\ nfail' = nfail + 1 /\ quiet' = FALSE /\ lastOk' = FALSE
  /\ Hist([a |-> "Fail", k |-> "bu", p |-> CurP])
  /\ UNCHANGED ex /\ ST /\ Knobs /\ UNCHANGED <<created, ninv, nkill, ranInQuiet>>

\* ... or Bob is killed while the script runs
BuRunKilled ==
  /\ Running("bu") /\ pc = "run" /\ nkill < MaxKill
  /\ cont' = [cont EXCEPT ![B(CurP)] = PARTIAL]
  /\ mode' = "idle" /\ todo' = <<>> /\ pc' = "start" /\ nkill' = nkill + 1 /\ quiet' = FALSE /\ lastOk' = FALSE
  /\ Hist([a |-> "Kill", k |-> "bu", p |-> CurP, at |-> "script"])
  /\ UNCHANGED ex /\ ST /\ Knobs /\ UNCHANGED <<created, ninv, nfail, ranInQuiet>>

\* 1419-1421
BuC1 ==
  /\ Running("bu") /\ pc = "c1"
  /\ res' = [res EXCEPT ![B(CurP)] = H(cont[B(CurP)])]
  /\ pc' = "c2" /\ Flow /\ WS /\ UNCHANGED <<inp, dst, vid>> /\ Knobs /\ Ctr /\ NoHist /\ UNCHANGED created
BuC2 ==
  /\ Running("bu") /\ pc = "c2"
  /\ vid' = [vid EXCEPT ![B(CurP)] = IncVIdB(CurP)]
  /\ pc' = "c3" /\ Flow /\ WS /\ UNCHANGED <<res, inp, dst>> /\ Knobs /\ Ctr /\ NoHist /\ UNCHANGED created
BuC3 ==
  /\ Running("bu") /\ pc = "c3"
  /\ inp' = [inp EXCEPT ![B(CurP)] = BuildInputs(CurP)]
  /\ NextStep /\ WS /\ UNCHANGED <<res, dst, vid>> /\ Knobs /\ Ctr /\ NoHist /\ UNCHANGED created

----------------------------------------------------------------------------
(* _cookPackageStep, 1644-1691 *)

PkStart ==
  /\ Running("pk") /\ pc = "start"
  /\ ex' = [ex EXCEPT ![D(CurP)] = TRUE]
  /\ pc' = "check" /\ Flow /\ UNCHANGED cont /\ ST /\ Knobs /\ Ctr /\ NoHist /\ UNCHANGED created

PkSkip ==
  /\ Running("pk") /\ pc = "check"
  /\ inp[D(CurP)] = PackageInputs(CurP) /\ ~Forced
  /\ NextStep /\ WS /\ ST /\ Knobs /\ Ctr /\ NoHist /\ UNCHANGED created

\* 1673-1674
PkInv1 ==
  /\ Running("pk") /\ pc = "check"
  /\ (inp[D(CurP)] # PackageInputs(CurP) \/ Forced)
  /\ inp' = [inp EXCEPT ![D(CurP)] = IF "NoInvalidateBeforeRun" \in Weak THEN @ ELSE NONE]
  /\ pc' = "inv2" /\ Flow /\ WS /\ UNCHANGED <<res, dst, vid>> /\ Knobs /\ Ctr /\ NoHist /\ UNCHANGED created
PkInv2 ==
  /\ Running("pk") /\ pc = "inv2"
  /\ res' = [res EXCEPT ![D(CurP)] = TS]
  /\ pc' = "run" /\ Flow /\ WS /\ UNCHANGED <<inp, dst, vid>> /\ Knobs /\ Ctr /\ NoHist /\ UNCHANGED created

\* 1677 (workspace emptied, then the script)
PkRunOk ==
  /\ Running("pk") /\ pc = "run"
  /\ cont' = [cont EXCEPT ![D(CurP)] = PackageResult(CurP)]
  /\ ranInQuiet' = (ranInQuiet \/ quiet)
  /\ pc' = "c1" /\ Flow /\ UNCHANGED ex /\ ST /\ Knobs /\ NoHist /\ UNCHANGED <<created, ninv, nkill, nfail, lastOk, quiet>>
PkRunFail ==
  /\ Running("pk") /\ pc = "run" /\ nfail < MaxFail
  /\ cont' = [cont EXCEPT ![D(CurP)] = PARTIAL]
  /\ mode' = "idle" /\ todo' = <<>> /\ pc' = "start" /\ nfail' = nfail + 1 /\ quiet' = FALSE /\ lastOk' = FALSE
  /\ Hist([a |-> "Fail", k |-> "pk", p |-> CurP])
  /\ UNCHANGED ex /\ ST /\ Knobs /\ UNCHANGED <<created, ninv, nkill, ranInQuiet>>

PkRunKilled ==
  /\ Running("pk") /\ pc = "run" /\ nkill < MaxKill
  /\ cont' = [cont EXCEPT ![D(CurP)] = PARTIAL]
  /\ mode' = "idle" /\ todo' = <<>> /\ pc' = "start" /\ nkill' = nkill + 1 /\ quiet' = FALSE /\ lastOk' = FALSE
  /\ Hist([a |-> "Kill", k |-> "pk", p |-> CurP, at |-> "script"])
  /\ UNCHANGED ex /\ ST /\ Knobs /\ UNCHANGED <<created, ninv, nfail, ranInQuiet>>

\* 1686-1689
PkC1 ==
  /\ Running("pk") /\ pc = "c1"
  /\ res' = [res EXCEPT ![D(CurP)] = H(cont[D(CurP)])]
  /\ pc' = "c2" /\ Flow /\ WS /\ UNCHANGED <<inp, dst, vid>> /\ Knobs /\ Ctr /\ NoHist /\ UNCHANGED created
PkC2 ==
  /\ Running("pk") /\ pc = "c2"
  /\ vid' = [vid EXCEPT ![D(CurP)] = IncVIdD(CurP)]
  /\ pc' = "c3" /\ Flow /\ WS /\ UNCHANGED <<res, inp, dst>> /\ Knobs /\ Ctr /\ NoHist /\ UNCHANGED created
PkC3 ==
  /\ Running("pk") /\ pc = "c3"
  /\ inp' = [inp EXCEPT ![D(CurP)] = PackageInputs(CurP)]
  /\ NextStep /\ WS /\ UNCHANGED <<res, dst, vid>> /\ Knobs /\ Ctr /\ NoHist /\ UNCHANGED created

Done == mode = "idle" /\ ninv = MaxInv /\ UNCHANGED vars

Next ==
  \/ Edit \/ Begin \/ End \/ Kill
  \/ PrepStart \/ PrepInval \/ PrepPrune \/ PrepReset \/ PrepDone
  \/ CoStart \/ CoReason \/ CoBoUpdate \/ CoStore \/ CoForge \/ CoRun \/ CoRunFail \/ CoRunKilled \/ CoCommit \/ CoSetRes
  \/ BuStart \/ BuInval \/ BuPrune \/ BuReset \/ BuSkip \/ BuInv1 \/ BuInv2 \/ BuCommit3First
  \/ BuRunOk \/ BuRunFail \/ BuRunKilled \/ BuC1 \/ BuC2 \/ BuC3
  \/ PkStart \/ PkSkip \/ PkInv1 \/ PkInv2 \/ PkRunOk \/ PkRunFail \/ PkRunKilled \/ PkC1 \/ PkC2 \/ PkC3
  \/ Done

Spec == Init /\ [][Next]_vars

----------------------------------------------------------------------------
(* P layer *)

\* C01/C05: after every successful invocation every visited package result equals the clean build
IncrementalEqClean ==
  lastOk => /\ cont[D("app")] = CleanD("app")
            /\ (proj.dep => cont[D("lib")] = CleanD("lib"))

\* C01: an immediately repeated build of an unchanged project executes no build or package step
Idempotent == ~ranInQuiet

\* vacuity companions (must be VIOLATED)
ReachPruneThenOk == ~(lastOk /\ nkill > 0 /\ nedit > 1)
ReachSkip == ~(Running("pk") /\ pc = "check" /\ inp[D(CurP)] = PackageInputs(CurP) /\ ninv > 1)

\* counterexample printer for the weakened mechanisms, used as a CONSTRAINT (always TRUE): prints the
\* history of every reachable state that violates P, without TLC's error traces
CexPrint == (IncrementalEqClean /\ Idempotent) \/ PrintT(<<"@@", ToJson(hist)>>)

GenPrint == (GenDepth > 0 /\ TLCGet("level") = GenDepth) => PrintT(<<"@@", ToJson(hist)>>)
=============================================================================
