------------------------------ MODULE JobSem ------------------------------
(* Token semaphore of Bob's builder: pym/bob/builder.py JobServerSemaphore 257-312
   on top of asyncio.Semaphore (CPython 3.12 asyncio/locks.py), property C06.

   The job server is a pipe/fifo holding one byte per free job slot.  It is shared
   with child `make` processes (and, when Bob itself runs below an external make =
   Recursive, with the siblings of Bob) that read/write it directly.

   M layer: one action per atomic section of the single threaded asyncio loop
   (the code between two awaits), transcribed with line numbers of builder.py.
   Cancellation of waiting tasks is not modelled (the property speaks about builds
   that are not aborted; without an abort no task is cancelled while it waits).

   Why Callback is one atomic action although children run truly concurrently: the
   only shared object is the pipe and the loop body touches it with exactly one
   os.read per iteration; a child take/return that happens between two iterations
   commutes to before the whole callback without changing any result.

   P layer: the invariants at the end.  hist = observation variable (generation). *)
EXTENDS Naturals, Sequences, FiniteSets, TLC, Json

CONSTANTS K,            \* number of tasks (1..K)
          N,            \* tokens in the pipe initially (= jobs for the internal server, jobs-1 below make)
          Recursive,    \* TRUE: Bob owns one implicit slot (external job server), builder.py:324
          Rounds,       \* acquire/release rounds per task
          MaxChild,     \* tokens children may hold at once
          MaxChildOps,  \* total number of child takes (bounds the environment, keeps liveness meaningful)
          GenDepth,     \* > 0: generation mode (hist is recorded, behaviours are printed)
          FixHandover   \* FALSE = the code as it is; TRUE = intended fix of the recursive-mode defect: a slot that is
                        \* handed over / granted by the callback stays counted in `acquired` until it is released

VARIABLES pipe,         \* bytes in the fifo
          tokens,       \* len(self.__tokens): bytes Bob has read and not written back
          waitersCnt,   \* self.__waitersCnt
          semValue,     \* self.__sem._value
          semQ,         \* self.__sem._waiters: FIFO of tasks; pc = "waiting" (future pending) or "woken" (future done)
          acquired,     \* self.__acquired
          reader,       \* loop.add_reader(fd) is in effect
          pc,           \* per task: idle, waiting, woken, holding, done, crashed
          round,        \* finished rounds per task
          childHeld, childOps,
          hist

vars == <<pipe, tokens, waitersCnt, semValue, semQ, acquired, reader, pc, round, childHeld, childOps, hist>>

Tasks == 1..K
Rec == IF Recursive THEN 1 ELSE 0
Min(a, b) == IF a < b THEN a ELSE b

Holding == {t \in Tasks : pc[t] = "holding"}
Woken   == {t \in Tasks : pc[t] = "woken"}
Waiting == {t \in Tasks : pc[t] = "waiting"}

Obs(a, t) == [a |-> a, t |-> t, pipe |-> pipe', holders |-> Cardinality({x \in Tasks : pc'[x] = "holding"}),
              reader |-> reader', st |-> IF t = 0 THEN "-" ELSE pc'[t],
              woken |-> Cardinality({x \in Tasks : pc'[x] = "woken"}), child |-> childHeld']
H(a, t) == hist' = IF GenDepth > 0 THEN Append(hist, Obs(a, t)) ELSE hist

Init ==
  /\ pipe = N /\ tokens = 0 /\ waitersCnt = 0 /\ semValue = 0 /\ semQ = <<>>
  /\ acquired = 0 /\ reader = FALSE
  /\ pc = [t \in Tasks |-> "idle"] /\ round = [t \in Tasks |-> 0]
  /\ childHeld = 0 /\ childOps = 0 /\ hist = <<>>

----------------------------------------------------------------------------
(* asyncio.Semaphore pieces *)

\* first waiter whose future is not done (locks.py _wake_up_next), 0 if none
FirstPending(q, p) ==
  LET idx == {i \in 1..Len(q) : p[q[i]] = "waiting"}
  IN IF idx = {} THEN 0 ELSE q[CHOOSE i \in idx : \A j \in idx : i <= j]

\* k times sem.release(): value += 1; _wake_up_next(): value -= 1, fut.set_result for the first pending waiter
RECURSIVE SemRelease(_, _, _)
SemRelease(k, val, p) ==
  IF k = 0 THEN <<val, p>>
  ELSE LET f == FirstPending(semQ, p)
       IN IF f = 0 THEN SemRelease(k - 1, val + 1, p)
          ELSE SemRelease(k - 1, val, [p EXCEPT ![f] = "woken"])

----------------------------------------------------------------------------
(* JobServerSemaphore.acquire, builder.py 279-292 *)

CanStart(t) == pc[t] = "idle" /\ round[t] < Rounds

\* 280-282: the implicit slot of a Bob running below make
AcquireImplicit(t) ==
  /\ CanStart(t) /\ Recursive /\ acquired = 0
  /\ acquired' = 1 /\ pc' = [pc EXCEPT ![t] = "holding"]
  /\ UNCHANGED <<pipe, tokens, waitersCnt, semValue, semQ, reader, round, childHeld, childOps>>
  /\ H("AcquireImplicit", t)

\* 283-284, 292: os.read succeeded
AcquireFast(t) ==
  /\ CanStart(t) /\ ~(Recursive /\ acquired = 0) /\ pipe > 0
  /\ pipe' = pipe - 1 /\ tokens' = tokens + 1 /\ acquired' = acquired + 1
  /\ pc' = [pc EXCEPT ![t] = "holding"]
  /\ UNCHANGED <<waitersCnt, semValue, semQ, reader, round, childHeld, childOps>>
  /\ H("AcquireFast", t)

\* 285-290: BlockingIOError -> register reader (first waiter), count, sem.acquire()
AcquireBlock(t) ==
  /\ CanStart(t) /\ ~(Recursive /\ acquired = 0) /\ pipe = 0
  /\ reader' = IF waitersCnt = 0 THEN TRUE ELSE reader
  /\ waitersCnt' = waitersCnt + 1
  /\ IF semValue > 0 /\ semQ = <<>>          \* not locked(): returns at once (locks.py acquire)
       THEN /\ semValue' = semValue - 1 /\ acquired' = IF FixHandover THEN acquired ELSE acquired + 1
            /\ pc' = [pc EXCEPT ![t] = "holding"] /\ UNCHANGED semQ
       ELSE /\ semQ' = Append(semQ, t) /\ pc' = [pc EXCEPT ![t] = "waiting"]
            /\ UNCHANGED <<semValue, acquired>>
  /\ UNCHANGED <<pipe, tokens, round, childHeld, childOps>>
  /\ H("AcquireBlock", t)

\* locks.py acquire after `await fut`: remove from the queue, wake the next one if value > 0; builder.py 292
Resume(t) ==
  /\ pc[t] = "woken"
  /\ LET q2 == SelectSeq(semQ, LAMBDA x : x # t)
         p1 == [pc EXCEPT ![t] = "holding"]
         f  == FirstPending(q2, p1)
     IN /\ semQ' = q2
        /\ IF semValue > 0 /\ f # 0
             THEN semValue' = semValue - 1 /\ pc' = [p1 EXCEPT ![f] = "woken"]
             ELSE semValue' = semValue /\ pc' = p1
  /\ acquired' = IF FixHandover THEN acquired ELSE acquired + 1
  /\ UNCHANGED <<pipe, tokens, waitersCnt, reader, round, childHeld, childOps>>
  /\ H("Resume", t)

----------------------------------------------------------------------------
(* jobavailableCallback 267-277: called by the loop when the fd is readable *)

Callback ==
  /\ reader /\ pipe > 0
  /\ LET k == Min(waitersCnt, pipe)
         r == SemRelease(k, semValue, pc)
     IN /\ pipe' = pipe - k /\ tokens' = tokens + k /\ waitersCnt' = waitersCnt - k
        /\ semValue' = r[1] /\ pc' = r[2]
        /\ reader' = IF waitersCnt - k = 0 THEN FALSE ELSE reader
        /\ acquired' = IF FixHandover THEN acquired + k ELSE acquired
  /\ UNCHANGED <<semQ, round, childHeld, childOps>>
  /\ H("Callback", 0)

\* the selector reported the fd readable but the byte is gone when the callback runs: EAGAIN at once, 273-277
SpuriousCallback ==
  /\ reader /\ pipe = 0 /\ GenDepth > 0
  /\ Len(SelectSeq(hist, LAMBDA h : h.a = "SpuriousCallback")) < 1
  /\ reader' = IF waitersCnt = 0 THEN FALSE ELSE reader
  /\ UNCHANGED <<pipe, tokens, waitersCnt, semValue, semQ, acquired, pc, round, childHeld, childOps>>
  /\ H("SpuriousCallback", 0)

----------------------------------------------------------------------------
(* release 298-309 *)

Finished(t) == IF round[t] + 1 >= Rounds THEN "done" ELSE "idle"

\* 301-305: hand the slot over to a waiter (the byte stays in self.__tokens)
ReleaseHandover(t) ==
  /\ pc[t] = "holding" /\ waitersCnt # 0
  /\ waitersCnt' = waitersCnt - 1
  /\ LET r == SemRelease(1, semValue, [pc EXCEPT ![t] = Finished(t)])
     IN semValue' = r[1] /\ pc' = r[2]
  /\ reader' = IF waitersCnt - 1 = 0 THEN FALSE ELSE reader
  /\ acquired' = (IF FixHandover THEN acquired ELSE acquired - 1) /\ round' = [round EXCEPT ![t] = @ + 1]
  /\ UNCHANGED <<pipe, tokens, semQ, childHeld, childOps>>
  /\ H("Release", t)

\* 306-309: nobody waits: write the byte back (unless it is the implicit slot)
ReleaseWrite(t) ==
  /\ pc[t] = "holding" /\ waitersCnt = 0
  /\ IF ~Recursive \/ acquired > 1
       THEN IF tokens = 0
              THEN \* self.__tokens.pop() raises IndexError before acquired is decremented
                   /\ pc' = [pc EXCEPT ![t] = "crashed"]
                   /\ UNCHANGED <<pipe, tokens, acquired, round>>
              ELSE /\ pipe' = pipe + 1 /\ tokens' = tokens - 1 /\ acquired' = acquired - 1
                   /\ pc' = [pc EXCEPT ![t] = Finished(t)] /\ round' = [round EXCEPT ![t] = @ + 1]
       ELSE /\ acquired' = acquired - 1 /\ UNCHANGED <<pipe, tokens>>
            /\ pc' = [pc EXCEPT ![t] = Finished(t)] /\ round' = [round EXCEPT ![t] = @ + 1]
  /\ UNCHANGED <<waitersCnt, semValue, semQ, reader, childHeld, childOps>>
  /\ H("Release", t)

Release(t) == ReleaseHandover(t) \/ ReleaseWrite(t)

----------------------------------------------------------------------------
(* environment: child make processes / siblings below the same make *)

ChildTake ==
  /\ pipe > 0 /\ childHeld < MaxChild /\ childOps < MaxChildOps
  /\ pipe' = pipe - 1 /\ childHeld' = childHeld + 1 /\ childOps' = childOps + 1
  /\ UNCHANGED <<tokens, waitersCnt, semValue, semQ, acquired, reader, pc, round>>
  /\ H("ChildTake", 0)

ChildReturn ==
  /\ childHeld > 0
  /\ pipe' = pipe + 1 /\ childHeld' = childHeld - 1
  /\ UNCHANGED <<tokens, waitersCnt, semValue, semQ, acquired, reader, pc, round, childOps>>
  /\ H("ChildReturn", 0)

AllDone == (\A t \in Tasks : pc[t] = "done") /\ childHeld = 0

\* terminal stuttering (so that deadlock checking means "somebody is stuck"); off in generation mode
Done == AllDone /\ GenDepth = 0 /\ UNCHANGED vars

Acquire(t) == AcquireImplicit(t) \/ AcquireFast(t) \/ AcquireBlock(t)

Next ==
  \/ \E t \in Tasks : AcquireImplicit(t) \/ AcquireFast(t) \/ AcquireBlock(t) \/ Resume(t)
                      \/ ReleaseHandover(t) \/ ReleaseWrite(t)
  \/ Callback \/ SpuriousCallback \/ ChildTake \/ ChildReturn \/ Done

Spec == Init /\ [][Next]_vars

\* weak fairness of the loop (it runs ready callbacks and reader callbacks), of the tasks (a holder
\* eventually releases, an idle task eventually asks) and of children giving back what they took
LiveSpec ==
  /\ Spec
  /\ WF_vars(Callback)
  /\ \A t \in Tasks : WF_vars(Resume(t)) /\ WF_vars(Release(t)) /\ WF_vars(Acquire(t))
  /\ WF_vars(ChildReturn)

\* only the loop is fair: tasks may hold forever, children may keep tokens
LoopFairSpec ==
  /\ Spec
  /\ WF_vars(Callback)
  /\ \A t \in Tasks : WF_vars(Resume(t))

----------------------------------------------------------------------------
(* P layer *)

TypeOK ==
  /\ pipe \in 0..N /\ tokens \in 0..N /\ waitersCnt \in 0..K /\ semValue \in 0..K
  /\ acquired \in 0..(K + 1) /\ reader \in BOOLEAN
  /\ \A t \in Tasks : pc[t] \in {"idle", "waiting", "woken", "holding", "done", "crashed"}

\* never more jobs than the budget: Bob's running holders plus what children hold
Bounded == Cardinality(Holding) + childHeld <= N + Rec

\* no byte is created or lost, at any time
Conservation == pipe + tokens + childHeld = N

\* no duplication: every granted slot (running or handed over) is backed by a byte Bob holds or by the implicit slot
NoDuplication == Cardinality(Holding) + Cardinality(Woken) <= tokens + Rec

\* all given back once nobody holds or waits
Quiescent == (\A t \in Tasks : pc[t] \in {"idle", "done"}) /\ childHeld = 0
QuiescentAllBack == Quiescent => (pipe = N /\ tokens = 0 /\ ~reader)

\* release() never fails in a balanced use
NoCrash == \A t \in Tasks : pc[t] # "crashed"

\* safety face of "no lost wake-up": a pending waiter is always reachable by a wake-up source:
\* the reader is registered (pipe tokens reach it) -- and it is counted, so that release() hands over
NoOrphanWaiter == (Waiting # {}) => (reader /\ waitersCnt >= Cardinality(Waiting))

\* mechanism consistency (M): what the counters mean
MechConsistent ==
  /\ reader <=> (waitersCnt > 0)
  /\ waitersCnt = Cardinality(Waiting)
  /\ semValue = 0
  /\ acquired = Cardinality(Holding) + (IF FixHandover THEN Cardinality(Woken) ELSE 0)

\* liveness (LoopFairSpec): a waiting task with a byte in the pipe does not stay like that
NoLostWakeup == \A t \in Tasks : (pc[t] = "waiting" /\ pipe > 0) ~> (pc[t] # "waiting" \/ pipe = 0)
\* liveness (LiveSpec): every waiter is eventually served; everything terminates with all tokens back
WaiterServed == \A t \in Tasks : (pc[t] = "waiting") ~> (pc[t] = "holding")
Termination == <>[](AllDone /\ pipe = N /\ tokens = 0)

\* vacuity companions (negated reachability; each must be VIOLATED)
ReachHandover == ~(\E t \in Tasks : pc[t] = "woken" /\ pipe = 0 /\ tokens > 0 /\ Cardinality(Holding) < tokens)
ReachTwoWoken == ~(Cardinality(Woken) >= 2)
ReachChildStarves == ~(childHeld = N /\ Waiting # {})

----------------------------------------------------------------------------
(* generation: print the history of every maximal behaviour (or at depth GenDepth) *)
Terminal ==
  ~ \/ \E t \in Tasks : CanStart(t) \/ pc[t] \in {"woken", "holding"}
    \/ (reader /\ pipe > 0)
    \/ (reader /\ pipe = 0 /\ Len(SelectSeq(hist, LAMBDA h : h.a = "SpuriousCallback")) < 1)
    \/ (pipe > 0 /\ childHeld < MaxChild /\ childOps < MaxChildOps)
    \/ childHeld > 0
GenBound == TLCGet("level") <= GenDepth
GenPrint == (GenDepth > 0 /\ (TLCGet("level") = GenDepth \/ Terminal)) => PrintT(<<"@@", ToJson(hist)>>)

=============================================================================
