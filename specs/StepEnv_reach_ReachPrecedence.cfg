SPECIFICATION Spec
CONSTANTS DepNames = {"da", "db"}  MaxDeps = 2  Emit = FALSE
INVARIANT ReachPrecedence
CHECK_DEADLOCK FALSE
