SPECIFICATION Spec
CONSTANTS MinN = 4  MaxN = 4  NameIdx = {1, 2, 3, 5}  MaxKids = 3  MaxEdges = 3  MaxIso = 0  MaxExtraRoots = 0
          RootPerm = FALSE  Topo = TRUE  SkipTaken = TRUE  Gen = TRUE
VIEW view
INVARIANT TypeOK
INVARIANT Acyclic
INVARIANT AcyclicFinal
INVARIANT BuildOrderExists
INVARIANT UniqueNames
INVARIANT EveryPackageInExactlyOneJob
INVARIANT JobDependsOnDepsJobs
INVARIANT ChildsComplete
INVARIANT PrefixNonEmpty
CHECK_DEADLOCK FALSE
INVARIANT GenPrint
