---------------------------- MODULE JenkinsJobs ----------------------------
(* Jenkins job graph of Bob (pym/bob/cmds/jenkins/jenkins.py), property C20.

   Environment (what the property quantifies over), chosen by the set-up
   actions PickChildren / PickName / PickIso / PickRoots:
     - a labelled package DAG on 1..nn; the children of a package are visited
       in label order (= the order of getAllDepSteps(): arguments, then tools
       sorted by name, then the sandbox),
     - a package name per node, a tuple of components (<<"a","b">> is the
       package "a-b" of the multiPackage recipe "a"); several nodes with the
       same name = several variants of one package (never on one dependency
       path and never siblings: Bob rejects such recipes, see NameOK),
     - the set of package names matched by the `jobs.isolate` pattern,
     - the ordered list of roots (all sources + optional extra roots),
     - ksel: which children are tools / the sandbox (set in the last step, the
       algorithm never reads it; it steers the replay into the real code).

   M layer = JobNameCalculator.sanitize (545-668), _genJenkinsJobs /
   JenkinsJob.addStep (139-163, 681-729) and genJenkinsBuildOrder (788-808)
   transcribed as actions.  P layer = the invariants at the end.

   hist (merge decisions) is an observation variable, hidden by VIEW.       *)
EXTENDS Naturals, Sequences, FiniteSets, TLC, Json

CONSTANTS MinN, MaxN,     \* number of packages
          NameIdx,        \* usable package names: indices into NameU
          MaxKids,        \* bound on dependencies per package
          MaxEdges,       \* bound on edges
          MaxIso,         \* bound on the number of isolated package names
          MaxExtraRoots,  \* roots beyond the sources of the DAG
          RootPerm,       \* TRUE: all orders of the roots, FALSE: label order
          Topo,           \* TRUE: dependencies only towards larger labels (one labelling per topological order)
          SkipTaken,      \* TRUE: numbering skips names that are taken (the code); FALSE: numbering of the code
                          \*       before fix cd7a0eb (weakening, must violate UniqueNames)
          Gen             \* TRUE: print every finished case

VARIABLES pc, nn, kidx, edges, pname, iso, roots, ksel,   \* the case
          job, v2j, bk, dorder, ridx,                     \* sanitize(): graph
          mg,                                             \* sanitize(): merge loop
          fin, pkgName,                                   \* sanitize(): naming
          jj, bo,                                         \* job population, build order
          hist

vars == <<pc, nn, kidx, edges, pname, iso, roots, ksel, job, v2j, bk, dorder, ridx, mg, fin, pkgName, jj, bo, hist>>
view == <<pc, nn, kidx, edges, pname, iso, roots, job, v2j, bk, dorder, ridx, mg, fin, pkgName, jj, bo>>

\* Python orders the job names as strings; '-' < digits < letters, components are single characters.
NameU == << <<"a">>, <<"a","1">>, <<"a","b">>, <<"a","b","c">>, <<"a","d">>, <<"e">>, <<"f">>, <<"a","2">> >>
Comps == <<"1", "2", "3", "4", "5", "6", "7", "8", "9", "a", "b", "c", "d", "e", "f">>
Digit(i) == Comps[i]
CRank(c) == CHOOSE i \in 1..Len(Comps) : Comps[i] = c
RECURSIVE TLt(_, _)
TLt(x, y) == IF x = <<>> THEN y # <<>>
             ELSE IF y = <<>> THEN FALSE
             ELSE IF x[1] = y[1] THEN TLt(Tail(x), Tail(y))
             ELSE CRank(x[1]) < CRank(y[1])
RECURSIVE SortNames(_)
SortNames(S) == IF S = {} THEN <<>>
                ELSE LET m == CHOOSE x \in S : \A y \in S \ {x} : TLt(x, y)
                     IN <<m>> \o SortNames(S \ {m})
RECURSIVE SortNat(_)
SortNat(S) == IF S = {} THEN <<>>
              ELSE LET m == CHOOSE x \in S : \A y \in S : x <= y
                   IN <<m>> \o SortNat(S \ {m})
Range(s) == {s[i] : i \in DOMAIN s}

Nodes == 1..nn
Kids(E, n) == {e[2] : e \in {x \in E : x[1] = n}}
RECURSIVE Desc(_, _, _)
Desc(E, F, S) == IF F = {} THEN S
                 ELSE LET nx == UNION {Kids(E, f) : f \in F} \ S IN Desc(E, nx, S \cup nx)
Below(E, n) == Desc(E, {n}, {})          \* proper descendants
Sources == {n \in Nodes : \A e \in edges : e[2] # n}

EmptyJob == [pkgs |-> {}, parents |-> {}, childs |-> {}]
NoMg == [bq |-> <<>>, bname |-> <<>>, active |-> FALSE, cur |-> 0, rem |-> <<>>, todo |-> <<>>, done |-> <<>>]

Init ==
  /\ nn \in MinN..MaxN
  /\ pc = "kids" /\ kidx = 1 /\ edges = {}
  /\ pname = <<>> /\ iso = {} /\ roots = <<>> /\ ksel = 0
  /\ job = <<>> /\ v2j = <<>> /\ bk = <<>> /\ dorder = <<>> /\ ridx = 1
  /\ mg = NoMg /\ fin = <<>> /\ pkgName = <<>> /\ jj = <<>> /\ bo = "none"
  /\ hist = <<>>

----------------------------------------------------------------------------
(* set-up: the recipe graph and the Jenkins configuration (environment) *)

PickChildren ==
  /\ pc = "kids"
  /\ \E C \in SUBSET (IF Topo THEN (kidx + 1)..nn ELSE Nodes \ {kidx}) :
       /\ Cardinality(C) <= MaxKids
       /\ Cardinality(edges) + Cardinality(C) <= MaxEdges
       /\ \A c \in C : kidx \notin Below(edges, c)          \* stays acyclic
       /\ edges' = edges \cup {<<kidx, c>> : c \in C}
  /\ IF kidx = nn THEN pc' = "names" /\ kidx' = kidx ELSE pc' = pc /\ kidx' = kidx + 1
  /\ UNCHANGED <<nn, pname, iso, roots, ksel, job, v2j, bk, dorder, ridx, mg, fin, pkgName, jj, bo, hist>>

\* What Bob accepts as a recipe graph (pym/bob/input.py): a package name occurs once per dependency path
\* (2518 "Recipes are cyclic"), a package names each dependency once (2643-2647 "Multiple incompatible
\* dependencies"), and root packages are addressed by their name.
NameOK(k, nm) ==
  \A q \in 1..Len(pname) :
     ( \/ q \in Below(edges, k) \/ k \in Below(edges, q)
       \/ \E p \in Nodes : <<p, k>> \in edges /\ <<p, q>> \in edges
       \/ (q \in Sources /\ k \in Sources) ) => pname[q] # nm

PickName ==          \* one package after the other
  /\ pc = "names"
  /\ \E i \in NameIdx : NameOK(Len(pname) + 1, NameU[i]) /\ pname' = Append(pname, NameU[i])
  /\ pc' = IF Len(pname) + 1 = nn THEN "iso" ELSE pc
  /\ UNCHANGED <<nn, kidx, edges, iso, roots, ksel, job, v2j, bk, dorder, ridx, mg, fin, pkgName, jj, bo, hist>>

PickIso ==
  /\ pc = "iso"
  /\ iso' \in {S \in SUBSET Range(pname) : Cardinality(S) <= MaxIso}
  /\ pc' = "roots"
  /\ UNCHANGED <<nn, kidx, edges, pname, roots, ksel, job, v2j, bk, dorder, ridx, mg, fin, pkgName, jj, bo, hist>>

\* 582: name = pkgName if isolate(pkgName) else recipe name
BName(n) == IF pname[n] \in iso THEN pname[n] ELSE <<pname[n][1]>>

Perms(S) == {f \in [1..Cardinality(S) -> S] : \A i, k \in DOMAIN f : i # k => f[i] # f[k]}

PickRoots ==
  /\ pc = "roots"
  /\ \E S \in SUBSET Nodes :
       /\ Sources \subseteq S /\ Cardinality(S) <= Cardinality(Sources) + MaxExtraRoots
       /\ roots' \in (IF RootPerm THEN Perms(S) ELSE {SortNat(S)})
  /\ job' = [n \in Nodes |-> EmptyJob]
  /\ v2j' = [n \in Nodes |-> 0]
  /\ bk' = [b \in {BName(n) : n \in Nodes} |-> <<>>]
  /\ pc' = "discover"
  /\ UNCHANGED <<nn, kidx, edges, pname, iso, ksel, dorder, ridx, mg, fin, pkgName, jj, bo, hist>>

----------------------------------------------------------------------------
(* M: sanitize(), first part: span the graph (566-599) *)

PkgsOf(st, P) == IF P = 0 THEN {} ELSE st.job[P].pkgs      \* 599: the roots' parent is an empty AbstractJob()

RECURSIVE Visit(_, _, _), VisitKids(_, _, _)
\* addStep(step, parentJob) 572-593 on package level (a build/checkout step adds to the job of its package)
Visit(st, n, P) ==
  IF st.v2j[n] = 0
  THEN LET st1 == [st EXCEPT !.v2j[n] = n,                                              \* 580
                             !.job[n] = [pkgs |-> {n}, parents |-> PkgsOf(st, P), childs |-> {}],   \* 579
                             !.bk[BName(n)] = Append(@, n),                             \* 583
                             !.ord = Append(@, n)]
           st2 == VisitKids(st1, n, SortNat(Kids(edges, n)))                            \* 588-589
       IN [st |-> st2, ret |-> st2.job[n].pkgs \cup st2.job[n].childs]                  \* 593
  ELSE LET j == st.v2j[n]
           st1 == [st EXCEPT !.job[j].parents = @ \cup PkgsOf(st, P)]                   \* 591
       IN [st |-> st1, ret |-> st1.job[j].pkgs \cup st1.job[j].childs]
VisitKids(st, n, ks) ==
  IF ks = <<>> THEN st
  ELSE LET r == Visit(st, Head(ks), n)
       IN VisitKids([r.st EXCEPT !.job[n].childs = @ \cup r.ret], n, Tail(ks))          \* 589

\* merge loop bookkeeping that involves no decision: 612-618, 628-629
RECURSIVE Norm(_, _)
Norm(m, b) ==   \* returns [m, b]: loop state and nameToJobs
  IF m.cur # 0 /\ m.rem # <<>> THEN [m |-> m, b |-> b]                                  \* a comparison is pending
  ELSE IF m.cur # 0 THEN Norm([m EXCEPT !.done = Append(@, m.cur), !.cur = 0], b)       \* 628 jobs.append(i)
  ELSE IF m.todo # <<>> THEN Norm([m EXCEPT !.cur = Head(m.todo), !.rem = Tail(m.todo), !.todo = <<>>], b)   \* 615-618
  ELSE IF m.active THEN Norm([m EXCEPT !.active = FALSE, !.done = <<>>], [b EXCEPT ![m.bname] = m.done])     \* 629
  ELSE IF m.bq # <<>> THEN Norm([m EXCEPT !.bname = Head(m.bq), !.bq = Tail(m.bq), !.todo = b[Head(m.bq)],
                                          !.active = TRUE], b)                          \* 612-614
  ELSE [m |-> m, b |-> b]

Discover ==
  /\ pc = "discover"
  /\ LET r == Visit([job |-> job, v2j |-> v2j, bk |-> bk, ord |-> dorder], roots[ridx], 0)   \* 598-599
     IN /\ job' = r.st.job /\ v2j' = r.st.v2j /\ dorder' = r.st.ord
        /\ IF ridx = Len(roots)
             THEN LET z == Norm([NoMg EXCEPT !.bq = SortNames(DOMAIN r.st.bk)], r.st.bk)    \* 612 sorted(nameToJobs.keys())
                  IN mg' = z.m /\ bk' = z.b /\ pc' = "merge" /\ ridx' = ridx
             ELSE mg' = mg /\ bk' = r.st.bk /\ pc' = pc /\ ridx' = ridx + 1
  /\ UNCHANGED <<nn, kidx, edges, pname, iso, roots, ksel, fin, pkgName, jj, bo, hist>>

----------------------------------------------------------------------------
(* M: sanitize(), second part: collapse jobs with the same name (601-629) *)

\* addChilds(pkgs, childs) 602-607 (uses vidToJob as it is before line 627)
RECURSIVE AddChilds(_, _, _, _)
AddChilds(jb, vj, pkgs, ch) ==
  IF pkgs = {} THEN jb
  ELSE LET p == CHOOSE x \in pkgs : TRUE
           j == vj[p]
           jb1 == IF ch \subseteq jb[j].childs THEN jb
                  ELSE AddChilds([jb EXCEPT ![j].childs = @ \cup ch], vj, jb[j].parents, ch)
       IN AddChilds(jb1, vj, pkgs \ {p}, ch)

MergePending == pc = "merge" /\ mg.cur # 0
\* 620: fully reachable in one direction -> merging would close a cycle
FullyReachable(i, j) == \/ (job[j].pkgs \cup job[j].childs) \subseteq job[i].childs
                        \/ (job[i].pkgs \cup job[i].childs) \subseteq job[j].childs

\* 620-621
TryMergeSkip ==
  /\ MergePending
  /\ LET i == mg.cur  j == Head(mg.rem) IN
       /\ FullyReachable(i, j)
       /\ LET z == Norm([mg EXCEPT !.todo = Append(@, j), !.rem = Tail(@)], bk)
          IN mg' = z.m /\ bk' = z.b
       /\ hist' = Append(hist, <<"skip", i, j>>)
  /\ UNCHANGED <<pc, nn, kidx, edges, pname, iso, roots, ksel, job, v2j, dorder, ridx, fin, pkgName, jj, bo>>

\* 622-627
TryMergeJoin ==
  /\ MergePending
  /\ LET i == mg.cur  j == Head(mg.rem) IN
       /\ ~FullyReachable(i, j)
       /\ LET job1 == [job EXCEPT ![i] = [pkgs |-> job[i].pkgs \cup job[j].pkgs,           \* 624
                                          parents |-> job[i].parents \cup job[j].parents,   \* 623
                                          childs |-> job[i].childs \cup job[j].childs]]     \* 625
              job2 == AddChilds(job1, v2j, job1[i].parents, job1[i].pkgs \cup job1[i].childs)   \* 626
          IN /\ job' = job2
             /\ v2j' = [k \in Nodes |-> IF k \in job[j].pkgs THEN i ELSE v2j[k]]            \* 627
       /\ LET z == Norm([mg EXCEPT !.rem = Tail(@)], bk)
          IN mg' = z.m /\ bk' = z.b
       /\ hist' = Append(hist, <<"join", i, j>>)
  /\ UNCHANGED <<pc, nn, kidx, edges, pname, iso, roots, ksel, dorder, ridx, fin, pkgName, jj, bo>>

----------------------------------------------------------------------------
(* M: sanitize(), third part: names (631-668) *)

RECURSIVE CommonPrefix(_)
CommonPrefix(S) ==                                      \* 640-646, zip stops at the shortest name
  IF \E s \in S : s = <<>> THEN <<>>
  ELSE LET h == {s[1] : s \in S}
       IN IF Cardinality(h) = 1 THEN <<CHOOSE x \in h : TRUE>> \o CommonPrefix({Tail(s) : s \in S})
          ELSE <<>>
LongestPrefix(pkgs) == IF Cardinality(pkgs) = 1 THEN pname[CHOOSE p \in pkgs : TRUE]       \* 636-638
                       ELSE CommonPrefix({pname[p] : p \in pkgs})

\* 652-657: (target name, job) in iteration order
RECURSIVE NamePairs(_)
NamePairs(bs) ==
  IF bs = <<>> THEN <<>>
  ELSE LET b == Head(bs)  js == bk[b]
       IN (IF Len(js) > 1 THEN [k \in 1..Len(js) |-> <<LongestPrefix(job[js[k]].pkgs), js[k]>>]
           ELSE [k \in 1..Len(js) |-> <<b, js[k]>>]) \o NamePairs(Tail(bs))
RECURSIVE Collect(_, _)
Collect(ps, f) ==                                       \* finalNames.setdefault(name, []).append(j)
  IF ps = <<>> THEN f
  ELSE LET nm == Head(ps)[1]  j == Head(ps)[2]
       IN Collect(Tail(ps), IF nm \in DOMAIN f THEN [f EXCEPT ![nm] = Append(@, j)] ELSE f @@ (nm :> <<j>>))

PrefixNames ==
  /\ pc = "merge" /\ mg.cur = 0
  /\ fin' = Collect(NamePairs(SortNames(DOMAIN bk)), <<>>)
  /\ pc' = "number"
  /\ UNCHANGED <<nn, kidx, edges, pname, iso, roots, ksel, job, v2j, bk, dorder, ridx, mg, pkgName, jj, bo, hist>>

\* 661-673: several jobs for one name are numbered; a number whose name is a key of finalNames is skipped
RECURSIVE NextFree(_, _)
NextFree(nm, i) == IF SkipTaken /\ Append(nm, Digit(i)) \in DOMAIN fin THEN NextFree(nm, i + 1) ELSE i     \* 671
RECURSIVE Numbers(_, _, _)
Numbers(nm, k, prev) ==                                  \* numbers of the jobs k.. of finalNames[nm]
  IF k > Len(fin[nm]) THEN <<>>
  ELSE LET i == NextFree(nm, prev + 1) IN <<i>> \o Numbers(nm, k + 1, i)                                   \* 670-671

Number ==
  /\ pc = "number"
  /\ pkgName' = [p \in Range(dorder) |->
        LET nm == CHOOSE x \in DOMAIN fin : v2j[p] \in Range(fin[x])
            k == CHOOSE i \in DOMAIN fin[nm] : fin[nm][i] = v2j[p]
        IN IF Len(fin[nm]) = 1 THEN nm ELSE Append(nm, Digit(Numbers(nm, 1, 0)[k]))]                       \* 664, 673
  /\ pc' = "populate"
  /\ UNCHANGED <<nn, kidx, edges, pname, iso, roots, ksel, job, v2j, bk, dorder, ridx, mg, fin, jj, bo, hist>>

----------------------------------------------------------------------------
(* M: _genJenkinsJobs 681-729 with JenkinsJob.addStep 139-163: jobs are keyed by name;
   a job's dependencies are all dependencies of its steps that it does not build itself *)

Populate ==
  /\ pc = "populate"
  /\ jj' = [nm \in Range(pkgName) |->
        LET steps == {p \in DOMAIN pkgName : pkgName[p] = nm}
        IN [steps |-> steps,
            up |-> {pkgName[q] : q \in (UNION {Kids(edges, p) : p \in steps}) \ steps}]]
  /\ pc' = "order"
  /\ UNCHANGED <<nn, kidx, edges, pname, iso, roots, ksel, job, v2j, bk, dorder, ridx, mg, fin, pkgName, bo, hist>>

NameEdges == {<<a, b>> \in (DOMAIN jj) \X (DOMAIN jj) : b \in jj[a].up}
HasCycle(V, E) == \E v \in V : v \in Below(E, v)

\* genJenkinsBuildOrder 788-808
BuildOrder ==
  /\ pc = "order"
  /\ bo' = IF HasCycle(DOMAIN jj, NameEdges) THEN "cyclic" ELSE "ok"      \* 790-791
  /\ ksel' = (Cardinality(edges) + nn + Len(roots) + Cardinality(iso) + Len(hist)) % 5    \* any pattern; never read by M
  /\ pc' = "done"
  /\ UNCHANGED <<nn, kidx, edges, pname, iso, roots, job, v2j, bk, dorder, ridx, mg, fin, pkgName, jj, hist>>

Next == \/ PickChildren \/ PickName \/ PickIso \/ PickRoots
        \/ Discover \/ TryMergeSkip \/ TryMergeJoin \/ PrefixNames \/ Number
        \/ Populate \/ BuildOrder

Spec == Init /\ [][Next]_vars

----------------------------------------------------------------------------
(* P layer: stated on the package graph and the resulting jobs only *)

Reach == UNION {{r} \cup Below(edges, r) : r \in Range(roots)}
AfterDiscover == pc \in {"merge", "number", "populate", "order", "done"}
Alive == {v2j[p] : p \in Nodes}
QEdges == {<<v2j[e[1]], v2j[e[2]]>> : e \in {x \in edges : v2j[x[1]] # v2j[x[2]]}}

TypeOK ==
  /\ pc \in {"kids", "names", "iso", "roots", "discover", "merge", "number", "populate", "order", "done"}
  /\ bo \in {"none", "ok", "cyclic"}
  /\ pc = "done" => Reach = Nodes

\* after every merge the job graph (packages collapsed into their jobs) is acyclic ...
Acyclic == AfterDiscover => ~HasCycle(Alive, QEdges)
\* ... and so is the graph of the generated jobs; the build order exists
AcyclicFinal == pc \in {"order", "done"} => ~HasCycle(DOMAIN jj, NameEdges)
BuildOrderExists == pc = "done" => bo = "ok"

\* distinct jobs have distinct names
UniqueNames == pc \in {"populate", "order", "done"} =>
                 \A p, q \in Nodes : pkgName[p] = pkgName[q] => v2j[p] = v2j[q]

\* every reachable package is built by exactly one job (during merging and in the end)
EveryPackageInExactlyOneJob ==
  /\ AfterDiscover => \A p \in Nodes : {j \in Alive : p \in job[j].pkgs} = {v2j[p]}
  /\ pc \in {"order", "done"} => \A p \in Reach : Cardinality({nm \in DOMAIN jj : p \in jj[nm].steps}) = 1

\* the job of p depends directly on the jobs of all dependencies of p that it does not build itself
JobDependsOnDepsJobs ==
  pc \in {"order", "done"} =>
    \A e \in edges : \A a, b \in DOMAIN jj :
       (e[1] \in jj[a].steps /\ e[2] \in jj[b].steps /\ a # b) => b \in jj[a].up

\* mechanism lemma that makes the test of line 620 sound: childs over-approximates reachability
ChildsComplete ==
  AfterDiscover => \A j \in Alive :
     (UNION {job[k].pkgs : k \in Below(QEdges, j)}) \subseteq job[j].childs

\* the prefix of a job is never empty (all its packages share the recipe name)
PrefixNonEmpty == pc \in {"number", "populate", "order", "done"} => \A nm \in DOMAIN fin : nm # <<>>

\* vacuity companions (negated reachability; each must be VIOLATED)
ReachSkipThenJoin == ~(pc = "done" /\ \E i, k \in DOMAIN hist : i < k /\ hist[i][1] = "skip" /\ hist[k][1] = "join")
ReachNumbered == ~(pc = "done" /\ \E nm \in DOMAIN fin : Len(fin[nm]) > 1)
ReachPrefixNamed == ~(pc = "done" /\ \E nm \in DOMAIN fin : nm \notin DOMAIN bk /\ Len(fin[nm]) = 1)
ReachPropagation == ~(pc = "merge" /\ \E j \in Alive : \E p \in job[j].childs :
                          p \notin UNION {{q} \cup Below(edges, q) : q \in job[j].pkgs})

----------------------------------------------------------------------------
(* generation: print every finished case with M's result *)
Pat(n) == (ksel + n) % 5
KindOf(n, pos, len) ==      \* children in label order: arguments "a" first, then tools "t", the sandbox "s" last
  LET t == Pat(n) IN
  IF t = 1 /\ pos = len THEN "t"
  ELSE IF t = 2 /\ pos = len THEN "s"
  ELSE IF t = 3 /\ pos = len /\ len > 1 THEN "s"
  ELSE IF t = 3 /\ ((len > 1 /\ pos = len - 1) \/ len = 1) THEN "t"
  ELSE IF t = 4 /\ pos >= len - 1 THEN "t"
  ELSE "a"
KindSeq == [n \in Nodes |-> LET ks == SortNat(Kids(edges, n))
                            IN [i \in 1..Len(ks) |-> <<ks[i], KindOf(n, i, Len(ks))>>]]
RECURSIVE Join(_)
Join(t) == IF Len(t) = 1 THEN t[1] ELSE t[1] \o "-" \o Join(Tail(t))
Out == [n |-> nn, d |-> KindSeq, nm |-> [p \in Nodes |-> Join(pname[p])], iso |-> {Join(x) : x \in iso},
        r |-> roots, k |-> ksel, o |-> dorder, h |-> hist,
        j |-> {[name |-> Join(pkgName[CHOOSE p \in job[x].pkgs : TRUE]), pkgs |-> job[x].pkgs] : x \in Alive},
        bo |-> bo]
GenPrint == (Gen /\ pc = "done") => PrintT(<<"@@", ToJson(Out)>>)

=============================================================================
