\* coverage / vacuity run: every action of the module must be taken (2 modifications, all base trees)
INIT Init
NEXT Next
CONSTANTS Contents = {1, 2, 3}  Modes = {1, 2}  NewContents = {1, 3}  NewModes = {1}
           Targets = {1}  DirModes = {1}
          Bases = {1, 2, 3, 4, 5, 6}  MaxOps = 2  MaxBurst = 1  Gen = FALSE
VIEW view
INVARIANT TypeOK
INVARIANT CacheTransparent
INVARIANT IndexSorted
INVARIANT IndexNeverLies
INVARIANT OutSorted
CHECK_DEADLOCK FALSE
