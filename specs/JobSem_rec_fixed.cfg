SPECIFICATION Spec
CONSTANTS K = 3  N = 1  Recursive = TRUE  Rounds = 2  MaxChild = 1  MaxChildOps = 2  GenDepth = 0  FixHandover = TRUE
INVARIANT TypeOK
INVARIANT Bounded
INVARIANT Conservation
INVARIANT NoDuplication
INVARIANT QuiescentAllBack
INVARIANT NoCrash
INVARIANT NoOrphanWaiter
INVARIANT MechConsistent
