SPECIFICATION Spec
CONSTANTS MaxArt = 3  MaxHist = 3  MaxCmd = 2  Sweep = "none"  GenDepth = 0
CONSTANT Recs <- RecsTiny
CONSTANT Shapes <- ShapesSmall
CONSTANT ExprLists <- ExprListsSmall
VIEW view
INVARIANT CleanExactProbe
CHECK_DEADLOCK FALSE
