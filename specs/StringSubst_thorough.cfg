SPECIFICATION Spec
CONSTANTS MaxSize = 3  Rich = FALSE  TowerDepth = 6  ProtLen = 3  RawLen = 5
          MaxESize = 4  ETower = 9  RawELen = 4  BigEnv = TRUE  Emit = TRUE
INVARIANT TypeOK
INVARIANT NounsetOnlyAddsErrors
INVARIANT DqTransparent
INVARIANT ProtectedUnchanged
INVARIANT UntakenIrrelevant
INVARIANT InfixEqualsFun
INVARIANT NotNot
INVARIANT Trichotomy
INVARIANT EProtTrue
INVARIANT IllIsError
INVARIANT EmitCase
CHECK_DEADLOCK FALSE
