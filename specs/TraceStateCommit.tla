------------------------- MODULE TraceStateCommit -------------------------
(* Code -> spec: validates batches of event traces recorded from the real
   bob.state._BobState (file-system operations observed by the interposer plus
   the API calls of the driver) against StateCommit.  Every invariant of the
   P layer is evaluated on every state of the matched behaviour.

   TRACE_FILE (env) = JSON array of traces, each an array of event records.
   Register 1 collects, per trace id, the longest matched prefix; the driver
   compares it with the trace length (POSTCONDITION prints it).              *)
EXTENDS StateCommit, IOUtils, TLCExt

Traces == JsonDeserialize(IOEnv.TRACE_FILE)

VARIABLES tid, l

tvars == <<vars, tid, l>>

Tr == Traces[tid]
Cur == Tr[l]
IsEvent(e) == l <= Len(Tr) /\ Cur.e = e /\ l' = l + 1 /\ tid' = tid
Silent == UNCHANGED <<tid, l>>

TrackInit == TLCSet(1, [i \in 1..Len(Traces) |-> 0])

TraceInit == TrackInit /\ Init /\ tid \in 1..Len(Traces) /\ l = 1

TraceNext ==
  \/ IsEvent("StartLock") /\ StartLock
  \/ IsEvent("StartRefused") /\ StartRefused
  \/ IsEvent("SecondInstance") /\ SecondInstance /\ refused'
  \/ Silent /\ StartNoNew
  \/ Silent /\ FinNoNew
  \/ IsEvent("Fsync") /\ (StartFsync \/ FinFsync)
  \/ IsEvent("RenameNewPickle") /\ (StartRename \/ FinRename)
  \/ IsEvent("Discard") /\ StartDiscard
  \/ IsEvent("Loaded") /\ StartLoad /\ loaded' = Cur.snap
  \/ IsEvent("Mutate") /\ Mutate /\ mem' = Cur.snap
  \/ IsEvent("WriteDirty") /\ WriteDirty
  \/ IsEvent("RenameDirtyNew") /\ RenameDirtyNew
  \/ IsEvent("AsyncBegin") /\ AsyncBegin
  \/ IsEvent("AsyncEnd") /\ AsyncEnd
  \/ IsEvent("Finalize") /\ Finalize
  \/ IsEvent("Unlock") /\ FinUnlock
  \/ IsEvent("RemoveLock") /\ UserRemovesLock
  \/ IsEvent("Crash") /\ pc = Cur.at /\ Crash
       /\ newf'.ok = (newf.ok /\ ~Cur.tornNew)
       /\ dirty'.ok = (dirty.ok /\ ~Cur.tornDirty)

TraceSpec == TraceInit /\ [][TraceNext]_tvars

\* evaluated on every reachable state (as a CONSTRAINT): remember the longest prefix per trace
Track ==
  /\ TLCSet(1, [TLCGet(1) EXCEPT ![tid] = IF @ < l - 1 THEN l - 1 ELSE @])

Report == PrintT(<<"@@", ToJson(TLCGet(1))>>)
=============================================================================
