SPECIFICATION Spec
CONSTANTS DepNames = {"da", "db"}  MaxDeps = 2  Emit = FALSE
INVARIANT ReachSandboxEnvVisible
CHECK_DEADLOCK FALSE
