\* thorough exhaustive: <= 3 modifications, full alphabets, all base trees
INIT Init
NEXT Next
CONSTANTS Contents = {1, 2, 3}  Modes = {1, 2}  NewContents = {1, 2, 3}  NewModes = {1, 2}
           Targets = {1, 2}  DirModes = {1, 2}
          Bases = {1, 2, 3, 4, 5, 6}  MaxOps = 3  MaxBurst = 1  Gen = FALSE
VIEW view
INVARIANT TypeOK
INVARIANT CacheTransparent
INVARIANT IndexSorted
INVARIANT IndexNeverLies
INVARIANT OutSorted
CHECK_DEADLOCK FALSE
