SPECIFICATION SpecDev
CONSTANTS Pkg <- PkgMulti  RecipeOf <- RecipeMulti  StrPrefix <- PrefixNone
CONSTANTS NV = 2  NS = 2  MaxLen = 3  MaxChg = 8  MaxNum = 4  GenDepth = 14  KeepRule = "prefix"
CONSTANT Weak = {}
INVARIANT GenPrint
CHECK_DEADLOCK FALSE
