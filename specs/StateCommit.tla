--------------------------- MODULE StateCommit ---------------------------
(* Workspace-state commit protocol of Bob (pym/bob/state.py), property C10.

   Files: .bob-state.pickle (pickle), .bob-state.pickle.new (newf),
   .bob-state.pickle.new.dirty (dirty), .bob-state.lock (lock).
   A file is [ex, snap, synced, ok]: ex = exists, snap = the snapshot number it
   holds, synced = its data reached stable storage, ok = content intact.

   M layer = one action per file-system effect of the code, in code order
   (line numbers of state.py in comments).  P layer = the invariants at the end.

   hist is an observation variable for behaviour generation (hidden by VIEW in
   the exhaustive config).                                                     *)
EXTENDS Naturals, Integers, Sequences, FiniteSets, TLC, Json

CONSTANTS MaxSnap,     \* bound on the number of state mutations
          MaxInv,      \* bound on completed invocations
          MaxCrash,    \* bound on crashes
          MaxAsync,    \* bound on nesting of asynchronous sections
          GenDepth     \* behaviour length in generation mode (0 = no printing)

VARIABLES pickle, newf, dirty, lock,
          pc, mem, async, dflag,
          saved, lastCompleted, nsnap, ninv, ncrash, loaded, refused,
          hist

files == <<pickle, newf, dirty>>
vars  == <<pickle, newf, dirty, lock, pc, mem, async, dflag,
           saved, lastCompleted, nsnap, ninv, ncrash, loaded, refused, hist>>
view  == <<pickle, newf, dirty, lock, pc, mem, async, dflag,
           saved, lastCompleted, nsnap, ninv, ncrash, loaded, refused>>

None == [ex |-> FALSE, snap |-> 0, synced |-> TRUE, ok |-> TRUE]
File(s) == [ex |-> TRUE, snap |-> s, synced |-> FALSE, ok |-> TRUE]

H(a) == hist' = Append(hist, a)
NoH  == UNCHANGED hist

Init ==
  /\ pickle = None /\ newf = None /\ dirty = None /\ lock = FALSE
  /\ pc = "off" /\ mem = 0 /\ async = 0 /\ dflag = FALSE
  /\ saved = {} /\ lastCompleted = 0 /\ nsnap = 0 /\ ninv = 0 /\ ncrash = 0
  /\ loaded = -1 /\ refused = FALSE
  /\ hist = <<>>

----------------------------------------------------------------------------
(* start-up: state.py 347-422 *)

\* 350: os.open(O_CREAT|O_EXCL)
StartLock ==
  /\ pc = "off" /\ ~lock /\ ninv < MaxInv
  /\ lock' = TRUE /\ pc' = "s_lock" /\ refused' = FALSE
  /\ H([a |-> "Start"])
  /\ UNCHANGED <<pickle, newf, dirty, mem, async, dflag, saved, lastCompleted, nsnap, ninv, ncrash, loaded>>

\* 352-356: EEXIST -> "Workspace state locked by other Bob instance!"
StartRefused ==
  /\ pc = "off" /\ lock /\ ~refused
  /\ refused' = TRUE
  /\ H([a |-> "StartRefused"])
  /\ UNCHANGED <<pickle, newf, dirty, lock, pc, mem, async, dflag, saved, lastCompleted, nsnap, ninv, ncrash, loaded>>

\* a second instance while the first one runs: must be refused (lock exists)
SecondInstance ==
  /\ pc \notin {"off"} /\ ~refused
  /\ refused' = lock
  /\ H([a |-> "SecondInstance", refused |-> lock])
  /\ UNCHANGED <<pickle, newf, dirty, lock, pc, mem, async, dflag, saved, lastCompleted, nsnap, ninv, ncrash, loaded>>

\* 453-455: no uncommitted state
StartNoNew ==
  /\ pc = "s_lock" /\ ~newf.ex
  /\ pc' = "s_load" /\ NoH
  /\ UNCHANGED <<pickle, newf, dirty, lock, mem, async, dflag, saved, lastCompleted, nsnap, ninv, ncrash, loaded, refused>>

\* 459-464: checksum computed, fsync (issued whether or not the checksum matched)
StartFsync ==
  /\ pc = "s_lock" /\ newf.ex
  /\ newf' = [newf EXCEPT !.synced = TRUE]
  /\ pc' = "s_fsynced" /\ NoH
  /\ UNCHANGED <<pickle, dirty, lock, mem, async, dflag, saved, lastCompleted, nsnap, ninv, ncrash, loaded, refused>>

\* 466: replacePath(new, pickle)
StartRename ==
  /\ pc = "s_fsynced" /\ newf.ok
  /\ pickle' = newf /\ newf' = None
  /\ pc' = "s_load" /\ NoH
  /\ UNCHANGED <<dirty, lock, mem, async, dflag, saved, lastCompleted, nsnap, ninv, ncrash, loaded, refused>>

\* 468-480: checksum mismatch -> discard
StartDiscard ==
  /\ pc = "s_fsynced" /\ ~newf.ok
  /\ newf' = None
  /\ pc' = "s_load" /\ NoH
  /\ UNCHANGED <<pickle, dirty, lock, mem, async, dflag, saved, lastCompleted, nsnap, ninv, ncrash, loaded, refused>>

\* 368-394: load
StartLoad ==
  /\ pc = "s_load"
  /\ loaded' = IF pickle.ex THEN pickle.snap ELSE 0
  /\ mem' = loaded'
  /\ pc' = "run"
  /\ H([a |-> "Loaded", snap |-> loaded'])
  /\ UNCHANGED <<pickle, newf, dirty, lock, async, dflag, saved, lastCompleted, nsnap, ninv, ncrash, refused>>

----------------------------------------------------------------------------
(* mutation: every public setter ends in __save, state.py 424-451 *)

Mutate ==
  /\ pc = "run" /\ nsnap < MaxSnap
  /\ nsnap' = nsnap + 1 /\ mem' = nsnap + 1
  /\ IF async = 0
       THEN /\ pc' = "wd" /\ saved' = saved \cup {nsnap + 1} /\ UNCHANGED dflag
       ELSE /\ dflag' = TRUE /\ UNCHANGED <<pc, saved>>
  /\ H([a |-> "Mutate", snap |-> nsnap + 1])
  /\ UNCHANGED <<pickle, newf, dirty, lock, async, lastCompleted, ninv, ncrash, loaded, refused>>

\* 444-446: open(dirty,"wb"), pickle.dump through DigestAdder, close -- no fsync
WriteDirty ==
  /\ pc = "wd"
  /\ dirty' = File(mem)
  /\ pc' = "rn" /\ NoH
  /\ UNCHANGED <<pickle, newf, lock, mem, async, dflag, saved, lastCompleted, nsnap, ninv, ncrash, loaded, refused>>

\* 447: replacePath(dirty, new)
RenameDirtyNew ==
  /\ pc = "rn"
  /\ newf' = dirty /\ dirty' = None
  /\ pc' = "run" /\ NoH
  /\ UNCHANGED <<pickle, lock, mem, async, dflag, saved, lastCompleted, nsnap, ninv, ncrash, loaded, refused>>

\* 519-520
AsyncBegin ==
  /\ pc = "run" /\ async < MaxAsync
  /\ async' = async + 1
  /\ H([a |-> "AsyncBegin"])
  /\ UNCHANGED <<pickle, newf, dirty, lock, pc, mem, dflag, saved, lastCompleted, nsnap, ninv, ncrash, loaded, refused>>

\* 522-526
AsyncEnd ==
  /\ pc = "run" /\ async > 0
  /\ async' = async - 1
  /\ IF async = 1 /\ dflag
       THEN /\ dflag' = FALSE /\ pc' = "wd" /\ saved' = saved \cup {mem}
       ELSE UNCHANGED <<dflag, pc, saved>>
  /\ H([a |-> "AsyncEnd"])
  /\ UNCHANGED <<pickle, newf, dirty, lock, mem, lastCompleted, nsnap, ninv, ncrash, loaded, refused>>

----------------------------------------------------------------------------
(* finalize: state.py 496-517, __commit(verify=False) *)

Finalize ==
  /\ pc = "run" /\ async = 0 /\ ~dflag
  /\ pc' = "f_commit"
  /\ H([a |-> "Finalize"])
  /\ UNCHANGED <<pickle, newf, dirty, lock, mem, async, dflag, saved, lastCompleted, nsnap, ninv, ncrash, loaded, refused>>

FinNoNew ==
  /\ pc = "f_commit" /\ ~newf.ex
  /\ pc' = "f_unlock" /\ NoH
  /\ UNCHANGED <<pickle, newf, dirty, lock, mem, async, dflag, saved, lastCompleted, nsnap, ninv, ncrash, loaded, refused>>

\* 464: fsync (no verification)
FinFsync ==
  /\ pc = "f_commit" /\ newf.ex
  /\ newf' = [newf EXCEPT !.synced = TRUE]
  /\ pc' = "f_fsynced" /\ NoH
  /\ UNCHANGED <<pickle, dirty, lock, mem, async, dflag, saved, lastCompleted, nsnap, ninv, ncrash, loaded, refused>>

\* 466
FinRename ==
  /\ pc = "f_fsynced"
  /\ pickle' = newf /\ newf' = None
  /\ pc' = "f_unlock" /\ NoH
  /\ UNCHANGED <<dirty, lock, mem, async, dflag, saved, lastCompleted, nsnap, ninv, ncrash, loaded, refused>>

\* 508-510: unlink lock; the invocation is complete
FinUnlock ==
  /\ pc = "f_unlock"
  /\ lock' = FALSE /\ pc' = "off"
  /\ lastCompleted' = mem /\ ninv' = ninv + 1 /\ loaded' = -1
  /\ NoH
  /\ UNCHANGED <<pickle, newf, dirty, mem, async, dflag, saved, nsnap, ncrash, refused>>

----------------------------------------------------------------------------
(* environment *)

Torn(f, t) == IF f.ex /\ ~f.synced /\ t THEN [f EXCEPT !.ok = FALSE, !.synced = TRUE]
              ELSE [f EXCEPT !.synced = TRUE]

\* kill -9 / power loss at any instant; unsynced content may be torn
Crash ==
  /\ pc # "off" /\ ncrash < MaxCrash
  /\ \E tp, tn, td \in BOOLEAN :
       /\ (tp => (pickle.ex /\ ~pickle.synced))
       /\ (tn => (newf.ex /\ ~newf.synced))
       /\ (td => (dirty.ex /\ ~dirty.synced))
       /\ pickle' = Torn(pickle, tp) /\ newf' = Torn(newf, tn) /\ dirty' = Torn(dirty, td)
       /\ H([a |-> "Crash", at |-> pc, tornNew |-> tn, tornDirty |-> td, tornPickle |-> tp])
  /\ pc' = "off" /\ async' = 0 /\ dflag' = FALSE /\ loaded' = -1
  /\ ncrash' = ncrash + 1 /\ refused' = FALSE
  /\ UNCHANGED <<lock, mem, saved, lastCompleted, nsnap, ninv>>

\* "Delete '.bob-state.lock' if Bob crashed or was killed previously"
UserRemovesLock ==
  /\ pc = "off" /\ lock
  /\ lock' = FALSE /\ refused' = FALSE
  /\ H([a |-> "RemoveLock"])
  /\ UNCHANGED <<pickle, newf, dirty, pc, mem, async, dflag, saved, lastCompleted, nsnap, ninv, ncrash, loaded>>

Done ==
  /\ pc = "off" /\ (ninv = MaxInv \/ (lock /\ refused))
  /\ UNCHANGED vars

Next ==
  \/ StartLock \/ StartRefused \/ SecondInstance \/ StartNoNew \/ StartFsync \/ StartRename
  \/ StartDiscard \/ StartLoad \/ Mutate \/ WriteDirty \/ RenameDirtyNew \/ AsyncBegin
  \/ AsyncEnd \/ Finalize \/ FinNoNew \/ FinFsync \/ FinRename \/ FinUnlock
  \/ Crash \/ UserRemovesLock \/ Done

Spec == Init /\ [][Next]_vars

----------------------------------------------------------------------------
(* P layer *)

TypeOK ==
  /\ pc \in {"off", "s_lock", "s_fsynced", "s_load", "run", "wd", "rn", "f_commit", "f_fsynced", "f_unlock"}
  /\ mem \in 0..MaxSnap /\ loaded \in -1..MaxSnap /\ async \in 0..MaxAsync

\* the committed file can always be unpickled
LoadNeverErrors == pickle.ex => pickle.ok

\* what a fresh instance loads is exactly one saved snapshot (or the empty state if nothing was ever committed) ...
LoadsSavedSnapshot == loaded # -1 => loaded \in saved \cup {0}

\* ... and never older than the state at the end of the last completed invocation
NotOlderThanCompleted == loaded # -1 => loaded >= lastCompleted

\* a running instance owns the lock; a concurrent start is refused
SingleWriter == pc # "off" => lock

\* a file is only promoted to the committed name after its data is durable
PickleDurable == pickle.ex => pickle.synced

\* vacuity companions (negated reachability, checked by *_reach.cfg; each must be VIOLATED)
ReachDiscard == ~(pc = "s_load" /\ ncrash > 0 /\ ~newf.ex /\ pickle.ex /\ pickle.snap < nsnap)
ReachRecoverNew == ~(loaded # -1 /\ ncrash > 0 /\ loaded > lastCompleted)

----------------------------------------------------------------------------
(* generation: print the history of every behaviour of length GenDepth *)
GenPrint == (GenDepth > 0 /\ TLCGet("level") = GenDepth) => PrintT(<<"@@", ToJson(hist)>>)

=============================================================================
