SPECIFICATION Spec
CONSTANTS MaxJobs = 2  MaxFail = 0  GenDepth = 0  WeakDeps = TRUE  WeakOnce = FALSE  WeakBound = FALSE
INVARIANT Independence
