SPECIFICATION Spec
CONSTANTS MaxJobs = 2  MaxFail = 0  GenDepth = 0  WeakDeps = TRUE  WeakOnce = FALSE  WeakBound = FALSE  Dags = {1, 2, 3, 4, 5, 6}
INVARIANT Independence
