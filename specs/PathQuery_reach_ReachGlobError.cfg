SPECIFICATION Spec
CONSTANTS Tier = 0  MaxLen = 2  GraphLo = 1  GraphHi = 99  GenNodes = 0  Emit = FALSE
INVARIANT ReachGlobError
CHECK_DEADLOCK FALSE
