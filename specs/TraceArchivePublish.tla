------------------------ MODULE TraceArchivePublish ------------------------
(* Code -> spec: validates batches of event traces recorded from REAL OS processes
   (uploaders, cache-mirroring downloaders, readers: bob.archive.LocalArchive) that
   race on one build-id in two archive directories, against ArchivePublish.
   Every invariant of the P layer (and the action property NeverOverwrite) is
   evaluated on every state of the matched behaviours.

   Ordering.  The publish step is one atomic file-system operation (link); there
   is no lock under which it could be logged.  The recorder therefore logs, per
   wrapped file-system operation, a "call" event before and a "ret" event after
   it, each carrying a global ticket drawn from a counter file under its own
   flock; the trace is the ticket order.  The operation takes effect at some
   point between its two events: here the effect is the internal step Eff(p)
   (consumes no event) that may fire any time between the call and the ret of
   p's pending operation.  Operations whose intervals overlap are thereby tried
   in every order; the logged result (won/lost, present/absent, inode seen) is
   bound AT the effect step, so an order that contradicts what the code saw is
   not taken.  Nothing is ordered by wall-clock time.

   TRACE_FILE (env) = JSON array of traces [ev |-> events, nf |-> #faults, nc |-> #kills];
   event = [p, ph ("call"|"ret"|"ev"), seq, op, n, a, k, res, saw, at]:
     p    process name = name of the inode it creates (ArchivePublish: art[n] \in Writers)
     seq  per-process number of the operation (ret must answer the pending call)
     n    number of model steps the real operation realises (Write: the first and the
          completing write are one step each, a single write that is both is 2;
          Close of a mirror that stopped before the end of its source: Stop + Close)
     a,k  archive and kind of the artifact name the operation addresses (from its path)
     res  "won"/"lost" (Link), "present"/"absent" (Exists), "ok"/"bad" (RRead), "?" unknown
     saw  creator of the inode found under the name (MOpen, ROpen), "-" = not found
     at   pc of the operation a Fault / Crash (kill -9) struck
   Register 1 collects, per trace, the longest matched prefix (POSTCONDITION prints it). *)
EXTENDS ArchivePublish, IOUtils, TLCExt

Traces == JsonDeserialize(IOEnv.TRACE_FILE)

VARIABLES tid,    \* trace of the batch
          l,      \* next event
          pend,   \* pend[p] = index of the call event of p's operation in flight (0 = none)
          eff     \* eff[p]  = model steps of that operation already taken

tvars == <<vars, tid, l, pend, eff>>

Ev  == Traces[tid].ev
Cur == Ev[l]

TrackInit == TLCSet(1, [i \in 1..Len(Traces) |-> 0])

TraceInit ==
  /\ TrackInit
  /\ tid \in 1..Len(Traces) /\ l = 1
  /\ pend = [p \in Procs |-> 0]
  /\ eff = [p \in Procs |-> 0]
  /\ Init
  /\ fleft = Traces[tid].nf
  /\ cleft = Traces[tid].nc

Addr(p, e) == tgt[p] = <<e.a, e.k>>       \* the operation addresses p's artifact name

\* the model step(s) behind one real operation, with the logged fields bound to it
Bind(p, e) ==
  \/ e.op = "Start"   /\ Start(p, e.a, e.k)
  \/ e.op = "Exists"  /\ Addr(p, e) /\ Exists(p)
                      /\ (e.res = "present" => pc'[p] = "skipped")
                      /\ (e.res = "absent"  => pc'[p] = "mktemp")
  \/ e.op = "MkTemp"  /\ tgt[p][1] = e.a /\ MkTemp(p)      \* (created in the directory of its artifact name)
  \/ e.op = "Write"   /\ Write(p)
  \/ e.op = "Close"   /\ (Stop(p) \/ Close(p) \/ EClose(p))
  \/ e.op = "Chmod"   /\ Chmod(p)
  \/ e.op = "Link"    /\ Addr(p, e) /\ Link(p)
                      /\ (e.res = "won"  => pub'[p])
                      /\ (e.res = "lost" => ~pub'[p])
  \/ e.op = "Replace" /\ Addr(p, e) /\ Replace(p)
  \/ e.op = "Unlink"  /\ (Unlink(p) \/ EUnlink(p))
  \/ e.op = "MOpen"   /\ e.a = MirrorSrc /\ e.k = "pkg" /\ MOpen(p)
                      /\ (e.saw = "-") = (pc'[p] = "notfound")
                      /\ (e.saw # "-" => pay'[p] = e.saw)
  \/ e.op = "ROpen"   /\ ROpen(p, <<e.a, e.k>>) /\ rino'[p] = e.saw
  \/ e.op = "RRead"   /\ RRead(p) /\ (e.res # "?" => robs'[p] = e.res)

\* the call of an operation is logged: nothing happens yet
Call ==
  /\ l <= Len(Ev) /\ Cur.ph = "call"
  /\ pend[Cur.p] = 0
  /\ pend' = [pend EXCEPT ![Cur.p] = l]
  /\ eff' = [eff EXCEPT ![Cur.p] = 0]
  /\ l' = l + 1 /\ tid' = tid
  /\ UNCHANGED vars

\* internal: the operation in flight takes effect
Eff(p) ==
  /\ pend[p] # 0
  /\ eff[p] < Ev[pend[p]].n
  /\ Bind(p, Ev[pend[p]])
  /\ eff' = [eff EXCEPT ![p] = @ + 1]
  /\ UNCHANGED <<tid, l, pend>>

\* the return of the operation is logged: its effect lies behind
Ret ==
  /\ l <= Len(Ev) /\ Cur.ph = "ret"
  /\ pend[Cur.p] # 0
  /\ Ev[pend[Cur.p]].seq = Cur.seq /\ Ev[pend[Cur.p]].op = Cur.op
  /\ eff[Cur.p] = Ev[pend[Cur.p]].n
  /\ pend' = [pend EXCEPT ![Cur.p] = 0]
  /\ eff' = [eff EXCEPT ![Cur.p] = 0]
  /\ l' = l + 1 /\ tid' = tid
  /\ UNCHANGED vars

\* injected I/O error raised instead of the operation / kill -9 immediately before it (process-local)
Env ==
  /\ l <= Len(Ev) /\ Cur.ph = "ev"
  /\ pend[Cur.p] = 0
  /\ pc[Cur.p] = Cur.at
  /\ \/ Cur.op = "Fault" /\ Fault(Cur.p)
     \/ Cur.op = "Crash" /\ Crash(Cur.p)
  /\ l' = l + 1 /\ tid' = tid
  /\ UNCHANGED <<pend, eff>>

TraceNext == Call \/ Ret \/ Env \/ \E p \in Procs : Eff(p)

TraceSpec == TraceInit /\ [][TraceNext]_tvars

\* evaluated on every reachable state (as a CONSTRAINT): remember the longest prefix per trace
Track ==
  /\ TLCSet(1, [TLCGet(1) EXCEPT ![tid] = IF @ < l - 1 THEN l - 1 ELSE @])

Report == PrintT(<<"@@", ToJson(TLCGet(1))>>)
=============================================================================
