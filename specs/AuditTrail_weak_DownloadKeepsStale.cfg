SPECIFICATION Spec
CONSTANTS MaxEdit = 1  MaxInv = 4  GenDepth = 0
CONSTANT Weak = {"DownloadKeepsStale"}
CONSTANT WSs = {1, 2}
CONSTANT UpModes = {TRUE}
CONSTANT DlModes = {"yes", "deps"}
CONSTANT SbxModes = {FALSE}
CONSTANT Shared = {}
CONSTANT Knobs = {"bl", "dl"}
VIEW view
CONSTRAINT CexPrint
CHECK_DEADLOCK FALSE
