SPECIFICATION Spec
CONSTANTS DepNames = {"da", "db"}  MaxDeps = 2  Emit = FALSE
INVARIANT ReachSameRelLibs
CHECK_DEADLOCK FALSE
