SPECIFICATION Spec
CONSTANTS MaxOps = 7  MaxHead = 2  GenDepth = 0
CONSTANT Weak = {}
VIEW view
INVARIANT DownloadEqLocal
INVARIANT LiveSound
INVARIANT ArchiveSound
CHECK_DEADLOCK FALSE
