----------------------------- MODULE AuditTrail -----------------------------
(* Audit trails of Bob (pym/bob/audit.py, pym/bob/builder.py), property C14.

   Project: four packages  app (root) -> lib, both with an import checkout;
   tool (provides the tool "mytool", used by lib's build+package step and by
   app's package step); sbx (sandbox image, used by every step of the other
   packages iff the behaviour runs with --sandbox, variable sbx).
   Steps are <<"src",p>>, <<"build",p>>, <<"dist",p>>.
   What the user edits (proj): source version of app/lib, script version of
   four steps, the -M meta variable.
   Two workspaces (WSs) build the same project and share one binary archive
   (arch) and one shared-package store (share, packages in Shared; Bob accepts
   `shared` only for deterministic packages: tool and sbx).

   Per workspace w and step s:
     cont[w][s]   abstract content of the step workspace (EMPTY = no result)
     aud[w][s]    <<>> or <<[art |-> Rec, refs |-> set of ids]>>   (audit.json.gz next to it)
     inp[w][s]    Bob's stored input state: NONE | <<"in",bid,vid,contents>> | <<"dl",bid>> | <<"sh",bid>>
     dst[w][s]    variant-id the workspace was prepared for
     live         live-build-id cache of the archive: <<package, source version>> whose checkout result
                  is known to the archive (uploaded at a fresh checkout with --upload)
     used[w][s], gdeps[w][s]   GHOSTS: artifacts of everything transitively used / ids of the
                  direct dependencies as of the execution that produced the result
   Rec = [id |-> Id(c), c |-> content], content = [step, vid, bid, rh, meta, date, args, tools, sbx]
   where args/tools/sbx are sequences of artifact ids.  The artifact id is the
   structural digest of the record content (audit.py 125-129); to keep TLC's
   values small it is interned: reg is the sequence of all digested contents,
   Id(c) = position of c in reg.  `references` therefore holds ids, the record
   of id i is reg[i]; the artifact of an audit is kept as a full Rec so that a
   digest that is not a function of the content shows.
   Contents / Build-Ids / Variant-Ids are the projections of the project state
   on the knobs they depend on (step scripts are deterministic functions of
   their declared inputs; incremental = clean is C01's business, not C14's).

   M layer: one action per builder decision that touches an audit trail
   (line numbers of builder.py / audit.py in comments).  Weak selects
   weakenings of the mechanism; Weak = {} is what the code implements.
   P layer: the invariants at the end.                                      *)
EXTENDS Naturals, Sequences, FiniteSets, TLC, Json

CONSTANTS MaxEdit, MaxInv, Weak, GenDepth,
          WSs,        \* workspaces that may be used, subset of {1,2}
          UpModes,    \* subset of BOOLEAN: --upload
          DlModes,    \* subset of {"no","deps","yes"}: --download
          SbxModes,   \* subset of BOOLEAN: behaviours with / without --sandbox
          Shared,     \* packages declared `shared: True`
          Knobs       \* edit knobs enabled, subset of AllKnobs

VARIABLES proj, sbx, cont, aud, inp, dst, used, gdeps, arch, share, reg, live,
          mode, cur, todo, done, nedit, ninv, quiet, hist

vars == <<proj, sbx, cont, aud, inp, dst, used, gdeps, arch, share, reg, live,
          mode, cur, todo, done, nedit, ninv, quiet, hist>>
view == <<proj, sbx, cont, aud, inp, dst, used, gdeps, arch, share, reg, live,
          mode, cur, todo, done, nedit, ninv, quiet>>

Pkg == {"app", "lib", "tool", "sbx"}
HasSrc == {"app", "lib"}
S(p) == <<"src", p>>
B(p) == <<"build", p>>
D(p) == <<"dist", p>>
Steps == {S(p) : p \in HasSrc} \cup {B(p) : p \in Pkg} \cup {D(p) : p \in Pkg}
AllWS == {1, 2}
AllKnobs == {"src_app", "src_lib", "bl", "ba", "dl", "bt", "meta", "gc"}   \* "gc": the shared store is wiped

NONE == <<"none">>
EMPTY == <<"empty">>

----------------------------------------------------------------------------
(* the recipes: dependencies of every step (input.py getAllDepSteps 1230-1238) *)

ArgsOf(s) == IF s = B("app") THEN <<S("app"), D("lib")>>
             ELSE IF s = B("lib") THEN <<S("lib")>>
             ELSE IF s[1] = "dist" THEN <<B(s[2])>>
             ELSE <<>>
\* tools are inherited from the build to the package step
ToolsOf(s) == IF s \in {B("lib"), D("lib"), D("app")} THEN <<D("tool")>> ELSE <<>>
SbxOf(s) == IF sbx /\ s[2] # "sbx" THEN <<D("sbx")>> ELSE <<>>
DepsOf(s) == ArgsOf(s) \o ToolsOf(s) \o SbxOf(s)
Range(q) == {q[i] : i \in 1..Len(q)}

\* knobs a step depends on: its own script version / source version and those of its arguments and tools
OwnKnobs(s) == IF s[1] = "src" THEN {"src_" \o s[2]}
               ELSE IF s = B("lib") THEN {"bl"} ELSE IF s = B("app") THEN {"ba"}
               ELSE IF s = D("lib") THEN {"dl"} ELSE IF s = B("tool") THEN {"bt"} ELSE {}
RECURSIVE RelOf(_)
RelOf(s) == OwnKnobs(s) \cup UNION {RelOf(d) : d \in Range(ArgsOf(s)) \cup Range(ToolsOf(s))}
Rel == [s \in Steps |-> RelOf(s)]
SrcKnobs == {"src_app", "src_lib"}
Val(k) == IF k = "src_app" THEN proj.src["app"] ELSE IF k = "src_lib" THEN proj.src["lib"] ELSE proj.ver[k]

\* Variant-Id: from the recipes only (the import SCM's digest does not cover the source content);
\* Build-Id: scripts and source content; Clean: what the deterministic scripts produce
Vid(s) == <<"v", s, [k \in Rel[s] \ SrcKnobs |-> Val(k)]>>
Bid(s) == <<"b", s, [k \in Rel[s] |-> Val(k)]>>
\* what the script of s leaves in workspace w: all dependencies were cooked just before, so it is
\* the clean result for the current project state
Result(w, s) == <<"c", s, [k \in Rel[s] |-> Val(k)]>>

\* stored input state of a built step: packageInputBuilt(buildId, hashes) / digest + input hashes
CurIn(w, s) == <<"in", Bid(s), Vid(s), [i \in 1..Len(DepsOf(s)) |-> cont[w][DepsOf(s)[i]]]>>

----------------------------------------------------------------------------
(* audit records *)

\* audit.py 125-129: artifact-id = digest of the record content (interned, see header)
Key(c) == IF "IdIgnoresMeta" \in Weak THEN [c EXCEPT !.meta = 0] ELSE c
Known(c) == \E i \in 1..Len(reg) : reg[i] = Key(c)
Id(c) == IF Known(c) THEN CHOOSE i \in 1..Len(reg) : reg[i] = Key(c) ELSE Len(reg) + 1
MkRec(c) == [id |-> Id(c), c |-> c]

A(w, s) == aud[w][s][1]
HasAud(w, s) == aud[w][s] # <<>>
DepIds(w, q) == [i \in 1..Len(q) |-> A(w, q[i]).art.id]
CDepIds(c) == Range(c.args) \cup Range(c.tools) \cup Range(c.sbx)

\* builder.py 689-764 _generateAudit(executed=True): Audit.create(vid, bid, resultHash), addDefine,
\* 734-740 addTool / setSandbox / addArg from the audit files next to the dependency workspaces
GenContent(w, s, rh) ==
  [step |-> s, vid |-> Vid(s), bid |-> Bid(s), rh |-> rh, meta |-> proj.meta, date |-> ninv,
   args |-> DepIds(w, ArgsOf(s)),
   tools |-> IF "NoAddTool" \in Weak THEN <<>> ELSE DepIds(w, ToolsOf(s)),
   sbx |-> DepIds(w, SbxOf(s))]
\* audit.py 293-296 __merge: references.update(other.references); references[other.id] = other.artifact
MergedDeps(s) == IF "NoAddTool" \in Weak THEN ArgsOf(s) \o SbxOf(s) ELSE DepsOf(s)
GenRefs(w, s) == UNION { (IF "DirectRefsOnly" \in Weak THEN {} ELSE A(w, d).refs) \cup {A(w, d).art.id}
                         : d \in Range(MergedDeps(s)) }
GenAudit(w, s, rh) == [art |-> MkRec(GenContent(w, s, rh)), refs |-> GenRefs(w, s)]

\* ghosts: what really was used
TrueDirect(w, s) == [args |-> DepIds(w, ArgsOf(s)), tools |-> DepIds(w, ToolsOf(s)), sbx |-> DepIds(w, SbxOf(s))]
TrueUsed(w, s) == UNION { {A(w, d).art.id} \cup used[w][d] : d \in Range(DepsOf(s)) }

Artifact(w, s) == [bid |-> Bid(s), cont |-> cont[w][s], aud |-> A(w, s), used |-> used[w][s], gdeps |-> gdeps[w][s]]
InArch(s) == \E a \in arch : a.bid = Bid(s)
FromArch(s) == CHOOSE a \in arch : a.bid = Bid(s)
InShare(s) == s[2] \in Shared /\ \E a \in share : a.bid = Bid(s)
FromShare(s) == CHOOSE a \in share : a.bid = Bid(s)

----------------------------------------------------------------------------
Hist(a) == hist' = Append(hist, a)
NoHist == UNCHANGED hist
E(s) == <<"E", s>>
F(s) == <<"F", s>>
U(s) == <<"U", s>>
I(s) == <<"I", s>>
Top == Head(todo)
TopS == Top[2]
W == cur.w
Running(kind) == mode = "run" /\ todo # <<>> /\ Top[1] = kind
Pop == todo' = Tail(todo)
Frames(q) == [i \in 1..Len(q) |-> E(q[i])]

Init ==
  /\ proj = [src |-> [p \in HasSrc |-> 0], ver |-> [k \in {"bl", "ba", "dl", "bt"} |-> 0], meta |-> 0]
  /\ sbx \in SbxModes
  /\ cont = [w \in AllWS |-> [s \in Steps |-> EMPTY]]
  /\ aud = [w \in AllWS |-> [s \in Steps |-> <<>>]]
  /\ inp = [w \in AllWS |-> [s \in Steps |-> NONE]]
  /\ dst = [w \in AllWS |-> [s \in Steps |-> NONE]]
  /\ used = [w \in AllWS |-> [s \in Steps |-> {}]]
  /\ gdeps = [w \in AllWS |-> [s \in Steps |-> [args |-> <<>>, tools |-> <<>>, sbx |-> <<>>]]]
  /\ arch = {} /\ share = {} /\ reg = <<>> /\ live = {}
  /\ mode = "idle" /\ cur = [w |-> 1, up |-> FALSE, dl |-> "no"] /\ todo = <<>> /\ done = {}
  /\ nedit = 0 /\ ninv = 0 /\ quiet = FALSE
  /\ hist = <<>>

WSV == UNCHANGED <<cont, aud, inp, dst, used, gdeps>>
Stores == UNCHANGED <<arch, share, reg, live>>
Ctl == UNCHANGED <<proj, sbx, mode, cur, nedit, ninv, quiet>>

----------------------------------------------------------------------------
(* the user *)

\* (an edit before the first invocation only renames the knob values: not generated)
Edit ==
  /\ mode = "idle" /\ nedit < MaxEdit /\ ninv < MaxInv /\ ninv > 0
  /\ \E k \in Knobs \ {"gc"} :
       /\ proj' = IF k = "src_app" THEN [proj EXCEPT !.src["app"] = 1 - @]
                  ELSE IF k = "src_lib" THEN [proj EXCEPT !.src["lib"] = 1 - @]
                  ELSE IF k = "meta" THEN [proj EXCEPT !.meta = 1 - @]
                  ELSE [proj EXCEPT !.ver[k] = 1 - @]
       /\ Hist([a |-> "Edit", knob |-> k])
  /\ nedit' = nedit + 1 /\ quiet' = FALSE
  /\ WSV /\ Stores /\ UNCHANGED <<sbx, mode, cur, todo, done, ninv>>

\* the shared store loses its packages (garbage collection, wiped disk): links into it dangle
GcShare ==
  /\ mode = "idle" /\ "gc" \in Knobs /\ nedit < MaxEdit /\ ninv < MaxInv /\ share # {}
  /\ share' = {}
  /\ cont' = [w \in AllWS |-> [s \in Steps |-> IF inp[w][s][1] = "sh" THEN EMPTY ELSE cont[w][s]]]
  /\ aud' = [w \in AllWS |-> [s \in Steps |-> IF inp[w][s][1] = "sh" THEN <<>> ELSE aud[w][s]]]
  /\ nedit' = nedit + 1 /\ quiet' = FALSE
  /\ Hist([a |-> "GcShare"])
  /\ UNCHANGED <<proj, sbx, inp, dst, used, gdeps, arch, reg, live, mode, cur, todo, done, ninv>>

\* bob dev app [--sandbox] [--upload] --download <dl> -M META=<meta>   in workspace w
\* the checkout steps are cooked first: they are needed for the Build-Ids (1796-1824), unless the
\* workspace does not exist yet and the archive translates the live build-id of the sources
Predicted(w, dl, p) == cont[w][S(p)] = EMPTY /\ dl # "no" /\ <<p, proj.src[p]>> \in live
Begin ==
  /\ mode = "idle" /\ ninv < MaxInv
  /\ \E w \in WSs, up \in UpModes, dl \in DlModes :
       /\ (ninv = 0 => w = 1)          \* the two workspaces are symmetric
       /\ cur' = [w |-> w, up |-> up, dl |-> dl]
       /\ Hist([a |-> "Begin", w |-> w, up |-> up, dl |-> dl, sbx |-> sbx, shared |-> Shared, proj |-> proj])
  /\ mode' = "run" /\ done' = {}
  /\ todo' = (IF Predicted(cur'.w, cur'.dl, "app") THEN <<>> ELSE <<E(S("app"))>>)
              \o (IF Predicted(cur'.w, cur'.dl, "lib") THEN <<>> ELSE <<E(S("lib"))>>) \o <<E(D("app"))>>
  /\ ninv' = ninv + 1 /\ quiet' = FALSE
  /\ WSV /\ Stores /\ UNCHANGED <<proj, sbx, nedit>>

End ==
  /\ mode = "run" /\ todo = <<>>
  /\ mode' = "idle" /\ quiet' = TRUE
  /\ Hist([a |-> "End"])
  /\ WSV /\ Stores /\ UNCHANGED <<proj, sbx, cur, todo, done, nedit, ninv>>

----------------------------------------------------------------------------
(* _cookStep 1080-1160 *)

\* 1087 _wasAlreadyRun
AlreadyDone ==
  /\ Running("E") /\ TopS \in done
  /\ Pop /\ WSV /\ Stores /\ Ctl /\ NoHist /\ UNCHANGED done

\* checkout and build steps: cook the dependencies first (1090, 1095)
Descend ==
  /\ Running("E") /\ TopS \notin done /\ TopS[1] # "dist"
  /\ todo' = Frames(DepsOf(TopS)) \o <<F(TopS)>> \o Tail(todo)
  /\ WSV /\ Stores /\ Ctl /\ NoHist /\ UNCHANGED done

DistEnter == Running("E") /\ TopS \notin done /\ TopS[1] = "dist"
PrepNeeded == cont[W][TopS] # EMPTY /\ dst[W][TopS] # Vid(TopS)
WasShared == inp[W][TopS][1] = "sh"
OldBid == IF inp[W][TopS] = NONE THEN NONE ELSE inp[W][TopS][2]
TryDl == cur.dl = "yes" \/ (cur.dl = "deps" /\ TopS # D("app"))
DlPruneNeeded == TryDl /\ OldBid # NONE /\ OldBid # Bid(TopS)

\* 1426-1454 _preparePackageStep: something else was built here -> empty the workspace, reset the
\* state.  The audit file next to the workspace is NOT removed.
PrepPrune ==
  /\ DistEnter /\ PrepNeeded
  /\ cont' = [cont EXCEPT ![W][TopS] = EMPTY]
  /\ inp' = [inp EXCEPT ![W][TopS] = NONE]
  /\ dst' = [dst EXCEPT ![W][TopS] = Vid(TopS)]
  /\ UNCHANGED <<aud, used, gdeps, todo, done>> /\ Stores /\ Ctl /\ NoHist

\* 1499-1506 already shared in the same location
AlreadyShared ==
  /\ DistEnter /\ ~PrepNeeded /\ InShare(TopS) /\ inp[W][TopS] = <<"sh", Bid(TopS)>>
  /\ done' = done \cup {TopS} /\ Pop
  /\ Hist([a |-> "Skip", s |-> TopS, why |-> "shared"])
  /\ WSV /\ Stores /\ Ctl

\* 1507-1532 use the shared package: workspace and audit.json.gz become links into the store
UseShared ==
  /\ DistEnter /\ ~PrepNeeded /\ InShare(TopS) /\ inp[W][TopS] # <<"sh", Bid(TopS)>>
  /\ LET a == FromShare(TopS) IN
       /\ cont' = [cont EXCEPT ![W][TopS] = a.cont]
       /\ aud' = [aud EXCEPT ![W][TopS] = <<a.aud>>]
       /\ used' = [used EXCEPT ![W][TopS] = a.used]
       /\ gdeps' = [gdeps EXCEPT ![W][TopS] = a.gdeps]
  /\ inp' = [inp EXCEPT ![W][TopS] = <<"sh", Bid(TopS)>>]
  /\ dst' = [dst EXCEPT ![W][TopS] = Vid(TopS)]
  /\ done' = done \cup {TopS} /\ Pop
  /\ Hist([a |-> "UseShared", s |-> TopS])
  /\ Stores /\ Ctl

\* 1541-1546 unshare: remove link and audit, reset state
Unshare ==
  /\ DistEnter /\ ~PrepNeeded /\ ~InShare(TopS) /\ WasShared
  /\ cont' = [cont EXCEPT ![W][TopS] = EMPTY]
  /\ aud' = [aud EXCEPT ![W][TopS] = <<>>]
  /\ inp' = [inp EXCEPT ![W][TopS] = NONE]
  /\ UNCHANGED <<dst, used, gdeps, todo, done>> /\ Stores /\ Ctl /\ NoHist

DlEnter == DistEnter /\ ~PrepNeeded /\ ~InShare(TopS) /\ ~WasShared

\* 1589-1610 previously built/downloaded something with another build-id: prune incl. the audit
DlPrune ==
  /\ DlEnter /\ DlPruneNeeded
  /\ cont' = [cont EXCEPT ![W][TopS] = EMPTY]
  /\ aud' = [aud EXCEPT ![W][TopS] = <<>>]
  /\ inp' = [inp EXCEPT ![W][TopS] = NONE]
  /\ UNCHANGED <<dst, used, gdeps, todo, done>> /\ Stores /\ Ctl /\ NoHist

\* 1615-1633, archive.py 156-161 _extract: content and meta/audit.json.gz of the artifact replace
\* workspace and audit file
Download ==
  /\ DlEnter /\ ~DlPruneNeeded /\ TryDl /\ cont[W][TopS] = EMPTY /\ InArch(TopS)
  /\ LET a == FromArch(TopS) IN
       /\ cont' = [cont EXCEPT ![W][TopS] = a.cont]
       /\ aud' = [aud EXCEPT ![W][TopS] = IF "DownloadKeepsStale" \in Weak /\ HasAud(W, TopS) THEN @ ELSE <<a.aud>>]
       /\ used' = [used EXCEPT ![W][TopS] = a.used]
       /\ gdeps' = [gdeps EXCEPT ![W][TopS] = a.gdeps]
  /\ inp' = [inp EXCEPT ![W][TopS] = <<"dl", Bid(TopS)>>]
  /\ dst' = [dst EXCEPT ![W][TopS] = Vid(TopS)]
  /\ done' = done \cup {TopS}
  /\ todo' = (IF TopS[2] \in Shared THEN <<I(TopS)>> ELSE <<>>) \o Tail(todo)
  /\ Hist([a |-> "Download", s |-> TopS])
  /\ Stores /\ Ctl

\* 1638-1641 already downloaded
AlreadyDownloaded ==
  /\ DlEnter /\ ~DlPruneNeeded /\ TryDl /\ cont[W][TopS] # EMPTY /\ inp[W][TopS] = <<"dl", Bid(TopS)>>
  /\ done' = done \cup {TopS} /\ Pop
  /\ Hist([a |-> "Skip", s |-> TopS, why |-> "downloaded"])
  /\ WSV /\ Stores /\ Ctl

\* 1136-1143 build it: cook the dependencies, then the package step
DistDescend ==
  /\ DlEnter /\ ~DlPruneNeeded
  /\ \/ ~TryDl
     \/ cont[W][TopS] = EMPTY /\ ~InArch(TopS)
     \/ cont[W][TopS] # EMPTY /\ inp[W][TopS] # <<"dl", Bid(TopS)>>
  /\ todo' = Frames(DepsOf(TopS)) \o <<F(TopS)>> \o Tail(todo)
  /\ WSV /\ Stores /\ Ctl /\ NoHist /\ UNCHANGED done

\* 1402-1408 / 1675-1678 unchanged input: skipped, the audit stays
SkipStep ==
  /\ Running("F") /\ TopS[1] # "src" /\ inp[W][TopS] = CurIn(W, TopS)
  /\ done' = done \cup {TopS} /\ Pop
  /\ Hist([a |-> "Skip", s |-> TopS, why |-> "unchanged"])
  /\ WSV /\ Stores /\ Ctl

\* 1321-1346 / 1410-1424 / 1680-1698 run the script, hash the workspace, generate the audit trail.
\* The import checkout is indeterministic: it runs in every invocation and its audit is regenerated.
ExecuteStep ==
  /\ Running("F") /\ (TopS[1] = "src" \/ inp[W][TopS] # CurIn(W, TopS))
  /\ LET s == TopS
         new == Result(W, s)
         rh == IF "HashBeforeRun" \in Weak THEN cont[W][s] ELSE new
     IN /\ cont' = [cont EXCEPT ![W][s] = new]
        /\ aud' = [aud EXCEPT ![W][s] = IF "NoRegenOnReexec" \in Weak /\ HasAud(W, s) THEN @
                                         ELSE <<GenAudit(W, s, rh)>>]
        /\ reg' = IF ("NoRegenOnReexec" \in Weak /\ HasAud(W, s)) \/ Known(GenContent(W, s, rh)) THEN reg
                   ELSE Append(reg, Key(GenContent(W, s, rh)))
        /\ used' = [used EXCEPT ![W][s] = TrueUsed(W, s)]
        /\ gdeps' = [gdeps EXCEPT ![W][s] = TrueDirect(W, s)]
        /\ inp' = [inp EXCEPT ![W][s] = CurIn(W, s)]
        /\ dst' = [dst EXCEPT ![W][s] = Vid(s)]
        /\ done' = done \cup {s}
        /\ todo' = (IF s[1] = "dist" /\ cur.up THEN <<U(s)>> ELSE <<>>)
                   \o (IF s[1] = "dist" /\ s[2] \in Shared THEN <<I(s)>> ELSE <<>>) \o Tail(todo)
        \* 1348-1353 upload the live build-id in case of a fresh checkout
        /\ live' = IF s[1] = "src" /\ cur.up /\ cont[W][s] = EMPTY THEN live \cup {<<s[2], proj.src[s[2]]>>} ELSE live
        /\ Hist([a |-> "Exec", s |-> s])
  /\ UNCHANGED <<arch, share>> /\ Ctl

\* 1147-1149, archive.py 537-546: upload workspace + audit unless the artifact exists
Upload ==
  /\ Running("U")
  /\ arch' = IF InArch(TopS) THEN arch ELSE arch \cup {Artifact(W, TopS)}
  /\ Hist([a |-> "Upload", s |-> TopS, stored |-> ~InArch(TopS)])
  /\ Pop /\ WSV /\ UNCHANGED <<share, reg, live, done>> /\ Ctl

\* 1702-1750, share.py 249-300: copy audit + move workspace into the store, link back.  The store
\* is addressed by build-id: links of other workspaces that dangled since a wipe work again.
Install ==
  /\ Running("I")
  /\ LET art == Artifact(W, TopS)
         fresh == ~\E a \in share : a.bid = Bid(TopS)
         Revive(w, s) == fresh /\ inp[w][s] = <<"sh", Bid(TopS)>> /\ cont[w][s] = EMPTY
     IN /\ share' = IF fresh THEN share \cup {art} ELSE share
        /\ cont' = [w \in AllWS |-> [s \in Steps |-> IF Revive(w, s) THEN art.cont ELSE cont[w][s]]]
        /\ aud' = [w \in AllWS |-> [s \in Steps |-> IF Revive(w, s) THEN <<art.aud>> ELSE aud[w][s]]]
        /\ used' = [w \in AllWS |-> [s \in Steps |-> IF Revive(w, s) THEN art.used ELSE used[w][s]]]
        /\ gdeps' = [w \in AllWS |-> [s \in Steps |-> IF Revive(w, s) THEN art.gdeps ELSE gdeps[w][s]]]
  /\ inp' = [inp EXCEPT ![W][TopS] = <<"sh", Bid(TopS)>>]
  /\ Hist([a |-> "Install", s |-> TopS])
  /\ Pop /\ UNCHANGED <<dst, arch, reg, live, done>> /\ Ctl

Done == mode = "idle" /\ ninv = MaxInv /\ UNCHANGED vars

Next ==
  \/ Edit \/ GcShare \/ Begin \/ End
  \/ AlreadyDone \/ Descend \/ PrepPrune \/ AlreadyShared \/ UseShared \/ Unshare
  \/ DlPrune \/ Download \/ AlreadyDownloaded \/ DistDescend
  \/ SkipStep \/ ExecuteStep \/ Upload \/ Install
  \/ Done

Spec == Init /\ [][Next]_vars

----------------------------------------------------------------------------
(* P layer: evaluated in every state on every workspace that holds a result *)

HasRes(w, s) == cont[w][s] # EMPTY
Results == {<<w, s>> \in AllWS \X Steps : HasRes(w, s)}

\* every result carries an audit trail
Carries == \A x \in Results : HasAud(x[1], x[2])

\* the record stored under id i in `references`
RecOf(i) == reg[i]
ClosedAudit(a) == /\ CDepIds(a.art.c) \subseteq a.refs
                  /\ \A i \in a.refs : i \in 1..Len(reg) /\ CDepIds(RecOf(i)) \subseteq a.refs
\* every artifact id referenced (transitively) is the id of a record in `references`
Closed == \A x \in Results : HasAud(x[1], x[2]) => ClosedAudit(A(x[1], x[2]))

\* the trail names exactly the dependencies that were used and holds the records of everything
\* that was used transitively -- as of the execution that produced the result (ghosts)
CompleteAudit(a, g, u) ==
  /\ a.art.c.args = g.args /\ a.art.c.tools = g.tools /\ a.art.c.sbx = g.sbx
  /\ u \subseteq a.refs
Complete == \A x \in Results : HasAud(x[1], x[2]) =>
               CompleteAudit(A(x[1], x[2]), gdeps[x[1]][x[2]], used[x[1]][x[2]])

\* result-hash = hash of the content the workspace holds
TruthfulHash == \A x \in Results : HasAud(x[1], x[2]) => A(x[1], x[2]).art.c.rh = cont[x[1]][x[2]]

\* after an invocation: ids and names of every visited step equal the live ids of the step;
\* records generated by this invocation carry its -M variables
TruthfulIds ==
  (mode = "idle" /\ quiet) =>
     \A s \in done : (HasRes(W, s) /\ HasAud(W, s)) =>
        LET c == A(W, s).art.c IN
          /\ c.step = s /\ c.vid = Vid(s) /\ c.bid = Bid(s)
          /\ (c.date = ninv => c.meta = proj.meta)

AllAudits == {A(x[1], x[2]) : x \in {y \in AllWS \X Steps : HasAud(y[1], y[2])}}
               \cup {a.aud : a \in arch} \cup {a.aud : a \in share}
AllArts == {a.art : a \in AllAudits}
\* artifact ids are a function of the record content only (and an injective one)
ArtifactIdFunctional ==
  /\ \A r \in AllArts : r.id \in 1..Len(reg) /\ reg[r.id] = r.c
  /\ \A r1, r2 \in AllArts : (r1.c = r2.c) <=> (r1.id = r2.id)

\* what is uploaded / installed is a truthful, closed, complete trail of the stored content
StoredTruthful ==
  \A a \in arch \cup share :
     /\ a.aud.art.c.rh = a.cont /\ a.aud.art.c.bid = a.bid
     /\ ClosedAudit(a.aud) /\ CompleteAudit(a.aud, a.gdeps, a.used)

AllP == Carries /\ Closed /\ Complete /\ TruthfulHash /\ TruthfulIds /\ ArtifactIdFunctional /\ StoredTruthful

\* vacuity companions (negated reachability; each must be VIOLATED)
ReachDownloadThenBuild ==
  ~(\E w \in AllWS : /\ HasRes(w, D("lib")) /\ inp[w][D("lib")][1] = "dl"
                     /\ HasRes(w, B("app")) /\ HasAud(w, B("app")) /\ A(w, B("app")).art.c.date = ninv
                     /\ \E i \in A(w, B("app")).refs : reg[i].step = B("lib") /\ reg[i].date < ninv)
\* a skipped step keeps the trail of its execution: it names the checkout record of that time,
\* not the record regenerated since
ReachSkipOverRegenerated ==
  ~(/\ mode = "idle" /\ quiet /\ B("lib") \in done /\ HasRes(W, B("lib"))
    /\ HasAud(W, B("lib")) /\ HasAud(W, S("lib"))
    /\ A(W, B("lib")).art.c.args # <<A(W, S("lib")).art.id>>)
ReachStaleAuditNoResult ==
  ~(\E w \in AllWS, p \in Pkg : ~HasRes(w, D(p)) /\ HasAud(w, D(p)))
ReachSharedUse ==
  ~(\E w \in AllWS : inp[w][D("tool")][1] = "sh" /\ HasAud(w, D("tool")) /\ A(w, D("tool")).art.c.date < ninv
                     /\ HasRes(w, B("lib")) /\ HasAud(w, B("lib")) /\ A(w, B("lib")).art.c.date = ninv
                     /\ gdeps[w][B("lib")].tools = <<A(w, D("tool")).art.id>>)
ReachForeignRefs ==
  ~(\E i \in (IF HasAud(2, D("app")) THEN A(2, D("app")).refs ELSE {}) :
       /\ HasRes(2, D("app")) /\ A(2, D("app")).art.c.date = ninv /\ ~HasRes(2, reg[i].step))
ReachTwoUploadsSameBid ==
  ~(mode = "run" /\ todo # <<>> /\ Top[1] = "U" /\ InArch(TopS)
      /\ FromArch(TopS).aud.art.id # A(W, TopS).art.id)

\* counterexample printer for the weakened mechanisms, used as CONSTRAINT: the history of every first
\* state that violates P is printed and the state is not explored further
CexPrint == AllP \/ ~PrintT(<<"@@", ToJson(hist)>>)

\* same, but only for violations that show in a later invocation (incremental histories)
CexPrintLate == (ninv < 2 \/ AllP) \/ ~PrintT(<<"@@", ToJson(hist)>>)

GenPrint == (GenDepth > 0 /\ TLCGet("level") = GenDepth) => PrintT(<<"@@", ToJson(hist)>>)
=============================================================================
