SPECIFICATION Spec
CONSTANTS
  MaxSteps = 5
  MaxEdit = 1
  MaxUp = 1
  MaxUser = 2
  MaxBob = 2
  Urls = {"U1"}
  AuxKinds = {}
  Dirs = {"."}
  Weak = {"ResetHard"}
  GenDepth = 0
VIEW view
INVARIANTS CexPrint
