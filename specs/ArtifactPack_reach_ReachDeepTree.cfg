SPECIFICATION Spec
CONSTANTS Parts = {"tree"}  MaxNodes = 3  FullNodes = 2  MaxHostile = 1
          MaxMembers = 3  HardLinkRule = "resolved"  Gen = FALSE
VIEW view
INVARIANT ReachDeepTree
CHECK_DEADLOCK FALSE
