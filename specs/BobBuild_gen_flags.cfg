SPECIFICATION Spec
CONSTANTS MaxEdit = 4  MaxInv = 5  MaxKill = 2  MaxFail = 1  GenDepth = 200
CONSTANT Flags = {"plain", "bo", "force"}
CONSTANT Weak = {}
INVARIANT GenPrint
CHECK_DEADLOCK FALSE
