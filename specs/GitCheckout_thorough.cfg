SPECIFICATION Spec
CONSTANTS
  MaxSteps = 6
  MaxEdit = 3
  MaxUp = 2
  MaxUser = 3
  MaxBob = 3
  Urls = {"U1", "U2"}
  AuxKinds = {"url", "urld", "imp"}
  Dirs = {".", "sub"}
  Weak = {}
  GenDepth = 0
VIEW view
INVARIANTS TypeOK NoUserWorkLost Converges NoSpuriousRefusal
