------------------------------ MODULE DevDirs ------------------------------
(* Workspace directory assignment and `bob clean` (property C16).

   Project (changes over a history): `proj` = the packages reachable from the root in
   traversal order, each <<package name, abstract build variant>>; one package name may be
   present with several variants (reached with different environment), several package
   names belong to one recipe (multiPackage), two recipes may carry identical content
   (then the variant ids coincide).  `srcv[r]` = checkout variant of recipe r; it feeds the
   build variant id (BVid).

   Persistent state:
     db      .bob-dev-dirs.sqlite3, set of <<key, dir>>, key = <<kind, recipe, vid>>
             (cmds/build/state.py:44  recipe name ++ variant id)
     primed  meta.vsn = cache key of the current recipes (state.py:134-137)
     byName  BobState.__byNameDirs, set of <<digest, dir>>, digest = <<kind, vid>>
             (state.py:528-537; the per-base counter equals the number of entries of a base
             because entries are never removed)
     disk    per directory: ex(ists), st = digest recorded by Bob for it
             (BobState.getDirectoryState, 0 = none), mk = the variants whose files lie in it

   Directories are <<mode, kind, base, n>> = dev/<kind>/<base>/<n> resp. work/<base>/<kind>/<n>
   (builder.py:395-423), base = recipe name for checkout steps, package name otherwise.

   Assumption (documented in the check): a checkout step and a build step never have the same
   variant id, therefore keys/digests are tagged with the kind.  The package step behaves
   like the build step here (same formatter, same prune rule) and is not modelled separately.

   M layer = Prime / BuildDev / BuildRel / CleanDev / CleanRel transcribed from the code.
   P layer = the properties at the end.  `Weak` switches off single mechanisms (self-test of
   the invariants, *_weak_*.cfg, each must be VIOLATED).  `KeepRule` = "prefix" is the code as of
   this writing, "always" the proposed fix for the Stable finding (mutants/fix_c16_*.diff); the
   check probes the code and runs every config with the rule that the code implements.

   Configs: DevDirs.cfg, _num, _nested (quick exhaustive); _thorough, _num_thorough, _src,
   _stable_fixed (thorough); _stable (P-level Stable on the mechanism as coded: VIOLATED with
   "prefix" - two packages of a multiPackage share a key, the stored directory is named after the
   one visited first, and a change of the visiting order renames it); _weak_* (self-test);
   _reach_* (vacuity); _gen* (behaviour generation, SpecDev = project changes and primes only). *)
EXTENDS Naturals, Sequences, FiniteSets, TLC, Json

CONSTANTS Pkg,        \* package names
          RecipeOf,   \* [Pkg -> recipe name]
          StrPrefix,  \* pairs <<x, y>>: string x is a proper prefix of string y (names only)
          NV,         \* number of abstract build variants per package
          NS,         \* number of checkout variants per recipe
          MaxLen,     \* packages in a project
          MaxChg,     \* project changes in a history
          MaxNum,     \* largest directory number (TypeOK checks that it suffices)
          KeepRule,   \* "prefix" | "always"
          Weak,       \* subset of {"NumberBlind","RecipeKey","NoPrune","CleanInverted","DryDeletes","SrcUnprotected"}
          GenDepth

VARIABLES proj, srcv, db, primed, byName, disk, nchg,
          exposed,    \* ghost: a script ran while files of another variant were in its directory
          last,       \* the command of the last transition (for the action properties)
          hist

vars == <<proj, srcv, db, primed, byName, disk, nchg, exposed, last, hist>>
view == <<proj, srcv, db, primed, byName, disk, nchg, exposed>>
viewL == <<proj, srcv, db, primed, byName, disk, nchg, exposed, last>>   \* for the reachability configs that look at `last`

Recipes == {RecipeOf[p] : p \in Pkg}
Names   == Pkg \cup Recipes
Kinds   == {"src", "build"}
Elem    == Pkg \X (1..NV)
NoDir   == <<"none", "", "", 0>>
DirSet  == {"dev", "rel"} \X Kinds \X Names \X (1..MaxNum)
Absent  == [ex |-> FALSE, st |-> 0, mk |-> {}]

Range(s) == {s[i] : i \in DOMAIN s}

RECURSIVE SeqsNoDup(_)
SeqsNoDup(n) == IF n = 0 THEN {<<>>}
                ELSE LET S == SeqsNoDup(n - 1)
                     IN S \cup {Append(s, e) : <<s, e>> \in {x \in S \X Elem : Len(x[1]) = n - 1 /\ x[2] \notin Range(x[1])}}
Projects == SeqsNoDup(MaxLen)

----------------------------------------------------------------------------
(* steps of the current project *)

\* the checkout variant is an input of the build step: CoreStep.getDigest hashes the variant ids of the arguments (input.py:935-968)
BVid(p, v) == (srcv[RecipeOf[p]] - 1) * NV + v

BuildStep(i) == [kind |-> "build", pkg |-> proj[i][1], vid |-> BVid(proj[i][1], proj[i][2])]
SrcStep(i)   == [kind |-> "src",   pkg |-> proj[i][1], vid |-> srcv[RecipeOf[proj[i][1]]]]

\* traversal order of DevelopDirOracle.__touch (state.py:74-92): dependencies in recipe order,
\* per package its package/build/checkout step; kinds never interact, so all build steps come first here
StepSeq == [i \in 1..(2 * Len(proj)) |-> IF i <= Len(proj) THEN BuildStep(i) ELSE SrcStep(i - Len(proj))]
StepSet == Range(StepSeq)

Recipe(s) == RecipeOf[s.pkg]
\* builder.py:418-423 developNameFormatter / 395-400 releaseNameFormatter
Base(s)   == IF s.kind = "src" THEN Recipe(s) ELSE s.pkg
\* state.py:44
Key(s)    == <<s.kind, Recipe(s), IF "RecipeKey" \in Weak THEN 0 ELSE s.vid>>
\* builder.py:406-409 asHexStr(step.getVariantId())
Digest(s) == <<s.kind, s.vid>>

Lookup(tab, k) == IF \E e \in tab : e[1] = k THEN (CHOOSE e \in tab : e[1] = k)[2] ELSE NoDir

DevDir(s) == IF primed THEN Lookup(db, Key(s)) ELSE NoDir
RelDir(s) == Lookup(byName, Digest(s))
DirIn(m, s) == IF m = "dev" THEN DevDir(s) ELSE RelDir(s)

StartsWith(y, x) == x = y \/ <<x, y>> \in StrPrefix

----------------------------------------------------------------------------
(* M: DevelopDirOracle refresh, state.py:38-118 *)

\* 66-72: `path.startswith(baseDir)`
Keep(path, s) == IF KeepRule = "always" THEN TRUE
                 ELSE path[1] = "dev" /\ path[2] = s.kind /\ StartsWith(path[3], Base(s))

\* __fmt for every step in traversal order. acc.vis = __visited, acc.known = __known, acc.pend = __dirs
RECURSIVE FmtAll(_, _)
FmtAll(steps, acc) ==
  IF steps = <<>> THEN acc
  ELSE LET s == Head(steps)
           k == Key(s)
           path == Lookup(db, k)
       IN IF k \in acc.vis THEN FmtAll(Tail(steps), acc)                          \* 57-58
          ELSE IF path # NoDir /\ Keep(path, s)                                   \* 69-70
               THEN FmtAll(Tail(steps), [acc EXCEPT !.vis = @ \cup {k}, !.known = @ \cup {<<k, path>>}])
               ELSE FmtAll(Tail(steps), [acc EXCEPT !.vis = @ \cup {k},           \* 71-72
                                                    !.pend = Append(@, <<<<s.kind, Base(s)>>, k>>)])

\* __writeBack 107-115: number the new keys of one base directory around the kept directories
RECURSIVE Number(_, _, _, _)
Number(b, keys, num, knownDirs) ==
  IF keys = <<>> THEN {}
  ELSE LET d == <<"dev", b[1], b[2], num>>
       IN IF "NumberBlind" \notin Weak /\ d \in knownDirs
          THEN Number(b, keys, num + 1, knownDirs)                                \* 113
          ELSE {<<Head(keys), d>>} \cup Number(b, Tail(keys), num + 1, knownDirs) \* 114

Refreshed ==
  LET acc == FmtAll(StepSeq, [vis |-> {}, known |-> {}, pend |-> <<>>])
      knownDirs == {e[2] : e \in acc.known}
      bases == {acc.pend[i][1] : i \in DOMAIN acc.pend}
      KeysOf(b) == LET sel == SelectSeq(acc.pend, LAMBDA x : x[1] = b)
                   IN [i \in DOMAIN sel |-> sel[i][2]]
  IN acc.known \cup UNION {Number(b, KeysOf(b), 1, knownDirs) : b \in bases}

\* every dev-mode command (dev, clean --develop, query-path, ...) refreshes the mapping when the
\* recipes changed: state.py:120-146
Prime ==
  /\ ~primed
  /\ db' = TLCEval(Refreshed)           \* TLCEval: no lazily evaluated sets inside states
  /\ primed' = TRUE
  /\ last' = [cmd |-> "prime", mode |-> "dev", src |-> FALSE, dry |-> FALSE, del |-> {}]
  /\ hist' = Append(hist, [a |-> "Prime", db |-> db'])
  /\ UNCHANGED <<proj, srcv, byName, disk, nchg, exposed>>

----------------------------------------------------------------------------
(* M: release naming, state.py:528-537 via builder.py:403-411 *)

RECURSIVE AssignRel(_, _)
AssignRel(steps, bn) ==
  IF steps = <<>> THEN bn
  ELSE LET s == Head(steps)
           dg == Digest(s)
       IN IF \E e \in bn : e[1] = dg THEN AssignRel(Tail(steps), bn)              \* 529-530
          ELSE LET n == Cardinality({e \in bn : e[2][2] = s.kind /\ e[2][3] = Base(s)}) + 1   \* 532-534
               IN AssignRel(Tail(steps), bn \cup {<<dg, <<"rel", s.kind, Base(s), n>>>>})

----------------------------------------------------------------------------
(* M: the builder visiting every step: builder.py:1381-1392 (build), 1423-1448 (package) *)

RECURSIVE Visit(_, _, _)
\* st = [dk: disk, ex: exposed]; dirOf = function step -> dir
Visit(steps, dirOf, st) ==
  IF steps = <<>> THEN st
  ELSE LET s == Head(steps)
           d == dirOf[s]
           cur == st.dk[d]
       IN IF cur.ex /\ cur.st = s.vid
          THEN Visit(Tail(steps), dirOf, st)                                      \* digest matches: keep, skip
          ELSE LET left == IF ~cur.ex \/ "NoPrune" \in Weak THEN cur.mk ELSE {}   \* 1386-1389 emptyDirectory
               IN Visit(Tail(steps), dirOf,
                        [dk |-> [st.dk EXCEPT ![d] = [ex |-> TRUE, st |-> s.vid, mk |-> left \cup {s.vid}]],  \* 1392 + run
                         ex |-> st.ex \/ (left \ {s.vid}) # {}])

BuildDev ==
  /\ primed
  /\ LET dirOf == [s \in StepSet |-> DevDir(s)]
         r == Visit(StepSeq, dirOf, [dk |-> disk, ex |-> exposed])
     IN disk' = TLCEval(r.dk) /\ exposed' = r.ex
  /\ last' = [cmd |-> "build", mode |-> "dev", src |-> FALSE, dry |-> FALSE, del |-> {}]
  /\ hist' = Append(hist, [a |-> "BuildDev"])
  /\ UNCHANGED <<proj, srcv, db, primed, byName, nchg>>

BuildRel ==
  /\ byName' = TLCEval(AssignRel(StepSeq, byName))
  /\ LET dirOf == [s \in StepSet |-> Lookup(byName', Digest(s))]
         r == Visit(StepSeq, dirOf, [dk |-> disk, ex |-> exposed])
     IN disk' = TLCEval(r.dk) /\ exposed' = r.ex
  /\ last' = [cmd |-> "build", mode |-> "rel", src |-> FALSE, dry |-> FALSE, del |-> {}]
  /\ hist' = Append(hist, [a |-> "BuildRel", byName |-> byName'])
  /\ UNCHANGED <<proj, srcv, db, primed, nchg>>

----------------------------------------------------------------------------
(* M: bob clean, clean.py:24-56 collectPaths, 186-243 *)

\* 30-51: checkout workspaces always count as used; build/package workspaces only if no state is
\* recorded or the recorded digest is the step's variant id
Used(m) ==
  {DirIn(m, s) : s \in {t \in StepSet :
       LET d == DirIn(m, t)
       IN d # NoDir /\ (t.kind = "src" \/ disk[d].st = 0 \/
                        (IF "CleanInverted" \in Weak THEN disk[d].st # t.vid ELSE disk[d].st = t.vid))}}

\* 194-195 release: all byName directories; 205-210 develop: every directory with recorded state
\* that is not a release directory
Known(m) == IF m = "rel" THEN {e[2] : e \in byName}
            ELSE {d \in DirSet : d[1] = "dev" /\ disk[d].st # 0}

\* 212-226: -s / default source policy (SCM status assumed clean)
ToDelete(m, src) == {d \in Known(m) : d \notin Used(m) /\ disk[d].ex
                                      /\ (d[2] # "src" \/ src \/ "SrcUnprotected" \in Weak)}

Clean(m, src, dry) ==
  /\ LET del == ToDelete(m, src)
     IN /\ IF dry /\ "DryDeletes" \notin Weak
           THEN UNCHANGED disk                                                    \* 232-233
           ELSE disk' = TLCEval([d \in DirSet |-> IF d \in del THEN Absent                \* 234-238 removePath, delDirectoryState
                                          ELSE IF ~disk[d].ex THEN Absent         \* 241-242
                                          ELSE disk[d]])
        /\ hist' = Append(hist, [a |-> "Clean", mode |-> m, src |-> src, dry |-> dry, del |-> TLCEval(del)])
  /\ last' = [cmd |-> "clean", mode |-> m, src |-> src, dry |-> dry, del |-> TLCEval(ToDelete(m, src))]
  /\ UNCHANGED <<proj, srcv, db, primed, byName, nchg, exposed>>

\* clean --develop primes first (clean.py:184)
CleanDev == primed /\ \E src, dry \in BOOLEAN : Clean("dev", src, dry)
CleanRel == nchg >= 0 /\ \E src, dry \in BOOLEAN : Clean("rel", src, dry)   \* (conjunct keeps this one action for TLC)

----------------------------------------------------------------------------
(* environment: the user edits the recipes *)

ProjectChange ==
  /\ nchg < MaxChg
  /\ \E p \in Projects, sv \in [Recipes -> 1..NS] :
       /\ <<p, sv>> # <<proj, srcv>>
       /\ proj' = p /\ srcv' = sv
       /\ hist' = Append(hist, [a |-> "ProjectChange", proj |-> p, srcv |-> sv])
  /\ primed' = FALSE
  /\ nchg' = nchg + 1
  /\ last' = [cmd |-> "edit", mode |-> "dev", src |-> FALSE, dry |-> FALSE, del |-> {}]
  /\ UNCHANGED <<db, byName, disk, exposed>>

Init ==
  /\ proj = <<>> /\ srcv = [r \in Recipes |-> 1]
  /\ db = {} /\ primed = FALSE /\ byName = {}
  /\ disk = [d \in DirSet |-> Absent]
  /\ nchg = 0 /\ exposed = FALSE
  /\ last = [cmd |-> "init", mode |-> "dev", src |-> FALSE, dry |-> FALSE, del |-> {}]
  /\ hist = <<>>

Next == ProjectChange \/ Prime \/ BuildDev \/ BuildRel \/ CleanDev \/ CleanRel

Spec == Init /\ [][Next]_vars

\* generation of appear/disappear histories for the directory oracle alone
NextDev == ProjectChange \/ Prime
SpecDev == Init /\ [][NextDev]_vars
\* generation of single-mode histories (the mixed ones rarely stay long enough in one mode)
SpecDevMode == Init /\ [][ProjectChange \/ Prime \/ BuildDev \/ CleanDev]_vars
SpecRelMode == Init /\ [][ProjectChange \/ BuildRel \/ CleanRel]_vars

----------------------------------------------------------------------------
(* P layer *)

TypeOK ==
  /\ \A e \in db : e[2] \in DirSet
  /\ \A e \in byName : e[2] \in DirSet
  /\ proj \in Projects

\* two steps of the same kind share a directory only if they have the same variant id
\* (develop mode: and belong to the same recipe)
Injective ==
  \A s, t \in StepSet : s.kind = t.kind =>
     /\ (DevDir(s) # NoDir /\ DevDir(s) = DevDir(t)) => (s.vid = t.vid /\ Recipe(s) = Recipe(t))
     /\ (RelDir(s) # NoDir /\ RelDir(s) = RelDir(t)) => s.vid = t.vid

\* every step of a primed project has a directory (state.py:52-54 assert)
Assigned == primed => \A s \in StepSet : DevDir(s) # NoDir

\* a key / digest that has a directory before and after any step keeps it
Stable ==
  [][/\ \A e \in db, f \in db' : e[1] = f[1] => e[2] = f[2]
     /\ \A e \in byName, f \in byName' : e[1] = f[1] => e[2] = f[2]]_vars

\* what the mechanism with KeepRule = "prefix" guarantees (lemma, M level): a key keeps its directory
\* if the step that is visited first for this key still produces the base directory of the stored path
FirstStepOf(k) == StepSeq[CHOOSE i \in DOMAIN StepSeq : Key(StepSeq[i]) = k /\ \A j \in 1..(i - 1) : Key(StepSeq[j]) # k]
StableIfNamerUnchanged ==
  [][\A e \in db, f \in db' : (e[1] = f[1] /\ e[2] # f[2]) => ~Keep(e[2], FirstStepOf(e[1]))]_vars

EmptiedBeforeReuse == ~exposed

\* d holds the up-to-date result of a step of the current project
UpToDateUsed(d) ==
  \E s \in StepSet, m \in {"dev", "rel"} :
     DirIn(m, s) = d /\ disk[d].ex /\ disk[d].st = s.vid /\ disk[d].mk = {s.vid}

CleanOnlyGarbage ==
  [][\A d \in DirSet : (disk[d].ex /\ ~disk'[d].ex) =>
        /\ last'.cmd = "clean"
        /\ ~UpToDateUsed(d)
        /\ (d[2] = "src" => last'.src)
        /\ d[1] = last'.mode]_vars

DryRunDeletesNothing == [][(last'.cmd = "clean" /\ last'.dry) => disk' = disk]_vars

NoUpToDateResultLost ==
  [][(proj' = proj /\ srcv' = srcv) => \A d \in DirSet : UpToDateUsed(d) => disk'[d] = disk[d]]_vars

----------------------------------------------------------------------------
(* vacuity companions: negated reachability, each must be VIOLATED *)

\* a new key is numbered past a kept directory: the step visited first got the higher number
ReachNumberedAround ==
  ~(primed /\ Len(proj) >= 2 /\ proj[1][1] = proj[2][1]
      /\ DevDir(BuildStep(1))[4] = 2 /\ DevDir(BuildStep(2))[4] = 1)
\* a directory with content of one variant is handed to another one (must be pruned)
ReachReuse ==
  ~(primed /\ \E s \in StepSet : DevDir(s) # NoDir /\ disk[DevDir(s)].ex /\ disk[DevDir(s)].st # s.vid /\ s.kind = "build")
\* two package names of one recipe share a key
ReachSharedKey ==
  ~(primed /\ \E s, t \in StepSet : s.kind = "build" /\ t.kind = "build" /\ s.pkg # t.pkg /\ Key(s) = Key(t))
\* identical variant under two recipes: shared in release mode, separate in develop mode
ReachTwins ==
  ~(primed /\ \E s, t \in StepSet : s.kind = "build" /\ t.kind = "build" /\ Recipe(s) # Recipe(t)
                /\ RelDir(s) # NoDir /\ RelDir(s) = RelDir(t) /\ DevDir(s) # DevDir(t))
\* clean deletes a build directory / a source directory / keeps a stale directory of a current step
ReachCleanDeletesBuild == ~(last.cmd = "clean" /\ ~last.dry /\ \E d \in last.del : d[2] = "build")
ReachCleanDeletesSrc == ~(last.cmd = "clean" /\ ~last.dry /\ last.src /\ \E d \in last.del : d[2] = "src")
ReachCleanStaleOfCurrent ==
  ~(last.cmd = "clean" /\ ~last.dry /\ \E d \in last.del : \E s \in StepSet : DirIn(last.mode, s) = d)
ReachDrySkips == ~(last.cmd = "clean" /\ last.dry /\ last.del # {})

----------------------------------------------------------------------------
(* structured constants for the configs (cfg files cannot hold functions) *)
PkgMulti    == {"a-x", "a-y", "b"}                 \* multiPackage recipe a (two packages) + recipe b with identical content
RecipeMulti == [p \in PkgMulti |-> IF p = "b" THEN "b" ELSE "a"]
PkgOne      == {"a"}                               \* one package, many variants: numbering around kept entries
RecipeOne   == [p \in PkgOne |-> "a"]
PkgNested   == {"a", "a-x"}                        \* multiPackage with the nameless package: "a" is a prefix of "a-x"
RecipeNested == [p \in PkgNested |-> "a"]
PrefixNone  == {}
PrefixNested == {<<"a", "a-x">>}

----------------------------------------------------------------------------
(* generation *)
GenPrint == (GenDepth > 0 /\ TLCGet("level") = GenDepth) => PrintT(<<"@@", ToJson(hist)>>)
DepthBound == GenDepth = 0 \/ TLCGet("level") <= GenDepth

=============================================================================
