SPECIFICATION Spec
CONSTANTS MaxEdits = 8  MaxInv = 7  MaxDrop = 2  MaxRequery = 1  MtimeEdits = TRUE  GenDepth = 500
CONSTANT Weak = {}
INVARIANT GenPrint
CHECK_DEADLOCK FALSE
