SPECIFICATION LiveSpec
CONSTANTS MaxJobs = 2  MaxFail = 1  GenDepth = 0  WeakDeps = FALSE  WeakOnce = FALSE  WeakBound = FALSE  Dags = {1, 2, 3, 4, 5, 6}
PROPERTY Termination
