SPECIFICATION LiveSpec
CONSTANTS MaxJobs = 2  MaxFail = 1  GenDepth = 0  WeakDeps = FALSE  WeakOnce = FALSE  WeakBound = FALSE
PROPERTY Termination
