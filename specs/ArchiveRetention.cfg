SPECIFICATION Spec
CONSTANTS MaxArt = 3  MaxHist = 3  MaxCmd = 2  Sweep = "both"  GenDepth = 0
CONSTANT Recs <- RecsTiny
CONSTANT Shapes <- ShapesSmall
CONSTANT ExprLists <- ExprListsSmall
VIEW view
INVARIANT TypeOK
INVARIANT IndexIsSnapshot
INVARIANT IndexIndependent
INVARIANT CleanExact
INVARIANT DryRunKeepsAll
INVARIANT DryRunListsVictims
INVARIANT FindExact
INVARIANT ScanKeepsAll
INVARIANT NoScanUsesSnapshot
CHECK_DEADLOCK FALSE
