SPECIFICATION SpecDev
CONSTANTS Pkg <- PkgOne  RecipeOf <- RecipeOne  StrPrefix <- PrefixNone
CONSTANTS NV = 4  NS = 1  MaxLen = 3  MaxChg = 8  MaxNum = 4  GenDepth = 14  KeepRule = "prefix"
CONSTANT Weak = {}
INVARIANT GenPrint
CHECK_DEADLOCK FALSE
