SPECIFICATION Spec
CONSTANTS MinN = 1  MaxN = 3  NameIdx = {1, 3, 4, 6}  MaxKids = 3  MaxEdges = 6  MaxIso = 1  MaxExtraRoots = 1
          RootPerm = TRUE  Topo = FALSE  SkipTaken = TRUE  Gen = TRUE
VIEW view
INVARIANT TypeOK
INVARIANT Acyclic
INVARIANT AcyclicFinal
INVARIANT BuildOrderExists
INVARIANT UniqueNames
INVARIANT EveryPackageInExactlyOneJob
INVARIANT JobDependsOnDepsJobs
INVARIANT ChildsComplete
INVARIANT PrefixNonEmpty
CHECK_DEADLOCK FALSE
INVARIANT GenPrint
