SPECIFICATION Spec
CONSTANTS
  MaxSteps = 5
  MaxEdit = 2
  MaxUp = 2
  MaxUser = 2
  MaxBob = 3
  Urls = {"U1", "U2"}
  AuxKinds = {"urld", "imp"}
  Dirs = {".", "sub"}
  Weak = {}
  GenDepth = 0
VIEW view
INVARIANTS ReachAtticCleaned
