SPECIFICATION Spec
CONSTANTS MinN = 6  MaxN = 6  NameIdx = {1, 6, 7}  MaxKids = 3  MaxEdges = 4  MaxIso = 0  MaxExtraRoots = 0
          RootPerm = FALSE  Topo = TRUE  SkipTaken = TRUE  Gen = TRUE
VIEW view
INVARIANT TypeOK
INVARIANT Acyclic
INVARIANT AcyclicFinal
INVARIANT BuildOrderExists
INVARIANT UniqueNames
INVARIANT EveryPackageInExactlyOneJob
INVARIANT JobDependsOnDepsJobs
INVARIANT ChildsComplete
INVARIANT PrefixNonEmpty
CHECK_DEADLOCK FALSE
INVARIANT GenPrint
