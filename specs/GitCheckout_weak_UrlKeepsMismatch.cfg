SPECIFICATION Spec
CONSTANTS
  MaxSteps = 5
  MaxEdit = 2
  MaxUp = 1
  MaxUser = 0
  MaxBob = 2
  Urls = {"U1"}
  AuxKinds = {"url", "urld"}
  Dirs = {"."}
  Weak = {"UrlKeepsMismatch"}
  GenDepth = 0
VIEW view
INVARIANTS CexPrint
