---------------------------- MODULE BobArtifacts ----------------------------
(* Binary artifact reuse (property C07): two workspaces at different locations
   share one file archive.  Package results are uploaded under their Build-Id
   and downloaded instead of being built, depending on the download mode.

   Project per workspace w (edited independently):
     bver, pver      script versions of app (lib's scripts are fixed)
     srcl            content version of lib's sources
     V               a variable consumed by app's build step
     fp              the host fingerprint (output of app's fingerprintScript)
     reloc           whether app is relocatable; a non-relocatable result embeds its workspace
                     location, and its Build-Id is tagged with that location
   app (depth 0, fingerprinted) depends on lib (depth 1).

   Build-Id = structural term over exactly what the documentation says it
   covers (scripts, consumed variables, source CONTENT, dependency Build-Ids,
   fingerprint).  Weak selects documented weakenings; TLC's counterexamples for
   them are replayed against the real code.

   M layer: builder.py _preparePackageStep (1423-1448), _downloadPackage
   (1544-1642), _cookPackageStep (1644-1691), archive upload (never overwrite).
   The build step is abstracted to its verified contract (see BobBuild.tla).   *)
EXTENDS Naturals, Sequences, FiniteSets, TLC, Json

CONSTANTS MaxEdit, MaxInv, Weak, GenDepth

WS == {"w1", "w2"}
Pkg == {"app", "lib"}
Modes == {"no", "yes", "deps", "forced", "forced-deps", "forced-fallback"}

VARIABLES proj,      \* [WS -> record]
          cont, res, inp, dst,       \* [WS -> [Pkg -> ...]] dist workspaces
          archive,   \* set of <<bid, content>>
          run,       \* <<"idle">> or [w, mode, upload, todo, pc]
          nedit, ninv, lastOk, lastW, built, dl, failed, expectZero, hist

vars == <<proj, cont, res, inp, dst, archive, run, nedit, ninv, lastOk, lastW, built, dl, failed, expectZero, hist>>
view == <<proj, cont, res, inp, dst, archive, run, nedit, ninv, lastOk, lastW, built, dl, failed, expectZero>>

NONE == <<"none">>
EMPTY == <<"empty">>
H(c) == <<"h", c>>
IDLE == [w |-> "w1", mode |-> "idle", upload |-> FALSE, todo |-> <<>>, pc |-> "start"]

P(w) == proj[w]
SrcL(w) == <<"s", P(w).srcl>>
\* contents a clean local build produces
CleanDlib(w) == <<"d", "lib", SrcL(w)>>
Where(w) == IF P(w).reloc THEN "anywhere" ELSE w
CleanDapp(w) == <<"d", "app", P(w).pver, P(w).bver, P(w).V, P(w).fp, Where(w), CleanDlib(w)>>
CleanD(w, p) == IF p = "lib" THEN CleanDlib(w) ELSE CleanDapp(w)
\* variant ids: no source content, no fingerprint
VIdD(w, p) == IF p = "lib" THEN <<"vd", "lib">> ELSE <<"vd", "app", P(w).pver, P(w).bver, P(w).V, P(w).reloc>>
\* build ids
BIdLib(w) == <<"bid", "lib", IF "BidIgnoresSrc" \in Weak THEN 9 ELSE P(w).srcl>>
BIdApp(w) == <<"bid", "app", P(w).pver, P(w).bver,
               IF "BidIgnoresVars" \in Weak THEN 9 ELSE P(w).V,
               IF "BidIgnoresFingerprint" \in Weak THEN 9 ELSE P(w).fp,
               P(w).reloc, IF "BidIgnoresLocation" \in Weak THEN "anywhere" ELSE Where(w),
               IF "BidIgnoresDepBid" \in Weak THEN 9 ELSE BIdLib(w)>>
BId(w, p) == IF p = "lib" THEN BIdLib(w) ELSE BIdApp(w)
Depth(p) == IF p = "lib" THEN 1 ELSE 0

DlDepth(mode) == IF mode \in {"yes", "forced", "forced-fallback"} THEN 0
                 ELSE IF mode \in {"deps", "forced-deps"} THEN 1 ELSE 99
ForceDepth(mode) == IF mode = "forced" THEN 0 ELSE IF mode \in {"forced-deps", "forced-fallback"} THEN 1 ELSE 99

InArchive(b) == \E a \in archive : a[1] = b
ArchiveGet(b) == (CHOOSE a \in archive : a[1] = b)[2]

\* what a local package build of p in w yields from the actual inputs (lib's dist as it is)
LocalResult(w, p) == IF p = "lib" THEN CleanDlib(w)
                     ELSE <<"d", "app", P(w).pver, P(w).bver, P(w).V, P(w).fp, Where(w), cont[w]["lib"]>>
\* 1657-1660: result hashes of the inputs plus the fingerprint
PkgInputs(w, p) == IF p = "lib" THEN <<SrcL(w)>>
                   ELSE <<P(w).bver, P(w).V, P(w).reloc, res[w]["lib"], IF "InputsIgnoreFingerprint" \in Weak THEN 9 ELSE P(w).fp>>

Hist(a) == hist' = Append(hist, a)
W == run.w
Cur == Head(run.todo)
Running == run.mode # "idle"

Init ==
  /\ proj = [w \in WS |-> [bver |-> 0, pver |-> 0, srcl |-> 0, V |-> 0, fp |-> 0, reloc |-> TRUE]]
  /\ cont = [w \in WS |-> [p \in Pkg |-> EMPTY]]
  /\ res = [w \in WS |-> [p \in Pkg |-> NONE]]
  /\ inp = [w \in WS |-> [p \in Pkg |-> NONE]]
  /\ dst = [w \in WS |-> [p \in Pkg |-> NONE]]
  /\ archive = {} /\ run = IDLE
  /\ nedit = 0 /\ ninv = 0 /\ lastOk = FALSE /\ lastW = "w1" /\ built = 0 /\ dl = 0 /\ failed = FALSE /\ expectZero = FALSE
  /\ hist = <<>>

Edit ==
  /\ ~Running /\ nedit < MaxEdit
  /\ \E w \in WS :
       \/ proj' = [proj EXCEPT ![w].bver = 1 - @] /\ Hist([a |-> "Edit", w |-> w, knob |-> "bver"])
       \/ proj' = [proj EXCEPT ![w].pver = 1 - @] /\ Hist([a |-> "Edit", w |-> w, knob |-> "pver"])
       \/ proj' = [proj EXCEPT ![w].srcl = 1 - @] /\ Hist([a |-> "Edit", w |-> w, knob |-> "srcl"])
       \/ proj' = [proj EXCEPT ![w].V = 1 - @] /\ Hist([a |-> "Edit", w |-> w, knob |-> "V"])
       \/ proj' = [proj EXCEPT ![w].fp = 1 - @] /\ Hist([a |-> "Edit", w |-> w, knob |-> "fp"])
       \/ proj' = [proj EXCEPT ![w].reloc = ~@] /\ Hist([a |-> "Edit", w |-> w, knob |-> "reloc"])
  /\ nedit' = nedit + 1 /\ lastOk' = FALSE
  /\ UNCHANGED <<cont, res, inp, dst, archive, run, ninv, lastW, built, dl, failed, expectZero>>

Begin ==
  /\ ~Running /\ ninv < MaxInv
  /\ \E w \in WS, m \in Modes, up \in BOOLEAN :
       /\ run' = [w |-> w, mode |-> m, upload |-> up, todo |-> <<"app">>, pc |-> "prep"]
       /\ Hist([a |-> "Begin", w |-> w, mode |-> m, upload |-> up, proj |-> proj[w]])
       /\ lastW' = w
       /\ expectZero' = (m \in {"yes", "forced", "forced-fallback"} /\ InArchive(BIdApp(w)) /\ res[w]["app"] = NONE)
  /\ ninv' = ninv + 1 /\ lastOk' = FALSE /\ built' = 0 /\ dl' = 0 /\ failed' = FALSE
  /\ UNCHANGED <<proj, cont, res, inp, dst, archive, nedit>>

Upd(f, p, v) == [f EXCEPT ![W][p] = v]

\* 1423-1448 prune on changed variant-id
Prep ==
  /\ Running /\ run.pc = "prep"
  /\ LET p == Cur IN
     IF dst[W][p] # VIdD(W, p)
       THEN /\ cont' = Upd(cont, p, EMPTY) /\ res' = Upd(res, p, NONE)
            /\ inp' = Upd(inp, p, NONE) /\ dst' = Upd(dst, p, VIdD(W, p))
       ELSE UNCHANGED <<cont, res, inp, dst>>
  /\ run' = [run EXCEPT !.pc = "dl"]
  /\ UNCHANGED <<proj, archive, nedit, ninv, lastOk, lastW, built, dl, failed, expectZero, hist>>

OldBid(w, p) == IF inp[w][p] = NONE THEN NONE ELSE inp[w][p][2]
WasDl(w, p) == inp[w][p] # NONE /\ inp[w][p][1] = "dl"

\* 1566-1601: no attempt at this depth
DlNotTried ==
  /\ Running /\ run.pc = "dl" /\ Depth(Cur) < DlDepth(run.mode)
  /\ run' = [run EXCEPT !.pc = "deps"]
  /\ UNCHANGED <<proj, cont, res, inp, dst, archive, nedit, ninv, lastOk, lastW, built, dl, failed, expectZero, hist>>

\* 1583-1601 prune if something with another build-id is there
DlPrune ==
  /\ Running /\ run.pc = "dl" /\ Depth(Cur) >= DlDepth(run.mode)
  /\ LET p == Cur IN
     IF OldBid(W, p) # NONE /\ OldBid(W, p) # BId(W, p) /\ "NoPruneOnBidChange" \notin Weak
       THEN /\ cont' = Upd(cont, p, EMPTY) /\ res' = Upd(res, p, NONE) /\ inp' = Upd(inp, p, NONE)
       ELSE UNCHANGED <<cont, res, inp>>
  /\ run' = [run EXCEPT !.pc = "fetch"]
  /\ UNCHANGED <<proj, dst, archive, nedit, ninv, lastOk, lastW, built, dl, failed, expectZero, hist>>

\* 1606-1624 download + verify
DlFetchOk ==
  /\ Running /\ run.pc = "fetch" /\ res[W][Cur] = NONE /\ InArchive(BId(W, Cur))
  /\ LET p == Cur IN
     /\ cont' = Upd(cont, p, ArchiveGet(BId(W, p)))
     /\ res' = Upd(res, p, H(ArchiveGet(BId(W, p))))
     /\ inp' = Upd(inp, p, <<"dl", BId(W, p)>>)
  /\ dl' = dl + 1
  /\ run' = [run EXCEPT !.pc = "installed"]
  /\ UNCHANGED <<proj, dst, archive, nedit, ninv, lastOk, lastW, built, failed, expectZero, hist>>

\* 1625-1628
DlFetchMiss ==
  /\ Running /\ run.pc = "fetch" /\ res[W][Cur] = NONE /\ ~InArchive(BId(W, Cur))
  /\ IF Depth(Cur) >= ForceDepth(run.mode)
       THEN /\ run' = IDLE /\ failed' = TRUE /\ Hist([a |-> "DownloadFailed", p |-> Cur])
       ELSE /\ run' = [run EXCEPT !.pc = "deps"] /\ UNCHANGED <<failed, hist>>
  /\ UNCHANGED <<proj, cont, res, inp, dst, archive, nedit, ninv, lastOk, lastW, built, dl, expectZero>>

\* 1629-1632 already downloaded; or something built is there
DlHave ==
  /\ Running /\ run.pc = "fetch" /\ res[W][Cur] # NONE
  /\ run' = [run EXCEPT !.pc = IF WasDl(W, Cur) THEN "installed" ELSE "deps"]
  /\ UNCHANGED <<proj, cont, res, inp, dst, archive, nedit, ninv, lastOk, lastW, built, dl, failed, expectZero, hist>>

\* not downloaded: cook the dependencies first (1137), i.e. descend into lib
Deps ==
  /\ Running /\ run.pc = "deps"
  /\ IF Cur = "app"
       THEN run' = [run EXCEPT !.todo = <<"lib">> \o @, !.pc = "prep"]
       ELSE run' = [run EXCEPT !.pc = "pkg"]
  /\ UNCHANGED <<proj, cont, res, inp, dst, archive, nedit, ninv, lastOk, lastW, built, dl, failed, expectZero, hist>>

\* 1644-1691 local build (build step contract + package step)
PkgSkip ==
  /\ Running /\ run.pc = "pkg"
  /\ inp[W][Cur] # NONE /\ inp[W][Cur][1] = "built" /\ inp[W][Cur][3] = PkgInputs(W, Cur)
  /\ run' = [run EXCEPT !.pc = "installed"]
  /\ UNCHANGED <<proj, cont, res, inp, dst, archive, nedit, ninv, lastOk, lastW, built, dl, failed, expectZero, hist>>

PkgBuild ==
  /\ Running /\ run.pc = "pkg"
  /\ ~(inp[W][Cur] # NONE /\ inp[W][Cur][1] = "built" /\ inp[W][Cur][3] = PkgInputs(W, Cur))
  /\ LET p == Cur IN
     /\ cont' = Upd(cont, p, LocalResult(W, p))
     /\ res' = Upd(res, p, H(LocalResult(W, p)))
     /\ inp' = Upd(inp, p, <<"built", BId(W, p), PkgInputs(W, p)>>)
     \* 1147-1149 upload what was built; an existing artifact is never replaced
     /\ archive' = IF run.upload /\ ~InArchive(BId(W, p)) THEN archive \cup {<<BId(W, p), LocalResult(W, p)>>} ELSE archive
  /\ built' = built + 1
  /\ run' = [run EXCEPT !.pc = "installed"]
  /\ UNCHANGED <<proj, dst, nedit, ninv, lastOk, lastW, dl, failed, expectZero, hist>>

\* package done: return to the parent (after lib: continue app's local build) or finish
Installed ==
  /\ Running /\ run.pc = "installed"
  /\ IF Len(run.todo) > 1
       THEN /\ run' = [run EXCEPT !.todo = Tail(@), !.pc = "pkg"] /\ UNCHANGED <<lastOk, hist>>
       ELSE /\ run' = IDLE /\ lastOk' = TRUE /\ Hist([a |-> "End", built |-> built, dl |-> dl])
  /\ UNCHANGED <<proj, cont, res, inp, dst, archive, nedit, ninv, lastW, built, dl, failed, expectZero>>

Done == ~Running /\ ninv = MaxInv /\ UNCHANGED vars

Next == Edit \/ Begin \/ Prep \/ DlNotTried \/ DlPrune \/ DlFetchOk \/ DlFetchMiss \/ DlHave
        \/ Deps \/ PkgSkip \/ PkgBuild \/ Installed \/ Done

Spec == Init /\ [][Next]_vars

----------------------------------------------------------------------------
(* P layer *)

\* a build with downloads enabled yields what a purely local build of the same project state yields,
\* whatever the archive holds
DownloadEqLocal == lastOk => cont[lastW]["app"] = CleanDapp(lastW)

\* everything uploaded by one workspace can be downloaded by another without executing a build step
FullReuse == (lastOk /\ expectZero) => built = 0

\* archive entries are never replaced
NeverOverwrite == [][\A a \in archive : a \in archive']_vars

\* the build-id is a function of the content a clean build produces and vice versa (no foreign artifact)
ArchiveSound == \A a, b \in archive : a[1] = b[1] => a[2] = b[2]

ReachDownloadApp == ~(lastOk /\ dl > 0 /\ built = 0 /\ lastW = "w2")
ReachRebuildAfterFp == ~(lastOk /\ built > 0 /\ lastW = "w2" /\ proj["w2"].fp # proj["w1"].fp /\ archive # {})

CexPrint == DownloadEqLocal \/ PrintT(<<"@@", ToJson(hist)>>)
GenPrint == (GenDepth > 0 /\ TLCGet("level") = GenDepth) => PrintT(<<"@@", ToJson(hist)>>)
=============================================================================
