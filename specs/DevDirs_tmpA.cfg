SPECIFICATION Spec
CONSTANTS Pkg <- PkgMulti  RecipeOf <- RecipeMulti  StrPrefix <- PrefixNone
CONSTANTS NV = 2  NS = 1  MaxLen = 2  MaxChg = 2  MaxNum = 2  KeepRule = "prefix"  GenDepth = 0
CONSTANT Weak = {}
VIEW view
INVARIANT TypeOK
INVARIANT Injective
INVARIANT Assigned
INVARIANT EmptiedBeforeReuse
CHECK_DEADLOCK FALSE
