SPECIFICATION Spec
CONSTANTS MaxEdits = 1  MaxInv = 2  MaxDrop = 0  MaxRequery = 0  MtimeEdits = TRUE  GenDepth = 0
CONSTANT Weak = {"YamlMtimeOnly"}
VIEW view
INVARIANT CexPrint
CHECK_DEADLOCK FALSE
