SPECIFICATION Spec
CONSTANTS MaxEdits = 3  MaxInv = 2  MaxDrop = 0  MaxRequery = 0  MtimeEdits = FALSE  GenDepth = 0
CONSTANT Weak = {}
VIEW view
INVARIANT TypeOK
INVARIANT MemoSound
INVARIANT DiskSound
CHECK_DEADLOCK FALSE
