SPECIFICATION Spec
CONSTANTS Parts = {"tree", "extract", "corrupt"}  MaxNodes = 4  FullNodes = 3  MaxHostile = 1
          MaxMembers = 4  HardLinkRule = "resolved"  Gen = FALSE
VIEW view
INVARIANT TypeOK
INVARIANT Confined
INVARIANT AcceptRule
INVARIANT RejectedNeverUsed
CHECK_DEADLOCK FALSE
