SPECIFICATION Spec
CONSTANTS K = 3  N = 2  Recursive = FALSE  Rounds = 2  MaxChild = 2  MaxChildOps = 2  GenDepth = 0  FixHandover = FALSE
INVARIANT ReachTwoWoken
