\* thorough exhaustive check (two build-ids, two projects, two operations, every operation kind)
SPECIFICATION Spec
CONSTANTS Procs = {"A", "B"}  BIds = {"b1", "b2"}  MaxOps = 2  MaxTotal = 2
CONSTANT OpKinds = {"use", "inst", "instmv", "instbad", "gc", "gcA", "gcU"}
CONSTANT Quotas = {1, 2, 99}
CONSTANT InitKinds = {"nodir", "emptydir", "pop"}
CONSTANT InitPerm = FALSE  MaxUnlink = 1  Gen = FALSE
CONSTANT Weak = {}
VIEW view
INVARIANT TypeOK
INVARIANT VisibleIsComplete
INVARIANT HashMatches
INVARIANT NoDanglingUse
INVARIANT NoDanglingInst
INVARIANT NoDanglingLost
INVARIANT NoDanglingLinked
INVARIANT NoDanglingUnregistered
INVARIANT NoDanglingDuring
INVARIANT NoDanglingLinkToCollected
INVARIANT NoGcFailEmptyStore
INVARIANT NoJsonFailureGc
INVARIANT NoJsonFailureInstall
INVARIANT NoJsonFailureUse
INVARIANT NoInspectFailure
INVARIANT SizeAccounting
INVARIANT AutoCleanPolicy
INVARIANT LocksFreeAtQuiescence
INVARIANT NoLockDeadlock
PROPERTY InstalledOncePerBid
CHECK_DEADLOCK FALSE
