SPECIFICATION Spec
CONSTANTS MaxJobs = 2  MaxFail = 0  GenDepth = 0  WeakDeps = FALSE  WeakOnce = FALSE  WeakBound = TRUE
INVARIANT Bounded
