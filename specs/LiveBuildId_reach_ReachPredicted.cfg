SPECIFICATION Spec
CONSTANTS MaxOps = 4  MaxHead = 1  GenDepth = 0
CONSTANT Weak = {}
VIEW view
INVARIANT ReachPredicted
CHECK_DEADLOCK FALSE
