SPECIFICATION Spec
CONSTANTS MaxEdits = 3  MaxInv = 1  MaxDrop = 0  MaxRequery = 0  MtimeEdits = FALSE  GenDepth = 0
CONSTANT Weak = {"MemoIgnoresSandbox"}
VIEW view
INVARIANT CexPrint
CHECK_DEADLOCK FALSE
