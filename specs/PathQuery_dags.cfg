SPECIFICATION Spec
CONSTANTS Tier = 2  MaxLen = 2  GraphLo = 1  GraphHi = 0  GenNodes = 4  Emit = TRUE
INVARIANT TypeOK
INVARIANT DescendantIsChildClosure
INVARIANT AllConsistent
CHECK_DEADLOCK FALSE
