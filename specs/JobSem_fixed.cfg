SPECIFICATION Spec
CONSTANTS K = 3  N = 2  Recursive = FALSE  Rounds = 2  MaxChild = 1  MaxChildOps = 2  GenDepth = 0  FixHandover = TRUE
INVARIANT TypeOK
INVARIANT Bounded
INVARIANT Conservation
INVARIANT NoDuplication
INVARIANT QuiescentAllBack
INVARIANT NoCrash
INVARIANT NoOrphanWaiter
INVARIANT MechConsistent
