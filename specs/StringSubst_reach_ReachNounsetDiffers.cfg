SPECIFICATION Spec
CONSTANTS MaxSize = 2  Rich = FALSE  TowerDepth = 2  ProtLen = 1  RawLen = 1
          MaxESize = 3  ETower = 1  RawELen = 1  BigEnv = FALSE  Emit = FALSE
INVARIANT ReachNounsetDiffers
CHECK_DEADLOCK FALSE
