SPECIFICATION Spec
CONSTANTS MaxSnap = 4  MaxInv = 3  MaxCrash = 2  MaxAsync = 2  GenDepth = 0
VIEW view
INVARIANT TypeOK
INVARIANT LoadNeverErrors
INVARIANT LoadsSavedSnapshot
INVARIANT NotOlderThanCompleted
INVARIANT SingleWriter
INVARIANT PickleDurable
CHECK_DEADLOCK FALSE
