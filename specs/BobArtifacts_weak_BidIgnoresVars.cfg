SPECIFICATION Spec
CONSTANTS MaxEdit = 2  MaxInv = 3  GenDepth = 0
CONSTANT Weak = {"BidIgnoresVars"}
VIEW view
INVARIANT CexPrint
CHECK_DEADLOCK FALSE
