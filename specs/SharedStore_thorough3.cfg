\* thorough exhaustive check: three concurrent projects on one package
SPECIFICATION Spec
CONSTANTS Procs = {"A", "B", "C"}  BIds = {"b1"}  MaxOps = 1  MaxTotal = 3
CONSTANT OpKinds = {"use", "instmv", "gcA"}
CONSTANT Quotas = {99}
CONSTANT InitKinds = {"emptydir", "pop"}
CONSTANT InitPerm = FALSE  MaxUnlink = 0  Gen = FALSE
CONSTANT Weak = {}
VIEW view
INVARIANT TypeOK
INVARIANT VisibleIsComplete
INVARIANT HashMatches
INVARIANT NoDanglingUse
INVARIANT NoDanglingInst
INVARIANT NoDanglingLost
INVARIANT NoDanglingLinked
INVARIANT NoDanglingUnregistered
INVARIANT NoDanglingDuring
INVARIANT NoDanglingLinkToCollected
INVARIANT NoGcFailEmptyStore
INVARIANT NoJsonFailureGc
INVARIANT NoJsonFailureInstall
INVARIANT NoJsonFailureUse
INVARIANT NoInspectFailure
INVARIANT SizeAccounting
INVARIANT AutoCleanPolicy
INVARIANT LocksFreeAtQuiescence
INVARIANT NoLockDeadlock
PROPERTY InstalledOncePerBid
CHECK_DEADLOCK FALSE
