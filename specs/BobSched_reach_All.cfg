SPECIFICATION Spec
CONSTANTS MaxJobs = 3  MaxFail = 1  GenDepth = 0  WeakDeps = FALSE  WeakOnce = FALSE  WeakBound = FALSE  Dags = {1, 2, 3, 4, 5, 6}
INVARIANT ReachFullParallel
INVARIANT ReachKeepGoingPartial
INVARIANT ReachStartAfterFailure
INVARIANT ReachSharedCheckout
