SPECIFICATION Spec
CONSTANTS MaxJobs = 3  MaxFail = 1  GenDepth = 0  WeakDeps = FALSE  WeakOnce = FALSE  WeakBound = FALSE
INVARIANT ReachFullParallel
INVARIANT ReachKeepGoingPartial
INVARIANT ReachStartAfterFailure
INVARIANT ReachSharedCheckout
