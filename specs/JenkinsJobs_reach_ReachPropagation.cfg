SPECIFICATION Spec
CONSTANTS MinN = 1  MaxN = 4  NameIdx = {1, 3, 5, 6}  MaxKids = 3  MaxEdges = 4  MaxIso = 0  MaxExtraRoots = 0
          RootPerm = FALSE  Topo = TRUE  SkipTaken = TRUE  Gen = FALSE
VIEW view
INVARIANT ReachPropagation
CHECK_DEADLOCK FALSE
