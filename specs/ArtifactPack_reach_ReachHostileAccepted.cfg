SPECIFICATION Spec
CONSTANTS Parts = {"extract"}  MaxNodes = 3  FullNodes = 2  MaxHostile = 1
          MaxMembers = 3  HardLinkRule = "resolved"  Gen = FALSE
VIEW view
INVARIANT ReachHostileAccepted
CHECK_DEADLOCK FALSE
