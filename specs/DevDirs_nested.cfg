SPECIFICATION Spec
CONSTANTS Pkg <- PkgNested  RecipeOf <- RecipeNested  StrPrefix <- PrefixNested
CONSTANTS NV = 2  NS = 1  MaxLen = 2  MaxChg = 2  MaxNum = 2  GenDepth = 0  KeepRule = "prefix"
CONSTANT Weak = {}
VIEW view
INVARIANT TypeOK
INVARIANT Injective
INVARIANT Assigned
INVARIANT EmptiedBeforeReuse
PROPERTY StableIfNamerUnchanged
PROPERTY CleanOnlyGarbage
PROPERTY DryRunDeletesNothing
PROPERTY NoUpToDateResultLost
CHECK_DEADLOCK FALSE
