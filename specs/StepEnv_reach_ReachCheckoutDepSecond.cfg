SPECIFICATION Spec
CONSTANTS DepNames = {"da", "db"}  MaxDeps = 2  Emit = FALSE
INVARIANT ReachCheckoutDepSecond
CHECK_DEADLOCK FALSE
