\* the protocol of the code as it is: NoJsonFailureGc must be VIOLATED; the counterexample (printed as JSON by CexNoJsonFailureGc)
\* is replayed against the real code by checks/c15_sharedstore.py
SPECIFICATION Spec
CONSTANTS Procs = {"A", "B"}  BIds = {"b1"}  MaxOps = 1  MaxTotal = 2
CONSTANT OpKinds = {"instmv", "gcA"}
CONSTANT Quotas = {99}
CONSTANT InitKinds = {"emptydir"}
CONSTANT InitPerm = FALSE  MaxUnlink = 0  Gen = FALSE
CONSTANT Weak = {"LinkAfterUnlock", "LostRaceUnregistered", "GcNeedsRepoJson", "RepoCreateWindow", "UnlockBeforeFlush", "InspectRace"}
VIEW view
INVARIANT CexNoJsonFailureGc
CHECK_DEADLOCK FALSE
