--------------------------- MODULE ArchiveRetention ---------------------------
(* Retention of binary artifacts by `bob archive scan|clean|find`
   (pym/bob/cmds/archive.py), property C19.

   files   the archive directory: artifact id -> record of the audit fields the
           command can see (meta.package, build.date, metaEnv.RANK) or Absent.
           build.date is always present, rank = 0 means "field not populated".
   shape   the references between artifacts (id -> set of smaller ids): a DAG with
           sharing, fixed per behaviour (the referenced build-ids of an artifact are
           determined by its build-id), chosen from Shapes at Init.
   idx     M: table `files` of .bob-archive.sqlite3: one row per indexed artifact
           holding the fields as they were when the row was written; cur = the stored
           stat still equals the stat of the file in the archive.
   rrow    M: table `refs`: rrow[a] = the rows (a, r) for r in shape[a] exist.
   snap    P (ghost): the archive as it was when it was last scanned ("last scanned
           data" of option -n).
   last    observation of the last command (hidden by VIEW).
   viol    P (monitor): names of the step properties of the P layer that were false on
           some step so far.  The step properties (CleanExactA, ...) are formulas over
           files, files', snap and last' only; Next conjoins `Monitor`, which records
           the false ones, and the invariants CleanExact, ... say that none is recorded.
           (Stating them as [][A]_vars works too, but TLC checks implied actions about
           five times slower than this.)
   hist    observation variable for behaviour generation (hidden by VIEW).

   M layer = ArchiveScanner.scan/__scan/remove/__exit__, RetainExpression.evaluate,
   query, doArchiveClean, doArchiveFind transcribed (line numbers of
   pym/bob/cmds/archive.py in comments).  Sweep selects what a scan does with rows of
   artifacts that are no longer in the archive:
      "both"  rows of both tables are dropped        (intended semantics)
      "files" only the `files` row is dropped        (an incomplete repair)
      "none"  nothing is dropped                     (the code as found)
   P layer = the documented meaning (doc/manpages/bob-archive.rst), stated on `files`
   only, never on the index.                                                        *)
EXTENDS Naturals, Integers, Sequences, FiniteSets, TLC, Json

CONSTANTS MaxArt,      \* artifact ids are 1..MaxArt
          MaxHist,     \* bound on Add / RemoveExternally operations
          MaxCmd,      \* bound on scan / clean / find commands
          Sweep,       \* "both" | "files" | "none"
          Recs,        \* catalogue of artifact records
          Shapes,      \* catalogue of reference DAGs
          ExprLists,   \* catalogue of retention expression lists (generation mode draws its own)
          GenDepth     \* behaviour length in generation mode (0 = no printing)

VARIABLES shape, files, idx, rrow, snap, nh, nc, viol, last, hist

vars == <<shape, files, idx, rrow, snap, nh, nc, viol, last, hist>>
view == <<shape, files, idx, rrow, snap, nh, nc, viol>>
viewL == <<shape, files, idx, rrow, snap, nh, nc, viol, last>>   \* for the reachability configs

Art == 1..MaxArt
Gen == GenDepth > 0        \* generation mode (tlc -simulate)

----------------------------------------------------------------------------
(* values *)

Rec(p, d, r) == [ex |-> TRUE, pkg |-> p, date |-> d, rank |-> r]
Absent       == [ex |-> FALSE, pkg |-> "-", date |-> 0, rank |-> 0]
Row(f)       == [ex |-> TRUE, pkg |-> f.pkg, date |-> f.date, rank |-> f.rank, cur |-> TRUE]
NoRow        == [ex |-> FALSE, pkg |-> "-", date |-> 0, rank |-> 0, cur |-> FALSE]

Present(F) == {a \in Art : F[a].ex}

\* a retention expression:  <predicate p> [LIMIT lim [ORDER BY key [ASC|DESC]]]   (lim = 0: no LIMIT)
MkE(p, lim, key, asc) == [p |-> p, lim |-> lim, key |-> key, asc |-> asc]

\* predicate catalogue (the driver renders the same numbers as real expressions)
NPred == 10
Holds(p, r) ==
  CASE p = 1  -> TRUE                              \* build.date >= "0"
    [] p = 2  -> r.pkg = "p"                       \* meta.package == "p"
    [] p = 3  -> r.pkg # "p"                       \* meta.package != "p"
    [] p = 4  -> r.rank = 1                        \* metaEnv.RANK == "r1"       (undefined: false)
    [] p = 5  -> r.rank # 1                        \* metaEnv.RANK != "r1"       (undefined: true)
    [] p = 6  -> r.date >= 2                       \* build.date >= "d2"
    [] p = 7  -> r.pkg = "p" /\ r.date >= 2        \* meta.package == "p" && build.date >= "d2"
    [] p = 8  -> r.pkg = "q" \/ r.rank = 2         \* meta.package == "q" || metaEnv.RANK == "r2"
    [] p = 9  -> r.rank # 0                        \* metaEnv.RANK != meta.no-such-field
    [] p = 10 -> ~(r.pkg = "p" \/ r.date < 2)      \* !(meta.package == "p" || build.date < "d2")

SortKey(e, r) == IF e.key = "date" THEN r.date ELSE r.rank    \* 0 = field not populated

----------------------------------------------------------------------------
(* P layer, part 1: the documented meaning of an expression list on an archive F *)

Match(e, F) == {a \in Present(F) : Holds(e.p, F[a])}

\* x sorts strictly before y ("If Field is not populated the artifact is always put at the end")
Before(e, x, y) == /\ x # 0
                   /\ (y = 0 \/ (IF e.asc THEN x < y ELSE x > y))

\* all admissible direct selections of one expression: ties are not decided by the property
AdmSel1(e, F) ==
  LET M == Match(e, F) IN
  IF e.lim = 0 \/ Cardinality(M) <= e.lim THEN {M}
  ELSE {S \in SUBSET M :
          /\ Cardinality(S) = e.lim
          /\ \A s \in S, t \in M \ S : ~Before(e, SortKey(e, F[t]), SortKey(e, F[s]))}

RECURSIVE AdmSelFrom(_, _, _)
AdmSelFrom(el, i, F) ==
  IF i > Len(el) THEN {{}}
  ELSE {S \cup T : S \in AdmSel1(el[i], F), T \in AdmSelFrom(el, i + 1, F)}

\* "Any artifact that is matched by at least one of the expressions ..."
AdmSel(el, F) == AdmSelFrom(el, 1, F)

\* "... or referenced transitively by a matched artifact is kept": references of artifacts
\* that are in the archive (the references of an absent artifact are not known to anybody)
RECURSIVE Close(_, _)
Close(S, F) ==
  LET N == S \cup UNION {shape[a] : a \in S \cap Present(F)} IN
  IF N = S THEN S ELSE Close(N, F)

AdmKeep(el, F) == {Close(S, F) \cap Present(F) : S \in AdmSel(el, F)}

----------------------------------------------------------------------------
(* M layer: the index and the algorithms of the code *)

\* ArchiveScanner.scan 95-116 / __scan 118-155
ScanRow(a) ==
  IF files[a].ex
    THEN IF idx[a].ex /\ idx[a].cur THEN idx[a]      \* 130: cached stat unchanged -> keep row
         ELSE Row(files[a])                          \* 131-149: delete stale row, read audit, insert
    ELSE IF Sweep = "none" THEN idx[a] ELSE NoRow    \* file not listed: row is never looked at
ScanRef(a) ==
  IF files[a].ex THEN TRUE                           \* 150: INSERT OR IGNORE INTO refs
  ELSE IF Sweep = "both" THEN FALSE ELSE rrow[a]
ScanI == [a \in Art |-> ScanRow(a)]
ScanR == [a \in Art |-> ScanRef(a)]

Rows(I) == {a \in Art : I[a].ex}                      \* getBuildIds 165-167

PermsOf(S) == LET n == Cardinality(S) IN
              {f \in [1..n -> S] : \A i, j \in 1..n : f[i] = f[j] => i = j}
PermTable == [S \in SUBSET Art |-> PermsOf(S)]     \* constant: evaluated once
Perms(S) == PermTable[S]

Min(S) == CHOOSE x \in S : \A y \in S : x <= y

\* RetainExpression.__init__ 312-320
CmpItem(e, existing, new) ==
  /\ new # 0
  /\ (existing = 0 \/ (IF e.asc THEN existing >= new ELSE existing <= new))

\* RetainExpression.evaluate 324-339 folded over the rows in the order ord; q = self.queue
RECURSIVE QRun(_, _, _, _, _)
QRun(e, ord, i, q, I) ==
  IF i > Len(ord) THEN q
  ELSE LET a == ord[i] IN
       IF ~Holds(e.p, I[a]) THEN QRun(e, ord, i + 1, q, I)
       ELSE LET new == SortKey(e, I[a])
                C   == {j \in 1..Len(q) : CmpItem(e, q[j][2], new)}
                pos == IF C = {} THEN Len(q) + 1 ELSE Min(C)
                q2  == SubSeq(q, 1, pos - 1) \o << <<a, new>> >> \o SubSeq(q, pos, Len(q))
                q3  == IF Len(q2) > e.lim THEN SubSeq(q2, 1, e.lim) ELSE q2
            IN QRun(e, ord, i + 1, q3, I)

Retained1(e, ord, I) ==
  IF e.lim = 0 THEN {a \in Rows(I) : Holds(e.p, I[a])}          \* 330
  ELSE LET q == QRun(e, ord, 1, <<>>, I) IN {q[j][1] : j \in 1..Len(q)}

\* query 381-390
MQuery(el, ord, I) == UNION {Retained1(el[i], ord, I) : i \in 1..Len(el)}

\* doArchiveClean 479-487 over table refs
RECURSIVE MClose(_, _)
MClose(S, R) ==
  LET N == S \cup UNION {shape[a] : a \in {b \in S : R[b]}} IN
  IF N = S THEN S ELSE MClose(N, R)

\* the order of `SELECT bid FROM files` is not specified: every order (it only matters
\* when some expression has a LIMIT, see Retained1)
HasLimit(el) == \E i \in 1..Len(el) : el[i].lim > 0
Orders(el, I) == IF HasLimit(el) THEN Perms(Rows(I))
                 ELSE {CHOOSE ord \in Perms(Rows(I)) : TRUE}
MSelections(el, I) == {MQuery(el, ord, I) : ord \in Orders(el, I)}
MRetained(el, I, R) == {MClose(S, R) : S \in MSelections(el, I)}

H(a) == hist' = Append(hist, a)

NoLast == [cmd |-> "none", el |-> <<>>, dry |-> FALSE, ns |-> FALSE, out |-> {}, ph |-> {}]
Phantoms == {a \in Art : idx[a].ex /\ ~files[a].ex}

Init ==
  /\ shape \in Shapes
  /\ files = [a \in Art |-> Absent]
  /\ idx = [a \in Art |-> NoRow]
  /\ rrow = [a \in Art |-> FALSE]
  /\ snap = [a \in Art |-> Absent]
  /\ nh = 0 /\ nc = 0 /\ viol = {}
  /\ last = NoLast
  /\ hist = << [a |-> "Init", refs |-> [x \in Art |-> shape[x]]] >>

\* any archive, never scanned: for checking the selection semantics over all archives
InitAny ==
  /\ shape \in Shapes
  /\ files \in [Art -> Recs \cup {Absent}]
  /\ idx = [a \in Art |-> NoRow]
  /\ rrow = [a \in Art |-> FALSE]
  /\ snap = [a \in Art |-> Absent]
  /\ nh = 0 /\ nc = 0 /\ viol = {}
  /\ last = NoLast
  /\ hist = << [a |-> "Init", refs |-> [x \in Art |-> shape[x]]] >>

----------------------------------------------------------------------------
(* environment: uploads by builds, removal behind the back of `bob archive` *)

AddOp(a, r) ==
  /\ nh < MaxHist /\ ~files[a].ex
  /\ files' = [files EXCEPT ![a] = r]
  /\ idx' = [idx EXCEPT ![a].cur = FALSE]             \* a new file has a new stat
  /\ nh' = nh + 1
  /\ H([a |-> "Add", id |-> a, pkg |-> r.pkg, date |-> r.date, rank |-> r.rank])
  /\ UNCHANGED <<shape, rrow, snap, nc, last>>

RemoveOp(a) ==
  /\ nh < MaxHist /\ files[a].ex
  /\ files' = [files EXCEPT ![a] = Absent]
  /\ idx' = [idx EXCEPT ![a].cur = FALSE]
  /\ nh' = nh + 1
  /\ H([a |-> "Remove", id |-> a])
  /\ UNCHANGED <<shape, rrow, snap, nc, last>>

----------------------------------------------------------------------------
(* commands *)

\* doArchiveScan 433-448
ScanOp ==
  /\ nc < MaxCmd
  /\ idx' = ScanI /\ rrow' = ScanR
  /\ snap' = files
  /\ nc' = nc + 1
  /\ last' = [NoLast EXCEPT !.cmd = "scan", !.ph = Phantoms]
  /\ H([a |-> "Scan", files |-> Present(files), rows |-> Rows(ScanI)])
  /\ UNCHANGED <<shape, files, nh>>

\* doArchiveClean 452-500
CleanNs(el, ns) ==
  /\ nc < MaxCmd
  /\ LET I1 == IF ns THEN idx ELSE ScanI              \* 472-474
         R1 == IF ns THEN rrow ELSE ScanR
         S1 == IF ns THEN snap ELSE files
     IN \E K \in MRetained(el, I1, R1) :              \* 477-487
          LET victims == Rows(I1) \ K                 \* 490-491
              I2 == [a \in Art |-> IF a \in victims THEN NoRow ELSE I1[a]]     \* 500 remove()
              R2 == IF victims = {} THEN R1 ELSE [a \in Art |-> R1[a] /\ I2[a].ex]  \* 82-87 __exit__
              F2 == [a \in Art |-> IF a \in victims THEN Absent ELSE files[a]] \* 499 deleteFile
          IN \E dry \in BOOLEAN :
             /\ IF dry THEN /\ files' = files /\ idx' = I1 /\ rrow' = R1     \* 494-495 print only
                            /\ snap' = S1
                       ELSE /\ files' = F2 /\ idx' = I2 /\ rrow' = R2
                            /\ snap' = [a \in Art |-> IF a \in victims THEN Absent ELSE S1[a]]
             /\ last' = [cmd |-> "clean", el |-> el, dry |-> dry, ns |-> ns,
                         out |-> IF dry THEN victims ELSE {}, ph |-> Phantoms]
             /\ H([a |-> "Clean", el |-> el, dry |-> dry, ns |-> ns,
                   files |-> Present(files'), rows |-> Rows(idx'),
                   out |-> IF dry THEN victims ELSE {}])
  /\ nc' = nc + 1
  /\ UNCHANGED <<shape, nh>>

\* doArchiveFind 502-528
FindNs(el, ns) ==
  /\ nc < MaxCmd
  /\ LET I1 == IF ns THEN idx ELSE ScanI
         R1 == IF ns THEN rrow ELSE ScanR
     IN \E S \in MSelections(el, I1) :
          /\ idx' = I1 /\ rrow' = R1
          /\ snap' = IF ns THEN snap ELSE files
          /\ last' = [cmd |-> "find", el |-> el, dry |-> FALSE, ns |-> ns, out |-> S, ph |-> Phantoms]
          /\ H([a |-> "Find", el |-> el, ns |-> ns, files |-> Present(files), rows |-> Rows(I1), out |-> S])
  /\ nc' = nc + 1
  /\ UNCHANGED <<shape, files, nh>>

----------------------------------------------------------------------------
(* P layer, part 2: the property, as step properties over files / files' / snap / last'
   (they do not mention idx, rrow or anything else of the M layer) *)

IsCmd(c) == nc' # nc /\ last'.cmd = c
Unchanged(F, G) == \A a \in Present(G) : G[a] = F[a]     \* what is kept is kept as it was

TypeOK ==
  /\ \A a \in Art : files[a] \in Recs \cup {Absent}
  /\ \A a \in Art : shape[a] \subseteq 1..(a - 1)
  /\ nh \in 0..MaxHist /\ nc \in 0..MaxCmd

\* after `clean`: remaining = one admissible selection + closure, computed from the ACTUAL archive
CleanExactA ==
  (IsCmd("clean") /\ ~last'.dry /\ ~last'.ns)
     => /\ Present(files') \in AdmKeep(last'.el, files)
        /\ Unchanged(files, files')

\* --dry-run deletes nothing ...
DryRunKeepsAllA == (IsCmd("clean") /\ last'.dry) => files' = files

\* ... and prints what a real run would delete
DryRunListsVictimsA ==
  (IsCmd("clean") /\ last'.dry /\ ~last'.ns)
     => last'.out \in {Present(files) \ K : K \in AdmKeep(last'.el, files)}

\* find lists exactly the directly selected artifacts and changes nothing
FindExactA ==
  IsCmd("find") => /\ files' = files
                   /\ ~last'.ns => last'.out \in AdmSel(last'.el, files)

ScanKeepsAllA == IsCmd("scan") => files' = files

\* -n: "The command will work on the last scanned data"
NoScanUsesSnapshotA ==
  /\ (IsCmd("clean") /\ ~last'.dry /\ last'.ns)
       => /\ \E K \in AdmKeep(last'.el, snap) :
               Present(files') = Present(files) \ (Present(snap) \ K)
          /\ Unchanged(files, files')
  /\ (IsCmd("find") /\ last'.ns) => last'.out \in AdmSel(last'.el, snap)

\* index independence: whatever the history, the index a command works on after its scan is
\* the one a freshly created index would be -- the outcome of a command is a function of that
\* index (MRetained / MSelections), so warm, stale and fresh indexes give the same results.
FreshI == [a \in Art |-> IF files[a].ex THEN Row(files[a]) ELSE NoRow]
FreshR == [a \in Art |-> files[a].ex]
IndexIndependent == ScanI = FreshI /\ ScanR = FreshR

\* under the intended semantics the index is exactly the last scanned data (makes -n meaningful)
IndexIsSnapshot ==
  Sweep = "both" => \A a \in Art : /\ idx[a].ex = snap[a].ex
                                    /\ idx[a].ex => Row(snap[a]) = [idx[a] EXCEPT !.cur = TRUE]
                                    /\ rrow[a] = idx[a].ex

\* the monitor: which step properties are false on this step
Monitor ==
  viol' = viol \cup {n \in {"CleanExact", "DryRunKeepsAll", "DryRunListsVictims", "FindExact",
                            "ScanKeepsAll", "NoScanUsesSnapshot"} :
                      ~(CASE n = "CleanExact"         -> CleanExactA
                          [] n = "DryRunKeepsAll"     -> DryRunKeepsAllA
                          [] n = "DryRunListsVictims" -> DryRunListsVictimsA
                          [] n = "FindExact"          -> FindExactA
                          [] n = "ScanKeepsAll"       -> ScanKeepsAllA
                          [] n = "NoScanUsesSnapshot" -> NoScanUsesSnapshotA)}

CleanExact         == "CleanExact" \notin viol
DryRunKeepsAll     == "DryRunKeepsAll" \notin viol
DryRunListsVictims == "DryRunListsVictims" \notin viol
FindExact          == "FindExact" \notin viol
ScanKeepsAll       == "ScanKeepsAll" \notin viol
NoScanUsesSnapshot == "NoScanUsesSnapshot" \notin viol

\* probe for the as-is configuration: print the history of the first violating behaviour
CleanExactProbe == CleanExact \/ (PrintT(<<"@@", ToJson(hist)>>) /\ FALSE)

----------------------------------------------------------------------------
Done ==
  /\ nh = MaxHist /\ (nc = MaxCmd \/ (Gen /\ Present(files) = {} /\ Rows(idx) = {}))
  /\ UNCHANGED vars

\* Generation mode (GenDepth > 0, tlc -simulate): TLC picks uniformly among the successor
\* states, so every parameter is drawn with RandomElement; each kind of operation then has
\* about the same weight instead of the weight of its parameter space.
Pick(S) == IF Gen /\ S # {} THEN {RandomElement(S)} ELSE S
Norm(p, l, k, o) == MkE(p, l, IF l = 0 THEN "date" ELSE k, IF l = 0 THEN FALSE ELSE o)
\* (the parameter n = nh + nc only keeps TLC from evaluating the definition once and for all
\* as a constant)
GenLists(n) == {<<Norm(p1, l1, k1, o1)>> \o (IF two = 1 THEN <<Norm(p2, l2, k2, o2)>> ELSE <<>>) :
               p1 \in Pick(1..NPred), l1 \in Pick(0..2), k1 \in Pick({"date", "rank"}), o1 \in Pick(BOOLEAN),
               p2 \in Pick(1..NPred), l2 \in Pick(0..2), k2 \in Pick({"date", "rank"}), o2 \in Pick(BOOLEAN),
               two \in Pick(1..(3 + 0 * n))}
Lists == IF Gen THEN GenLists(nh + nc) ELSE ExprLists
GenNs(n) == {RandomElement(1..(4 + 0 * n)) = 1}
NsSet == IF Gen THEN GenNs(nh + nc) ELSE BOOLEAN

\* generated behaviours do not spend commands on an archive that is and always was empty
Worth == Gen => (Present(files) # {} \/ Rows(idx) # {})

Add              == \E a \in Pick({x \in Art : ~files[x].ex}), r \in Pick(Recs) : AddOp(a, r) /\ Monitor
RemoveExternally == \E a \in Pick(Present(files)) : RemoveOp(a) /\ Monitor
Scan             == Worth /\ ScanOp /\ Monitor
Clean            == Worth /\ \E el \in Lists, ns \in NsSet : CleanNs(el, ns) /\ Monitor
Find             == Worth /\ \E el \in Lists, ns \in NsSet : FindNs(el, ns) /\ Monitor

Next == Add \/ RemoveExternally \/ Scan \/ Clean \/ Find \/ Done

Spec == Init /\ [][Next]_vars

\* selection semantics only: one scanning, deleting clean or one find on any archive
CleanSel == \E el \in ExprLists : CleanNs(el, FALSE) /\ ~last'.dry /\ Monitor
FindSel  == \E el \in ExprLists : FindNs(el, FALSE) /\ Monitor
SpecSel == InitAny /\ [][CleanSel \/ FindSel \/ Done]_vars

----------------------------------------------------------------------------
(* vacuity companions (negated reachability; each must be VIOLATED) *)

\* a deleting clean with LIMIT ran on an archive from which an indexed artifact had vanished
ReachStaleLimitClean ==
  ~(last.cmd = "clean" /\ ~last.dry /\ ~last.ns /\ last.ph # {} /\ HasLimit(last.el)
    /\ Present(files) # {})
\* a clean kept an artifact only because it is referenced, through another referenced one
ReachTransitiveKeep ==
  ~(last.cmd = "clean" /\ ~last.dry /\ ~last.ns
    /\ \E a, b, c \in Present(files) : b \in shape[a] /\ c \in shape[b] /\ c \notin shape[a]
         /\ \A S \in AdmSel(last.el, files) : b \notin S /\ c \notin S)

\* the same, printing the history that gets there (these behaviours are replayed on the code)
Show == PrintT(<<"@@", ToJson(hist)>>) /\ FALSE
ReachStaleLimitCleanShow == ReachStaleLimitClean \/ Show
ReachTransitiveKeepShow  == ReachTransitiveKeep \/ Show

----------------------------------------------------------------------------
(* catalogues (bound in the .cfg files with <-) *)

\* four records with a tie on date, a tie on "rank not populated" and both packages
RecsTiny  == {Rec("p", 1, 0), Rec("p", 2, 1), Rec("q", 2, 0), Rec("q", 1, 1)}
RecsSmall == {Rec(p, d, r) : p \in {"p", "q"}, d \in {1, 2}, r \in {0, 1}}
RecsGen   == {Rec(p, d, r) : p \in {"p", "q", "r"}, d \in {1, 2, 3}, r \in {0, 1, 2}}

Fn4(a, b, c, d) == [x \in Art |-> CASE x = 1 -> a [] x = 2 -> b [] x = 3 -> c [] OTHER -> d]
\* every DAG whose edges go from larger to smaller ids (MaxArt <= 4): 64 shapes
AllShapes == {Fn4({}, b, c, d) : b \in SUBSET {1}, c \in SUBSET {1, 2}, d \in SUBSET {1, 2, 3}}
\* chain 3->2->1, diamond 4->{2,3}->1 (shared, transitive), fan-in on 1
ShapesSmall == {Fn4({}, {1}, {2}, {}), Fn4({}, {1}, {1}, {2, 3})}
ShapesMid   == {Fn4({}, {1}, {2}, {3}), Fn4({}, {1}, {1}, {2, 3}), Fn4({}, {}, {1, 2}, {1}), Fn4({}, {}, {}, {})}

ExprsSmall == <<MkE(1, 1, "date", FALSE),      \* 1  everything LIMIT 1               (newest)
                MkE(2, 0, "date", FALSE),      \* 2  package p
                MkE(1, 2, "rank", TRUE),       \* 3  everything LIMIT 2 ORDER BY rank ASC
                MkE(5, 1, "rank", FALSE),      \* 4  rank != r1 LIMIT 1 ORDER BY rank DESC
                MkE(3, 1, "date", TRUE)>>      \* 5  package != p LIMIT 1 ORDER BY date ASC
ExprListsSmall == {<<ExprsSmall[1]>>, <<ExprsSmall[2]>>, <<ExprsSmall[3]>>, <<ExprsSmall[4]>>,
                   <<ExprsSmall[2], ExprsSmall[5]>>}

\* for the reachability configs
ShapesOne     == {Fn4({}, {1}, {2}, {3})}
ExprListsTwo  == {<<ExprsSmall[1]>>, <<ExprsSmall[2]>>}

ExprListsSel == {<<MkE(p, 0, "date", FALSE)>> : p \in 1..NPred}
                \cup {<<MkE(p, l, k, o)>> : p \in {1, 3, 5, 9}, l \in 1..2, k \in {"date", "rank"}, o \in BOOLEAN}
                \cup {<<ExprsSmall[2], ExprsSmall[5]>>, <<ExprsSmall[4], ExprsSmall[1]>>, <<ExprsSmall[3], ExprsSmall[1]>>}

----------------------------------------------------------------------------
(* generation: print the history of every behaviour of length GenDepth *)
GenPrint == (GenDepth > 0 /\ TLCGet("level") = GenDepth) => PrintT(<<"@@", ToJson(hist)>>)

=============================================================================
