SPECIFICATION Spec
CONSTANTS Pkg <- PkgOne  RecipeOf <- RecipeOne  StrPrefix <- PrefixNone
CONSTANTS NV = 3  NS = 1  MaxLen = 3  MaxChg = 3  MaxNum = 3  GenDepth = 0  KeepRule = "prefix"
CONSTANT Weak = {}
VIEW view
INVARIANT TypeOK
INVARIANT Injective
INVARIANT Assigned
INVARIANT EmptiedBeforeReuse
PROPERTY StableIfNamerUnchanged
PROPERTY CleanOnlyGarbage
PROPERTY DryRunDeletesNothing
PROPERTY NoUpToDateResultLost
CHECK_DEADLOCK FALSE
