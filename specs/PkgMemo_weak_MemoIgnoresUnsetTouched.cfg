SPECIFICATION Spec
CONSTANTS MaxEdits = 2  MaxInv = 1  MaxDrop = 0  MaxRequery = 0  MtimeEdits = FALSE  GenDepth = 0
CONSTANT Weak = {"MemoIgnoresUnsetTouched"}
VIEW view
INVARIANT CexPrint
CHECK_DEADLOCK FALSE
