SPECIFICATION Spec
CONSTANTS MaxEdit = 3  MaxInv = 4  MaxKill = 2  MaxFail = 1  GenDepth = 0
CONSTANT Flags = {"plain"}
CONSTANT Weak = {}
VIEW view
INVARIANT IncrementalEqClean
INVARIANT Idempotent
CHECK_DEADLOCK FALSE
