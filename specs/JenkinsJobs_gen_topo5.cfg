SPECIFICATION Spec
CONSTANTS MinN = 5  MaxN = 5  NameIdx = {1, 3, 6}  MaxKids = 3  MaxEdges = 10  MaxIso = 1  MaxExtraRoots = 0
          RootPerm = FALSE  Topo = TRUE  SkipTaken = TRUE  Gen = TRUE
VIEW view
INVARIANT TypeOK
INVARIANT Acyclic
INVARIANT AcyclicFinal
INVARIANT BuildOrderExists
INVARIANT UniqueNames
INVARIANT EveryPackageInExactlyOneJob
INVARIANT JobDependsOnDepsJobs
INVARIANT ChildsComplete
INVARIANT PrefixNonEmpty
CHECK_DEADLOCK FALSE
INVARIANT GenPrint
