---------------------------- MODULE LiveBuildId ----------------------------
(* Live-build-id prediction (property C07, "artifacts are reused exactly when they are the right
   ones"): a package whose sources come from a git branch.  Two workspaces share one file archive.
   Besides artifacts (Build-Id -> content) the archive holds the live-build-id cache: a mapping
   commit id -> Build-Id of the checkout (= hash of the source tree), written with overwrite
   (archive.py uploadLocalLiveBuildId / builder.py 1355-1362).  A workspace that has no source
   checkout yet predicts the source Build-Id from `git ls-remote` + that mapping and downloads the
   package without ever checking out (builder.py _downloadPackage / getLiveBuildId), so a wrong
   mapping is never noticed.

   State
     head       upstream branch tip (content version of the commit)
     src[w]     <<"none">> | <<"co", commit, dirty>>   dirty = 1: uncommitted local modification
     dist[w]    content of the package result | <<"none">>
     live       set of <<commit, srcHash>>  (functional: upload overwrites)
     arts       set of <<bid, content>>     (never overwritten)
   Weak = {"LiveUploadWhenExecuted"}: the mapping is uploaded whenever the checkout step ran, not
   only after a fresh checkout.  Weak = {} is what the code does.                                *)
EXTENDS Naturals, Sequences, FiniteSets, TLC, Json

CONSTANTS MaxOps, MaxHead, Weak, GenDepth

WS == {"w1", "w2"}
NONE == <<"none">>

VARIABLES head, src, dist, live, arts, nops, last, hist
vars == <<head, src, dist, live, arts, nops, last, hist>>
view == <<head, src, dist, live, arts, nops, last>>

SrcHash(c, d) == <<"sh", c, d>>
Bid(sh) == <<"bid", sh>>
Content(c, d) == <<"d", c, d>>
Hist(a) == hist' = Append(hist, a)

Init ==
  /\ head = 0 /\ src = [w \in WS |-> NONE] /\ dist = [w \in WS |-> NONE]
  /\ live = {} /\ arts = {} /\ nops = 0 /\ last = "none" /\ hist = <<>>

AnyDirty == \E w \in WS : src[w] # NONE /\ src[w][3] = 1

\* somebody pushes a new commit to the branch (not while a workspace holds uncommitted changes:
\* updating such a checkout is a different story, see GitCheckout.tla)
Commit ==
  /\ nops < MaxOps /\ head < MaxHead /\ ~AnyDirty
  /\ head' = head + 1 /\ nops' = nops + 1 /\ last' = "none"
  /\ Hist([a |-> "Commit"])
  /\ UNCHANGED <<src, dist, live, arts>>

\* the developer edits a checked out file without committing
Hack(w) ==
  /\ nops < MaxOps /\ src[w] # NONE /\ src[w][3] = 0
  /\ src' = [src EXCEPT ![w] = <<"co", src[w][2], 1>>]
  /\ nops' = nops + 1 /\ last' = "none"
  /\ Hist([a |-> "Hack", w |-> w])
  /\ UNCHANGED <<head, dist, live, arts>>

LiveOf(c) == {p[2] : p \in {q \in live : q[1] = c}}
ArtOf(b) == {p[2] : p \in {q \in arts : q[1] = b}}

\* bob dev lib --download yes|no [--upload] in workspace w
Build(w, up, dl) ==
  /\ nops < MaxOps
  /\ nops' = nops + 1 /\ last' = w
  /\ IF src[w] = NONE /\ dl /\ LiveOf(head) # {} /\ (\E sh \in LiveOf(head) : ArtOf(Bid(sh)) # {})
     THEN \* predicted Build-Id, artifact found: downloaded without checkout
          /\ \E sh \in LiveOf(head) : \E c \in ArtOf(Bid(sh)) : dist' = [dist EXCEPT ![w] = c]
          /\ Hist([a |-> "Build", w |-> w, up |-> up, dl |-> dl, how |-> "predicted"])
          /\ UNCHANGED <<head, src, live, arts>>
     ELSE LET fresh == src[w] = NONE
              c == IF fresh THEN head ELSE IF src[w][3] = 1 THEN src[w][2] ELSE head
              d == IF fresh THEN 0 ELSE src[w][3]
              sh == SrcHash(c, d)
              have == ArtOf(Bid(sh))
          IN /\ src' = [src EXCEPT ![w] = <<"co", c, d>>]
             /\ IF dl /\ have # {}
                  THEN /\ \E x \in have : dist' = [dist EXCEPT ![w] = x]
                       /\ UNCHANGED arts
                       /\ Hist([a |-> "Build", w |-> w, up |-> up, dl |-> dl, how |-> "download"])
                  ELSE /\ dist' = [dist EXCEPT ![w] = Content(c, d)]
                       /\ arts' = IF up /\ have = {} THEN arts \cup {<<Bid(sh), Content(c, d)>>} ELSE arts
                       /\ Hist([a |-> "Build", w |-> w, up |-> up, dl |-> dl, how |-> "build"])
             \* builder.py 1355: upload live build-id cache in case of fresh checkout
             /\ live' = IF up /\ (fresh \/ "LiveUploadWhenExecuted" \in Weak)
                          THEN {p \in live : p[1] # c} \cup {<<c, sh>>} ELSE live
             /\ UNCHANGED head

Done == nops = MaxOps /\ UNCHANGED vars

Next == Commit \/ (\E w \in WS : Hack(w)) \/ (\E w \in WS, up \in BOOLEAN, dl \in BOOLEAN : Build(w, up, dl)) \/ Done
Spec == Init /\ [][Next]_vars

----------------------------------------------------------------------------
(* P layer *)
\* what a purely local build of the workspace's project state yields
Expected(w) == IF src[w] = NONE THEN Content(head, 0) ELSE Content(src[w][2], src[w][3])
DownloadEqLocal == last # "none" => dist[last] = Expected(last)
\* the live-build-id cache never maps a commit to anything but the hash of its pristine tree
LiveSound == \A p \in live : p[2] = SrcHash(p[1], 0)
ArchiveSound == \A p \in arts : \E c \in 0..MaxHead, d \in 0..1 : p = <<Bid(SrcHash(c, d)), Content(c, d)>>

\* vacuity companion (must be VIOLATED): a package is taken by prediction without a checkout
ReachPredicted == ~(last # "none" /\ src[last] = NONE /\ dist[last] # NONE)

CexPrint == DownloadEqLocal \/ PrintT(<<"@@", ToJson(hist)>>)
GenPrint == (GenDepth > 0 /\ TLCGet("level") = GenDepth) => PrintT(<<"@@", ToJson(hist)>>)
=============================================================================
