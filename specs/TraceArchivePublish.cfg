SPECIFICATION TraceSpec
CONSTANTS
  Uploaders = {"U1", "U2", "U3", "U4", "U5", "U6"}
  Mirrors = {"M1", "M2", "M3"}
  Readers = {"R1", "R2", "R3", "R4", "R5", "R6", "R7", "R8", "R9"}
  Archives = {"A", "B"}
  UpArchives = {"A", "B"}
  Kinds = {"pkg", "meta"}
  MirrorSrc = "A"
  MirrorDst = "B"
  N = 2
  UseChmod = TRUE
  Drain = FALSE
  PkgReplace = FALSE
  MaxFault = 9
  MaxCrash = 9
  Planned = FALSE
  GenDepth = 0
CONSTRAINT Track
INVARIANT TypeOK
INVARIANT Atomic
INVARIANT NoTempUnderName
INVARIANT FailedLeavesNothing
INVARIANT ReaderOK
INVARIANT NoTempLeft
INVARIANT MirrorFaithful
PROPERTY NeverOverwrite
POSTCONDITION Report
CHECK_DEADLOCK FALSE
