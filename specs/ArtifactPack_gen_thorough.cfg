SPECIFICATION Spec
CONSTANTS Parts = {"tree", "extract", "corrupt"}  MaxNodes = 4  FullNodes = 3  MaxHostile = 1
          MaxMembers = 4  HardLinkRule = "resolved"  Gen = TRUE
INVARIANT GenPrint
CHECK_DEADLOCK FALSE
