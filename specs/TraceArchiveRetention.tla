----------------------- MODULE TraceArchiveRetention -----------------------
(* Code -> spec: judges transitions observed on the real `bob archive` command by the
   P layer of ArchiveRetention.  Nothing of the M layer (index, queue algorithm) takes
   part: an observation fixes shape, files (the archive before the command, as found on
   disk), snap (the archive at the last scanning command), the command with its
   arguments, files' (the archive after the command) and the command's output; the
   step properties CleanExactA, DryRunKeepsAllA, DryRunListsVictimsA, FindExactA,
   ScanKeepsAllA, NoScanUsesSnapshotA of ArchiveRetention are then evaluated on exactly
   that step by the same Monitor that the exhaustive configurations use.

   TRACE_FILE (env) = JSON array of observations
     [refs, before, snap, after : arrays indexed by artifact id, cmd, el, dry, ns, out].
   Register 1 collects per observation the violated step properties and, for naming the
   shape of a violation, the admissible results; POSTCONDITION prints it.           *)
EXTENDS ArchiveRetention, IOUtils, TLCExt

Obs == JsonDeserialize(IOEnv.TRACE_FILE)

VARIABLE oid

tvars == <<vars, oid>>

SetOf(s) == {s[i] : i \in 1..Len(s)}
O == Obs[oid]

TrackInit == TLCSet(1, [i \in 1..Len(Obs) |-> [judged |-> FALSE]])

TraceInit ==
  /\ TrackInit
  /\ oid \in 1..Len(Obs)
  /\ shape = [a \in Art |-> SetOf(O.refs[a])]
  /\ files = O.before
  /\ snap = O.snap
  /\ idx = [a \in Art |-> NoRow]
  /\ rrow = [a \in Art |-> FALSE]
  /\ nh = 0 /\ nc = 0 /\ viol = {}
  /\ last = NoLast
  /\ hist = <<>>

Observed ==
  /\ nc = 0
  /\ files' = O.after
  /\ last' = [cmd |-> O.cmd, el |-> O.el, dry |-> O.dry, ns |-> O.ns, out |-> SetOf(O.out), ph |-> {}]
  /\ nc' = 1
  /\ Monitor
  /\ LET B == IF O.ns THEN snap ELSE files IN
     hist' = << [judged |-> TRUE, viol |-> viol',
                 keep |-> IF O.cmd = "scan" THEN {} ELSE AdmKeep(O.el, B),
                 sel  |-> IF O.cmd = "scan" THEN {} ELSE AdmSel(O.el, B)] >>
  /\ UNCHANGED <<shape, idx, rrow, snap, nh, oid>>

TraceSpec == TraceInit /\ [][Observed]_tvars

\* evaluated on every reachable state (as a CONSTRAINT)
Track == nc = 1 => TLCSet(1, [TLCGet(1) EXCEPT ![oid] = hist[1]])

Report == PrintT(<<"@@", ToJson(TLCGet(1))>>)
=============================================================================
