SPECIFICATION Spec
CONSTANTS MaxSnap = 3  MaxInv = 2  MaxCrash = 1  MaxAsync = 1  GenDepth = 0
VIEW view
INVARIANT ReachRecoverNew
CHECK_DEADLOCK FALSE
