\* quick exhaustive check with two build-ids (quota accounting, oldest-first, used packages are kept)
SPECIFICATION Spec
CONSTANTS Procs = {"A", "B"}  BIds = {"b1", "b2"}  MaxOps = 1  MaxTotal = 2
CONSTANT OpKinds = {"use", "instmv", "gc"}
CONSTANT Quotas = {1, 2}
CONSTANT InitKinds = {"pop"}
CONSTANT InitPerm = FALSE  MaxUnlink = 0  Gen = FALSE
CONSTANT Weak = {}
VIEW view
INVARIANT TypeOK
INVARIANT VisibleIsComplete
INVARIANT HashMatches
INVARIANT NoDanglingUse
INVARIANT NoDanglingInst
INVARIANT NoDanglingLost
INVARIANT NoDanglingLinked
INVARIANT NoDanglingUnregistered
INVARIANT NoDanglingDuring
INVARIANT NoDanglingLinkToCollected
INVARIANT NoGcFailEmptyStore
INVARIANT NoJsonFailureGc
INVARIANT NoJsonFailureInstall
INVARIANT NoJsonFailureUse
INVARIANT NoInspectFailure
INVARIANT SizeAccounting
INVARIANT AutoCleanPolicy
INVARIANT LocksFreeAtQuiescence
INVARIANT NoLockDeadlock
PROPERTY InstalledOncePerBid
CHECK_DEADLOCK FALSE
