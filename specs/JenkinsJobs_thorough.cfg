SPECIFICATION Spec
CONSTANTS MinN = 1  MaxN = 4  NameIdx = {1, 3, 6, 7}  MaxKids = 3  MaxEdges = 6  MaxIso = 1  MaxExtraRoots = 0
          RootPerm = FALSE  Topo = FALSE  SkipTaken = TRUE  Gen = FALSE
VIEW view
INVARIANT TypeOK
INVARIANT Acyclic
INVARIANT AcyclicFinal
INVARIANT BuildOrderExists
INVARIANT UniqueNames
INVARIANT EveryPackageInExactlyOneJob
INVARIANT JobDependsOnDepsJobs
INVARIANT ChildsComplete
INVARIANT PrefixNonEmpty
CHECK_DEADLOCK FALSE
