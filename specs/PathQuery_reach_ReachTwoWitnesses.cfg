SPECIFICATION Spec
CONSTANTS Tier = 0  MaxLen = 2  GraphLo = 1  GraphHi = 99  GenNodes = 0  Emit = FALSE
INVARIANT ReachTwoWitnesses
CHECK_DEADLOCK FALSE
