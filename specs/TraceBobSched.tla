--------------------------- MODULE TraceBobSched ---------------------------
(* Code -> spec: validates batches of event traces recorded from real `bob dev -j N [-k]`
   invocations (launcher events runBegin/runEnd/cmdEnd mapped to Start/EndOk/EndFail/Finish,
   workspace paths mapped to step labels through the step scripts' own logs) against the
   P layer of BobSched.  The first record of every trace carries the catalogue index of the
   DAG, the job count and the keep-going flag.  A rejected trace = P violated on a real run.

   TRACE_FILE (env) = JSON array of traces.  Register 1 keeps, per trace, the longest matched
   prefix; the driver compares it with the trace length (POSTCONDITION prints it).          *)
EXTENDS BobSched, IOUtils, TLCExt

Traces == JsonDeserialize(IOEnv.TRACE_FILE)

VARIABLES tid, l

tvars == <<vars, tid, l>>

Tr == Traces[tid]
Cur == Tr[l]
IsEvent(e) == l <= Len(Tr) /\ Cur.e = e /\ l' = l + 1 /\ tid' = tid
Silent == UNCHANGED <<tid, l>>
CurStep == <<Cur.k, Cur.n>>

TrackInit == TLCSet(1, [i \in 1..Len(Traces) |-> 0])

TraceInit ==
  /\ TrackInit
  /\ tid \in 1..Len(Traces) /\ l = 2
  /\ di = Traces[tid][1].dag /\ jobs = Traces[tid][1].jobs /\ kg = Traces[tid][1].kg
  /\ fb = MaxFail /\ pick = <<"-", "-">>
  /\ Init

TraceNext ==
  \/ IsEvent("Start") /\ CurStep \in Steps /\ Start(CurStep)
  \/ IsEvent("EndOk") /\ CurStep \in Steps /\ EndOk(CurStep)
  \/ IsEvent("EndFail") /\ CurStep \in Steps /\ EndFail(CurStep)
  \/ IsEvent("Finish") /\ Finish /\ (Cur.rc = 0) = (fin' = "ok")
  \/ Silent /\ Notice

TraceSpec == TraceInit /\ [][TraceNext]_tvars

\* evaluated on every reachable state (as a CONSTRAINT): remember the longest prefix per trace
Track ==
  /\ TLCSet(1, [TLCGet(1) EXCEPT ![tid] = IF @ < l - 1 THEN l - 1 ELSE @])

Report == PrintT(<<"@@", ToJson(TLCGet(1))>>)
=============================================================================
