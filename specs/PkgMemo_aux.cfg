SPECIFICATION Spec
CONSTANTS MaxEdits = 1  MaxInv = 2  MaxDrop = 1  MaxRequery = 1  MtimeEdits = TRUE  GenDepth = 0
CONSTANT Weak = {}
VIEW view
INVARIANT TypeOK
INVARIANT MemoSound
INVARIANT DiskSound
CHECK_DEADLOCK FALSE
