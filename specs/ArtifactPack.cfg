SPECIFICATION Spec
CONSTANTS Parts = {"tree", "extract", "corrupt"}  MaxNodes = 3  FullNodes = 2  MaxHostile = 1
          MaxMembers = 3  HardLinkRule = "resolved"  Gen = FALSE
VIEW view
INVARIANT TypeOK
INVARIANT Confined
INVARIANT AcceptRule
INVARIANT RejectedNeverUsed
CHECK_DEADLOCK FALSE
