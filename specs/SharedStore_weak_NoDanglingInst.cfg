\* the protocol of the code as it is: NoDanglingInst must be VIOLATED; the counterexample (printed as JSON by CexNoDanglingInst)
\* is replayed against the real code by checks/c15_sharedstore.py
SPECIFICATION Spec
CONSTANTS Procs = {"A", "B"}  BIds = {"b1"}  MaxOps = 1  MaxTotal = 2
CONSTANT OpKinds = {"instmv", "gcA"}
CONSTANT Quotas = {99}
CONSTANT InitKinds = {"emptydir", "pop"}
CONSTANT InitPerm = FALSE  MaxUnlink = 0  Gen = FALSE
CONSTANT Weak = {"LinkAfterUnlock", "LostRaceUnregistered", "GcNeedsRepoJson", "RepoCreateWindow", "UnlockBeforeFlush", "InspectRace"}
VIEW view
INVARIANT CexNoDanglingInst
CHECK_DEADLOCK FALSE
