SPECIFICATION Spec
CONSTANTS
  MaxSteps = 8
  MaxEdit = 3
  MaxUp = 2
  MaxUser = 3
  MaxBob = 4
  Urls = {"U1", "U2"}
  AuxKinds = {"url", "urld", "imp"}
  Dirs = {".", "sub"}
  Weak = {}
  GenDepth = 9
INVARIANTS GenPrint
