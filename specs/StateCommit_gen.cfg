SPECIFICATION Spec
CONSTANTS MaxSnap = 5  MaxInv = 3  MaxCrash = 2  MaxAsync = 2  GenDepth = 45
INVARIANT GenPrint
CHECK_DEADLOCK FALSE
