SPECIFICATION Spec
CONSTANTS MaxEdits = 2  MaxInv = 1  MaxDrop = 0  MaxRequery = 0  MtimeEdits = FALSE  GenDepth = 0
CONSTANT Weak = {"NoTouchOnHit"}
VIEW view
INVARIANT CexPrint
CHECK_DEADLOCK FALSE
