\* the protocol of the code as it is: NoDanglingLinkToCollected must be VIOLATED; the counterexample (printed as JSON by
\* CexNoDanglingLinkToCollected) is replayed against the real code by checks/c15_sharedstore.py
SPECIFICATION Spec
CONSTANTS Procs = {"A", "B"}  BIds = {"b1"}  MaxOps = 1  MaxTotal = 2
CONSTANT OpKinds = {"instmv", "gcA"}
CONSTANT Quotas = {0}
CONSTANT InitKinds = {"emptydir"}
CONSTANT InitPerm = FALSE  MaxUnlink = 0  Gen = FALSE
CONSTANT Weak = {"LinkAfterUnlock", "LostRaceUnregistered", "GcNeedsRepoJson", "RepoCreateWindow", "UnlockBeforeFlush", "InspectRace"}
VIEW view
INVARIANT CexNoDanglingLinkToCollected
CHECK_DEADLOCK FALSE
