\* vacuity control: ReachCreateRace is a negated reachability statement and must be VIOLATED
SPECIFICATION Spec
CONSTANTS Procs = {"A", "B"}  BIds = {"b1", "b2"}  MaxOps = 1  MaxTotal = 2
CONSTANT OpKinds = {"instmv"}
CONSTANT Quotas = {99}
CONSTANT InitKinds = {"emptydir"}
CONSTANT InitPerm = FALSE  MaxUnlink = 0  Gen = FALSE
CONSTANT Weak = {}
VIEW view
INVARIANT ReachCreateRace
CHECK_DEADLOCK FALSE
