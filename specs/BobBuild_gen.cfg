SPECIFICATION Spec
CONSTANTS MaxEdit = 4  MaxInv = 4  MaxKill = 2  MaxFail = 1  GenDepth = 160
CONSTANT Flags = {"plain"}
CONSTANT Weak = {}
INVARIANT GenPrint
CHECK_DEADLOCK FALSE
