SPECIFICATION TraceSpec
CONSTANTS MaxArt = 4  MaxHist = 0  MaxCmd = 1  Sweep = "both"  GenDepth = 0
CONSTANT Recs <- RecsGen
CONSTANT Shapes <- AllShapes
CONSTANT ExprLists <- ExprListsSmall
CONSTRAINT Track
POSTCONDITION Report
CHECK_DEADLOCK FALSE
