--------------------------- MODULE StateCommitApa ---------------------------
(* Typed COPY of the protocol of StateCommit.tla (property C10) for Apalache, plus an
   inductive invariant IndInv that gives the TLC design check an argument that does not
   depend on the search depth or on the bounds MaxSnap/MaxInv/MaxCrash/MaxAsync.

   Why a copy and not `INSTANCE StateCommit`: StateCommit.tla EXTENDS Json and uses
   TLCGet/ToJson/PrintT (GenPrint) and the observation variable `hist`, a sequence of
   records of DIFFERENT shapes ([a |-> "Start"], [a |-> "Mutate", snap |-> n], ...).
   Apalache's type checker (Snowcat) types the whole module and rejects both.

   Relation to StateCommit.tla -- action for action identical:
     * every action below has the name, the guard and the effect of the action of the
       same name in StateCommit.tla, in the same order; Init, Next, Torn, None, File and
       the P-layer invariants are textually the same;
     * the ONLY omission is the observation variable `hist` (conjuncts H(..)/NoH). hist
       is write-only in StateCommit.tla (no guard reads it) and is hidden by `VIEW view`
       in the exhaustive configs, so the two modules have the same reachable states;
     * the ONLY addition is the knob Weak. Weak = "none" is the protocol. The other
       values are deliberately WRONG variants used for vacuity control of IndInv (the
       inductive step must fail for them); they correspond to mutants/c10_*.diff:
         "nofsync"   FinFsync/StartFsync do not make .pickle.new durable (c10_nofsync)
         "noverify"  start-up commits .pickle.new without the checksum test (c10_noverify)
       (Skipping the .dirty marker -- mutants/c10_nodirty.diff -- is NOT a usable knob: in
       this model a write is one atomic step and content is torn only by Crash on an
       unsynced file, so writing .pickle.new in place satisfies the same invariants; tried
       with Apalache, the step still passes. That mutant is caught on the real code by
       stage (B)/(C) of the check, not by the design model.)
   Divergence control: StateCommitApa_xcheck*.cfg run TLC on this module with the constants
   of StateCommit.cfg / StateCommit_thorough.cfg (and additionally evaluate IndInv on every
   reachable state); checks/c10_statecommit.py requires the numbers of distinct states and
   of transitions to be equal to those of StateCommit under VIEW (51,037 / 111,905 quick,
   894,889 / 2,066,719 thorough; the depth is equal too with -workers 1).

   The Apalache entry points (constants, IndInit with Gen) are in MC_StateCommitApa.tla;
   this module stays plain TLA+ so that TLC can check it too.                            *)
EXTENDS Naturals, Integers, FiniteSets

CONSTANTS
    \* @type: Int;
    MaxSnap,
    \* @type: Int;
    MaxInv,
    \* @type: Int;
    MaxCrash,
    \* @type: Int;
    MaxAsync,
    \* @type: Str;
    Weak

VARIABLES
    \* @type: $file;
    pickle,
    \* @type: $file;
    newf,
    \* @type: $file;
    dirty,
    \* @type: Bool;
    lock,
    \* @type: Str;
    pc,
    \* @type: Int;
    mem,
    \* @type: Int;
    async,
    \* @type: Bool;
    dflag,
    \* @type: Set(Int);
    saved,
    \* @type: Int;
    lastCompleted,
    \* @type: Int;
    nsnap,
    \* @type: Int;
    ninv,
    \* @type: Int;
    ncrash,
    \* @type: Int;
    loaded,
    \* @type: Bool;
    refused

\* @typeAlias: file = { ex: Bool, snap: Int, synced: Bool, ok: Bool };
StateCommitApa_aliases == TRUE

vars == <<pickle, newf, dirty, lock, pc, mem, async, dflag,
          saved, lastCompleted, nsnap, ninv, ncrash, loaded, refused>>

\* @type: $file;
None == [ex |-> FALSE, snap |-> 0, synced |-> TRUE, ok |-> TRUE]
\* @type: Int => $file;
File(s) == [ex |-> TRUE, snap |-> s, synced |-> FALSE, ok |-> TRUE]

Init ==
  /\ pickle = None /\ newf = None /\ dirty = None /\ lock = FALSE
  /\ pc = "off" /\ mem = 0 /\ async = 0 /\ dflag = FALSE
  /\ saved = {} /\ lastCompleted = 0 /\ nsnap = 0 /\ ninv = 0 /\ ncrash = 0
  /\ loaded = -1 /\ refused = FALSE

----------------------------------------------------------------------------
(* start-up: state.py 347-422 *)

\* 350: os.open(O_CREAT|O_EXCL)
StartLock ==
  /\ pc = "off" /\ ~lock /\ ninv < MaxInv
  /\ lock' = TRUE /\ pc' = "s_lock" /\ refused' = FALSE
  /\ UNCHANGED <<pickle, newf, dirty, mem, async, dflag, saved, lastCompleted, nsnap, ninv, ncrash, loaded>>

\* 352-356: EEXIST -> "Workspace state locked by other Bob instance!"
StartRefused ==
  /\ pc = "off" /\ lock /\ ~refused
  /\ refused' = TRUE
  /\ UNCHANGED <<pickle, newf, dirty, lock, pc, mem, async, dflag, saved, lastCompleted, nsnap, ninv, ncrash, loaded>>

\* a second instance while the first one runs: must be refused (lock exists)
SecondInstance ==
  /\ pc \notin {"off"} /\ ~refused
  /\ refused' = lock
  /\ UNCHANGED <<pickle, newf, dirty, lock, pc, mem, async, dflag, saved, lastCompleted, nsnap, ninv, ncrash, loaded>>

\* 453-455: no uncommitted state
StartNoNew ==
  /\ pc = "s_lock" /\ ~newf.ex
  /\ pc' = "s_load"
  /\ UNCHANGED <<pickle, newf, dirty, lock, mem, async, dflag, saved, lastCompleted, nsnap, ninv, ncrash, loaded, refused>>

\* 459-464: checksum computed, fsync (issued whether or not the checksum matched)
StartFsync ==
  /\ pc = "s_lock" /\ newf.ex
  /\ newf' = IF Weak = "nofsync" THEN newf ELSE [newf EXCEPT !.synced = TRUE]
  /\ pc' = "s_fsynced"
  /\ UNCHANGED <<pickle, dirty, lock, mem, async, dflag, saved, lastCompleted, nsnap, ninv, ncrash, loaded, refused>>

\* 466: replacePath(new, pickle)
StartRename ==
  /\ pc = "s_fsynced" /\ (newf.ok \/ Weak = "noverify")
  /\ pickle' = newf /\ newf' = None
  /\ pc' = "s_load"
  /\ UNCHANGED <<dirty, lock, mem, async, dflag, saved, lastCompleted, nsnap, ninv, ncrash, loaded, refused>>

\* 468-480: checksum mismatch -> discard
StartDiscard ==
  /\ pc = "s_fsynced" /\ ~newf.ok /\ Weak # "noverify"
  /\ newf' = None
  /\ pc' = "s_load"
  /\ UNCHANGED <<pickle, dirty, lock, mem, async, dflag, saved, lastCompleted, nsnap, ninv, ncrash, loaded, refused>>

\* 368-394: load
StartLoad ==
  /\ pc = "s_load"
  /\ loaded' = IF pickle.ex THEN pickle.snap ELSE 0
  /\ mem' = loaded'
  /\ pc' = "run"
  /\ UNCHANGED <<pickle, newf, dirty, lock, async, dflag, saved, lastCompleted, nsnap, ninv, ncrash, refused>>

----------------------------------------------------------------------------
(* mutation: every public setter ends in __save, state.py 424-451 *)

Mutate ==
  /\ pc = "run" /\ nsnap < MaxSnap
  /\ nsnap' = nsnap + 1 /\ mem' = nsnap + 1
  /\ IF async = 0
       THEN /\ pc' = "wd" /\ saved' = saved \cup {nsnap + 1} /\ UNCHANGED dflag
       ELSE /\ dflag' = TRUE /\ UNCHANGED <<pc, saved>>
  /\ UNCHANGED <<pickle, newf, dirty, lock, async, lastCompleted, ninv, ncrash, loaded, refused>>

\* 444-446: open(dirty,"wb"), pickle.dump through DigestAdder, close -- no fsync
WriteDirty ==
  /\ pc = "wd"
  /\ dirty' = File(mem)
  /\ pc' = "rn"
  /\ UNCHANGED <<pickle, newf, lock, mem, async, dflag, saved, lastCompleted, nsnap, ninv, ncrash, loaded, refused>>

\* 447: replacePath(dirty, new)
RenameDirtyNew ==
  /\ pc = "rn"
  /\ newf' = dirty /\ dirty' = None
  /\ pc' = "run"
  /\ UNCHANGED <<pickle, lock, mem, async, dflag, saved, lastCompleted, nsnap, ninv, ncrash, loaded, refused>>

\* 519-520
AsyncBegin ==
  /\ pc = "run" /\ async < MaxAsync
  /\ async' = async + 1
  /\ UNCHANGED <<pickle, newf, dirty, lock, pc, mem, dflag, saved, lastCompleted, nsnap, ninv, ncrash, loaded, refused>>

\* 522-526
AsyncEnd ==
  /\ pc = "run" /\ async > 0
  /\ async' = async - 1
  /\ IF async = 1 /\ dflag
       THEN /\ dflag' = FALSE /\ pc' = "wd" /\ saved' = saved \cup {mem}
       ELSE UNCHANGED <<dflag, pc, saved>>
  /\ UNCHANGED <<pickle, newf, dirty, lock, mem, lastCompleted, nsnap, ninv, ncrash, loaded, refused>>

----------------------------------------------------------------------------
(* finalize: state.py 496-517, __commit(verify=False) *)

Finalize ==
  /\ pc = "run" /\ async = 0 /\ ~dflag
  /\ pc' = "f_commit"
  /\ UNCHANGED <<pickle, newf, dirty, lock, mem, async, dflag, saved, lastCompleted, nsnap, ninv, ncrash, loaded, refused>>

FinNoNew ==
  /\ pc = "f_commit" /\ ~newf.ex
  /\ pc' = "f_unlock"
  /\ UNCHANGED <<pickle, newf, dirty, lock, mem, async, dflag, saved, lastCompleted, nsnap, ninv, ncrash, loaded, refused>>

\* 464: fsync (no verification)
FinFsync ==
  /\ pc = "f_commit" /\ newf.ex
  /\ newf' = IF Weak = "nofsync" THEN newf ELSE [newf EXCEPT !.synced = TRUE]
  /\ pc' = "f_fsynced"
  /\ UNCHANGED <<pickle, dirty, lock, mem, async, dflag, saved, lastCompleted, nsnap, ninv, ncrash, loaded, refused>>

\* 466
FinRename ==
  /\ pc = "f_fsynced"
  /\ pickle' = newf /\ newf' = None
  /\ pc' = "f_unlock"
  /\ UNCHANGED <<dirty, lock, mem, async, dflag, saved, lastCompleted, nsnap, ninv, ncrash, loaded, refused>>

\* 508-510: unlink lock; the invocation is complete
FinUnlock ==
  /\ pc = "f_unlock"
  /\ lock' = FALSE /\ pc' = "off"
  /\ lastCompleted' = mem /\ ninv' = ninv + 1 /\ loaded' = -1
  /\ UNCHANGED <<pickle, newf, dirty, mem, async, dflag, saved, nsnap, ncrash, refused>>

----------------------------------------------------------------------------
(* environment *)

\* @type: ($file, Bool) => $file;
Torn(f, t) == IF f.ex /\ ~f.synced /\ t THEN [f EXCEPT !.ok = FALSE, !.synced = TRUE]
              ELSE [f EXCEPT !.synced = TRUE]

\* kill -9 / power loss at any instant; unsynced content may be torn
Crash ==
  /\ pc # "off" /\ ncrash < MaxCrash
  /\ \E tp, tn, td \in BOOLEAN :
       /\ (tp => (pickle.ex /\ ~pickle.synced))
       /\ (tn => (newf.ex /\ ~newf.synced))
       /\ (td => (dirty.ex /\ ~dirty.synced))
       /\ pickle' = Torn(pickle, tp) /\ newf' = Torn(newf, tn) /\ dirty' = Torn(dirty, td)
  /\ pc' = "off" /\ async' = 0 /\ dflag' = FALSE /\ loaded' = -1
  /\ ncrash' = ncrash + 1 /\ refused' = FALSE
  /\ UNCHANGED <<lock, mem, saved, lastCompleted, nsnap, ninv>>

\* "Delete '.bob-state.lock' if Bob crashed or was killed previously"
UserRemovesLock ==
  /\ pc = "off" /\ lock
  /\ lock' = FALSE /\ refused' = FALSE
  /\ UNCHANGED <<pickle, newf, dirty, pc, mem, async, dflag, saved, lastCompleted, nsnap, ninv, ncrash, loaded>>

Done ==
  /\ pc = "off" /\ (ninv = MaxInv \/ (lock /\ refused))
  /\ UNCHANGED vars

Next ==
  \/ StartLock \/ StartRefused \/ SecondInstance \/ StartNoNew \/ StartFsync \/ StartRename
  \/ StartDiscard \/ StartLoad \/ Mutate \/ WriteDirty \/ RenameDirtyNew \/ AsyncBegin
  \/ AsyncEnd \/ Finalize \/ FinNoNew \/ FinFsync \/ FinRename \/ FinUnlock
  \/ Crash \/ UserRemovesLock \/ Done

Spec == Init /\ [][Next]_vars

----------------------------------------------------------------------------
(* P layer -- textually the invariants of StateCommit.tla *)

PcSet == {"off", "s_lock", "s_fsynced", "s_load", "run", "wd", "rn", "f_commit", "f_fsynced", "f_unlock"}

TypeOK ==
  /\ pc \in PcSet
  /\ mem \in 0..MaxSnap /\ loaded \in -1..MaxSnap /\ async \in 0..MaxAsync

LoadNeverErrors == pickle.ex => pickle.ok

LoadsSavedSnapshot == loaded # -1 => loaded \in saved \cup {0}

NotOlderThanCompleted == loaded # -1 => loaded >= lastCompleted

SingleWriter == pc # "off" => lock

PickleDurable == pickle.ex => pickle.synced

\* vacuity companions of StateCommit.tla (negated reachability), used by the TLC cross-check only
ReachDiscard == ~(pc = "s_load" /\ ncrash > 0 /\ ~newf.ex /\ pickle.ex /\ pickle.snap < nsnap)
ReachRecoverNew == ~(loaded # -1 /\ ncrash > 0 /\ loaded > lastCompleted)

----------------------------------------------------------------------------
(* Inductive invariant.

   Committed = what `load` reads: the snapshot in .pickle, or the empty state 0.
   Phases:  Down   = no instance is past start-up recovery (off, s_lock, s_fsynced)
            Up     = recovery done, .pickle.new (if any) was written by THIS invocation
            Synced = the in-memory state has no save pending                          *)

Committed == IF pickle.ex THEN pickle.snap ELSE 0

Down == pc \in {"off", "s_lock", "s_fsynced"}
Up   == pc \in {"s_load", "run", "wd", "rn", "f_commit", "f_fsynced", "f_unlock"}

\* @type: $file => Bool;
FileShape(f) ==
  /\ (~f.ex => f = None)                       \* canonical absent file
  /\ (f.ok \/ f.synced)                        \* content is torn only by a crash, which also settles it
  /\ (f.ex => f.snap \in saved)                \* every file content was produced by __save
  /\ f.snap >= 0

\* everything that has been handed to __save is reflected by .pickle.new, or by .pickle if there is none
MemPersisted == IF newf.ex THEN newf.snap = mem ELSE Committed = mem

IndInv ==
  \* ---- types and ranges (constrains every variable) ----
  /\ pc \in PcSet
  /\ lock \in BOOLEAN /\ dflag \in BOOLEAN /\ refused \in BOOLEAN
  /\ nsnap \in 0..MaxSnap /\ ninv \in 0..MaxInv /\ ncrash \in 0..MaxCrash /\ async \in 0..MaxAsync
  /\ \A s \in saved : 1 <= s /\ s <= nsnap
  /\ mem \in 0..nsnap
  /\ lastCompleted \in 0..nsnap
  /\ loaded \in -1..nsnap
  \* ---- files ----
  /\ FileShape(pickle) /\ FileShape(newf) /\ FileShape(dirty)
  \* .pickle only ever receives durable, intact content (-> LoadNeverErrors, PickleDurable)
  /\ (pickle.ex => pickle.synced /\ pickle.ok)
  \* neither the committed nor the uncommitted file is older than the last completed invocation
  /\ Committed >= lastCompleted
  /\ (newf.ex => newf.snap >= lastCompleted)
  \* after start-up recovery .pickle.new is intact (torn ones were discarded at s_fsynced)
  /\ (Up /\ newf.ex => newf.ok)
  \* ---- lock (-> SingleWriter) ----
  /\ (pc # "off" => lock)
  \* a running invocation was admitted by StartLock (keeps ninv within its range at FinUnlock)
  /\ (pc # "off" => ninv < MaxInv)
  \* ---- control state vs. data ----
  /\ (dflag => async > 0 /\ pc = "run" /\ mem = nsnap /\ mem >= 1)
  /\ (pc # "run" => async = 0)
  /\ (Down \/ pc = "s_load" => loaded = -1)
  /\ (pc = "s_fsynced" => newf.ex /\ newf.synced)
  /\ (pc = "s_load" => ~newf.ex)
  /\ (pc \in {"run", "wd", "rn", "f_commit", "f_fsynced", "f_unlock"} => mem >= lastCompleted)
  /\ (pc \in {"wd", "rn"} => mem \in saved)
  /\ (pc = "rn" => dirty = File(mem))
  /\ ((pc = "run" /\ ~dflag) \/ pc = "f_commit" => MemPersisted)
  /\ (pc = "f_fsynced" => newf.ex /\ newf.synced /\ newf.snap = mem)
  /\ (pc = "f_unlock" => ~newf.ex /\ Committed = mem)
  \* ---- what a started instance has loaded (-> LoadsSavedSnapshot, NotOlderThanCompleted) ----
  /\ (loaded # -1 => loaded \in saved \cup {0} /\ loaded >= lastCompleted)

\* conjunction of the P layer, for `IndInv => P`
PAll == TypeOK /\ LoadNeverErrors /\ LoadsSavedSnapshot /\ NotOlderThanCompleted /\ SingleWriter /\ PickleDurable

\* vacuity: negated satisfiability probes; each must be VIOLATED from IndInit at length 0
NotIndInv     == ~IndInv
NotRecovering == ~(IndInv /\ pc = "s_fsynced" /\ ~newf.ok /\ pickle.ex /\ ncrash > 0)
NotMidSave    == ~(IndInv /\ pc = "rn" /\ newf.ex /\ newf.snap < mem /\ pickle.ex /\ pickle.snap < newf.snap)

=============================================================================
