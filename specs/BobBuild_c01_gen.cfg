SPECIFICATION Spec
CONSTANTS MaxEdit = 5  MaxInv = 6  MaxKill = 0  MaxFail = 0  GenDepth = 260
CONSTANT Flags = {"plain"}
CONSTANT Weak = {}
INVARIANT GenPrint
CHECK_DEADLOCK FALSE
