SPECIFICATION Spec
CONSTANTS MaxEdit = 3  MaxInv = 4  MaxKill = 0  MaxFail = 0  GenDepth = 0
CONSTANT Flags = {"plain"}
CONSTANT Weak = {}
VIEW view
INVARIANT IncrementalEqClean
INVARIANT Idempotent
CHECK_DEADLOCK FALSE
