SPECIFICATION Spec
CONSTANTS MaxSize = 3  Rich = FALSE  TowerDepth = 4  ProtLen = 2  RawLen = 4
          MaxESize = 3  ETower = 8  RawELen = 3  BigEnv = FALSE  Emit = TRUE
INVARIANT TypeOK
INVARIANT NounsetOnlyAddsErrors
INVARIANT DqTransparent
INVARIANT ProtectedUnchanged
INVARIANT UntakenIrrelevant
INVARIANT InfixEqualsFun
INVARIANT NotNot
INVARIANT Trichotomy
INVARIANT EProtTrue
INVARIANT IllIsError
INVARIANT EmitCase
CHECK_DEADLOCK FALSE
