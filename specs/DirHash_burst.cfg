\* up to 2 modifications between two cached hashes (delete+create, rename chains seen as one change by the cache)
INIT Init
NEXT Next
CONSTANTS Contents = {1, 2, 3}  Modes = {1, 2}  NewContents = {1, 3}  NewModes = {1}
           Targets = {1}  DirModes = {1}
          Bases = {2, 3, 5}  MaxOps = 3  MaxBurst = 2  Gen = FALSE
VIEW view
INVARIANT TypeOK
INVARIANT CacheTransparent
INVARIANT IndexSorted
INVARIANT IndexNeverLies
INVARIANT OutSorted
CHECK_DEADLOCK FALSE
