\* vacuity control: ReachTwoCandidates is a negated reachability statement and must be VIOLATED
SPECIFICATION Spec
CONSTANTS Procs = {"A", "B"}  BIds = {"b1", "b2"}  MaxOps = 1  MaxTotal = 1
CONSTANT OpKinds = {"gc"}
CONSTANT Quotas = {1}
CONSTANT InitKinds = {"pop"}
CONSTANT InitPerm = FALSE  MaxUnlink = 0  Gen = FALSE
CONSTANT Weak = {}
VIEW view
INVARIANT ReachTwoCandidates
CHECK_DEADLOCK FALSE
