"""Demonstration of the binding between the TLA+ trace specifications and the recorded traces
(DESIGN.md section 7, "Demonstrating the binding").  Not one of the registered checks.

    /venv/bin/python selftest.py binding [C10]

For every trace specification it records real traces from the current /repo tree exactly like the
check does, validates them (all must be accepted), then corrupts single events of accepted traces
(drop one event, alter one logged field, swap two neighbouring different events) and validates
again: corrupted traces must be rejected.  Prints one line per corruption class with
accepted/rejected counts; exits 1 if a class that must always be rejected (an altered logged state
field) is accepted, or if no dropped-event corruption is rejected at all.

Seeded code changes (`mutants/*.diff`, `seeded/*/patch.diff`) against the checks:
    for m in mutants/c10_*.diff; do bin/with-patch $m bin/check C10 --tier quick; done
"""
import copy
import json
import multiprocessing as mp
import os
import random
import sys

sys.path.insert(0, os.path.dirname(os.path.abspath(__file__)))
from vf import common, tlc  # noqa: E402


class _Rep:
    """stand-in for evidence.Report: only collects"""
    def __init__(self):
        self.viol, self.tlc = [], []

    def violation(self, sig, detail=None):
        self.viol.append(sig)

    def add_tlc(self, res, name):
        self.tlc.append(name)

    def model_drift(self, t):
        pass


def binding_c10(seed=0, num=60):
    from checks import c10_statecommit as c10
    gen = tlc.run("StateCommit", "StateCommit_gen.cfg", workers=1, simulate="num=%d" % num, depth=45,
                  seed=seed + 1, timeout=600)
    hists, seen = [], set()
    for h in gen.printed:
        key = json.dumps(h, sort_keys=True)
        if key not in seen and any(x["a"] == "Mutate" for x in h):
            seen.add(key)
            hists.append(h)
    common.use_repo()
    import bob.state  # noqa: F401
    with mp.get_context("fork").Pool(min(8, common.workers())) as pool:
        rs = pool.map(c10.replay_task, [(i, h, seed, False) for i, h in enumerate(hists)])
    traces = [r["events"] for r in rs if r["events"]]
    rep = _Rep()
    rej = c10.validate_traces(traces, rep)
    rejected_ids = {i for (i, _, _, _) in rej}
    good = [t for i, t in enumerate(traces) if i not in rejected_ids]
    print("C10: %d real traces recorded, %d accepted by TraceStateCommit, %d rejected, invariant alarms %s"
          % (len(traces), len(good), len(rej), rep.viol))
    rng = random.Random(seed)
    classes = {"drop-event": [], "alter-snap": [], "swap-neighbours": [], "flip-torn": []}
    for t in good:
        if len(t) < 4:
            continue
        k = rng.randrange(0, len(t) - 1)
        classes["drop-event"].append(t[:k] + t[k + 1:])
        idx = [i for i, e in enumerate(t) if e.get("e") in ("Loaded", "Mutate") and "snap" in e]
        if idx:
            i = rng.choice(idx)
            c = copy.deepcopy(t)
            c[i]["snap"] = c[i]["snap"] + 7 if isinstance(c[i]["snap"], int) else 0
            # only a Loaded event's field is determined by the model state; a Mutate's is an input
            if c[i]["e"] == "Loaded":
                classes["alter-snap"].append(c)
        sw = [i for i in range(len(t) - 1) if t[i].get("e") != t[i + 1].get("e")]
        if sw:
            i = rng.choice(sw)
            c = copy.deepcopy(t)
            c[i], c[i + 1] = c[i + 1], c[i]
            classes["swap-neighbours"].append(c)
        cr = [i for i, e in enumerate(t) if e.get("e") == "Crash" and e.get("tornNew")]
        if cr:
            c = copy.deepcopy(t)
            c[cr[0]]["tornNew"] = False
            classes["flip-torn"].append(c)
    ok = True
    for name, cs in classes.items():
        if not cs:
            print("C10 binding %-16s no candidates" % name)
            continue
        rep2 = _Rep()
        rej2 = c10.validate_traces(cs, rep2)
        nrej = len({i for (i, _, _, _) in rej2})
        # a corrupted trace may also be "accepted" as a prefix but trip a P invariant: counts as detected
        det = nrej + (1 if rep2.viol and nrej < len(cs) else 0)
        print("C10 binding %-16s corrupted=%d rejected=%d invariant-alarms=%d" % (name, len(cs), nrej, len(rep2.viol)))
        if name == "alter-snap" and nrej < len(cs):
            ok = False
        if name == "drop-event" and det == 0:
            ok = False
    if len(good) == 0:
        ok = False
    return ok


def main():
    what = sys.argv[1] if len(sys.argv) > 1 else "binding"
    if what != "binding":
        print(__doc__)
        return 2
    ok = binding_c10(int(os.environ.get("VERIF_SEED", "0") or 0))
    print("BINDING", "ok" if ok else "FAILED")
    return 0 if ok else 1


if __name__ == "__main__":
    sys.exit(main())
