"""C15: OpenLocked.__exit__ (share.py 55-59) releases the flock BEFORE it closes the file. JSON text written under
the lock (pkg.json in useSharedPackage, repo.json in __addPackage and gc) still sits in the user-space buffer; after
f.truncate() the file on disk is EMPTY until close(). A second process that gets the lock in this window reads an empty
file: useSharedPackage -> BuildError "Corrupt meta info", __addPackage / gc -> raw JSONDecodeError.
The window is hit deterministically here by running the second operation from inside unlockFile().
Exit status 1 = defect present.   Run: /venv/bin/python checks/repro_c15_unlock_before_flush.py"""
import os, sys, tempfile, shutil
sys.path.insert(0, os.path.join(os.environ.get("VERIF_REPO", "/repo"), "pym"))
import bob.share as share
from bob.utils import hashDirectory

root = tempfile.mkdtemp(prefix="repro-c15-")
BID, BID2 = b"\x11" * 20, b"\x22" * 20


def project(name):
    d = os.path.join(root, name, "dev", "dist", "pkg", "1")
    ws = os.path.join(d, "workspace")
    os.makedirs(ws)
    with open(os.path.join(ws, "result.txt"), "w") as f:
        f.write("content " + name[:0])
    with open(os.path.join(d, "audit.json.gz"), "w") as f:
        f.write(name)
    return ws


def in_window(fname, action):
    """run action() once, right after the lock on a file named fname (opened for writing) was released"""
    orig = share.unlockFile
    out = []

    def spy(fd):
        orig(fd)
        if os.path.basename(fd.name) == fname and fd.mode != "r" and not out:
            out.append(("size on disk after unlock", os.path.getsize(fd.name)))
            share.unlockFile = orig
            try:
                out.append(("ok", action()))
            except Exception as e:
                out.append(("RAISED", "%s: %s" % (type(e).__name__, e)))
    share.unlockFile = spy
    return out, (lambda: setattr(share, "unlockFile", orig))


try:
    bad = 0
    store = os.path.join(root, "store")
    wsZ = project("Z")
    share.LocalShare({"path": store}).installSharedPackage(wsZ, BID, hashDirectory(wsZ), True)
    wsA = os.path.join(root, "A", "ws")
    wsB = os.path.join(root, "B", "ws")
    # 1) two projects use the same package at the same time
    out, restore = in_window("pkg.json", lambda: share.LocalShare({"path": store}).useSharedPackage(wsB, BID)[0] is not None)
    share.LocalShare({"path": store}).useSharedPackage(wsA, BID)
    restore()
    print("use by B while A is between unlock and close of pkg.json:", out)
    bad |= any(k == "RAISED" for k, _ in out)
    # 2) gc while another project is between unlock and close of repo.json (install of a second package)
    wsC = project("C")
    out, restore = in_window("repo.json", lambda: share.LocalShare({"path": store, "quota": "1G"}).gc(False, False))
    share.LocalShare({"path": store}).installSharedPackage(wsC, BID2, hashDirectory(wsC), True)
    restore()
    print("gc by another project while C is between unlock and close of repo.json:", out)
    bad |= any(k == "RAISED" for k, _ in out)
    if bad:
        print("DEFECT: an operation failed / reported corruption merely because another project worked on the store")
    sys.exit(1 if bad else 0)
finally:
    shutil.rmtree(root, ignore_errors=True)
