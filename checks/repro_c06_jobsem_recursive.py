"""Minimal reproduction of the C06 finding `jobsem-recursive:implicit-slot-accounting-ignores-handover-in-transit`.

    /venv/bin/python -m checks.repro_c06_jobsem_recursive        (exit 1 = defect present)

pym/bob/builder.py JobServerSemaphore with recursive=True (Bob running below an external GNU make
job server, builder.py:324).  `__acquired` counts only tasks that have RETURNED from acquire().  A slot
that release() hands over to a waiter (301-305: waitersCnt -= 1; sem.release()) is counted by nobody
until that waiter resumes (292).  In that window

  (a) acquire() of another task sees `__acquired == 0` and takes the implicit slot again (280-282):
      two jobs run on a budget of one, and the next release() does `self.__tokens.pop()` on an empty
      list -> IndexError;
  (b) release() of the last resumed holder sees `__acquired == 1`, treats its slot as the implicit one
      and does not write its byte back (307): the token is lost for the rest of the build and is never
      returned to the parent make.

The window is hit by the builder itself: _cook() creates the child tasks and then yields its own slot
(__yieldJobWhile, builder.py 1948-1954), so a freshly created task runs acquire() right between the
release() and the resumption of an older waiter whenever the pipe is empty (siblings of Bob hold all
tokens).  Found by TLC on specs/JobSem.tla (JobSem_rec.cfg, invariant NoDuplication, 6 steps).
Intended behaviour: a slot that is handed over stays counted (e.g. do not decrement `__acquired` in the
hand-over branch of release() and do not increment it after `await self.__sem.acquire()`; count the
tokens read by jobavailableCallback there).
"""
import asyncio
import os
import sys

from vf import common


async def scenario_a(JobServerSemaphore):
    r, w = os.pipe()                     # job-server pipe of the parent make: empty, siblings hold all tokens
    os.set_blocking(r, False)
    sem = JobServerSemaphore((r, w), True)
    running, errors = set(), []
    go = asyncio.Event()

    async def job(name):
        await sem.acquire()
        running.add(name)
        await go.wait()
        running.discard(name)
        try:
            sem.release()
        except Exception as e:
            errors.append("%s: %s" % (type(e).__name__, e))

    await sem.acquire()                  # A holds the implicit slot (budget = 1 job)
    tb = asyncio.ensure_future(job("B"))
    await asyncio.sleep(0)               # B blocks: pipe empty
    tc = asyncio.ensure_future(job("C"))  # A spawns a child task ...
    sem.release()                        # ... and yields its slot (what __yieldJobWhile does)
    await asyncio.sleep(0)
    await asyncio.sleep(0)
    both = sorted(running)
    go.set()
    await asyncio.gather(tb, tc)
    os.close(r)
    os.close(w)
    return both, errors


async def scenario_b(JobServerSemaphore):
    r, w = os.pipe()
    os.set_blocking(r, False)
    os.write(w, b"+")                    # one token in the pipe: budget = 2 jobs
    sem = JobServerSemaphore((r, w), True)
    await sem.acquire()                  # T1: implicit slot
    await sem.acquire()                  # T2: reads the token
    t3 = asyncio.ensure_future(sem.acquire())
    await asyncio.sleep(0)               # T3 waits
    sem.release()                        # T2 hands its slot (and token) to T3 ...
    sem.release()                        # ... T1 releases before T3 resumed: __acquired == 1 -> nothing written
    await t3                             # T3 now "holds the implicit slot"
    sem.release()                        # nothing written again
    import fcntl, struct, termios
    left = struct.unpack("i", fcntl.ioctl(r, termios.FIONREAD, b"\0\0\0\0"))[0]
    os.close(r)
    os.close(w)
    return left


def main():
    common.use_repo()
    from bob.builder import JobServerSemaphore
    both, errors = asyncio.run(scenario_a(JobServerSemaphore))
    left = asyncio.run(scenario_b(JobServerSemaphore))
    print("(a) jobs running at once on a budget of 1:", both, "; release() errors:", errors)
    print("(b) tokens in the pipe after everybody released (1 expected):", left)
    bad = len(both) > 1 or errors or left != 1
    print("DEFECT REPRODUCED" if bad else "not reproduced")
    return 1 if bad else 0


if __name__ == "__main__":
    sys.exit(main())
