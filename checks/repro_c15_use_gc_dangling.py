"""S2 (C15): a package is collected while a project is between the return of the share API and the creation of
its workspace link (builder.py 1493 -> 1522 and 1727 -> 1744 run outside all locks; gc decides "unused" by looking
at the users' workspace links).
  a) useSharedPackage registers A and returns the path; another project's `bob clean --shared --all-unused`
     (or the automatic gc of an install) collects the package; A's builder creates a dangling link.
  b) installSharedPackage(mayMove=True) has MOVED A's workspace into the store and returns; gc collects it; the
     build result is lost and the link dangles.
Exit status 1 = defect present.   Run: /venv/bin/python checks/repro_c15_use_gc_dangling.py"""
import os, sys, tempfile, shutil
sys.path.insert(0, os.path.join(os.environ.get("VERIF_REPO", "/repo"), "pym"))
from bob.share import LocalShare
from bob.utils import hashDirectory

root = tempfile.mkdtemp(prefix="repro-c15-")
BID = b"\x11" * 20


def project(name):
    d = os.path.join(root, name, "dev", "dist", "pkg", "1")
    ws = os.path.join(d, "workspace")
    os.makedirs(ws)
    with open(os.path.join(ws, "result.txt"), "w") as f:
        f.write("content")
    with open(os.path.join(d, "audit.json.gz"), "w") as f:
        f.write(name)
    return ws


try:
    bad = 0
    # a) ---------------------------------------------------------------------------------------
    store = os.path.join(root, "store-a")
    wsZ = project("Z")
    LocalShare({"path": store}).installSharedPackage(wsZ, BID, hashDirectory(wsZ), True)   # installed by a project ...
    shutil.rmtree(os.path.join(root, "Z"))                                                  # ... that is gone
    wsA = os.path.join(root, "A", "dev", "dist", "pkg", "1", "workspace")
    path, h = LocalShare({"path": store}).useSharedPackage(wsA, BID)      # builder.py 1493: A is registered, API returns
    print("a) useSharedPackage ->", path is not None)
    r = LocalShare({"path": store}).gc(False, True)                       # other project: bob clean --shared --all-unused
    print("a) gc(False, True) by another project ->", r)
    os.makedirs(os.path.dirname(wsA))
    os.symlink(os.path.join(path, "workspace"), wsA)                      # builder.py 1522
    if not os.path.exists(wsA):
        print("a) DEFECT: workspace link of A dangles:", os.readlink(wsA))
        bad = 1
    # b) ---------------------------------------------------------------------------------------
    store = os.path.join(root, "store-b")
    wsB = project("B")
    path, installed = LocalShare({"path": store}).installSharedPackage(wsB, BID, hashDirectory(wsB), True)  # builder.py 1727
    print("b) installSharedPackage ->", installed, "workspace still there:", os.path.exists(wsB))
    r = LocalShare({"path": store}).gc(False, True)
    print("b) gc(False, True) by another project ->", r)
    os.symlink(os.path.join(path, "workspace"), wsB)                      # builder.py 1744
    if not os.path.exists(wsB):
        print("b) DEFECT: the freshly built package was collected before its builder linked it; link dangles, data lost")
        bad = 1
    sys.exit(bad)
finally:
    shutil.rmtree(root, ignore_errors=True)
