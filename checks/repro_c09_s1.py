"""Stand-alone reproduction of S1 (C09): a cache-mirrored artifact is truncated.

    /venv/bin/python checks/repro_c09_s1.py            (VERIF_REPO=<tree> to test another tree)

A package is uploaded to file archive A1.  It is then downloaded from A1 with a second file
archive A2 that carries the `cache` flag (as MultiArchive.downloadPackage wires it), which makes
Bob mirror the artifact into A2 while it is extracted (archive.py: Tee / MirrorLeecher /
MirrorWriter).  The mirror only receives what the tar *stream* reader consumed; tarfile stops
at the end-of-archive blocks, so the tail of the gzip stream (end of the deflate data, CRC32,
ISIZE) that lies behind the last buffer boundary (512, 512+10240, ...) is never copied, and the
truncated file is committed under the artifact name of A2.

Exit status 1 and "REPRODUCED" if a mirrored artifact differs from its source.
"""
import gzip
import json
import os
import random
import shutil
import subprocess
import sys
import tempfile

sys.path.insert(0, os.path.join(os.environ.get("VERIF_REPO", "/repo"), "pym"))


def main():
    from bob.archive import getSingleArchiver
    d = tempfile.mkdtemp(prefix="repro-c09-")
    rng = random.Random(1)
    bad = []
    try:
        for n in [40, 3000, 30000] + list(range(96, 170, 3)) + list(range(10236, 10340, 5)):
            w = os.path.join(d, "w%d" % n)
            os.makedirs(os.path.join(w, "content"))
            with open(os.path.join(w, "content", "data"), "wb") as f:
                f.write(rng.randbytes(n))
            audit = os.path.join(w, "audit.json.gz")
            with gzip.open(audit, "wb") as f:
                f.write(json.dumps({"n": n}).encode())
            for root, dirs, files in os.walk(w):        # stable tar headers => stable sizes
                for x in dirs + files:
                    os.utime(os.path.join(root, x), (1500000000, 1500000000))
            a1 = getSingleArchiver(None, {"backend": "file", "path": os.path.join(d, "A1")})
            a2 = getSingleArchiver(None, {"backend": "file", "path": os.path.join(d, "A2"), "flags": ["download", "upload", "cache"]})
            bid = bytes([n % 251]) * 20
            a1._uploadPackage(bid, ".tgz", audit, os.path.join(w, "content"))
            caches = [a for a in (a1, a2) if a is not a1 and a.canCache()]
            ws = os.path.join(d, "ws%d" % n)
            ok = a1._downloadPackage(bid, ".tgz", os.path.join(ws, "audit.json.gz"), os.path.join(ws, "content"), caches, ws)
            src, mir = a1._remoteName(bid, ".tgz"), a2._remoteName(bid, ".tgz")
            s1, s2 = os.path.getsize(src), os.path.getsize(mir)
            same = open(src, "rb").read() == open(mir, "rb").read()
            gz = subprocess.run(["gzip", "-t", mir], capture_output=True, text=True)
            print("data %6d bytes: source artifact %6d bytes, mirror %6d bytes, download ok=%s, gzip -t mirror: %s"
                  % (n, s1, s2, ok[0], "ok" if gz.returncode == 0 else gz.stderr.strip().rsplit(": ", 1)[-1]))
            if not same:
                bad.append(n)
    finally:
        shutil.rmtree(d, ignore_errors=True)
    if bad:
        print("REPRODUCED: mirrored artifact truncated for data sizes %s" % bad)
        return 1
    print("not reproduced: all mirrors are byte-identical to their source")
    return 0


if __name__ == "__main__":
    sys.exit(main())
