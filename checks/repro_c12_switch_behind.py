#!/venv/bin/python
"""Stand-alone reproduction of C12/D2: an inline git SWITCH to a repository (or branch state) whose
branch tip is an ancestor of the local branch "succeeds" and leaves the workspace ahead of what the
recipe specifies.

    /venv/bin/python /verif/checks/repro_c12_switch_behind.py       # against /repo (or $VERIF_REPO)

    U2.git: master = c1 (child of c0)        U1.git: master = c0
    checkoutSCM: {scm: git, url: U2.git, branch: master};  bob dev pkg   -> workspace at c1
    recipe edit: url: U1.git;                              bob dev pkg   -> "SWITCH", exit 0
    git.py __forwardBranch: `git merge --ff-only origin/master` says "Already up to date" because
    c0 is an ancestor of c1, so the untouched workspace stays at c1 (f.txt of c1) while a fresh
    checkout of the recipe is at c0.  Scm.switch() promises "the result is the same as if the SCM was
    moved to the attic and a fresh checkout would have been done" (scm.py 272-279).
Exit status 1 = defect present, 0 = not present.
"""
import os
import shutil
import subprocess
import sys
import tempfile

REPO = os.environ.get("VERIF_REPO", "/repo")
CONFIG = 'bobMinimumVersion: "0.16"\npolicies:\n  gitCommitOnBranch: true\n  scmIgnoreUser: true\n'
ENV = {"PATH": "/venv/bin:/usr/local/bin:/usr/bin:/bin", "HOME": "/nonexistent", "LC_ALL": "C.UTF-8",
       "GIT_CONFIG_NOSYSTEM": "1", "GIT_CONFIG_GLOBAL": "/dev/null",
       "GIT_AUTHOR_NAME": "vf", "GIT_AUTHOR_EMAIL": "vf@example.invalid", "GIT_COMMITTER_NAME": "vf",
       "GIT_COMMITTER_EMAIL": "vf@example.invalid", "GIT_AUTHOR_DATE": "1577836800 +0000", "GIT_COMMITTER_DATE": "1577836800 +0000"}


def git(cwd, *args):
    p = subprocess.run(["git", "-c", "protocol.file.allow=always", "-c", "init.defaultBranch=master"] + list(args), cwd=cwd, env=ENV,
                       stdout=subprocess.PIPE, stderr=subprocess.STDOUT, text=True)
    assert p.returncode == 0, (args, p.stdout)
    return p.stdout.strip()


def bob(proj, *args):
    env = dict(ENV, PYTHONPATH=os.path.join(REPO, "pym"))
    p = subprocess.run([sys.executable, os.path.join(REPO, "bob")] + list(args), cwd=proj, env=env,
                       stdout=subprocess.PIPE, stderr=subprocess.STDOUT, stdin=subprocess.DEVNULL, text=True)
    print("$ bob %s   -> exit %d\n%s" % (" ".join(args), p.returncode,
                                        "\n".join("    " + x for x in p.stdout.splitlines() if "rror" in x or "SWITCH" in x or "CHECKOUT" in x or "ATTIC" in x)))
    return p.returncode


def project(proj, url):
    os.makedirs(os.path.join(proj, "recipes"), exist_ok=True)
    with open(os.path.join(proj, "config.yaml"), "w") as f:
        f.write(CONFIG)
    with open(os.path.join(proj, "recipes", "pkg.yaml"), "w") as f:
        f.write('root: true\ncheckoutSCM:\n  scm: git\n  url: "%s"\n  branch: master\nbuildScript: "true"\npackageScript: "true"\n' % url)


def main():
    work = tempfile.mkdtemp(prefix="vf-repro-c12-")
    try:
        seed = os.path.join(work, "seed")
        os.makedirs(seed)
        git(seed, "init", "-q", ".")
        open(os.path.join(seed, "f.txt"), "w").write("f@c0\n")
        git(seed, "add", "-A")
        git(seed, "commit", "-q", "-m", "c0")
        c0 = git(seed, "rev-parse", "HEAD")
        open(os.path.join(seed, "f.txt"), "w").write("f@c1\n")
        git(seed, "commit", "-q", "-a", "-m", "c1")
        c1 = git(seed, "rev-parse", "HEAD")
        u1, u2 = os.path.join(work, "U1.git"), os.path.join(work, "U2.git")
        for u, c in ((u1, c0), (u2, c1)):
            git(work, "init", "-q", "--bare", u)
            git(seed, "push", "-q", u, c + ":refs/heads/master")
        proj = os.path.join(work, "proj")
        project(proj, u2)
        assert bob(proj, "dev", "pkg") == 0
        project(proj, u1)
        rc = bob(proj, "dev", "pkg")
        ws = os.path.join(proj, "dev/src/pkg/1/workspace")
        head = git(ws, "rev-parse", "HEAD") if os.path.isdir(os.path.join(ws, ".git")) else None
        content = open(os.path.join(ws, "f.txt")).read() if os.path.exists(os.path.join(ws, "f.txt")) else None
        print("recipe: %s master = %s (f.txt 'f@c0'); workspace HEAD = %s, f.txt = %r, exit %d" % (u1, c0[:8], (head or "-")[:8], content, rc))
        if rc == 0 and head != c0:
            print("DEFECT PRESENT: the untouched workspace is not what a fresh checkout of the recipe gives, yet the build succeeded")
            return 1
        print("not present")
        return 0
    finally:
        shutil.rmtree(work, ignore_errors=True)


if __name__ == "__main__":
    sys.exit(main())
