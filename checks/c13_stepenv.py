"""C13  Steps run in exactly the declared environment.

(A) TLC enumerates every configuration of specs/StepEnv.tla (one state = -E x sandbox mode x sandbox
    image x dependency order x checkoutDep x packageDepends x tool step x tools of a second provider
    package with identical / distinct relative path and libs entries), checks the internal
    consistency invariants of the documented rules (carry-forward, weak = strong, fingerprint subset,
    no host leak, -E shows all, whitelist monotone, argument shape, mount soundness, documented mode
    table = definitions = transcription of the code structure) and prints for each configuration the
    expected visible variable classes per step (with the winning definition), the argument order, the
    tools and the mount sets.  Reachability configs guard against vacuity.
(B) Every selected configuration becomes a REAL package of a generated project.  All variable classes
    of the catalogue (definition source x declaration x fingerprintVars x host collision, precedence
    pairs, host classes whitelist/whitelistRemove/-e/default) are packed into every package, with
    values instantiated per VERIF_SEED from a hostile alphabet.  `bob dev` runs for real (vf.bobrun,
    constructed host environment, real bash, real bob-namespace-sandbox).  The checkout / build /
    package scripts dump `env -0`, "$@", the BOB_*_PATHS arrays, the tool markers found through PATH /
    LD_LIBRARY_PATH and - inside a sandbox - every project workspace they can see, and they try to
    write into every foreign workspace and the project root; fingerprint scripts dump `env -0` into
    the whitelisted $VF_CTL directory.

Verdict (P layer; the oracle is the dump written by the script itself and the file system seen from the
host afterwards, nothing of Bob's bookkeeping).  Signatures:
    leak:<step>:<class>      a variable is visible that the spec hides; class = undeclared-recipe-variable |
                             declared-for-later-step | not-in-fingerprintVars | source-not-in-effect:<src> |
                             host-not-whitelisted | host-removed-by-whitelistRemove | unknown-origin
    missing:<step>:<class>   a variable the spec makes visible is not set (declared-strong, declared-weak,
                             host-whitelist, host-by-dash-e, host-default-whitelist, builtin:<NAME>)
    value:step|fingerprint:<character class>   a declared variable does not carry the computed value byte for byte
    value:executed-command-substitution        a value was executed by a shell
    args:<step>:count|order|wrong-workspace, tool:<step>:not-on-PATH:<t> | lib-dir-not-on-LD_LIBRARY_PATH:<same-relative-dir-as-tool-of-other-package|...> |
                             libs-on-LD_LIBRARY_PATH:order | *-entry-not-in-workspace-of-provider | undeclared-*
    builtin:<step>:BOB_DEP_PATHS | BOB_TOOL_PATHS | PATH-base | BOB_CWD-not-own-workspace
    sandbox:<mode>:<step>:sees-foreign-workspace:<class> | declared-input-not-visible:<pkg> |
                             foreign-write-reached-host:<class> | tmp-not-writable, sandbox:<mode>:tmp-not-private
    name:<class>:accepted-but-not-exported | accepted-but-step-fails   a variable name that is no identifier is
                             accepted by the recipe parser but does not arrive
    run-failed:<mode>:<what> Bob could not execute a step of a generated (valid) project
Exec-path shape (stable /bob/... paths) differing from the documented table is model_drift only.
Sandbox modes that cannot be used on this host (probe run fails) are skipped and counted, never reported.
"""
import glob
import hashlib
import json
import multiprocessing as mp
import os
import random
import re
import shutil
import subprocess
import sys
import time

from vf import common, tlc, evidence, bobrun, projgen

PROP = "C13"
SCALE = int(os.environ.get("VF_TIMEOUT_SCALE", "1") or 1)

STEP_OF_LABEL = {"src": "checkout", "build": "build", "dist": "package"}
DECL_KEY = {"checkout": "checkoutVars", "build": "buildVars", "package": "packageVars",
            "checkoutWeak": "checkoutVarsWeak", "buildWeak": "buildVarsWeak", "packageWeak": "packageVarsWeak"}
SHELL_NOISE = {"PWD", "OLDPWD", "SHLVL", "_"}          # set by bash itself / by `env`
BUILTINS_STEP = {"BOB_CWD", "PATH", "LD_LIBRARY_PATH"}    # configuration.rst 616-628
BUILTINS_FP = {"BOB_CWD", "PATH"}
HELPERS = ["penv", "pnoenv", "tl", "tm", "sbx", "da", "db", "dc"]
SANDBOX_PATHS = ["/usr/local/bin", "/usr/bin", "/bin", "/usr/sbin", "/sbin"]
# default whitelist names used for host classes with dflt = TRUE (PATH stays untouched)
DFLT_NAMES = {(True, False, False, False): "HOME", (True, False, True, False): "TERM",
              (True, False, True, True): "USER", (True, True, True, False): "SHELL"}


# ---------------------------------------------------------------------------------------------
# hostile values

ATOMS = {
    "squote": ["'", "''", "'\"'\"'", "it's", "'$X'"],
    "dquote": ['"', '""', 'say "hi"', '"$X"'],
    "dollar": ["$", "$$", "$HOME", "${HOME}", "$1", "$@", "${", "$((1+1))", "${X:-y}", "$PATH", "a$"],
    "cmdsubst": ["$(id)", "$(echo x)", "$(touch @CTL@/pwned)", "$(exit 3)"],
    "backtick": ["`", "`id`", "`touch @CTL@/pwned`", "a`b"],
    "backslash": ["\\", "\\\\", "\\n", "\\'", "\\\"", "\\$", "a\\", "\\x41", "\\\n"],
    "newline": ["\n", "a\nb", "\n\n", "x\n", "\nx", "line1\nline2\n"],
    "tab": ["\t", "a\tb", "\t\t"],
    "cr": ["\r", "a\r\nb", "x\r"],
    "ctrl": ["\x01", "\x1b[31m", "\x7f", "\x08", "\x0b\x0c", "\x1f", "\x07", "\x02\x03"],
    "space": [" ", "  lead", "trail  ", " both ", "   "],
    "glob": ["*", "?", "[a-z]*", "~", "~root", "{a,b}", "!!", "!$", "/*"],
    "shellmeta": [";", "&", "|", "&&", "||", ">", "<", "#", "# comment", "; exit 1", "| cat", "&& false",
                  "(", ")", "%s", "%n", "-n", "-e", "--", "=", "a=b"],
    "unicode": ["\u00e4", "\u00df", "\u20ac", "\u65e5\u672c\u8a9e", "\u03a9", "\u00a0", "\u2028", "\u2029",
                "\u0085", "\ufeff", "\u200b", "\u202e"],
    "combining": ["e\u0301", "a\u0308\u0323", "\u0301"],
    "astral": ["\U0001F600", "\U0001D518", "\U0001F469\u200D\U0001F4BB", "\U00010000", "\U0010FFFD"],
    "yamlish": [": ", "- x", "{a: b}", "[1]", "!tag", "&anchor", "*alias", "%", "@", "null", "true", "1e3", "0x10"],
    "empty": [""],
}
CLASS_ORDER = ["long", "newline", "cr", "tab", "ctrl", "squote", "dquote", "cmdsubst", "backtick", "dollar", "backslash",
               "astral", "combining", "unicode", "glob", "shellmeta", "space", "yamlish", "empty", "plain"]
LONG_LEN = 30000


def char_classes(v):
    """stable classification of a value (str) for signatures: the first class in CLASS_ORDER it contains"""
    cl = set()
    if len(v) > 4000:
        cl.add("long")
    if v == "":
        cl.add("empty")
    for ch in v:
        o = ord(ch)
        if ch == "\n":
            cl.add("newline")
        elif ch == "\r":
            cl.add("cr")
        elif ch == "\t":
            cl.add("tab")
        elif o < 0x20 or o == 0x7f:
            cl.add("ctrl")
        elif ch == "'":
            cl.add("squote")
        elif ch == '"':
            cl.add("dquote")
        elif ch == "`":
            cl.add("backtick")
        elif ch == "$":
            cl.add("dollar")
        elif ch == "\\":
            cl.add("backslash")
        elif o > 0xffff:
            cl.add("astral")
        elif 0x300 <= o < 0x370:
            cl.add("combining")
        elif o > 0x7e:
            cl.add("unicode")
        elif ch in "*?[]~{}!":
            cl.add("glob")
        elif ch in ";&|<>#()%=":
            cl.add("shellmeta")
    if "$(" in v:
        cl.add("cmdsubst")
    if v != v.strip(" ") or v.strip(" ") == "" and v:
        cl.add("space")
    for c in CLASS_ORDER:
        if c in cl:
            return c
    return "plain"


class Values:
    """deterministic hostile value per key"""

    def __init__(self, seed, ctl, dropped):
        self.seed = seed
        self.ctl = ctl
        self.classes = [c for c in ATOMS]
        self.dropped = dropped          # atoms that did not survive the in-process rendering check

    def get(self, *key, long=False):
        h = hashlib.sha256(repr((self.seed,) + key).encode()).digest()
        rng = random.Random(h)
        if long:
            # every special once in executable position, then a long tail of non-executing hostile characters
            head = "L'\"$\\ `echo x` $(echo y) ${HOME} \n\t"
            unit = "l'\"$ \\ \n\t\u00e4\U0001F600;*&|<>#"
            return head + (unit * (LONG_LEN // len(unit) + 1))[:LONG_LEN] + rng.choice(["", "'", "\n", "\\"])
        n = rng.choice([1, 1, 2, 2, 3])
        parts = []
        for _ in range(n):
            cls = rng.choice(self.classes)
            atoms = [a for a in ATOMS[cls] if (cls, a) not in self.dropped]
            parts.append(rng.choice(atoms) if atoms else "")
            if rng.random() < 0.35:
                parts.append(rng.choice(["x", "abc", "V1", "/p/a.b", "k=v", " "]))
        v = "".join(parts).replace("@CTL@", self.ctl)
        return v


def render_subst(v):
    """raw value -> text whose Bob string substitution yields the raw value (stringparser.py: a backslash
    protects the next character; quotes and $ are the only other active characters)"""
    return re.sub(r'([\\"\'$])', r'\\\1', v)


def yq(s):
    """YAML double-quoted scalar, pure ASCII"""
    out = ['"']
    for ch in s:
        o = ord(ch)
        if ch == '"':
            out.append('\\"')
        elif ch == "\\":
            out.append("\\\\")
        elif ch == "\n":
            out.append("\\n")
        elif ch == "\t":
            out.append("\\t")
        elif ch == "\r":
            out.append("\\r")
        elif 0x20 <= o < 0x7f:
            out.append(ch)
        elif o < 0x100:
            out.append("\\x%02x" % o)
        elif o < 0x10000:
            out.append("\\u%04x" % o)
        else:
            out.append("\\U%08x" % o)
    out.append('"')
    return "".join(out)


def ydump(obj, ind=0):
    """tiny YAML emitter (block mappings/sequences, double-quoted ASCII scalars)"""
    pad = "  " * ind
    if isinstance(obj, dict):
        if not obj:
            return pad + "{}\n"
        out = []
        for k, v in obj.items():
            if isinstance(v, (dict, list)) and v:
                out.append("%s%s:\n%s" % (pad, yq(k), ydump(v, ind + 1)))
            else:
                out.append("%s%s: %s" % (pad, yq(k), ydump(v, 0)))
        return "".join(out)
    if isinstance(obj, list):
        if not obj:
            return pad + "[]\n"
        out = []
        for v in obj:
            if isinstance(v, (dict, list)) and v:
                body = ydump(v, ind + 1)
                out.append("%s- %s" % (pad, body[len(pad) + 2:]))
            else:
                out.append("%s- %s" % (pad, ydump(v, 0)))
        return "".join(out)
    if isinstance(obj, bool):
        return "true\n" if obj else "false\n"
    if isinstance(obj, str):
        return yq(obj) + "\n"
    raise TypeError(obj)


def verify_rendering(dropped):
    """in-process: every atom must survive YAML (Bob's loader) and Bob's string substitution"""
    common.use_repo()
    from bob.stringparser import Env
    import bob.input as binput
    import yaml
    loader = binput.YamlSafeLoader
    env = Env({})
    for cls, atoms in ATOMS.items():
        for a in atoms:
            ok = True
            try:
                doc = yaml.load(ydump({"k": [{"v": render_subst(a)}]}), Loader=loader)
                got = doc["k"][0]["v"]
                ok = env.substitute(got, "x") == a
            except Exception:
                ok = False
            if not ok:
                dropped.add((cls, a))
    return dropped


# ---------------------------------------------------------------------------------------------
# the catalogue (from TLC) -> real variables

class Catalogue:
    def __init__(self, cat):
        self.kinds = {kid: rec for kid, rec in cat["kinds"]}
        self.srcname = {code: name for code, name in cat["srccodes"]}
        self.srcname["-"] = "-"
        self.tools = {t: {"pkg": pkg, "path": path, "libs": libs} for t, pkg, path, libs in cat["tools"]}
        self.profiles = {tuple(pr["key"]): pr for pr in cat["profiles"]}
        self.hostkinds = [tuple(h) for h in cat["hostkinds"]]
        self.name = {kid: "V" + kid.replace("-", "_") for kid in self.kinds}
        assert len(set(self.name.values())) == len(self.kinds)
        self.kid_of_name = {n: k for k, n in self.name.items()}
        # host classes that get a real variable
        self.hostname = {}
        for h in self.hostkinds:
            if h[0]:
                if h in DFLT_NAMES:
                    self.hostname[h] = DFLT_NAMES[h]
            else:
                self.hostname[h] = "H%d%d%d" % (h[1], h[2], h[3])
        self.hkind_of_name = {n: h for h, n in self.hostname.items()}

    def sources(self, kid):
        k = self.kinds[kid]
        return [k["lo"]] + ([k["hi"]] if k["hi"] != "-" else [])


LONG_KINDS = {"r-b-n", "D-P-n"}      # these carry the very long value


class Project:
    """one generated project = one global configuration (E, sandbox mode) x a chunk of package configurations"""

    def __init__(self, cat, seed, pid, E, sb, states, base):
        self.cat, self.seed, self.pid, self.E, self.sb, self.states = cat, seed, pid, E, sb, states
        self.root = os.path.join(base, "proj")
        self.ctl = os.path.join(base, "ctl")
        os.makedirs(self.root)
        os.makedirs(self.ctl)
        self.vals = Values(seed, self.ctl, DROPPED)
        self.tag = "%s-%d" % (hashlib.sha1(base.encode()).hexdigest()[:8], pid)
        self.pk = ["p%d" % i for i in range(len(states))]

    # -- values -----------------------------------------------------------------------------
    def val(self, kid, src, pkg):
        scope = pkg if src in ("recipe", "private", "meta") else "*"
        return self.vals.get("var", self.pid, scope, kid, src, long=(kid in LONG_KINDS and src in ("recipe", "define")))

    def hostval_kind(self, kid):
        return self.vals.get("hostcoll", self.pid, kid)

    def host_env(self):
        """the invoking environment: what run_bob constructs + our host variables"""
        e = common.clean_env({"PYTHONPATH": common.ROOT, "VERIF_REPO": common.REPO})
        e["VF_CTL"] = self.ctl
        mine = {"USER": "vfuser", "SHELL": "/bin/sh"}
        for h, n in self.cat.hostname.items():
            if n not in ("HOME", "TERM", "USER", "SHELL"):
                mine[n] = self.vals.get("host", self.pid, n)
        for kid, k in self.cat.kinds.items():
            if k["host"] != "no":
                mine[self.cat.name[kid]] = self.hostval_kind(kid)
        mine["HOST_ONLY"] = self.vals.get("host", self.pid, "HOST_ONLY")
        mine["VF-odd.name"] = "odd1"
        mine["VF odd"] = "odd2"
        mine["VF\u00f6dd"] = "odd3"
        mine["H_BIN"] = b"bin\xff\xfe\x80'$\"\\\n\xc3".decode("utf-8", "surrogateescape")
        e.update(mine)
        return e, mine

    def whitelist_cfg(self):
        wl, rm, dash_e = ["VF_CTL", "H_BIN"], [], []
        for h, n in self.cat.hostname.items():
            if h[1]:
                wl.append(n)
            if h[2]:
                rm.append(n)
            if h[3]:
                dash_e.append(n)
        for kid, k in self.cat.kinds.items():
            if k["host"] == "wl":
                wl.append(self.cat.name[kid])
        return wl, rm, dash_e

    # -- files ------------------------------------------------------------------------------
    def dump_class(self):
        victims = [os.path.join(self.root, "dev", lbl, p, "1", "workspace")
                   for p in ("da", "tl", "tm", "sbx", "penv", "p0") for lbl in ("src", "build", "dist")]
        victims = [self.root, os.path.join(self.root, "recipes")] + victims
        fn = r'''
vf_dump()
{
    local vf_pkg="$1" vf_step="$2" vf_iso="$3"
    shift 3
    local vf_a vf_k vf_p vf_d
    local VF_ROOT=%(root)s
    env -0 > vf-env.bin
    for vf_a in "$@" ; do
        printf '%%s\0' "$vf_a"
        if [[ -r "$vf_a/vf-id" ]] ; then cat "$vf_a/vf-id" ; fi
        printf '\0'
    done > vf-args.bin
    {
        for vf_k in "${!BOB_DEP_PATHS[@]}" ; do printf 'D\0%%s\0%%s\0' "$vf_k" "${BOB_DEP_PATHS[$vf_k]}" ; done
        for vf_k in "${!BOB_TOOL_PATHS[@]}" ; do printf 'T\0%%s\0%%s\0' "$vf_k" "${BOB_TOOL_PATHS[$vf_k]}" ; done
        for vf_k in "${!BOB_ALL_PATHS[@]}" ; do printf 'A\0%%s\0%%s\0' "$vf_k" "${BOB_ALL_PATHS[$vf_k]}" ; done
    } > vf-arrays.bin
    {
        local IFS=:
        set -f
        for vf_p in $PATH ; do
            if [[ -r "$vf_p/vf-tool" ]] ; then printf 'P\0%%s\0' "$vf_p" ; cat "$vf_p/vf-tool" ; printf '\0' ; fi
        done
        for vf_p in ${LD_LIBRARY_PATH-} ; do
            printf 'L\0%%s\0' "$vf_p"
            if [[ -r "$vf_p/vf-lib" ]] ; then cat "$vf_p/vf-lib" ; fi
            printf '\0'
        done
        set +f
        IFS=$' \t\n'
    } > vf-tools.bin
    if [[ $vf_iso = 1 ]] ; then
        { find "$VF_ROOT" /bob -name vf-id -print0 2>/dev/null || true ; } > vf-seen.tmp
        {
            while IFS= read -r -d '' vf_p ; do
                vf_d="${vf_p%%/vf-id}"
                printf 'S\0%%s\0' "$vf_d" ; cat "$vf_p" ; printf '\0'
                if [[ "$vf_d" != "$BOB_CWD" ]] ; then
                    if { true >> "$vf_d/vf-w-$vf_pkg-$vf_step" ; } 2>/dev/null ; then printf 'W\0%%s\0' "$vf_d" ; else printf 'F\0%%s\0' "$vf_d" ; fi
                fi
            done < vf-seen.tmp
            for vf_d in %(victims)s ; do
                if [[ "$vf_d" != "$BOB_CWD" ]] ; then
                    if { true >> "$vf_d/vf-w-$vf_pkg-$vf_step" ; } 2>/dev/null ; then printf 'W\0%%s\0' "$vf_d" ; else printf 'F\0%%s\0' "$vf_d" ; fi
                fi
            done
            if { true >> "/tmp/vf-t-%(tag)s-$vf_pkg-$vf_step" ; } 2>/dev/null ; then printf 'T\0ok\0' ; else printf 'T\0fail\0' ; fi
        } > vf-iso.bin
        rm -f vf-seen.tmp
    fi
    printf '%%s|%%s' "$vf_pkg" "$vf_step" > vf-id
}
''' % {"root": shq(self.root), "victims": " ".join(shq(v) for v in victims), "tag": self.tag}
        return {"checkoutSetup": fn, "buildSetup": fn, "packageSetup": fn}

    def files(self):
        cat = self.cat
        wl, rm, dash_e = self.whitelist_cfg()
        files = {"config.yaml": projgen.CONFIG}
        denv, self.defines = {}, {}
        penv, pnoenv, toolenv, sboxenv, sbxprov = {}, {}, {}, {}, {}
        for kid in cat.kinds:
            n = cat.name[kid]
            srcs = cat.sources(kid)
            for s in srcs:
                if s == "default":
                    denv[n] = render_subst(self.val(kid, s, "*"))
                elif s == "define":
                    self.defines[n] = self.val(kid, s, "*")
                elif s == "dep_use":
                    (sbxprov if "sbox" in srcs else penv)[n] = render_subst(self.val(kid, s, "*"))
                elif s == "dep_nouse":
                    pnoenv[n] = render_subst(self.val(kid, s, "*"))
                elif s == "tool":
                    toolenv[n] = render_subst(self.val(kid, s, "*"))
                elif s == "sbox":
                    sboxenv[n] = render_subst(self.val(kid, s, "*"))
        files["default.yaml"] = ydump({"environment": denv, "whitelist": wl, "whitelistRemove": rm})
        files["classes/vfdump.yaml"] = ydump(self.dump_class())

        def helper(name, extra, pkgscript=""):
            d = {"inherit": ["vfdump"],
                 "buildScript": 'vf_dump %s build 0 "$@"\n' % name,
                 "packageScript": pkgscript + 'vf_dump %s package 0 "$@"\n' % name}
            d.update(extra)
            files["recipes/%s.yaml" % name] = ydump(d)
        for d in ("da", "db", "dc"):
            helper(d, {})
        helper("penv", {"provideVars": penv})
        helper("pnoenv", {"provideVars": pnoenv})
        # tool providers: every tool has <path>/vf-tool = its name and <lib>/vf-lib = "<tool>:<lib>" for each lib
        # dir; t1 (package tl) and t3 (package tm) have textually identical relative path / libs entries
        for prov in sorted({d["pkg"] for d in cat.tools.values()}):
            mine = {t: d for t, d in cat.tools.items() if d["pkg"] == prov}
            ptools, script = {}, []
            for t, d in sorted(mine.items()):
                ptools[t] = {"path": d["path"]}
                if d["libs"]:
                    ptools[t]["libs"] = list(d["libs"])
                if t == "t1":
                    ptools[t]["environment"] = toolenv
                script.append("mkdir -p %s\nprintf %s > %s/vf-tool\n" % (d["path"], t, d["path"]))
                for l in d["libs"]:
                    script.append("mkdir -p %s\nprintf '%s:%s' > %s/vf-lib\n" % (l, t, l, l))
            helper(prov, {"provideTools": ptools}, pkgscript="".join(script))
        mounts = [[d, d, ["nofail"]] for d in ("/bin", "/etc", "/lib", "/lib32", "/lib64", "/sbin", "/usr")]       # not /var: the projects may live in /var/tmp
        mounts.append([self.ctl, self.ctl, ["rw"]])
        helper("sbx", {"provideVars": sbxprov,
                       "provideSandbox": {"paths": SANDBOX_PATHS, "mount": mounts, "environment": sboxenv}})

        for i, st in enumerate(self.states):
            c = st["cfg"]
            p = self.pk[i]
            iso = "1" if st["isolated"] else "0"
            deps = [{"name": "penv", "use": ["environment"]},
                    {"name": "sbx", "use": ["environment", "sandbox"] if c["img"] else ["environment"]},
                    {"name": "tl", "use": ["tools"]},
                    {"name": "tm", "use": ["tools"]}]
            for j, d in enumerate(c["deps"]):
                e = {"name": d, "use": ["result"]}
                if c["codep"] == j + 1:
                    e["checkoutDep"] = True
                deps.append(e)
                if j == 0:
                    deps.append({"name": "pnoenv", "use": ["tools"]})
            r = {"root": True, "inherit": ["vfdump"], "depends": deps, "packageDepends": bool(c["pkgdep"]),
                 "checkoutDeterministic": True}
            env, priv, meta = {}, {}, {}
            decl = {v: [] for v in DECL_KEY.values()}
            fpv = []
            for kid, k in cat.kinds.items():
                n = cat.name[kid]
                for s in cat.sources(kid):
                    if s == "recipe":
                        env[n] = render_subst(self.val(kid, s, p))
                    elif s == "private":
                        priv[n] = render_subst(self.val(kid, s, p))
                    elif s == "meta":
                        meta[n] = render_subst(self.val(kid, s, p))
                if k["decl"] != "none":
                    decl[DECL_KEY[k["decl"]]].append(n)
                if k["fp"]:
                    fpv.append(n)
            r["environment"], r["privateEnvironment"], r["metaEnvironment"] = env, priv, meta
            r.update(decl)
            r["fingerprintIf"] = True
            r["fingerprintVars"] = fpv
            r["fingerprintScript"] = 'env -0 > "$VF_CTL/fp.%s.$$.$RANDOM"\necho fp-%s\n' % (p, p)
            tooldecl = {}
            if c["toolstep"] != "none":
                tooldecl.setdefault(c["toolstep"] + "Tools", []).append("t1")
            which, _, xstep = c["xtool"].partition("@")
            for t in {"none": [], "same": ["t3"], "distinct": ["t4"], "both": ["t4", "t3"]}[which]:
                tooldecl.setdefault(xstep + "Tools", []).append(t)
            r.update(tooldecl)
            r["buildToolsWeak"] = ["t2"]
            for step in ("checkout", "build", "package"):
                r[step + "Script"] = 'vf_dump %s %s %s "$@"\n' % (p, step, iso)
            files["recipes/%s.yaml" % p] = ydump(r)
        return files

    def argv(self):
        _wl, _rm, dash_e = self.whitelist_cfg()
        a = ["dev", "-k"] + self.pk
        for n, v in self.defines.items():
            a.append("-D%s=%s" % (n, v))
        if self.E:
            a.append("-E")
        for n in dash_e:
            a += ["-e", n]
        a.append({"none": "--no-sandbox", "slim": "--slim-sandbox", "dev": "--dev-sandbox",
                  "strict": "--strict-sandbox", "image": "--sandbox"}[self.sb])
        return a


def shq(s):
    return "'" + s.replace("'", "'\"'\"'") + "'"


# ---------------------------------------------------------------------------------------------
# reading the dumps

def read_nul(path):
    with open(path, "rb") as f:
        data = f.read()
    parts = data.split(b"\0")
    if parts and parts[-1] == b"":
        parts.pop()
    return parts


def read_env(path):
    env = {}
    for item in read_nul(path):
        k, _, v = item.partition(b"=")
        env[k] = v
    return env


def b(s):
    return s.encode("utf-8", "surrogateescape")


class Findings:
    def __init__(self):
        self.viol = {}      # signature -> first detail
        self.drift = []
        self.evals = 0
        self.classes = set()

    def v(self, sig, **detail):
        self.viol.setdefault(sig, detail)


def check_project(P, out, rc, F):
    """compare all dumps of a finished project run with the spec's expectation"""
    cat = P.cat
    host_all, mine = P.host_env()
    wl, rm, dash_e = P.whitelist_cfg()
    # host-side maps
    ws_of_id = {}
    for f in glob.glob(os.path.join(P.root, "dev", "*", "*", "*", "workspace", "vf-id")):
        with open(f) as fh:
            ws_of_id[fh.read()] = os.path.dirname(f)
    # writes that reached the host
    for dirpath, dirs, fnames in os.walk(os.path.dirname(P.root)):
        for fn in fnames:
            if fn.startswith("vf-w-"):
                _, _, who = fn.partition("vf-w-")
                wpkg, _, wstep = who.rpartition("-")
                target = os.path.relpath(dirpath, P.root)
                m = re.match(r"dev/(src|build|dist)/([^/]+)/", target + "/")
                tclass = "project-root" if target == "." else ("ctl" if dirpath.startswith(P.ctl) else
                         ("workspace-of-%s" % ("own-package" if m and m.group(2) == wpkg else
                                               "dependency" if m and m.group(2) in HELPERS else "other-package") if m else "project-dir"))
                F.v("sandbox:%s:%s:foreign-write-reached-host:%s" % (P.sb, wstep, tclass), file=os.path.join(target, fn))
    for f in glob.glob("/tmp/vf-t-%s-*" % P.tag):
        F.v("sandbox:%s:tmp-not-private" % P.sb, file=f)
        os.unlink(f)
    if os.path.exists(os.path.join(P.ctl, "pwned")):
        F.v("value:executed-command-substitution", project=P.pid)

    def host_expect(step_is_fp, isolated):
        """name(bytes) -> value(bytes) of host variables the spec makes visible (besides var-kind collisions)"""
        exp = {}
        if P.E:
            for k, v in host_all.items():
                exp[b(k)] = b(v)
        else:
            vis = {tuple(h) for h in P.states[0]["hostvis"]}
            for h, n in cat.hostname.items():
                if h in vis and n in host_all:
                    exp[b(n)] = b(host_all[n])
            for n in ("VF_CTL", "H_BIN", "PATH"):
                exp[b(n)] = b(host_all[n])
        return exp

    STEPNO = {"checkout": 1, "build": 2, "package": 3, "fingerprint": 3}
    DECLNO = {"none": 0, "checkout": 1, "checkoutWeak": 1, "build": 2, "buildWeak": 2, "package": 3, "packageWeak": 3}

    def classify_name(name, step, missing):
        """coarse, stable class of a variable for signatures"""
        n = name.decode("utf-8", "replace")
        if n in cat.kid_of_name:
            k = cat.kinds[cat.kid_of_name[n]]
            if missing:
                return "declared-%s%s" % ("weak" if k["decl"].endswith("Weak") else "strong",
                                          "-shadowing-host-variable" if k["host"] != "no" else "")
            if k["decl"] == "none":
                return "undeclared-recipe-variable"
            if DECLNO[k["decl"]] > STEPNO[step]:
                return "declared-for-later-step"
            if step == "fingerprint" and not k["fp"]:
                return "not-in-fingerprintVars"
            if step == "fingerprint":
                return "fingerprintVar-not-declared-for-step"
            return "source-not-in-effect:" + k["lo"]
        if n in cat.hkind_of_name:
            h = cat.hkind_of_name[n]
            if missing:
                return "host-by-dash-e" if h[3] else "host-default-whitelist" if h[0] else "host-whitelist"
            return "host-removed-by-whitelistRemove" if h[2] else "host-not-whitelisted"
        if n in host_all:
            return "host-whitelist" if missing else "host-not-whitelisted"
        return "unknown-origin"

    def compare_env(where, step, obs, exp_recipe, exp_host, builtins, noise, pkg):
        """exp_recipe: name -> (value, src, kid); exp_host: name -> value"""
        F.evals += 1
        expected = dict(exp_host)
        for n, (v, src, kid) in exp_recipe.items():
            expected[n] = v
        for n in obs:
            if n in expected or n in builtins or n in noise:
                continue
            F.v("leak:%s:%s" % (step, classify_name(n, step, False)), where=where, name=n.decode("utf-8", "replace"),
                value=obs[n][:200].decode("utf-8", "replace"))
        for n, v in expected.items():
            if (n in builtins or n in noise) and n not in exp_recipe:
                continue       # PATH: value checked separately; HOME inside a sandbox: set by the helper
            if n not in obs:
                if P.E and not re.match(rb"^[A-Za-z_][A-Za-z0-9_]*$", n) and n not in exp_recipe:
                    continue
                F.v("missing:%s:%s" % (step, classify_name(n, step, True)), where=where, name=n.decode("utf-8", "replace"))
            elif obs[n] != v:
                if n in exp_recipe:
                    src, kid = exp_recipe[n][1], exp_recipe[n][2]
                    cls = char_classes(v.decode("utf-8", "surrogateescape"))
                    F.v("value:%s:%s" % ("fingerprint" if step == "fingerprint" else "step", cls), where=where, name=n.decode(),
                        kind=kid, source=src, step=step,
                        expected=v[:300].decode("utf-8", "replace"), observed=obs[n][:300].decode("utf-8", "replace"),
                        len_expected=len(v), len_observed=len(obs[n]))
                else:
                    F.v("value:%s:%s" % (step, classify_name(n, step, True)), where=where, name=n.decode("utf-8", "replace"),
                        expected=v[:300].decode("utf-8", "replace"), observed=obs[n][:300].decode("utf-8", "replace"))
            if n in exp_recipe:
                F.classes.add(char_classes(v.decode("utf-8", "surrogateescape")))
        for n in builtins:
            if n not in obs:
                F.v("missing:%s:builtin:%s" % (step, n.decode()), where=where)

    def recipe_expect(st, step, pkg):
        exp = {}
        for item in st[step]["recipe"]:
            kid, _, code = item.partition(":")
            src = cat.srcname[code]
            exp[b(cat.name[kid])] = (b(P.val(kid, src, pkg)), src, kid)
        return exp

    def host_coll_expect(st, step):
        return {b(cat.name[kid]): b(P.hostval_kind(kid)) for kid in st[step]["host"]}

    missing_dumps = []
    for i, st in enumerate(P.states):
        pkg = P.pk[i]
        c = st["cfg"]
        iso = st["isolated"]
        noise = {b(x) for x in SHELL_NOISE}
        if iso:
            noise.add(b"HOME")          # set by the sandbox helper from the sandbox' passwd (namespace-sandbox.c 609-639)
        for lbl, step in STEP_OF_LABEL.items():
            ws = os.path.join(P.root, "dev", lbl, pkg, "1", "workspace")
            where = "%s/%s sb=%s E=%s cfg=%s" % (pkg, step, P.sb, P.E, json.dumps(c, sort_keys=True))
            if not os.path.exists(os.path.join(ws, "vf-env.bin")):
                missing_dumps.append(where)
                continue
            obs = read_env(os.path.join(ws, "vf-env.bin"))
            exp_h = host_expect(False, iso)
            exp_h.update(host_coll_expect(st, step))
            compare_env(where, step, obs, recipe_expect(st, step, pkg), exp_h, {b(x) for x in BUILTINS_STEP}, noise, pkg)
            # BOB_CWD
            cwd = obs.get(b"BOB_CWD", b"").decode()
            stable = cwd.startswith("/bob/")
            if stable != st["stable"]:
                F.drift.append("exec path %s of %s but spec says stable=%s" % (cwd, where, st["stable"]))
            if not stable and os.path.realpath(cwd) != os.path.realpath(ws):
                F.v("builtin:%s:BOB_CWD-not-own-workspace" % step, where=where, cwd=cwd)
            # arguments
            args = read_nul(os.path.join(ws, "vf-args.bin"))
            got = [(args[j].decode(), args[j + 1].decode()) for j in range(0, len(args) - 1, 2)]
            want = ["%s|%s" % (pkg if a[0] == "self" else a[0], STEP_OF_LABEL[a[1]]) for a in st[step]["args"]]
            if [g[1] for g in got] != want:
                kind = ("count" if len(got) != len(want) else
                        "order" if sorted(g[1] for g in got) == sorted(want) else "wrong-workspace")
                F.v("args:%s:%s" % (step, kind), where=where, got=got, want=want)
            else:
                for (pth, ident) in got:
                    if not pth.startswith("/"):
                        F.v("args:%s:relative-path" % step, where=where, got=got)
                    elif not pth.startswith("/bob/") and ident in ws_of_id and os.path.realpath(pth) != os.path.realpath(ws_of_id[ident]):
                        F.v("args:%s:wrong-workspace" % step, where=where, got=got, host=ws_of_id[ident])
            arr = read_nul(os.path.join(ws, "vf-arrays.bin"))
            arrays = {"D": {}, "T": {}, "A": {}}
            for j in range(0, len(arr) - 2, 3):
                arrays[arr[j].decode()][arr[j + 1].decode()] = arr[j + 2].decode()
            wantdep = {g[1].split("|")[0]: g[0] for g in got}
            if arrays["D"] != wantdep and [g[1] for g in got] == want:
                F.v("builtin:%s:BOB_DEP_PATHS" % step, where=where, got=arrays["D"], want=wantdep)
            # tools
            tl = read_nul(os.path.join(ws, "vf-tools.bin"))
            onpath, libs = [], []
            for j in range(0, len(tl) - 2, 3):
                (onpath if tl[j] == b"P" else libs).append((tl[j + 1].decode(), tl[j + 2].decode()))
            wt = sorted(st[step]["tools"])
            if sorted(m for _, m in onpath) != wt:
                extra = sorted(set(m for _, m in onpath) - set(wt))
                miss = sorted(set(wt) - set(m for _, m in onpath))
                if miss:
                    F.v("tool:%s:not-on-PATH:%s" % (step, "+".join(miss)), where=where, onpath=onpath)
                if extra:
                    F.v("tool:%s:undeclared-on-PATH:%s" % (step, "+".join(extra)), where=where, onpath=onpath)
            if arrays["T"] != {m: p_ for p_, m in onpath} and sorted(m for _, m in onpath) == wt:
                F.v("builtin:%s:BOB_TOOL_PATHS" % step, where=where, got=arrays["T"], onpath=onpath)
            # every consumed tool: <workspace of its package>/<path> on PATH ...
            def in_ws(pth, prov, rel):
                if not pth.startswith("/") or not pth.endswith("/" + rel):
                    return False
                host = ws_of_id.get("%s|package" % prov)
                return pth.startswith("/bob/") or host is None or os.path.realpath(pth) == os.path.realpath(os.path.join(host, rel))
            for pth, m in onpath:
                if m in wt and not in_ws(pth, cat.tools[m]["pkg"], cat.tools[m]["path"]):
                    F.v("tool:%s:PATH-entry-not-in-workspace-of-provider" % step, where=where, onpath=onpath)
            # ... and EVERY lib dir of EVERY consumed tool on LD_LIBRARY_PATH, per tool in declared order
            for t in wt:
                wl_ = ["%s:%s" % (t, l) for l in cat.tools[t]["libs"]]
                gl = [m for _, m in libs if m.startswith(t + ":")]
                miss = [m for m in wl_ if m not in gl]
                if miss:
                    shared = any(o != t and cat.tools[o]["pkg"] != cat.tools[t]["pkg"] and
                                 set(cat.tools[o]["libs"]) & {m.split(":", 1)[1] for m in miss} for o in wt)
                    F.v("tool:%s:lib-dir-not-on-LD_LIBRARY_PATH:%s" % (
                        step, "same-relative-dir-as-tool-of-other-package" if shared else "no-other-tool-names-this-dir"),
                        where=where, tool=t, missing=miss, got=libs, want=st[step]["libpath"])
                elif gl != wl_:
                    F.v("tool:%s:libs-on-LD_LIBRARY_PATH:%s" % (step, "order" if sorted(gl) == sorted(wl_) else "duplicated"),
                        where=where, got=libs, want=wl_)
            for pth, m in libs:
                t = m.split(":")[0]
                if t not in wt:
                    F.v("tool:%s:undeclared-on-LD_LIBRARY_PATH" % step, where=where, got=libs)
                elif not in_ws(pth, cat.tools[t]["pkg"], m.split(":", 1)[1]):
                    F.v("tool:%s:LD_LIBRARY_PATH-entry-not-in-workspace-of-provider" % step, where=where, got=libs)
            if [m for _, m in libs] != ["%s:%s" % (e[0], e[2]) for e in st[step]["libpath"]] and \
                    sorted(m for _, m in libs) == sorted("%s:%s" % (e[0], e[2]) for e in st[step]["libpath"]):
                F.drift.append("LD_LIBRARY_PATH order between tools differs from sorted-by-tool-name in %s: %s" % (where, libs))
            # PATH base
            pathv = obs.get(b"PATH", b"").decode("utf-8", "replace")
            toolpaths = [p_ for p_, _ in onpath]
            rest = [x for x in pathv.split(":") if x not in toolpaths]
            if st["image"]:
                if not set(rest) <= set(SANDBOX_PATHS):
                    F.v("builtin:%s:PATH-base-in-image" % step, where=where, PATH=pathv)
            elif ":".join(rest) != host_all["PATH"] or pathv.split(":")[:len(toolpaths)] != toolpaths:
                F.v("builtin:%s:PATH-base" % step, where=where, PATH=pathv, host=host_all["PATH"])
            # sandbox view
            isof = os.path.join(ws, "vf-iso.bin")
            if iso:
                if not os.path.exists(isof):
                    missing_dumps.append(where + " (iso)")
                    continue
                rec = read_nul(isof)
                seen, tmp_ok = {}, None
                j = 0
                while j < len(rec):
                    t = rec[j]
                    if t == b"S":
                        seen[rec[j + 2].decode()] = rec[j + 1].decode()
                        j += 3
                    elif t in (b"W", b"F"):
                        j += 2
                    elif t == b"T":
                        tmp_ok = rec[j + 1] == b"ok"
                        j += 2
                    else:
                        raise RuntimeError("bad iso record in " + isof)
                own = "%s|%s" % (pkg, step)

                def wsid(a):
                    return "%s|%s" % (pkg if a[0] == "self" else a[0], STEP_OF_LABEL[a[1]])
                readable = {wsid(a) for a in st[step]["readable"]}
                required = {wsid(a) for a in st[step]["required"]}
                for ident in seen:
                    if ident == own or ident in readable:
                        continue
                    ipkg = ident.split("|")[0]
                    cls = ("own-package-later-step" if ipkg == pkg else "undeclared-dependency" if ipkg in HELPERS
                           else "other-package")
                    F.v("sandbox:%s:%s:sees-foreign-workspace:%s" % (P.sb, step, cls), where=where, seen=seen)
                for ident in required - set(seen):
                    F.v("sandbox:%s:%s:declared-input-not-visible:%s" % (P.sb, step, ident.split("|")[0] if not ident.startswith(pkg + "|") else "own"),
                        where=where, seen=seen)
                if tmp_ok is False:
                    F.v("sandbox:%s:%s:tmp-not-writable" % (P.sb, step), where=where)
        # fingerprints
        dumps = sorted(glob.glob(os.path.join(P.ctl, "fp.%s.*" % pkg)))
        exps = {}
        for s in ("fp_build", "fp_package"):
            exps[s] = recipe_expect(st, s, pkg)
        if not dumps:
            missing_dumps.append("%s/fingerprint" % pkg)
        matched = set()
        for d in dumps:
            obs = read_env(d)
            rn = {n for n in obs if n.decode("utf-8", "replace") in cat.kid_of_name and cat.kinds[cat.kid_of_name[n.decode()]]["host"] == "no"}
            best = min(exps, key=lambda s: len(rn ^ set(n for n in exps[s] if cat.kinds[exps[s][n][2]]["host"] == "no")))
            matched.add(best)
            where = "%s/%s sb=%s E=%s cfg=%s" % (pkg, best, P.sb, P.E, json.dumps(c, sort_keys=True))
            exp_h = host_expect(True, st["image"])
            exp_h.update(host_coll_expect(st, best))
            fnoise = set(noise)
            if st["image"]:
                fnoise.add(b"HOME")
            compare_env(where, "fingerprint", obs, exps[best], exp_h, {b(x) for x in BUILTINS_FP}, fnoise, pkg)
        if dumps and len({json.dumps(sorted(k.decode() for k in e)) for e in exps.values()}) > len(matched):
            F.drift.append("%s: only %s of the fingerprint variants were executed" % (pkg, sorted(matched)))
    return missing_dumps


def classify_failure(out):
    if re.search(r"Parse error|ParseError|Error while parsing|did not validate", out):
        return None          # the generated project is not valid: harness failure
    m = re.search(r"dev/(src|build|dist)/[^/]+/\d+/(checkout|build|package)\.sh returned with (\d+)", out)
    if m:
        return "%s-script-exit-%s" % (m.group(2), m.group(3))
    if "Fingerprint script returned" in out:
        return "fingerprint-script"
    if "does not support unprivileged containers" in out:
        return None
    return "other"


def scratch_base():
    """The slim sandbox replaces /tmp by a private empty directory, which would hide a project below /tmp
    regardless of the whiteout of the project directory: generate the projects elsewhere."""
    for d in (os.environ.get("VF_C13_SCRATCH"), os.environ.get("VERIF_TMP"), "/var/tmp"):
        if d and os.path.isdir(d) and os.access(d, os.W_OK) and not os.path.realpath(d).startswith("/tmp"):
            return d
    return None


def scratch_dir():
    import tempfile
    base = scratch_base()
    if base is None:
        return common.scratch("vf-c13-")
    d = tempfile.mkdtemp(prefix="vf-c13-", dir=base)
    common._scratch.append(d)       # removed at exit like common.scratch()
    return d


def run_project(task):
    cat_raw, seed, pid, E, sb, states, keep = task
    common.use_repo()
    cat = Catalogue(cat_raw)
    base = scratch_dir()
    F = Findings()
    try:
        P = Project(cat, seed, pid, E, sb, states, base)
        files = P.files()
        import yaml
        import bob.input as binput
        for rel, text in files.items():
            p = os.path.join(P.root, rel)
            os.makedirs(os.path.dirname(p), exist_ok=True)
            with open(p, "w") as f:
                f.write(text)
            yaml.load(text, Loader=binput.YamlSafeLoader)      # must be loadable by Bob's loader
        env, _mine = P.host_env()
        t0 = time.time()
        r = bobrun.run_bob(P.root, P.argv(), env=env, ctl=P.ctl, record=False, timeout=600 * SCALE)
        wall = time.time() - t0
        failed = None
        if r.rc != 0:
            failed = classify_failure(r.out)
            if failed is None:
                raise RuntimeError("generated project rejected / sandbox unusable (rc=%s):\n%s" % (r.rc, r.out[-3000:]))
            F.v("run-failed:%s:%s" % (sb, failed), project=pid, E=E, out=r.out[-3000:])
        missing = check_project(P, r.out, r.rc, F)
        if missing and r.rc == 0:
            raise RuntimeError("bob succeeded but dumps are missing: %s\n%s" % (missing[:5], r.out[-2000:]))
        sample = None
        if pid == 0:
            ws = os.path.join(P.root, "dev", "build", "p0", "1", "workspace")
            if os.path.exists(os.path.join(ws, "vf-env.bin")):
                e = read_env(os.path.join(ws, "vf-env.bin"))
                sample = {"cfg": states[0]["cfg"], "build_step_sees": sorted(k.decode("utf-8", "replace") for k in e)[:60],
                          "args": [x.decode() for x in read_nul(os.path.join(ws, "vf-args.bin"))]}
        return {"pid": pid, "viol": F.viol, "drift": F.drift, "evals": F.evals, "classes": sorted(F.classes),
                "states": len(states), "wall": wall, "sample": sample, "failed": failed}
    finally:
        if not keep:
            shutil.rmtree(base, ignore_errors=True)


# ---------------------------------------------------------------------------------------------
# variable names

EDGE_NAMES = ["__", "_1", "a", "Z9", "lower_case", "MiXeD_9_", "N" * 300]
NAME_PROBES = {"trailing-newline": "NLVAR\n"}      # not identifiers; accepted by the recipe schema?


def run_names(task):
    """Valid edge-case identifiers must arrive; a name that is no identifier must either be rejected when the
    recipes are parsed or arrive in the environment - never be accepted and silently lost."""
    seed, probe, keep = task
    common.use_repo()
    base = scratch_dir()
    F = Findings()
    try:
        root, ctl = os.path.join(base, "proj"), os.path.join(base, "ctl")
        os.makedirs(os.path.join(root, "recipes"))
        os.makedirs(ctl)
        vals = Values(seed, ctl, DROPPED)
        names = list(EDGE_NAMES) + ([NAME_PROBES[probe]] if probe else [])
        env = {n: vals.get("name", n) for n in names}
        files = {"config.yaml": projgen.CONFIG, "default.yaml": ydump({"whitelist": ["VF_CTL"]}),
                 "recipes/nm.yaml": ydump({"root": True, "environment": {n: render_subst(v) for n, v in env.items()},
                                           "buildVars": names[:len(names) // 2] + names[len(EDGE_NAMES):],
                                           "packageVarsWeak": names[len(names) // 2:len(EDGE_NAMES)],
                                           "buildScript": "env -0 > vf-env.bin\n",
                                           "packageScript": "env -0 > vf-env.bin\n"})}
        for rel, text in files.items():
            with open(os.path.join(root, rel), "w") as f:
                f.write(text)
        r = bobrun.run_bob(root, ["dev", "nm"], ctl=ctl, record=False, timeout=600 * SCALE)
        outcome = "ran"
        if r.rc != 0:
            if classify_failure(r.out) is None:
                if not probe:
                    raise RuntimeError("edge-case identifier project rejected:\n" + r.out[-2000:])
                outcome = "rejected"        # fine: the name is refused
            else:
                F.v("name:%s:accepted-but-step-fails" % (probe or "identifier"), out=r.out[-1500:])
                outcome = "failed"
        if outcome == "ran":
            for lbl, exp in (("build", names[:len(names) // 2] + names[len(EDGE_NAMES):]), ("dist", names)):
                obs = read_env(os.path.join(root, "dev", lbl, "nm", "1", "workspace", "vf-env.bin"))
                F.evals += 1
                for n in exp:
                    cls = probe if (probe and n == NAME_PROBES[probe]) else "identifier"
                    if b(n) not in obs:
                        F.v("name:%s:accepted-but-not-exported" % cls, step=lbl, name=n, out=r.out[-800:])
                    elif obs[b(n)] != b(env[n]):
                        F.v("name:%s:value" % cls, step=lbl, name=n)
        return {"viol": F.viol, "evals": F.evals, "outcome": outcome, "probe": probe}
    finally:
        if not keep:
            shutil.rmtree(base, ignore_errors=True)


# ---------------------------------------------------------------------------------------------
# sandbox availability

def helper_is_stale():
    """Bob compiles bin/bob-namespace-sandbox inside the repository when the sources are newer
    (pym/bob/develop/make.py).  That must never happen to /repo."""
    try:
        res = os.stat(os.path.join(common.REPO, "bin", "bob-namespace-sandbox")).st_mtime
    except OSError:
        return True
    src = os.path.join(common.REPO, "src", "namespace-sandbox")
    newest = max([os.stat(src).st_mtime] + [os.stat(os.path.join(src, f)).st_mtime for f in os.listdir(src)])
    return newest > res


def probe_sandbox(cat_raw, states, seed):
    """one real slim run and one real image run of one enumerated configuration each"""
    res = {"viol": {}}
    if helper_is_stale() and os.path.realpath(common.REPO) == "/repo":
        return {"slim": False, "image": False, "viol": {},
                "reason": "bin/bob-namespace-sandbox of /repo is missing or stale; Bob would compile into /repo"}
    for mode in ("slim", "image"):
        st = next(s for s in states if s["cfg"]["sb"] == mode and s["cfg"]["img"] and not s["cfg"]["E"]
                  and len(s["cfg"]["deps"]) == 2 and s["cfg"]["toolstep"] == "build" and s["cfg"]["codep"] == 1
                  and s["cfg"]["xtool"] == "same@build")
        try:
            r = run_project((cat_raw, seed, 9000 + len(res), False, mode, [st], False))
            res[mode] = True
            res["viol"].update(r["viol"])
        except Exception as e:  # unusable here: skip, never a violation
            res[mode] = False
            res.setdefault("reason", str(e)[-600:])
    return res


# ---------------------------------------------------------------------------------------------

def select_states(states, per_group, rng):
    """per (E, sb) group: greedy pairwise cover of the package-level dimensions, then random fill"""
    groups = {}
    for st in states:
        c = st["cfg"]
        groups.setdefault((c["E"], c["sb"]), []).append(st)
    out = {}
    for g, lst in sorted(groups.items()):
        if per_group is None or per_group >= len(lst):
            out[g] = lst
            continue
        def feats(st):
            c = st["cfg"]
            f = {"img": c["img"], "deps": tuple(c["deps"]), "codep": c["codep"], "pkgdep": c["pkgdep"], "tool": c["toolstep"],
                 "xtool": c["xtool"]}
            items = sorted(f.items())
            return {(a, b_) for i, a in enumerate(items) for b_ in items[i + 1:]} | {(a,) for a in items}
        pool = lst[:]
        rng.shuffle(pool)
        covered, chosen = set(), []
        while len(chosen) < per_group and pool:
            best = max(pool[:200], key=lambda s: len(feats(s) - covered))
            if not (feats(best) - covered) and len(chosen) >= per_group // 2:
                best = pool[0]
            chosen.append(best)
            covered |= feats(best)
            pool.remove(best)
        out[g] = chosen
    return out


def attach_profiles(cat_raw, states):
    """the visible variable classes are printed once per VisKey (spec invariant VisibleByProfile): attach them"""
    profiles = {tuple(pr["key"]): pr for pr in cat_raw["profiles"]}
    for st in states:
        pr = profiles[tuple(st["viskey"])]
        st["hostvis"] = pr["hostvis"]
        for step in ("checkout", "build", "package"):
            st[step]["recipe"], st[step]["host"] = pr[step]["recipe"], pr[step]["host"]
        for step in ("fp_build", "fp_package"):
            st[step] = pr[step]
    return profiles


DROPPED = set()


def main():
    a = common.args(PROP)
    rep = evidence.Report(PROP, a.tier, a.seed)
    quick = a.tier == "quick"
    rep.rule = ("TLC states = all configurations (-E x sandbox mode x image x dependency order x checkoutDep x packageDepends "
                "x tool step x second-provider tool layout); traces = configurations replayed as real packages; evaluations = script executions "
                "(checkout/build/package/fingerprint) whose dumped environment was compared; non-trivial = distinct "
                "configurations replayed x value character classes that occurred in compared variables")
    rep.assumptions = ["`env -0`, printf and touch of the host (and of the mounted host /usr inside the image) report faithfully",
                       "variable names are identifiers (the recipe schema rejects others); values are NUL-free valid Unicode, "
                       "host values arbitrary NUL-free bytes",
                       "values are sampled from a hostile alphabet per seed, not exhausted",
                       "HOME inside a sandbox is set by bob-namespace-sandbox from the sandbox' passwd and treated as sandbox noise; "
                       "PWD, OLDPWD, SHLVL, _ are bash's own"]
    # (A) design check
    res = tlc.run("StepEnv", "StepEnv.cfg" if quick else "StepEnv_thorough.cfg", coverage=True, timeout=1800)
    rep.add_tlc(res, "StepEnv configurations")
    if res.violated:
        rep.violation("model:" + res.violated, {"cex": res.cex})
        return rep.finish()
    tlc.require_coverage(res, ["ChooseNone", "ChooseSlim", "ChooseDev", "ChooseStrict", "ChooseImage"], "StepEnv.cfg")
    for inv in ("ReachCheckoutDepSecond", "ReachStableImage", "ReachSandboxEnvVisible", "ReachHostShadowed",
                "ReachWeakFingerprint", "ReachSameRelLibs", "ReachPrecedence"):
        r2 = tlc.run("StepEnv", "StepEnv_reach_%s.cfg" % inv, timeout=600)
        if r2.violated != inv:
            raise tlc.TlcError("vacuity: %s not reachable" % inv)
    cat_raw = None
    states = []
    for p in res.printed:
        if "catalogue" in p:
            cat_raw = p["catalogue"]
        else:
            states.append(p)
    if cat_raw is None or len(states) != res.distinct - 1:
        raise tlc.TlcError("expected one printed configuration per state: %d printed, %d states" % (len(states), res.distinct))
    profiles = attach_profiles(cat_raw, states)
    rep.extra["configurations_enumerated"] = len(states)
    rep.extra["visibility_profiles"] = len(profiles)
    rep.extra["variable_classes"] = len(cat_raw["kinds"])
    rep.extra["host_classes"] = len(cat_raw["hostkinds"])

    # (B) replay
    verify_rendering(DROPPED)
    rep.extra["atoms_dropped_by_rendering_check"] = sorted("%s:%r" % x for x in DROPPED)
    rng = random.Random(a.seed)
    cap = os.environ.get("VF_C13_PER_GROUP")
    # thorough: 784 of the 3920 configurations of every (E, mode) group (pairwise cover + seeded choice)
    per_group = int(cap) if cap else (24 if quick else 784)
    chunk = int(os.environ.get("VF_C13_CHUNK", "8" if quick else "28"))
    sel = select_states(states, per_group, rng)
    probe = probe_sandbox(cat_raw, states, a.seed)
    rep.extra["sandbox_probe"] = {k: v for k, v in probe.items() if k != "viol"}
    reported = set()
    for sig, detail in sorted(probe["viol"].items()):
        reported.add(sig)
        rep.violation(sig, detail)
    rep.extra["projects_outside_tmp"] = scratch_base() is not None
    if scratch_base() is None:
        rep.assumptions.append("no scratch location outside /tmp: the private /tmp of the sandbox hides the project anyway, "
                               "the whiteout of the project directory is not observable in this run")
    usable = {"none": True, "slim": probe["slim"], "image": probe["image"],
              "dev": probe["slim"] and probe["image"], "strict": probe["slim"] and probe["image"]}
    tasks, skipped = [], 0
    pid = 0
    for (E, sb), lst in sorted(sel.items()):
        if not usable[sb]:
            skipped += len(lst)
            continue
        for i in range(0, len(lst), chunk):
            tasks.append((cat_raw, a.seed, pid, E, sb, lst[i:i + chunk], a.keep))
            pid += 1
    rep.extra["sandbox_modes_exercised"] = sorted(m for m in usable if usable[m] and m != "none")
    rep.extra["sandbox_modes_skipped"] = sorted(m for m in usable if not usable[m])
    rep.extra["configurations_skipped_sandbox_unavailable"] = skipped
    rep.extra["projects"] = len(tasks)
    classes = set()
    walls = []
    import bob.input  # noqa: F401  (import before fork)
    with mp.get_context("fork").Pool(min(common.workers(), max(1, len(tasks)))) as pool:
        name_jobs = pool.map_async(run_names, [(a.seed, None, a.keep)] + [(a.seed, pr, a.keep) for pr in sorted(NAME_PROBES)])
        for r in pool.imap_unordered(run_project, tasks):
            rep.traces += r["states"]
            rep.evaluations += r["evals"]
            walls.append(r["wall"])
            classes.update(r["classes"])
            t = tasks[r["pid"]]
            for st in t[5]:
                rep.nontriv(json.dumps(st["cfg"], sort_keys=True))
            for d in r["drift"]:
                rep.model_drift(d)
            for sig, detail in sorted(r["viol"].items()):
                if sig not in reported:          # one report per signature and run
                    reported.add(sig)
                    rep.violation(sig, detail)
            if r["sample"]:
                rep.sample(r["sample"])
        rep.extra["name_probes"] = {}
        for r in name_jobs.get():
            rep.evaluations += r["evals"]
            rep.extra["name_probes"][r["probe"] or "identifiers"] = r["outcome"]
            rep.nontriv("names:%s" % (r["probe"] or "identifiers"))
            for sig, detail in sorted(r["viol"].items()):
                rep.violation(sig, detail)
    for c in classes:
        rep.nontriv("charclass:" + c)
    rep.extra["value_character_classes_compared"] = sorted(classes)
    rep.extra["bob_run_wall_s"] = {"n": len(walls), "max": round(max(walls), 1) if walls else 0,
                                   "sum": round(sum(walls), 1)}
    if rep.drift:
        rep.level = "exploration"
    return rep.finish()


if __name__ == "__main__":
    evidence.main_wrapper(main)
