"""C14  Audit trails are complete and truthful.

(A) TLC checks specs/AuditTrail.tla exhaustively (Weak = {}): four packages (root, library, tool
    provider, sandbox image), two workspaces, one binary archive, one shared-package store; edits,
    invocations with/without --upload, --download no|deps|yes, --sandbox.  Invariants: every result
    carries a trail, closure of references, completeness w.r.t. what was used at execution time
    (ghosts), truthfulness of result-hash / ids / meta, artifact-id = digest of the record content.
    Coverage of every action + negated reachability configs (vacuity).  Every weakened mechanism
    (addTool omitted, references not merged transitively, audit not regenerated, download keeps a
    stale audit, hash taken before the script ran, id ignores part of the record) must yield
    counterexamples; they are replayed against the real code as targeted tests.
(B) Replay on REAL projects with real `bob dev` / `bob build` runs:
      * BobBuild behaviours (C01-style edit/invocation histories, develop and release mode),
      * AuditTrail behaviours (tool + sandbox + shared package, upload in one workspace and
        download / partial download / shared use in a second one; -simulate runs and the
        counterexamples of the weakened models),
      * a git checkout family (local bare repository; upstream commits, dirty work tree).
    After EVERY invocation every audit.json.gz next to a step workspace of the project (and every
    artifact in the archive) is loaded and checked on the real files, see Auditor.
Verdict (P): a malformed / unclosed / incomplete / untruthful trail or an artifact-id that is not the
digest of its record on a real execution is a VIOLATION.  Disagreement between the decisions of the
mechanism model (which steps run / are skipped / downloaded) and the real run is model_drift.
"""
import gzip
import hashlib
import io
import json
import multiprocessing as mp
import os
import random
import re
import shutil
import struct
import subprocess
import sys
import tarfile

PROP = "C14"
HEX40 = re.compile(r"^[0-9a-f]{40}$")
MARK = "@@LIVE@@"


# =============================================================================================
# live ids of the project (runs in a subprocess of its own; nothing of the harness is imported)
# =============================================================================================

def _load_audit_plain(path):
    with gzip.open(path, "rb") as f:
        return json.load(io.TextIOWrapper(f, encoding="utf8"))


def live_ids_main(argv):
    """python -m checks.c14_audit --live-ids dev|build yes|no ROOT [K=V ...]   (cwd = project)

    Parses the project with Bob's Python API exactly like `bob dev/build` does and prints, for every
    valid step reachable from ROOT: package path, recipe, label, variant-id, workspace path, the
    workspaces of its arguments / tools / sandbox, meta environment, SCM audit specs, and the
    Build-Id recomputed by the real getDigestCoro routine fed with the build-ids of the records
    that the step's own audit trail names as dependencies."""
    import asyncio
    import locale
    mode, sandbox, root = argv[0], argv[1], argv[2]
    defines = dict(a.split("=", 1) for a in argv[3:])
    repo = os.environ.get("VERIF_REPO", "/repo")
    sys.path.insert(0, os.path.join(repo, "pym"))
    from bob.input import RecipeSet
    from bob.builder import LocalBuilder
    from bob.cmds.build.state import DevelopDirOracle
    from bob.cmds.build.build import ExecutableStep, LazyIR
    from bob.utils import SandboxMode, getPlatformTag
    from bob.state import BobState
    from bob.tty import setVerbosity
    setVerbosity(-2)
    develop = mode == "dev"
    recipes = RecipeSet()
    recipes.defineHook('releaseNameFormatter', LocalBuilder.releaseNameFormatter)
    recipes.defineHook('developNameFormatter', LocalBuilder.developNameFormatter)
    recipes.defineHook('developNamePersister', None)
    recipes.parse(defines)
    if develop:
        fmt = recipes.getHook('developNameFormatter')
        oracle = DevelopDirOracle(fmt, recipes.getHook('developNamePersister'))
        fmt = oracle.getFormatter()
    else:
        fmt = LocalBuilder.releaseNamePersister(recipes.getHook('releaseNameFormatter'))
    fmt = LocalBuilder.makeRunnable(fmt)
    sm = SandboxMode(sandbox)
    packages = recipes.generatePackages(fmt, sm.sandboxEnabled, sm.stablePaths)
    if develop:
        oracle.prime(packages)

    def audit_of(ws):
        return os.path.join(os.path.dirname(ws), "audit.json.gz")

    def recompute_bid(st):
        """(hex | None, reason)"""
        if st.isCheckoutStep():
            return None, "checkout"
        ap = audit_of(st.getWorkspacePath())
        if not os.path.exists(ap):
            return None, "no-audit"
        try:
            tree = _load_audit_plain(ap)
            refs = {r["artifact-id"]: r for r in tree["references"]}
            deps = tree["artifact"]["dependencies"]
            feed = [refs[i]["build-id"] for i in deps.get("args", [])]
            feed += [refs[i]["build-id"] for _, i in sorted(deps.get("tools", {}).items())]
        except (KeyError, ValueError, TypeError, OSError) as e:
            return None, "unreadable:%s" % type(e).__name__
        ir = ExecutableStep.fromStep(st, LazyIR)
        if ir._isFingerprinted():
            return None, "fingerprinted"
        if ir.isPackageStep() and not ir.isRelocatable():
            fp = hashlib.sha1(os.path.abspath(ir.getExecPath()).encode(
                locale.getpreferredencoding(False), 'replace')).digest()
        else:
            fp = b''

        class Mismatch(Exception):
            pass

        async def calc(steps):
            if len(steps) != len(feed):
                raise Mismatch()
            return [bytes.fromhex(x) for x in feed]
        try:
            d = asyncio.run(ir.getDigestCoro(calc, fingerprint=fp, platform=getPlatformTag(), relaxTools=True))
        except Mismatch:
            return None, "dependency-count-differs"
        return d.hex(), "ok"

    out, seen = [], set()

    def visit(pkg):
        key = "/".join(pkg.getStack())
        if key in seen:
            return
        seen.add(key)
        for st in (pkg.getCheckoutStep(), pkg.getBuildStep(), pkg.getPackageStep()):
            if not st.isValid():
                continue
            ws = st.getWorkspacePath()
            sb = st.getSandbox()
            e = {"pkg": key, "recipe": pkg.getRecipe().getName(), "label": st.getLabel(),
                 "vid": st.getVariantId().hex(), "ws": ws,
                 "args": [a.getWorkspacePath() for a in st.getArguments() if a.isValid()],
                 "tools": {n: t.getStep().getWorkspacePath() for n, t in st.getTools().items()},
                 "sandbox": sb.getStep().getWorkspacePath() if sb is not None else None,
                 "metaEnv": dict(pkg.getMetaEnv()), "scms": []}
            if st.isCheckoutStep():
                for scm in st.getScmList():
                    spec = scm.getAuditSpec()
                    if spec is not None:
                        e["scms"].append({"type": spec[0], "dir": spec[1], "url": spec[2].get("url")})
            e["bid"], e["bid_why"] = recompute_bid(st)
            out.append(e)
            for d in st.getAllDepSteps():
                if d.isValid():
                    visit(d.getPackage())
    for p in packages.queryPackagePath(root):
        visit(p)
    BobState().finalize()
    print(MARK + json.dumps(out))
    return 0


if __name__ == "__main__" and len(sys.argv) > 1 and sys.argv[1] == "--live-ids":
    sys.exit(live_ids_main(sys.argv[2:]))

from vf import common, tlc, evidence, bobrun, projgen   # noqa: E402


def live_ids(cwd, mode, sandbox, root="app", defines=()):
    e = common.clean_env({"PYTHONPATH": common.ROOT, "VERIF_REPO": common.REPO})
    cmd = [common.PY, "-m", "checks.c14_audit", "--live-ids", mode, "yes" if sandbox else "no", root] + list(defines)
    p = subprocess.run(cmd, cwd=cwd, env=e, stdout=subprocess.PIPE, stderr=subprocess.STDOUT, text=True,
                       timeout=3000, stdin=subprocess.DEVNULL)
    for line in p.stdout.splitlines():
        if line.startswith(MARK):
            return json.loads(line[len(MARK):])
    raise RuntimeError("live-id helper failed (rc=%s) in %s:\n%s" % (p.returncode, cwd, p.stdout[-3000:]))


# =============================================================================================
# independent oracles on audit files
# =============================================================================================

def load_audit(path):
    with gzip.open(path, "rb") as f:
        return json.load(io.TextIOWrapper(f, encoding="utf8"))


def _is_hex(x):
    return isinstance(x, str) and bool(HEX40.match(x))


def _str_map(x):
    return isinstance(x, dict) and all(isinstance(k, str) and isinstance(v, str) for k, v in x.items())


def doc_record_errors(r, where):
    """The record structure as the MANUAL describes it (doc/manual/audit-trail.rst); unknown keys
    are allowed ("should ignore unknown fields")."""
    err = []
    if not isinstance(r, dict):
        return [where + ": record is not an object"]
    for k in ("artifact-id", "variant-id", "build-id", "result-hash"):
        if not _is_hex(r.get(k)):
            err.append("%s: %s is not a hexadecimal sha1" % (where, k))
    if not isinstance(r.get("env"), str):
        err.append(where + ": env is not a string")
    if "metaEnv" in r and not _str_map(r["metaEnv"]):
        err.append(where + ": metaEnv is not a string map")
    if "files" in r and not _str_map(r["files"]):
        err.append(where + ": files is not a string map")
    m = r.get("meta")
    if not _str_map(m):
        err.append(where + ": meta is not a string map")
    else:
        for k in ("bob", "package", "recipe", "step"):
            if k not in m:
                err.append("%s: meta.%s missing" % (where, k))
        if m.get("step") not in ("src", "build", "dist"):
            err.append(where + ": meta.step is not src/build/dist")
        if m.get("language", "bash") not in ("bash", "PowerShell"):
            err.append(where + ": meta.language unknown")
    b = r.get("build")
    if not isinstance(b, dict):
        err.append(where + ": build is not an object")
    else:
        for k in ("date", "machine", "nodename", "release", "sysname", "version"):
            if not isinstance(b.get(k), str):
                err.append("%s: build.%s missing" % (where, k))
        if "os-release" in b and not isinstance(b["os-release"], str):
            err.append(where + ": build.os-release is not a string")
        if isinstance(b.get("date"), str):
            import datetime
            try:
                d = datetime.datetime.fromisoformat(b["date"])
                if d.utcoffset() is None or d.utcoffset().total_seconds() != 0:
                    err.append(where + ": build.date is not UTC")
            except ValueError:
                err.append(where + ": build.date is not ISO 8601")
    d = r.get("dependencies")
    if not isinstance(d, dict):
        err.append(where + ": dependencies is not an object")
    else:
        if "args" in d and not (isinstance(d["args"], list) and all(_is_hex(x) for x in d["args"])):
            err.append(where + ": dependencies.args is not a list of ids")
        if "tools" in d and not (isinstance(d["tools"], dict) and all(isinstance(k, str) and _is_hex(v) for k, v in d["tools"].items())):
            err.append(where + ": dependencies.tools is not a map name -> id")
        if "sandbox" in d and not _is_hex(d["sandbox"]):
            err.append(where + ": dependencies.sandbox is not an id")
        for k in d:
            if k not in ("args", "tools", "sandbox"):
                err.append("%s: dependencies has undocumented kind %r" % (where, k))
    s = r.get("scms")
    if not isinstance(s, list):
        err.append(where + ": scms is not a list")
    else:
        for i, x in enumerate(s):
            w2 = "%s: scms[%d]" % (where, i)
            if not (isinstance(x, dict) and isinstance(x.get("type"), str) and isinstance(x.get("dir"), str)):
                err.append(w2 + " lacks type/dir")
                continue
            t = x["type"]
            if t == "git":
                if not (isinstance(x.get("commit"), str) and re.match(r"^[0-9a-f]{40}$", x["commit"])):
                    err.append(w2 + " git commit")
                if not isinstance(x.get("dirty"), bool):
                    err.append(w2 + " git dirty")
                if not isinstance(x.get("description"), str):
                    err.append(w2 + " git description")
                if not _str_map(x.get("remotes")):
                    err.append(w2 + " git remotes")
            elif t in ("url", "import"):
                # (the import SCM is not listed in the manual; it is recorded like the url SCM)
                dg = x.get("digest")
                if not (isinstance(dg, dict) and dg.get("algorithm") == "sha1" and _is_hex(dg.get("value"))):
                    err.append(w2 + " digest")
                if "url" in x and not isinstance(x["url"], str):
                    err.append(w2 + " url")
            elif t == "svn":
                if not (isinstance(x.get("revision"), int) and isinstance(x.get("url"), str)):
                    err.append(w2 + " svn")
    return err


def doc_schema_errors(tree):
    if not isinstance(tree, dict) or "artifact" not in tree or not isinstance(tree.get("references"), list):
        return ["audit trail is not {artifact, references[]}"]
    err = doc_record_errors(tree["artifact"], "artifact")
    for i, r in enumerate(tree["references"]):
        err += doc_record_errors(r, "references[%d]" % i)
    return err


def _dg(d, h):
    """Own implementation of the record digest as audit.py describes WHAT is hashed: a typed,
    length-prefixed, key-sorted serialisation of the record without its artifact-id.
    (booleans are serialised as 64 bit integers: bool is an int for audit.py's dispatch order)"""
    if isinstance(d, str):
        h.update(struct.pack("<BI", 2, len(d)) + d.encode("utf8"))
    elif isinstance(d, dict):
        h.update(struct.pack("<BI", 1, len(d)))
        for k in sorted(d):
            _dg(k, h)
            _dg(d[k], h)
    elif isinstance(d, (list, tuple)):
        h.update(struct.pack("<BI", 3, len(d)))
        for x in d:
            _dg(x, h)
    elif isinstance(d, int):
        h.update(struct.pack("<Bq", 4, int(d)))
    elif isinstance(d, bytes):
        h.update(struct.pack("<BI", 6, len(d)) + d)
    elif d is None:
        h.update(b"\x07")
    else:
        raise TypeError("cannot digest %r" % type(d))


def record_digest(rec):
    h = hashlib.sha1()
    _dg({k: v for k, v in rec.items() if k != "artifact-id"}, h)
    return h.hexdigest()


def record_key(rec):
    return json.dumps({k: v for k, v in rec.items() if k != "artifact-id"}, sort_keys=True)


def dep_ids(rec):
    d = rec.get("dependencies", {})
    return list(d.get("args", [])) + [v for _, v in sorted(d.get("tools", {}).items())] + \
        ([d["sandbox"]] if "sandbox" in d else [])


def closure_missing(tree):
    """ids reachable from the artifact through `dependencies` that have no record in `references`"""
    refs = {}
    for r in tree["references"]:
        refs.setdefault(r.get("artifact-id"), r)
    todo, seen, missing = list(dep_ids(tree["artifact"])), set(), []
    while todo:
        i = todo.pop()
        if i in seen:
            continue
        seen.add(i)
        r = refs.get(i)
        if r is None:
            missing.append(i)
        else:
            todo += dep_ids(r)
    return missing


def real_hash(path):
    from bob.utils import hashDirectory
    return hashDirectory(os.path.realpath(path)).hex()


def bob_accepts(path, tree):
    """Audit.SCHEMA + Bob's own loader (the debug validation switched on); returns error text or None"""
    import bob
    from bob.audit import Audit
    import schema
    try:
        Audit.SCHEMA.validate(tree)
    except schema.SchemaError as e:
        return "Audit.SCHEMA: " + str(e).replace("\n", " ")[:300]
    old = bob.DEBUG.get('audit')
    bob.DEBUG['audit'] = True
    try:
        with gzip.open(path, "rb") as f:
            a = Audit.fromByteStream(f, path)
        if a.getId().hex() != tree["artifact"]["artifact-id"]:
            return "Audit.fromByteStream: id differs"
        a.getReferencedBuildIds()
    except Exception as e:   # ParseError, KeyError from a dangling reference, ...
        return "Audit loader: %s: %s" % (type(e).__name__, str(e)[:300])
    finally:
        bob.DEBUG['audit'] = old
    return None


# -M keys that collide with the meta keys Bob defines itself ("cannot be redefined", bob-dev(1)): passed by a
# share of the invocations; the trail must state the ACTUAL names / version regardless
RESERVED_META = {"recipe": "vf-custom", "package": "vf/elsewhere", "step": "dist", "bob": "0.0.vf", "language": "PowerShell"}


def meta_args(meta, collide):
    m = dict(meta)
    if collide:
        m.update(RESERVED_META)
    return [x for k, v in m.items() for x in ("-M", "%s=%s" % (k, v))]


class Auditor:
    """Checks every audit trail of one workspace tree after every invocation (real files).

    (a) documented record structure (own schema from the manual) + Audit.SCHEMA + Bob's loader
    (b) closure of references
    (c) completeness: a trail generated by this invocation names the trails next to ALL dependency
        workspaces (args in order, tools by name, sandbox) and holds their records and references;
        a trail that appeared without an execution equals the one stored in the archive / share
    (d) truthfulness: result-hash = hashDirectory(workspace) now, variant-id = live Step id,
        names, -M variables (meta keys defined by Bob itself keep the actual values even if -M names them),
        metaEnvironment, build-id (checkout: = result hash; else recomputed by
        getDigestCoro from the build-ids the trail itself names), SCM records = actual checkout
    (e) artifact-id = own digest of the record; equal ids <=> equal records over the whole run
    """

    def __init__(self, buckets=None):
        self.prev = {}          # (cwd, audit path) -> artifact-id seen after the previous invocation
        self.by_id = buckets if buckets is not None else {}   # artifact-id -> record key
        self.by_key = {}
        self.viol = []          # (signature, detail)
        self.notes = []         # model-drift like observations
        self.files = 0
        self.records = 0
        self.features = set()
        self.arch_seen = {}     # tgz path -> summary

    def v(self, sig, **detail):
        self.viol.append((sig, detail))

    # -- record level (a)(b)(e) ---------------------------------------------------------------
    def check_tree(self, tree, where, path=None):
        ok = True
        errs = doc_schema_errors(tree)
        if errs:
            self.v("schema:documented-structure", where=where, errors=errs[:8])
            return False
        if path is not None:
            e = bob_accepts(path, tree)
            if e:
                self.v("schema:bob-rejects", where=where, error=e)
                ok = False
        miss = closure_missing(tree)
        if miss:
            self.v("closure:reference-missing", where=where, missing=miss[:5],
                   step=tree["artifact"]["meta"].get("step"))
            ok = False
        ids = [r["artifact-id"] for r in tree["references"]]
        if len(set(ids)) != len(ids):
            self.v("closure:duplicate-reference", where=where)
            ok = False
        for r in [tree["artifact"]] + tree["references"]:
            self.records += 1
            want = record_digest(r)
            if want != r["artifact-id"]:
                self.v("artifact-id:not-digest-of-record", where=where, step=r["meta"].get("step"),
                       package=r["meta"].get("package"), recorded=r["artifact-id"], recomputed=want,
                       keys=sorted(r))
                ok = False
            k = record_key(r)
            if self.by_id.setdefault(r["artifact-id"], k) != k:
                self.v("artifact-id:equal-ids-different-records", where=where, id=r["artifact-id"])
                ok = False
            if self.by_key.setdefault(k, r["artifact-id"]) != r["artifact-id"]:
                self.v("artifact-id:equal-records-different-ids", where=where, id=r["artifact-id"])
                ok = False
        return ok

    # -- archive ------------------------------------------------------------------------------
    def scan_archive(self, adir, tmp):
        """every artifact: name = build-id of its trail, trail well-formed, result-hash = hash of content/"""
        new = {}
        if not adir or not os.path.isdir(adir):
            return new
        for d, _, fs in os.walk(adir):
            for n in sorted(fs):
                p = os.path.join(d, n)
                if not n.endswith("-1.tgz") or p in self.arch_seen:
                    continue
                rel = os.path.relpath(p, adir)
                bid = rel.replace(os.sep, "")[:-len("-1.tgz")]
                ex = os.path.join(tmp, "x")
                shutil.rmtree(ex, ignore_errors=True)
                os.makedirs(ex)
                try:
                    with tarfile.open(p, "r:*") as tar:
                        names = tar.getnames()
                        tar.extractall(ex, filter="tar") if hasattr(tarfile, "tar_filter") else tar.extractall(ex)
                except (tarfile.TarError, OSError, EOFError) as e:
                    self.v("archive:unreadable-artifact", error=str(e)[:200])
                    continue
                ap = os.path.join(ex, "meta", "audit.json.gz")
                if not os.path.exists(ap):
                    self.v("archive:artifact-without-audit", names=names[:5])
                    self.arch_seen[p] = None
                    continue
                tree = load_audit(ap)
                self.files += 1
                if self.check_tree(tree, "archive artifact", ap):
                    a = tree["artifact"]
                    if a["build-id"] != bid:
                        self.v("archive:build-id-differs-from-artifact-name", name=bid, recorded=a["build-id"])
                    os.makedirs(os.path.join(ex, "content"), exist_ok=True)
                    h = real_hash(os.path.join(ex, "content"))
                    if h != a["result-hash"]:
                        self.v("archive:result-hash-differs-from-content", package=a["meta"].get("package"),
                               recorded=a["result-hash"], actual=h)
                    self.features.add("uploaded-artifact-checked")
                self.arch_seen[p] = new[bid] = tree
                shutil.rmtree(ex, ignore_errors=True)
        return new

    def archive_tree(self, bid):
        for p, t in self.arch_seen.items():
            if t is not None and t["artifact"]["build-id"] == bid:
                return t
        return None

    # -- one invocation -------------------------------------------------------------------------
    def after(self, cwd, res, live, meta, adir=None, sharedir=None, tmp=None, what="", collide=False):
        """res: bobrun.Result of the invocation; live: output of live_ids(); meta: (non-colliding) -M variables;
        collide: the invocation also passed RESERVED_META."""
        executed = {e["path"] for e in res.events if e["e"] == "runBegin"}
        touched = {e.get("path") for e in res.events if e.get("path")}
        msgtxt = "\n".join(e.get("message", "") for e in res.events if e["e"] == "msg")
        dl_ok = set(re.findall(r"DOWNLOAD\s+(\S+) \.\. ok", res.out))
        share_used = {e.get("message") for e in res.events if e["e"] == "msg" and e.get("action") == "SHARE"}
        new_art = self.scan_archive(adir, tmp) if adir else {}
        steps = {}
        for e in live:
            steps.setdefault(e["ws"], e)
            steps[e["ws"]].setdefault("pkgs", set()).add(e["pkg"])
        trees = {}
        for ws in steps:
            ap = os.path.join(cwd, os.path.dirname(ws), "audit.json.gz")
            if os.path.exists(ap):
                try:
                    trees[ws] = load_audit(ap)
                except (OSError, ValueError, EOFError) as ex:
                    self.v("schema:unreadable", step=steps[ws]["label"], error=str(ex)[:200])
        summary = {"executed": set(), "downloaded": set(), "shared": set(), "kept": set()}
        for ws, st in sorted(steps.items()):
            lab = st["label"]
            absws = os.path.join(cwd, ws)
            visited = ws in executed or ws in touched or (ws + ")") in msgtxt or (ws + " ") in msgtxt or msgtxt.endswith(ws)
            tree = trees.get(ws)
            ap = os.path.join(cwd, os.path.dirname(ws), "audit.json.gz")
            if tree is None:
                if visited and os.path.lexists(absws):
                    self.v("no-audit:visited-result-without-trail", step=lab, package=st["pkg"], what=what)
                continue
            self.files += 1
            pname = st["pkg"].split("/")[-1]
            if ws in executed:
                summary["executed"].add((lab, pname))
            if not self.check_tree(tree, "%s %s" % (st["pkg"], lab), ap):
                continue
            a = tree["artifact"]
            key = (cwd, ap)
            regenerated = self.prev.get(key) != a["artifact-id"]
            self.prev[key] = a["artifact-id"]
            refs = {r["artifact-id"]: r for r in tree["references"]}
            was_exec = ws in executed
            # ---- (c) completeness
            if was_exec:
                if not regenerated:
                    self.v("complete:executed-but-trail-not-regenerated", step=lab, package=st["pkg"], what=what)
                want_args, ok = [], True
                for d in st["args"]:
                    ok = ok and d in trees
                    want_args.append(trees[d]["artifact"]["artifact-id"] if d in trees else None)
                want_tools = {n: (trees[d]["artifact"]["artifact-id"] if d in trees else None) for n, d in st["tools"].items()}
                want_sb = None
                if st["sandbox"]:
                    want_sb = trees[st["sandbox"]]["artifact"]["artifact-id"] if st["sandbox"] in trees else "missing"
                deps = a["dependencies"]
                if deps.get("args", []) != want_args:
                    self.v("complete:arguments-differ-from-dependency-trails", step=lab, package=st["pkg"],
                           recorded=deps.get("args", []), expected=want_args, what=what)
                if deps.get("tools", {}) != want_tools:
                    self.v("complete:tools-differ-from-dependency-trails", step=lab, package=st["pkg"],
                           recorded=deps.get("tools", {}), expected=want_tools, what=what)
                if deps.get("sandbox") != want_sb:
                    self.v("complete:sandbox-differs-from-dependency-trail", step=lab, package=st["pkg"],
                           recorded=deps.get("sandbox"), expected=want_sb, what=what)
                for d in list(st["args"]) + list(st["tools"].values()) + ([st["sandbox"]] if st["sandbox"] else []):
                    if d not in trees:
                        continue
                    dt = trees[d]
                    for r in [dt["artifact"]] + dt["references"]:
                        if refs.get(r["artifact-id"]) != r:
                            self.v("complete:record-of-transitive-dependency-missing", step=lab, package=st["pkg"],
                                   missing_step=r["meta"].get("step"), missing_package=r["meta"].get("package"),
                                   via=steps[d]["label"] + " " + steps[d]["pkg"], what=what)
                            break
                if st["tools"]:
                    self.features.add("tool-trail-merged:" + lab)
                if st["sandbox"]:
                    self.features.add("sandbox-trail-merged:" + lab)
                if any(len(trees[d]["references"]) > 0 for d in st["args"] if d in trees):
                    self.features.add("transitive-merge")
                for k, val in meta.items():
                    if a["meta"].get(k) != val:
                        self.v("truthful:meta-variable", step=lab, key=k, recorded=a["meta"].get(k), expected=val, what=what)
                import bob
                actual = {"step": [lab], "recipe": [st["recipe"]], "package": sorted(st["pkgs"]),
                          "bob": [bob.BOB_VERSION], "language": ["bash"]}
                for k, vals in actual.items():
                    if k == "bob" and a["meta"].get(k) not in vals + [RESERVED_META[k], None]:
                        # (the version string is derived from the state of the checkout of Bob: may move during a run)
                        self.notes.append("meta.bob %r differs from %r" % (a["meta"].get(k), vals))
                        continue
                    if a["meta"].get(k) not in vals:
                        self.v("truthful:meta-reserved-key-overridden" if collide and a["meta"].get(k) == RESERVED_META[k]
                               else "truthful:meta-reserved-key", step=lab, key=k, recorded=a["meta"].get(k),
                               actual=vals, what=what)
                if collide:
                    self.features.add("colliding-meta-keys")
            elif ws in dl_ok:
                # extracted from an archive artifact: must be the trail stored in it, verbatim
                at = self.archive_tree(a["build-id"])
                summary["downloaded"].add((lab, pname))
                self.features.add("downloaded-trail")
                if at is None:
                    self.v("download:no-artifact-with-recorded-build-id", step=lab, package=st["pkg"], what=what)
                elif at != tree:
                    self.v("download:trail-differs-from-artifact", step=lab, package=st["pkg"],
                           local=a["artifact-id"], artifact=at["artifact"]["artifact-id"], what=what)
            elif ws in share_used:
                summary["shared"].add((lab, pname))
                self.features.add("shared-trail")
                if not os.path.islink(ap) or (sharedir and not os.path.realpath(ap).startswith(os.path.realpath(sharedir) + os.sep)):
                    self.v("share:trail-is-not-a-link-into-the-store", step=lab, what=what)
            elif regenerated:
                if os.path.islink(ap):
                    # link into the shared store whose package was replaced there (store wiped, re-installed)
                    self.features.add("shared-trail-replaced-in-store")
                elif lab == "src":
                    # checkout not executed (fixed package) but re-audited because its content changed: the
                    # content was still produced with the tools / in the sandbox of the recorded execution
                    self.features.add("reaudited-checkout")
                    deps = a["dependencies"]
                    want_tools = {n: trees[d]["artifact"]["artifact-id"] for n, d in st["tools"].items() if d in trees}
                    want_sb = trees[st["sandbox"]]["artifact"]["artifact-id"] if st["sandbox"] in trees else None
                    if deps.get("tools", {}) != want_tools or deps.get("sandbox") != want_sb:
                        self.v("complete:reaudited-checkout-drops-dependencies", package=st["pkg"],
                               recorded=deps, expected={"tools": want_tools, "sandbox": want_sb}, what=what)
                else:
                    self.notes.append("trail of %s %s changed without execution, download or share (%s)" % (st["pkg"], lab, what))
            else:
                summary["kept"].add((lab, pname))
                if visited:
                    self.features.add("kept-trail-of-skipped-step")
            if not visited:
                continue
            # ---- (d) truthfulness
            h = real_hash(absws) if os.path.isdir(os.path.realpath(absws)) else None
            if h != a["result-hash"]:
                self.v("truthful:result-hash", step=lab, package=st["pkg"], recorded=a["result-hash"], actual=h,
                       executed=was_exec, what=what)
            if a["variant-id"] != st["vid"]:
                self.v("truthful:variant-id", step=lab, package=st["pkg"], recorded=a["variant-id"], live=st["vid"], what=what)
            m = a["meta"]
            if m.get("step") != lab or m.get("recipe") != st["recipe"] or m.get("package") not in st["pkgs"]:
                self.v("truthful:names", step=lab, recorded={k: m.get(k) for k in ("step", "recipe", "package")},
                       live=[lab, st["recipe"], sorted(st["pkgs"])], what=what)
            if a.get("metaEnv", {}) != st["metaEnv"]:
                self.v("truthful:meta-environment", step=lab, package=st["pkg"], recorded=a.get("metaEnv"), live=st["metaEnv"])
            if st["metaEnv"]:
                self.features.add("metaEnvironment")
            if lab == "src":
                if a["build-id"] != a["result-hash"]:
                    self.v("truthful:checkout-build-id", package=st["pkg"], what=what)
                self._check_scms(absws, a, st, what)
            elif st["bid"] is not None:
                if st["bid"] != a["build-id"]:
                    self.v("truthful:build-id", step=lab, package=st["pkg"], recorded=a["build-id"], recomputed=st["bid"], what=what)
            elif st["bid_why"] == "dependency-count-differs":
                self.v("truthful:build-id-dependencies", step=lab, package=st["pkg"], what=what)
            else:
                self.notes.append("build-id of %s %s not recomputed: %s" % (st["pkg"], lab, st["bid_why"]))
        # ---- uploads of this invocation carry the trail next to the workspace
        for bid, at in new_art.items():
            for ws, tree in trees.items():
                if steps[ws]["label"] == "dist" and tree["artifact"]["build-id"] == bid and ws in executed:
                    if tree != at:
                        self.v("upload:artifact-trail-differs-from-workspace-trail", package=steps[ws]["pkg"], what=what)
                    else:
                        self.features.add("uploaded-trail-equals-local")
        summary["uploaded"] = set()
        for bid, at in new_art.items():
            summary["uploaded"].add(("dist", at["artifact"]["meta"].get("package", "").split("/")[-1]))
        return summary

    def _check_scms(self, absws, a, st, what):
        rec = {s["dir"]: s for s in a["scms"]}
        for spec in st["scms"]:
            s = rec.get(spec["dir"])
            if s is None or s["type"] != spec["type"]:
                self.v("truthful:scm-record-missing", package=st["pkg"], dir=spec["dir"], type=spec["type"], what=what)
                continue
            p = os.path.join(absws, spec["dir"])
            if spec["type"] == "import":
                h = real_hash(p)
                if s["digest"]["value"] != h:
                    self.v("truthful:import-digest", package=st["pkg"], recorded=s["digest"]["value"], actual=h, what=what)
                if s.get("url") != spec["url"]:
                    self.v("truthful:scm-url", package=st["pkg"], recorded=s.get("url"), live=spec["url"])
                self.features.add("import-scm-digest")
            elif spec["type"] == "git":
                env = common.clean_env()
                head = subprocess.run(["git", "rev-parse", "HEAD"], cwd=p, env=env, capture_output=True, text=True).stdout.strip()
                st_out = subprocess.run(["git", "status", "--porcelain", "--untracked-files=no"], cwd=p, env=env,
                                        capture_output=True, text=True).stdout.strip()
                if s.get("commit") != head:
                    self.v("truthful:git-commit", package=st["pkg"], recorded=s.get("commit"), actual=head, what=what)
                if bool(s.get("dirty")) != bool(st_out):
                    self.v("truthful:git-dirty-flag", package=st["pkg"], recorded=s.get("dirty"), actual=bool(st_out), what=what)
                rem = subprocess.run(["git", "remote", "get-url", "origin"], cwd=p, env=env, capture_output=True, text=True).stdout.strip()
                if s.get("remotes", {}).get("origin") != rem:
                    self.v("truthful:git-remote", package=st["pkg"], recorded=s.get("remotes"), actual=rem)
                self.features.add("git-scm-" + ("dirty" if st_out else "clean"))


# =============================================================================================
# family 1: BobBuild behaviours (C01-style edit/invocation histories), develop + release mode
# =============================================================================================

def run_invocation(cwd, argv, ctl=None):
    r = bobrun.run_bob(cwd, argv, ctl=ctl, timeout=3000)
    return r


def replay_bobbuild(hist, work, release, seed):
    ws = os.path.join(work, "ws")
    tmp = os.path.join(work, "tmp")
    os.makedirs(ws)
    os.makedirs(tmp)
    aud = Auditor()
    out = {"invocations": 0, "drift": [], "shape": []}
    rng = random.Random(seed)
    n = 0
    for a in hist:
        if a["a"] == "Edit":
            out["shape"].append("E:" + a["knob"])
            continue
        if a["a"] != "Begin":
            continue
        n += 1
        files, srcs = projgen.render_bobbuild(a["proj"])
        bobrun.write_files(ws, files)
        for sub, fs in srcs.items():
            bobrun.sync_tree(ws, sub, fs)
        meta = {"VFRUN": "run%d" % n, "vf.key-2": "x y=%d" % rng.randrange(100)}
        collide = rng.random() < 0.5
        argv = ["build" if release else "dev", "app"] + meta_args(meta, collide)
        r = run_invocation(ws, argv)
        out["invocations"] += 1
        out["shape"].append("OK")
        if r.rc != 0:
            raise RuntimeError("bob invocation failed in BobBuild replay (rc=%s):\n%s" % (r.rc, r.out[-2000:]))
        live = live_ids(ws, "build" if release else "dev", release)
        aud.after(ws, r, live, meta, tmp=tmp, what="bobbuild:" + ("release" if release else "dev"), collide=collide)
    return aud, out


# =============================================================================================
# family 2: AuditTrail behaviours: tool + sandbox + shared package, upload / download
# =============================================================================================

SBX_RECIPE = """buildScript: |
  mkdir -p usr/bin
  echo "sandbox image" > image.txt
packageScript: |
  cp -a "$1"/. .
provideSandbox:
  paths: ["/usr/bin", "/bin"]
  mount:
    - "/bin"
    - "/usr"
    - "/lib"
    - ["/lib64", "/lib64", [nofail]]
    - "/etc"
"""


def render_audittrail(proj, shared, archive, share):
    files = {"config.yaml": projgen.CONFIG}
    files["default.yaml"] = ("environment:\n  V: \"0\"\nwhitelist: [VF_CTL]\n"
                             "archive:\n  backend: file\n  path: \"%s\"\n  flags: [download, upload]\n"
                             "share:\n  path: \"%s\"\n" % (archive, share))
    files["recipes/sbx.yaml"] = ("shared: True\n" if "sbx" in shared else "") + SBX_RECIPE
    bt = proj["ver"]["bt"]
    tool_build = ("# build script of tool, version %s\necho \"build tool v%s\" > out.txt\nmkdir -p bin\n"
                  "printf '#!/bin/sh\\necho tool-v%s\\n' > bin/mytool\nchmod +x bin/mytool\n" % (bt, bt, bt))
    tool = ["relocatable: True"] + (["shared: True"] if "tool" in shared else []) + [
        "buildScript: " + projgen.yaml_block(tool_build),
        "packageScript: " + projgen.yaml_block(projgen.package_script("tool", 0)),
        "provideTools:", "  mytool: bin"]
    files["recipes/tool.yaml"] = "\n".join(tool) + "\n"
    lib = (["shared: True"] if "lib" in shared else []) + [
        "checkoutSCM:", "  scm: import", "  url: src/lib", "  prune: True",
        "buildTools: [mytool]",
        "metaEnvironment:", "  LICENSE: \"MIT\"", "  VF_ORIGIN: \"lib recipe\"",
        "buildScript: " + projgen.yaml_block(projgen.build_script("lib", proj["ver"]["bl"], [], 'echo "tool says: $(mytool)"')),
        "packageScript: " + projgen.yaml_block(projgen.package_script("lib", proj["ver"]["dl"]))]
    files["recipes/lib.yaml"] = "\n".join(lib) + "\n"
    app = ["root: true", "depends:",
           "  - name: sbx", "    use: [sandbox]", "    forward: True",
           "  - name: tool", "    use: [tools]", "    forward: True",
           "  - name: lib", "    use: [result]",
           "checkoutSCM:", "  scm: import", "  url: src/app", "  prune: True",
           "packageTools: [mytool]",
           "buildVars: [V]",
           "buildScript: " + projgen.yaml_block(projgen.build_script("app", proj["ver"]["ba"], ["V"])),
           "packageScript: " + projgen.yaml_block(projgen.package_script("app", 0) + "mytool > tool.txt\n")]
    files["recipes/app.yaml"] = "\n".join(app) + "\n"
    srcs = {"src/app": projgen.src_files("app", proj["src"]["app"]), "src/lib": projgen.src_files("lib", proj["src"]["lib"])}
    return files, srcs


def model_decisions(hist):
    """per invocation of the behaviour: what the mechanism model decided (only complete invocations)"""
    out, cur = [], None
    for a in hist:
        if a["a"] == "Begin":
            cur = {"begin": a, "executed": set(), "downloaded": set(), "shared": set(), "uploaded": set(), "complete": False}
            out.append(cur)
        elif a["a"] == "GcShare":
            out.append({"gc": True})
            cur = None
        elif cur is None:
            continue
        elif a["a"] == "Exec":
            cur["executed"].add(tuple(a["s"]))
        elif a["a"] == "Download":
            cur["downloaded"].add(tuple(a["s"]))
        elif a["a"] == "UseShared":
            cur["shared"].add(tuple(a["s"]))
        elif a["a"] == "Upload" and a.get("stored"):
            cur["uploaded"].add(tuple(a["s"]))
        elif a["a"] == "End":
            cur["complete"] = True
    return out


def replay_audittrail(hist, work, seed):
    wsd = {1: os.path.join(work, "w1"), 2: os.path.join(work, "w2")}
    archive, share, tmp = os.path.join(work, "archive"), os.path.join(work, "share"), os.path.join(work, "tmp")
    for d in list(wsd.values()) + [archive, share, tmp]:
        os.makedirs(d)
    aud = Auditor()
    out = {"invocations": 0, "drift": [], "shape": []}
    for n, inv in enumerate(model_decisions(hist)):
        if inv.get("gc"):
            # the shared store is wiped: links into it dangle until the next invocation
            shutil.rmtree(share)
            os.makedirs(share)
            out["shape"].append("gc")
            aud.features.add("share-wiped")
            continue
        b = inv["begin"]
        ws = wsd[b["w"]]
        files, srcs = render_audittrail(b["proj"], b.get("shared", []), archive, share)
        bobrun.write_files(ws, files)
        for sub, fs in srcs.items():
            bobrun.sync_tree(ws, sub, fs)
        meta = {"VFMETA": "m%d" % b["proj"]["meta"], "VFINV": "i%d" % n}
        argv = ["dev", "app", "--sandbox" if b["sbx"] else "--no-sandbox", "--download", b["dl"]]
        if b["up"]:
            argv.append("--upload")
        collide = (seed + n) % 2 == 0
        argv += meta_args(meta, collide)
        r = run_invocation(ws, argv)
        out["invocations"] += 1
        what = "w%d%s%s:dl=%s" % (b["w"], ":sandbox" if b["sbx"] else "", ":upload" if b["up"] else "", b["dl"])
        out["shape"].append(what)
        if r.rc != 0:
            raise RuntimeError("bob invocation failed in AuditTrail replay %s (rc=%s):\n%s" % (what, r.rc, r.out[-2500:]))
        live = live_ids(ws, "dev", b["sbx"])
        got = aud.after(ws, r, live, meta, adir=archive, sharedir=share, tmp=tmp, what=what, collide=collide)
        if inv["complete"]:
            for k in ("executed", "downloaded", "shared", "uploaded"):
                if got[k] != inv[k]:
                    out["drift"].append("invocation %d (%s): model %s %s, real run %s" % (
                        n + 1, what, k, sorted(inv[k] - got[k]), sorted(got[k] - inv[k])))
        for k in ("downloaded", "shared"):
            if got[k]:
                aud.features.add("invocation-with-" + k)
        if got["downloaded"] and got["executed"] - {("src", "app"), ("src", "lib")}:
            aud.features.add("partially-downloaded-build")
    return aud, out


# =============================================================================================
# family 3: git checkout (local bare repository)
# =============================================================================================

GIT_OPS = ["upstream-commit", "dirty", "clean", "rebuild"]


def _git(cwd, *args):
    p = subprocess.run(["git"] + list(args), cwd=cwd, env=common.clean_env(), capture_output=True, text=True)
    if p.returncode != 0:
        raise RuntimeError("git %s failed: %s" % (args, p.stderr[-500:]))
    return p.stdout.strip()


def replay_git(ops, work, seed):
    """ops[0] == "pinned": checkout pinned to a commit (deterministic, "fixed package"), built with a tool
    and inside a sandbox; otherwise a branch checkout without sandbox."""
    pinned = bool(ops) and ops[0] == "pinned"
    if pinned:
        ops = ops[1:]
    up, clone, ws, tmp = [os.path.join(work, x) for x in ("up.git", "clone", "ws", "tmp")]
    for d in (ws, tmp):
        os.makedirs(d)
    _git(work, "init", "-q", "--bare", "-b", "main", up)
    _git(work, "clone", "-q", up, clone)
    for fn in ("f.txt", "g.txt"):
        with open(os.path.join(clone, fn), "w") as f:
            f.write("v0\n")
    _git(clone, "add", "f.txt", "g.txt")
    _git(clone, "commit", "-q", "-m", "c0")
    _git(clone, "push", "-q", "origin", "HEAD:main")
    files = {"config.yaml": projgen.CONFIG, "default.yaml": "whitelist: [VF_CTL]\n"}
    app = ["root: true"]
    if pinned:
        proj0 = {"ver": {"bt": 0, "bl": 0, "dl": 0, "ba": 0}, "src": {"app": 0, "lib": 0}, "meta": 0}
        f2, _ = render_audittrail(proj0, [], os.path.join(work, "noarch"), os.path.join(work, "noshare"))
        files["recipes/sbx.yaml"], files["recipes/tool.yaml"] = f2["recipes/sbx.yaml"], f2["recipes/tool.yaml"]
        app += ["depends:", "  - name: sbx", "    use: [sandbox]", "    forward: True",
                "  - name: tool", "    use: [tools]", "    forward: True", "checkoutTools: [mytool]"]
    app += ["checkoutSCM:", "  scm: git", "  url: \"file://%s\"" % up,
            ("  commit: %s" % _git(clone, "rev-parse", "HEAD")) if pinned else "  branch: main", "  dir: code",
            "buildScript: " + projgen.yaml_block(projgen.build_script("app", 0, [])),
            "packageScript: " + projgen.yaml_block(projgen.package_script("app", 0))]
    files["recipes/app.yaml"] = "\n".join(app) + "\n"
    bobrun.write_files(ws, files)
    aud = Auditor()
    out = {"invocations": 0, "drift": [], "shape": []}
    n = 0
    for op in ["initial"] + list(ops):
        n += 1
        srcws = None
        if op == "upstream-commit":
            with open(os.path.join(clone, "f.txt"), "a") as f:
                f.write("more %d\n" % n)
            _git(clone, "commit", "-q", "-am", "c%d" % n)
            _git(clone, "push", "-q", "origin", "HEAD:main")
        elif op in ("dirty", "clean"):
            srcws = os.path.join(ws, "dev", "src", "app", "1", "workspace", "code")
            if op == "dirty":
                with open(os.path.join(srcws, "g.txt"), "a") as f:
                    f.write("local change %d\n" % n)
            else:
                _git(srcws, "checkout", "-q", "--", ".")
        meta = {"VFRUN": "g%d" % n}
        collide = (seed + n) % 2 == 0
        r = run_invocation(ws, ["dev", "app", "--sandbox" if pinned else "--no-sandbox"] + meta_args(meta, collide))
        out["invocations"] += 1
        out["shape"].append(op)
        if r.rc != 0:
            raise RuntimeError("bob invocation failed in git replay (rc=%s):\n%s" % (r.rc, r.out[-2000:]))
        live = live_ids(ws, "dev", pinned)
        aud.after(ws, r, live, meta, tmp=tmp, what=("git-pinned:" if pinned else "git:") + op, collide=collide)
    return aud, out


# =============================================================================================
# driver
# =============================================================================================

def replay_task(arg):
    i, kind, payload, origin, opt, seed = arg
    common.use_repo()
    work = common.scratch("vf-c14-")
    try:
        if kind == "bobbuild":
            aud, out = replay_bobbuild(payload, work, opt, seed * 7919 + i)
        elif kind == "audittrail":
            aud, out = replay_audittrail(payload, work, seed * 7919 + i)
        else:
            aud, out = replay_git(payload, work, seed * 7919 + i)
    finally:
        shutil.rmtree(work, ignore_errors=True)
    for sig, d in aud.viol:
        d["origin"] = origin
        d["family"] = kind
        d["behaviour"] = out["shape"]
        if kind != "git":
            d["hist"] = payload
        else:
            d["ops"] = payload
        if kind == "bobbuild":
            d["mode"] = "release" if opt else "dev"
    return {"i": i, "kind": kind, "origin": origin, "violations": aud.viol, "drift": out["drift"], "notes": aud.notes,
            "invocations": out["invocations"], "files": aud.files, "records": aud.records,
            "features": sorted(aud.features), "shape": " ".join(out["shape"]), "opt": opt}


def at_shape(h):
    s = []
    for a in h:
        if a["a"] == "Edit":
            s.append("E:" + a["knob"])
        elif a["a"] == "GcShare":
            s.append("GC")
        elif a["a"] == "Begin":
            s.append("B:w%d%s%s:%s" % (a["w"], "s" if a["sbx"] else "", "u" if a["up"] else "", a["dl"]))
    return " ".join(s)


def select(hists, limit, rng, shape, need=lambda h: True):
    by = {}
    for h in hists:
        if not need(h):
            continue
        s = shape(h)
        if s not in by or len(h) > len(by[s]):
            by[s] = h
    keys = sorted(by, key=lambda s: (len(by[s]), s))
    if len(keys) > limit:
        head = keys[:limit // 3]
        rest = keys[limit // 3:]
        rng.shuffle(rest)
        keys = head + rest[:limit - len(head)]
    return [by[k] for k in keys]


ACTIONS = ["Edit", "Begin", "End", "AlreadyDone", "Descend", "PrepPrune", "AlreadyShared", "UseShared", "DlPrune",
           "Download", "DistDescend", "SkipStep", "ExecuteStep", "Upload", "Install"]
ACTIONS_THOROUGH = ACTIONS + ["AlreadyDownloaded"]
ACTIONS_NOSBX = ACTIONS_THOROUGH + ["GcShare", "Unshare"]
REACH = ["ReachDownloadThenBuild", "ReachSkipOverRegenerated", "ReachStaleAuditNoResult", "ReachSharedUse",
         "ReachForeignRefs", "ReachTwoUploadsSameBid"]
WEAK = ["NoAddTool", "DirectRefsOnly", "NoRegenOnReexec", "HashBeforeRun", "DownloadKeepsStale", "IdIgnoresMeta"]


def replay_file(path):
    d = json.load(open(path))["detail"]
    fam = d.get("family", "audittrail")
    payload = d.get("ops") if fam == "git" else d["hist"]
    r = replay_task((0, fam, payload, d.get("origin", "replay"), d.get("mode") == "release", 0))
    for sig, _ in r["violations"]:
        print("VIOLATION property=%s replay=%s" % (PROP, path))
        print("  signature: %s" % sig)
    print("replayed %s: %d violations, drift=%s" % (r["shape"], len(r["violations"]), r["drift"]))
    return 1 if r["violations"] else 0


def _small_tlc(job):
    module, cfg, kw = job
    # tiny state spaces / -simulate: one TLC worker each (behaviours are a function of the seed), jobs in parallel
    return tlc.run(module, cfg, workers=1, timeout=6000, **kw)


def main():
    a = common.args(PROP, extra=lambda ap: ap.add_argument(
        "--skip-model", action="store_true", help="development aid: skip part (A), run the replays of part (B) only"))
    if a.replay:
        common.use_repo()
        return replay_file(a.replay)
    rep = evidence.Report(PROP, a.tier, a.seed)
    quick = a.tier == "quick"
    rng = random.Random(a.seed)
    rep.rule = ("behaviour = edit/invocation history produced by TLC (AuditTrail: -simulate runs + counterexamples of six "
                "weakened mechanism models; BobBuild: -simulate runs + counterexamples of weakened models) or an enumerated "
                "git-operation sequence, replayed with real bob invocations; after every invocation every audit.json.gz of "
                "the project and every new archive artifact is checked; evaluations = audit files checked on disk; "
                "non-trivial = distinct (family, behaviour shape, mode) + distinct audit features exercised")
    rep.assumptions = ["step scripts are deterministic functions of their declared inputs (generated that way)",
                       "bob.utils.hashDirectory is the content hash (C11 decides that)",
                       "workspaces are not modified by hand between an invocation and the check (except the git family's dirty op)",
                       "the artifact-id digest is specified only by audit.py; the own implementation follows its description",
                       "the import SCM record is not described in the manual; its structure is taken from the url SCM"]
    from multiprocessing.pool import ThreadPool
    from checks import bobbuild_common as bc
    # ---- (A) exhaustive + vacuity
    if not a.skip_model:
        res = tlc.run("AuditTrail", "AuditTrail.cfg" if quick else "AuditTrail_thorough.cfg", coverage=True, timeout=12000)
        rep.add_tlc(res, "AuditTrail exhaustive")
        if res.violated:
            rep.violation("model:" + res.violated, {"cex": [c[0] for c in res.cex]})
        tlc.require_coverage(res, ACTIONS if quick else ACTIONS_THOROUGH, "AuditTrail exhaustive")
        if not quick:
            r2 = tlc.run("AuditTrail", "AuditTrail_thorough_nosbx.cfg", coverage=True, timeout=12000)
            rep.add_tlc(r2, "AuditTrail exhaustive, no sandbox, 3 invocations, wiped shared store")
            if r2.violated:
                rep.violation("model:" + r2.violated, {"cex": [c[0] for c in r2.cex]})
            tlc.require_coverage(r2, ACTIONS_NOSBX, "AuditTrail_thorough_nosbx.cfg")
    # ---- small TLC runs: vacuity configs, counterexamples of weakened models, -simulate generation
    nsim = (60, 20, 40) if quick else (320, 100, 240)
    jobs = [] if a.skip_model else [("reach:" + x, ("AuditTrail", "AuditTrail_reach_%s.cfg" % x, {})) for x in REACH]
    jobs += [("weak:" + w, ("AuditTrail", "AuditTrail_weak_%s.cfg" % w, {})) for w in WEAK]
    jobs += [("gen:AuditTrail_gen.cfg", ("AuditTrail", "AuditTrail_gen.cfg",
                                         dict(simulate="num=%d" % nsim[0], depth=260, seed=a.seed + 1))),
             ("gen:AuditTrail_gen_sharedsbx.cfg", ("AuditTrail", "AuditTrail_gen_sharedsbx.cfg",
                                                   dict(simulate="num=%d" % nsim[1], depth=260, seed=a.seed + 2))),
             ("bbgen", ("BobBuild", "BobBuild_c01_gen.cfg", dict(simulate="num=%d" % nsim[2], depth=260, seed=a.seed + 1)))]
    jobs += [("bbweak:" + w, ("BobBuild", "BobBuild_c01_weak_%s.cfg" % w, {"extra": ["-continue"]}))
             for w in (("InputsIgnoreDep",) if quick else ("InputsIgnoreDep", "NoPruneOnDigestChange"))]
    with ThreadPool(max(1, min(8, common.workers()))) as tp:
        results = dict(zip([j[0] for j in jobs], tp.map(_small_tlc, [j[1] for j in jobs])))
    tasks = []
    two = lambda h: sum(1 for x in h if x["a"] == "End") >= 2
    for name, r in results.items():
        kind, _, x = name.partition(":")
        if kind == "reach":
            if r.violated != x:
                raise tlc.TlcError("vacuity: %s not reachable" % x)
        elif kind == "weak":
            if not r.printed:
                raise tlc.TlcError("weakened model %s produced no counterexample (vacuous weakening)" % x)
            rep.add_tlc(r, "AuditTrail Weak={%s} (counterexample generation)" % x)
            sel = select(r.printed, 2 if quick else 8, rng, at_shape)
            rep.extra.setdefault("weakened_model_counterexamples", {})[x] = {"found": len(r.printed), "replayed": len(sel)}
            tasks += [("audittrail", h, "cex:" + x, None) for h in sel]
        elif kind == "gen":
            lim = {"AuditTrail_gen.cfg": 12 if quick else 120, "AuditTrail_gen_sharedsbx.cfg": 4 if quick else 30}[x]
            sel = select(r.printed, lim, rng, at_shape, need=two)
            rep.extra.setdefault("simulated", {})[x] = {"generated": len(r.printed), "replayed": len(sel)}
            tasks += [("audittrail", h, "simulate:" + x, None) for h in sel]
        elif kind == "bbgen":
            sel = select(r.printed, 8 if quick else 60, rng, bc.shape_of, need=two)
            rep.extra.setdefault("simulated", {})["BobBuild_c01_gen.cfg"] = {"generated": len(r.printed), "replayed": len(sel)}
            tasks += [("bobbuild", h, "bobbuild-simulate", rng.random() < 0.4) for h in sel]
        elif kind == "bbweak":
            rep.add_tlc(r, "BobBuild Weak={%s} (enumerated histories)" % x)
            tasks += [("bobbuild", h, "bobbuild-cex:" + x, rng.random() < 0.4)
                      for h in select(r.printed, 2 if quick else 8, rng, bc.shape_of)]
    gitseqs = [[x] for x in GIT_OPS] + [["dirty", "clean"], ["upstream-commit", "dirty"], ["dirty", "upstream-commit"]]
    if not quick:
        gitseqs += [[x, y, z] for x in GIT_OPS for y in GIT_OPS for z in GIT_OPS
                    if x != "clean" and not (y == "clean" and x != "dirty")]
    rng.shuffle(gitseqs)
    for ops in gitseqs[:3 if quick else 24] + [["pinned", "dirty", "clean"]] + ([] if quick else [["pinned", "dirty", "rebuild"]]):
        tasks.append(("git", ops, "git-enumerated", None))
    # ---- (B) replay on the real code
    common.use_repo()
    import bob.utils  # noqa: F401  (before fork)
    import bob.audit  # noqa: F401
    jobs = [(i, k, p, o, opt, a.seed) for i, (k, p, o, opt) in enumerate(tasks)]
    fam = {}
    with mp.get_context("fork").Pool(common.workers()) as pool:
        for r in pool.imap_unordered(replay_task, jobs):
            rep.traces += 1
            rep.evaluations += r["files"]
            f = fam.setdefault(r["kind"], {"behaviours": 0, "invocations": 0, "audit_files": 0, "records": 0})
            f["behaviours"] += 1
            f["invocations"] += r["invocations"]
            f["audit_files"] += r["files"]
            f["records"] += r["records"]
            rep.nontriv("%s|%s|%s" % (r["kind"], r["shape"], r["opt"]))
            for ft in r["features"]:
                rep.nontriv("feature:" + ft)
            for d in r["drift"]:
                rep.model_drift("%s: %s" % (r["origin"], d))
            for n in r["notes"]:
                rep.extra.setdefault("notes", [])
                if len(rep.extra["notes"]) < 20:
                    rep.extra["notes"].append(n)
            for sig, detail in r["violations"]:
                rep.violation(sig, detail)
            if r["i"] % 12 == 0:
                rep.sample({"family": r["kind"], "origin": r["origin"], "behaviour": r["shape"], "audit_files_checked": r["files"]})
    rep.extra["families"] = fam
    need = ["feature:tool-trail-merged:build", "feature:sandbox-trail-merged:build", "feature:transitive-merge",
            "feature:downloaded-trail", "feature:uploaded-artifact-checked", "feature:shared-trail",
            "feature:kept-trail-of-skipped-step", "feature:import-scm-digest", "feature:git-scm-clean",
            "feature:partially-downloaded-build", "feature:metaEnvironment", "feature:reaudited-checkout",
            "feature:colliding-meta-keys"]
    missing = [x for x in need if x not in rep.nontrivial]
    if missing and not rep.violations:
        raise RuntimeError("vacuity: audit features never exercised on the real code: %s" % missing)
    if rep.drift:
        rep.level = "exploration"
    return rep.finish()


if __name__ == "__main__":
    evidence.main_wrapper(main)
