"""C15 use (C): recorder for real OS processes on one LocalShare store + validation of the recorded traces
with specs/TraceSharedStore.tla.  Driven by checks/c15_sharedstore.py (which owns the anchor map
World.classify: real operation -> SharedStore action).

Linearization.  Every process of a round opens the counter file <root>/trace.seq itself (own open file
description) and takes a blocking flock on it (G) whenever it emits an event; the sequence number is read and
incremented under G.  Events of the traced code are emitted
  * for flock(LOCK_SH/LOCK_EX) on repo.json / pkg.json: AFTER the real blocking flock returned (G is taken
    then), i.e. while the store lock is held; nobody else can have got that lock in between,
  * for flock(LOCK_UN): G is taken BEFORE the real unlock, the protected file is read (the code has flushed
    it), the unlock is done, the event is written, G is released: the event precedes every event of the next
    holder of the lock,
  * for every other anchor operation (isdir, open, rename, symlink, unlink, makedirs, ...): G is held around
    the real operation and the write of the event: operation and event are one atomic step with respect to
    all other anchor operations.
Operations that are private in the model (copying, hashing, temporary files) run without G.
No wall clock is used anywhere: traces are ordered by the sequence number; the age of a pkg.json
(st_mtime_ns, which decides `oldest first`) is set to a virtual time derived from the sequence number of the
event that wrote/touched it, under the lock that protects the file (kernel timestamps are too coarse).
"""
import fcntl
import json
import os
import random

from vf import tlc

PROCS = ["P0", "P1", "P2", "P3"]        # = Procs of specs/TraceSharedStore.cfg
UNKNOWN = 99
LOCK_ACQ = ("flock.sh", "flock.ex")


def vtime_ns(seq):
    return (1_600_000_000 + 10 * seq) * 10**9


class Sequencer:
    """global event order: counter file updated under a blocking flock (G)"""

    def __init__(self, root, name):
        self.fd = os.open(os.path.join(root, "trace.seq"), os.O_RDWR | os.O_CREAT, 0o644)
        self.out = open(os.path.join(root, "trace-%s.ndjson" % name), "a")
        self.depth = 0

    def acquire(self):
        if self.depth == 0:
            fcntl.flock(self.fd, fcntl.LOCK_EX)
        self.depth += 1

    def release(self):
        self.depth -= 1
        if self.depth == 0:
            fcntl.flock(self.fd, fcntl.LOCK_UN)

    def emit(self, ev):
        assert self.depth > 0
        os.lseek(self.fd, 0, os.SEEK_SET)
        n = int(os.read(self.fd, 32) or b"0") + 1
        os.lseek(self.fd, 0, os.SEEK_SET)
        os.write(self.fd, b"%d" % n)
        ev["seq"] = n
        self.out.write(json.dumps(ev) + "\n")
        self.out.flush()
        return n

    def close(self):
        self.out.close()
        os.close(self.fd)


class Recorder:
    """hook of a vf.fsint.Interposer installed on bob.share / bob.builder in ONE real process.
    world: object with classify/_track/bid_of_path/proj_of_ws/pkgjson/pkgdir/repo_json (World of the check);
    proj: the Project of this process."""

    def __init__(self, world, proj, seq, unit):
        self.w, self.proj, self.seq, self.unit = world, proj, seq, unit
        self.cur = None
        self.pre = {}
        self.stamps = {}          # path of a pkg.json -> virtual mtime to (re)apply
        self.registered = False   # U_Register happened in the current use

    def begin(self):
        """a new operation of the project starts"""
        self.registered = False
        self.stamps.clear()

    # -- events of the harness itself (operation starts, rm -rf of the project) --
    def mark(self, e, fn=None, **kw):
        self.seq.acquire()
        try:
            if fn:
                fn()
            self.seq.emit(dict({"e": e, "p": self.proj.name, "b": kw.pop("b", "-")}, **kw))
        finally:
            self.seq.release()

    # -- cheap observations of the protected files (caller holds the lock that protects them) --
    def _users(self, b):
        if b is None or b == "-":
            return UNKNOWN
        try:
            with open(self.w.pkgjson(b)) as f:
                us = json.load(f).get("users", [])
            return len([u for u in us if self.w.proj_of_ws(u) not in (None, "Z")])
        except (OSError, ValueError):
            return UNKNOWN

    def _repo(self):
        try:
            with open(self.w.repo_json) as f:
                data = f.read()
            pk = json.loads(data).get("pkgs", {}) if data else {}
            return len(pk), sum(pk.values()) // self.unit
        except (OSError, ValueError):
            return UNKNOWN, UNKNOWN

    def _stamp(self, path):
        ns = self.stamps.get(path)
        if ns is not None:
            try:
                os.utime(path, ns=(ns, ns))
            except OSError:
                pass

    def hook(self, when, op):
        if when == "before":
            self.cur = act = self.w.classify(self.proj, op)
            self.pre = {}
            if act is None or op.name in LOCK_ACQ:
                return
            self.seq.acquire()
            if act in ("A_Unlock", "G_UnlockRepo"):
                self.pre["n"], self.pre["size"] = self._repo()
            elif act == "U_UnlockPkg":
                p0 = op.args[0]
                self._stamp(p0)                   # the rewrite has been flushed: final age of this registration
                self.stamps.pop(p0, None)
                self.pre["nusers"] = self._users(self.w.bid_of_path(p0))
            elif act == "B_Link":
                self.pre["there"] = os.path.isdir(os.path.dirname(op.args[0]))
            return
        act, self.cur = self.cur, None
        if act is None:
            if op.name == "close" and op.args and op.args[0] in self.stamps:
                self._stamp(op.args[0])           # pkg.json of the temporary directory: written, age fixed
                self.stamps.pop(op.args[0], None)
            return
        if op.name in LOCK_ACQ:
            if op.exc is not None:
                return
            self.seq.acquire()
        try:
            self.w._track(self.proj, act, op)
            ev = {"e": act, "p": self.proj.name, "b": self.proj.b or "-"}
            ev.update(self.pre)
            ok = op.exc is None
            a = [x for x in op.args if isinstance(x, str)]
            if act in ("U_OpenRepo", "U_OpenPkg", "A_Open", "A_Create", "G_OpenRepo", "I_Rename"):
                ev["ok"] = ok
            elif act in ("U_IsDir", "I_Quick", "G_IsDir"):
                ev["res"] = bool(op.res)
            elif act == "U_Register":
                ev["new"] = op.name == "truncate"
                self.registered = True
            elif act == "U_UnlockRepo":
                ev["reg"] = self.registered
            elif act == "G_OpenPkg":
                ev["b"] = self.w.bid_of_path(a[0]) or "-"
                ev["ok"] = ok
            elif act == "G_LockPkg":
                ev["b"] = self.w.bid_of_path(a[0]) or "-"
                ev["nusers"] = self._users(ev["b"])
            elif act == "G_UnlockPkg":
                ev["b"] = self.w.bid_of_path(a[0]) or "-"
            elif act == "G_IsLink":
                ev["u"] = self.w.proj_of_ws(a[0]) or "-"
                ev["res"] = bool(op.res)
            elif act == "G_ReadLink":
                ev["u"] = self.w.proj_of_ws(a[0]) or "-"
                ev["tb"] = (self.w.bid_of_path(op.res) or "-") if ok and isinstance(op.res, str) else "none"
            elif act == "G_Remove":
                ev["b"] = self.w.bid_of_path(a[0]) or "-"
            elif act == "B_Link":
                ev["b"] = self.w.bid_of_path(a[0]) or "-"
                last = self.proj.apilog[-1] if self.proj.apilog else (None, None, None)
                ev["api"] = "use" if last[0] == "use" else ("inst" if last[2] else "lost")
            n = self.seq.emit(ev)
            if act in ("I_Meta", "U_Register") and a:
                # age of this pkg.json = position of this event in the global order
                self.stamps[a[0]] = vtime_ns(n)
                if op.name == "utime":
                    self._stamp(a[0])
        finally:
            self.seq.release()


def merge(root, names):
    """events of all processes of a round in the global order"""
    evs = []
    for n in names:
        try:
            with open(os.path.join(root, "trace-%s.ndjson" % n)) as f:
                evs += [json.loads(x) for x in f if x.strip()]
        except FileNotFoundError:
            pass
    evs.sort(key=lambda e: e["seq"])
    if [e["seq"] for e in evs] != list(range(1, len(evs) + 1)):
        raise RuntimeError("trace recorder: sequence numbers are not 1..n (%d events)" % len(evs))
    for e in evs:
        del e["seq"]
    return evs


# ---------------------------------------------------------------------------------------------
# tampering (binding self-test)

FLIP = {"U_OpenRepo": "ok", "U_OpenPkg": "ok", "U_IsDir": "res", "U_Register": "new", "I_Quick": "res", "I_Rename": "ok",
        "A_Open": "ok", "G_IsDir": "res", "G_OpenPkg": "ok", "G_IsLink": "res", "B_Link": "there", "U_UnlockRepo": "reg"}
BUMP = {"A_Unlock": "n", "G_UnlockRepo": "size", "G_LockPkg": "nusers", "U_UnlockPkg": "nusers"}


def corrupt_field(trace, rng):
    """copy of the trace with ONE recorded field of one event changed"""
    ev = [dict(e) for e in trace["ev"]]
    cands = [i for i, e in enumerate(ev) if e["e"] in FLIP or (e["e"] in BUMP and e[BUMP[e["e"]]] != UNKNOWN)]
    i = rng.choice(cands)
    e = ev[i]
    if e["e"] in FLIP:
        f = FLIP[e["e"]]
        e[f] = not e[f]
    else:
        f = BUMP[e["e"]]
        e[f] = e[f] + 1
    return {"init": trace["init"], "ev": ev}, {"index": i + 1, "event": e["e"], "field": f}


def drop_event(trace, rng):
    """copy of the trace with ONE event removed (never the final End event)"""
    ev = [dict(e) for e in trace["ev"]]
    i = rng.randrange(0, len(ev) - 1)
    gone = ev.pop(i)
    return {"init": trace["init"], "ev": ev}, {"index": i + 1, "event": gone["e"], "actor": gone["p"]}


# ---------------------------------------------------------------------------------------------
# validation

def validate(traces, work, name="traces", timeout=900):
    """TLC (TraceSharedStore, -workers 1) on one batch. Returns (TlcResult, per trace dict
    {matched, length, accepted, viol: None | {at, inv, dangling, err, polviol}})."""
    tf = os.path.join(work, name + ".json")
    with open(tf, "w") as f:
        json.dump(traces, f)
    res = tlc.run("TraceSharedStore", "TraceSharedStore.cfg", workers=1, timeout=timeout,
                  env={"TRACE_FILE": tf}, deadlock=False)
    if res.violated or not res.printed:
        raise tlc.TlcError("trace validation did not finish:\n" + res.out[-3000:])
    out = res.printed[-1]

    def at(x, j):
        return x[j] if isinstance(x, list) else x[str(j + 1)]
    verdicts = []
    for j, t in enumerate(traces):
        m = at(out["matched"], j)
        v = at(out["viol"], j)
        verdicts.append({"matched": m, "length": len(t["ev"]), "accepted": m == len(t["ev"]),
                         "viol": v if v["at"] else None})
    return res, verdicts
