"""C04  Package graph caches are transparent.

(A) TLC checks specs/PkgMemo.tla exhaustively (Weak = {}): memo tables with touched-key stacks,
    YAML cache, package pickle, tree database; MemoSound + DiskSound; coverage of every action and
    negated-reachability (vacuity) configs.
(B) Histories = counterexamples of the weakened models (forgotten touch propagation, memo key
    without tools / sandbox / touched-but-unset variables and tools, tool diff of an `inherit: false` dependency naming the ambient tools,
    sharing by result id that ignores metaEnvironment, cache key without -D defines / optional
    include / script include / sandbox flag, YAML cache on mtime only) + TLC -simulate walks.
    Each history becomes a REAL project (shared `lib` reached from two parents under different
    environments / tools / sandbox, conditional reads through `if:`, a class, require:d + OPTIONAL
    include with scmOverrides, script include, multiPackage roots, an `inherit: false` dependency,
    metaEnvironment, an unused dependency) and a sequence of real edits with Bob queries.
    For every query the FULL DUMP of the package tree through the Python API is computed by
    checks/c04_runner.py
      warm   long-lived directory, fresh process, then two more queries in the same process
             (the second after removing the package pickle: in-memory tables answer),
      cold   every .bob-* cache file deleted first,
      pkgck  cold with DEBUG['pkgck'] (the code's own recompute-and-compare),
      noreuse cold with BOTH in-memory tables disabled (memo lookup and sharing by result id).
Verdict (P): all dumps of one query must be equal and pkgck must not raise.  Which cache served a
stale answer is found by ablation (remove one cache file at a time from the pre-query cache state).
The model's prediction which cache answers (pickle / tree db / yaml rows / memo hits per recipe) is
compared with probes in the real code: disagreement = model_drift only.
"""
import json
import multiprocessing as mp
import os
import random
import shutil
import subprocess
import threading
from concurrent.futures import ThreadPoolExecutor

from vf import common, tlc, evidence, projgen, bobrun

PROP = "C04"
HERE = os.path.dirname(os.path.abspath(__file__))
RUNNER = os.path.join(HERE, "c04_runner.py")
WORKERS = int(os.environ.get("VF_WORKERS", "16") or 16)
REQ_TIMEOUT = 1800          # per runner request; the machine may be heavily loaded

WEAK = ["NoTouchOnHit", "MemoIgnoresTools", "MemoIgnoresSandbox", "MemoIgnoresUnsetTouched", "DiffNamesAmbientTools", "ByIdIgnoresMeta", "KeyIgnoresDefines",
        "KeyIgnoresInclude", "KeyIgnoresBinary", "KeyIgnoresSandbox", "YamlMtimeOnly"]
REACH = ["ReachPropagatedMiss", "ReachPickleHitAfterReread", "ReachYamlMixed", "ReachTreeHitPickleMiss",
         "ReachHitAcrossParents", "ReachRequeryMemo"]
ACTIONS = ["EditRecipe", "EditClass", "EditInclude", "EditDefault", "OptionalIncludeAppears",
           "OptionalIncludeDisappears", "SetDefine", "ClearDefine", "InvBegin", "LoadYamlHit", "LoadYamlMiss",
           "LoadYamlAbsent", "LoadBinary", "CacheKey", "PickleHit", "PickleMiss", "LookupHit", "LookupMiss",
           "ComputeBegin", "CallDep", "Remember", "PickleStore", "TreeHit", "TreeMiss", "InvEnd", "ProcExit"]
AUX_ACTIONS = ["DropCache", "Requery"]
MODEL_FILES = {"default.yaml": "default", "req.yaml": "req", "user.yaml": "user", "classes/cls.yaml": "cls",
               "recipes/lib.yaml": "lib", "recipes/mid.yaml": "mid", "recipes/top.yaml": "top"}
MODEL_RECIPES = {"": "root", "top-1": "top1", "top-2": "top2", "mid": "mid", "lib": "lib", "box": "box", "tag": "tag"}
CACHE_OF = {"yaml": [".bob-cache.sqlite3"], "pickle": [".bob-packages.pickle", ".bob-packages-sb.pickle"],
            "tree": [".bob-tree.sqlite3"]}


# ----------------------------------------------------------------------------------------------
# abstract content -> real project

def cond(expr_str, expr_if, real):
    """An `if:` condition in string-function or in !expr syntax (same meaning)."""
    return ('!expr |\n%s' % expr_if) if real.get("expr") else json.dumps(expr_str)


def render(c, real):
    """c: content of specs/PkgMemo.tla (file -> tuple); real: realisation choices. -> relpath -> text|None"""
    f = {"config.yaml": projgen.CONFIG}
    f["default.yaml"] = ('environment:\n  A: "%d"\n  ZD: "d"\nrequire: [req]\ninclude: [user]\n' % c["default"][0])
    # req = 2: B is not set at all (touched-but-unset on the path that does not set it)
    f["req.yaml"] = 'environment:\n  ZR: "r"\n' + ('  B: "%d"\n' % c["req"][0] if c["req"][0] != 2 else "")
    if c["user"]:
        b, s = c["user"]
        t = 'environment:\n  B: "%d"\n' % b
        if s:
            t += ('scmOverrides:\n  - match:\n      url: "http://example.invalid/*"\n'
                  '    replace:\n      url:\n        pattern: "example"\n        replacement: "mirror"\n')
        f["user.yaml"] = t
    else:
        f["user.yaml"] = None
    cv = c["cls"][0]
    f["classes/cls.yaml"] = ('packageVars: [CLSV%s]\nprivateEnvironment:\n  CLSV: "c%d"\n'
                             'packageScript: |\n  echo cls-%d\n' % (", B" if cv else "", cv, cv))
    f["recipes/lib-inc.sh"] = "included-script-v%d\n" % c["inc"][0]
    lv = c["lib"][0]
    if lv == 0:
        guard = cond("$(eq,${A},1)", '          "${A}" == "1"', real)
        value, var, tools = "b${B:-u}", "A", '  - name: cc\n    if: "$(and,$(eq,${A},0),$(is-tool-defined,cc))"\n'
    else:
        guard = cond("$(eq,${B:-u},1)", '          "${B:-u}" == "1"', real)
        value, var, tools = "a${A}", "B", '  - name: cc\n    if: "$(is-tool-defined,cc)"\n'
    f["recipes/lib.yaml"] = (
        'inherit: [cls]\n'
        'checkoutSCM:\n  scm: url\n  url: "http://example.invalid/src/lib.tgz"\n'
        '  digestSHA1: "0000000000000000000000000000000000000000"\n'
        'privateEnvironment:\n  LIBX:\n    value: "%s"\n    if: %s\n'
        'buildVars: [%s, LIBX, CCV]\n'
        'buildTools:\n%s'
        'buildScript: |\n  echo lib-%d\n  echo $<\'lib-inc.sh\'>\n'
        'packageScript: |\n  echo pkg-lib\n' % (value, guard, var, tools, lv))
    mv = c["mid"][0]
    libdep = "  - lib\n" if mv == 0 else '  - name: lib\n    if: "$(eq,${A},1)"\n'
    f["recipes/mid.yaml"] = ('depends:\n%s  - name: extra\n    if: "$(is-sandbox-enabled)"\n'
                             'buildScript: |\n  echo mid-%d\npackageScript: |\n  echo pkg-mid\n' % (libdep, mv))
    tv, ttool, tsb, tld = c["top"]
    flip = "B" if tv == 0 else "A"
    ld = "      - name: tq\n        use: [tools]\n        forward: true\n"
    t1 = "" if ttool == 3 else "      - name: tp-1\n        use: [tools]\n        forward: true\n"   # 3: no cc below top-1
    t2 = 2 if ttool == 3 else ttool
    bdef = ":-0" if flip == "B" else ""
    f["recipes/top.yaml"] = (
        'root: true\n'
        'multiPackage:\n'
        '  "1":\n'
        '    depends:\n'
        '%s'
        '%s'
        '      - lib\n      - mid\n      - box\n      - tag\n'
        '    buildScript: |\n      echo top-1\n    packageScript: |\n      echo pkg-top-1\n'
        '  "2":\n'
        '    depends:\n'
        '      - name: tp-%d\n        use: [tools]\n        forward: true\n'
        '%s%s'
        '      - environment:\n          %s: "$(if-then-else,$(eq,${%s%s},1),0,1)"\n        depends: [lib, mid, tag]\n'
        '      - box\n'
        '    buildScript: |\n      echo top-2\n    packageScript: |\n      echo pkg-top-2\n'
        % (t1, ld if tld == 1 else "", t2, ld if tld == 2 else "",
           "      - name: sbx\n        use: [sandbox]\n        forward: true\n" if tsb else "", flip, flip, bdef))
    f["recipes/tp.yaml"] = (
        'multiPackage:\n'
        '  "1":\n    packageScript: |\n      echo tp-1\n    provideTools:\n      cc:\n        path: "bin1"\n'
        '        libs: ["lib1"]\n        environment:\n          CCV: "one"\n'
        '  "2":\n    packageScript: |\n      echo tp-2\n    provideTools:\n      cc:\n        path: "bin2"\n'
        '        libs: ["lib2"]\n        environment:\n          CCV: "two"\n')
    f["recipes/sbx.yaml"] = ('packageScript: |\n  echo sbx\nprovideSandbox:\n  paths: ["/bin", "/usr/bin"]\n'
                             '  mount:\n    - "/etc/sbx"\n  environment:\n    SBXV: "sandboxed"\n')
    f["recipes/extra.yaml"] = 'packageScript: |\n  echo extra\n'
    f["recipes/tq.yaml"] = 'packageScript: |\n  echo tq\nprovideTools:\n  ld: "binld"\n'
    f["recipes/box.yaml"] = ('depends:\n  - name: iso\n    inherit: false\n'
                             'buildScript: |\n  echo box\npackageScript: |\n  echo pkg-box\n')
    f["recipes/iso.yaml"] = 'packageScript: |\n  echo iso\n'
    f["recipes/tag.yaml"] = ('metaEnvironment:\n  FLAVOUR: "${B:-u}"\n'
                             'depends:\n  - name: extra\n    use: []\n    if: "${B:-0}"\n'
                             'buildScript: |\n  echo tag\npackageScript: |\n  echo pkg-tag\n')
    return f


def cfg_file(a):
    return {"cfg.yaml": 'environment:\n  A: "%d"\n' % a}


# ----------------------------------------------------------------------------------------------
# runner client

class Runner:
    def __init__(self):
        env = common.clean_env({"VERIF_REPO": common.REPO, "PYTHONDONTWRITEBYTECODE": "1"})
        self.p = subprocess.Popen([common.PY, RUNNER], stdin=subprocess.PIPE, stdout=subprocess.PIPE,
                                  stderr=subprocess.DEVNULL, env=env, cwd="/", text=True)
        hello = self._read(REQ_TIMEOUT)
        if not hello.get("ready"):
            raise RuntimeError("c04 runner did not start: %r" % hello)

    def _read(self, timeout):
        box = {}

        def rd():
            box["line"] = self.p.stdout.readline()
        t = threading.Thread(target=rd, daemon=True)
        t.start()
        t.join(timeout)
        if t.is_alive() or not box.get("line"):
            self.p.kill()
            raise RuntimeError("c04 runner: no answer within %ss" % timeout)
        return json.loads(box["line"])

    def ask(self, req):
        self.p.stdin.write(json.dumps(req) + "\n")
        self.p.stdin.flush()
        ans = self._read(REQ_TIMEOUT)
        if "fatal" in ans:
            raise RuntimeError("c04 runner failed: %s" % ans["fatal"])
        return ans

    def close(self):
        try:
            self.p.stdin.write(json.dumps({"quit": True}) + "\n")
            self.p.stdin.flush()
            self.p.wait(timeout=60)
        except Exception:
            self.p.kill()


# ----------------------------------------------------------------------------------------------
# replay of one history into the real code

_runner = None


def runner():
    global _runner
    if _runner is None or _runner.p.poll() is not None:
        _runner = Runner()
    return _runner


def canon(d):
    return json.dumps(d, sort_keys=True)


def first_diff(a, b, path=""):
    """Path of the first difference between two dumps (for the report and the signature)."""
    if type(a) != type(b):
        return path or "/"
    if isinstance(a, dict):
        for k in sorted(set(a) | set(b)):
            if k not in a or k not in b:
                return "%s/%s" % (path, k)
            if a[k] != b[k]:
                return first_diff(a[k], b[k], "%s/%s" % (path, k))
    elif isinstance(a, list):
        if len(a) != len(b):
            return path + "[len]"
        for i, (x, y) in enumerate(zip(a, b)):
            if x != y:
                return first_diff(x, y, "%s[%d]" % (path, i))
    return path or "/"


def diff_class(path):
    """Stable, coarse name of what differs: packages/<stack>/steps/build/env -> env of build step."""
    parts = [p for p in path.split("/") if p]
    if not parts:
        return "all"
    if parts[0] == "packages":
        rest = [p.split("[")[0] for p in parts[1:]]
        for i, p in enumerate(rest):
            if p == "steps":
                return "step." + ".".join(rest[i + 2:i + 3] or ["*"])
            if p in ("direct", "indirect", "name", "id", "metaEnv", "recipe", "allDepSteps", "stack", "ambientTools",
                     "inputTools", "relocatable", "shared", "alias", "states"):
                return "package." + p
        return "package-set"
    return parts[0].split("[")[0]


def diff_where(path, dump):
    """recipe (last element of the package stack) in which the first difference lies + diff_class"""
    keys = sorted((k for k in dump.get("packages", {}) if k), key=len, reverse=True)
    for k in keys:
        if path.startswith("/packages/%s/" % k) or path == "/packages/%s" % k:
            return "%s:%s" % (k.split("/")[-1], diff_class("/packages/X/" + path[len("/packages/%s/" % k):]))
    return diff_class(path)


def write_keep_mtime(root, files):
    """Apply an edit that leaves the mtime as it was (cp -p / checkout within the timestamp granularity);
    size may, ctime does change."""
    for rel, data in files.items():
        p = os.path.join(root, rel)
        if data is None or not os.path.isfile(p):
            bobrun.write_files(root, {rel: data})
            continue
        with open(p) as f:
            if f.read() == data:
                continue
        st = os.stat(p)
        with open(p, "w") as f:
            f.write(data)
        os.utime(p, ns=(st.st_atime_ns, st.st_mtime_ns))


def snapshot_caches(d):
    snap = {}
    for names in CACHE_OF.values():
        for n in names:
            p = os.path.join(d, n)
            if os.path.exists(p):
                with open(p, "rb") as f:
                    snap[n] = f.read()
    return snap


class Replay:
    def __init__(self, hist, origin, seed, work):
        self.hist = hist
        self.origin = origin
        self.rng = random.Random(seed)
        self.real = {"expr": self.rng.random() < 0.5, "define_via": self.rng.choice(["D", "c"])}
        if origin == "cex:KeyIgnoresDefines":
            self.real["define_via"] = "D"      # a -c file would enter the cache key through its own digest
        self.work = work
        self.warm = os.path.join(work, "warm")
        self.cold = os.path.join(work, "cold")
        self.violations = []
        self.drift = []
        self.invocations = 0
        self.parses = 0
        self.features = set()
        self.stderr_notes = set()
        self.shape = []
        self.cold_cache = {}

    def viol(self, sig, **detail):
        if any(s == sig for s, _ in self.violations):
            return
        detail.update(hist=self.hist, origin=self.origin, real=self.real)
        self.violations.append((sig, detail))

    def request(self, d, sb, defn, runs):
        defines, configs = {}, []
        if defn:
            if self.real["define_via"] == "D":
                defines = {"A": str(defn[0])}
            else:
                configs = ["cfg"]
        ans = runner().ask({"dir": d, "sandbox": sb, "defines": defines, "configs": configs, "runs": runs})
        self.parses += sum(1 + len(r.get("requery", [])) for r in runs)
        for line in (ans.get("stderr") or "").splitlines():
            if "Could not" in line or "Traceback" in line:
                self.stderr_notes.add(line.strip()[:200])
        return ans["runs"]

    def ablate(self, snap, sb, defn, ref):
        """Which single cache file, when removed from the pre-invocation cache state, makes the answer right?
        Done in place (stat data of the project files must stay as they are); the caches are put back."""
        def restore(files):
            for names in CACHE_OF.values():
                for n in names:
                    try:
                        os.unlink(os.path.join(self.warm, n))
                    except FileNotFoundError:
                        pass
            for n, data in files.items():
                with open(os.path.join(self.warm, n), "wb") as f:
                    f.write(data)
        post = snapshot_caches(self.warm)

        def helps(caches):
            names = [n for c in caches for n in CACHE_OF[c]]
            restore({n: d for n, d in snap.items() if n not in names})
            r = self.request(self.warm, sb, defn, [{"name": "x"}])["x"]
            return "dumps" in r and canon(r["dumps"][0]) == ref
        try:
            fixed = [c for c in CACHE_OF if helps([c])]
            if not fixed:       # e.g. a stale cache key serves the pickle AND the tree db
                for pair in (("pickle", "tree"), ("yaml", "pickle"), ("yaml", "tree")):
                    if helps(pair):
                        fixed = ["&".join(pair)]
                        break
        finally:
            restore(post)
        return fixed

    def run(self):
        content = self.content = {k: list(v) for k, v in self.hist[0]["content"].items()}
        files = render(content, self.real)
        bobrun.write_files(self.warm, files)
        bobrun.write_files(self.cold, files)
        defn, pending, last_sb, last_def = [], [], None, None
        h = self.hist
        i = 1
        while i < len(h):
            e = h[i]
            a = e["a"]
            i += 1
            if a in ("EditRecipe", "EditClass", "EditInclude", "EditDefault", "OptionalIncludeAppears",
                     "OptionalIncludeDisappears"):
                content[e["f"]] = list(e["c"])
                files = render(content, self.real)
                if e.get("keep"):
                    write_keep_mtime(self.warm, files)
                else:
                    bobrun.write_files(self.warm, files)
                bobrun.write_files(self.cold, files)
                pending.append(a + (":keep-mtime" if e.get("keep") else ""))
                self.shape.append("%s(%s%s)" % (a, e["f"], ",keep" if e.get("keep") else ""))
            elif a == "SetDefine":
                defn = [e["v"]]
                if self.real["define_via"] == "c":
                    bobrun.write_files(self.warm, cfg_file(e["v"]))
                    bobrun.write_files(self.cold, cfg_file(e["v"]))
                pending.append("SetDefine")
                self.shape.append("SetDefine")
            elif a == "ClearDefine":
                defn = []
                pending.append("ClearDefine")
                self.shape.append("ClearDefine")
            elif a == "DropCache":
                for n in CACHE_OF[e["c"]]:
                    try:
                        os.unlink(os.path.join(self.warm, n))
                    except FileNotFoundError:
                        pass
                pending.append("DropCache-" + e["c"])
                self.shape.append("Drop(%s)" % e["c"])
            elif a == "Invoke":
                sb = bool(e["sb"])
                # the model's expectations for this query and the requeries that follow it
                expect, rq = [], []
                j = i
                if j < len(h) and h[j]["a"] == "End":
                    expect.append(h[j])
                    j += 1
                    while j + 0 < len(h) and h[j]["a"] == "Requery":
                        rq.append(bool(h[j]["drop"]))
                        if j + 1 < len(h) and h[j + 1]["a"] == "End":
                            expect.append(h[j + 1])
                            j += 2
                        else:
                            j += 1
                            break
                i = j
                if last_sb is not None and last_sb != sb:
                    pending.append("sandbox-switch")
                self.invoke(sb, defn, rq, expect, pending, last_def)
                self.shape.append("Invoke(%s%s)" % ("sb" if sb else "-", ",rq" * len(rq)))
                pending, last_sb, last_def = [], sb, list(defn)
            # "End"/"Requery" are consumed above; "Init" is h[0]
        return self

    def invoke(self, sb, defn, rq_model, expect, pending, last_def):
        self.invocations += 1
        kinds = "+".join(sorted(set(pending))) or "none"
        rq = list(rq_model) + ([False, True] if not rq_model else [])
        snap = snapshot_caches(self.warm)
        w = self.request(self.warm, sb, defn, [{"name": "warm", "requery": rq}])["warm"]
        ckey = (canon(self.content), tuple(defn), sb)     # the cold answers depend on the project state only
        if ckey not in self.cold_cache:
            self.cold_cache[ckey] = self.request(self.cold, sb, defn, [{"name": "cold", "purge": True},
                                                                       {"name": "pkgck", "purge": True, "pkgck": True},
                                                                       {"name": "noreuse", "purge": True, "noreuse": True}])
        c = self.cold_cache[ckey]
        cold, pkgck, nomemo = c["cold"], c["pkgck"], c["noreuse"]

        def val(r, k=0):
            return canon(r["dumps"][k]) if "dumps" in r else "ERROR " + r["error"]
        ref = val(cold)
        if ref.startswith("ERROR") and "error" in nomemo and val(w).startswith("ERROR"):
            # the generator is supposed to produce valid projects
            raise RuntimeError("generated project does not parse: %s\n%s" % (cold["error"], cold.get("trace")))
        # (1) in-memory memo: the code's own check and the memo-free computation
        if "error" in pkgck:
            if pkgck["error"].startswith("AssertionError"):
                where = pkgck["error"].split("for")[-1].strip() if "Wrong reusage for" in pkgck["error"] else "?"
                self.viol("memo:pkgck-assert:%s" % where, error=pkgck["error"], pending=kinds, sandbox=sb, define=defn)
            elif val(pkgck) != ref:
                self.viol("memo:pkgck-error", error=pkgck["error"], cold=ref[:300])
        elif val(pkgck) != ref:
            self.viol("memo:pkgck-dump-differs:%s" % diff_class(first_diff(cold["dumps"][0], pkgck["dumps"][0])),
                      first=first_diff(cold["dumps"][0], pkgck["dumps"][0]))
        # the reuse-free computation numbers its packages differently (no sharing): compare without the
        # package-id partition and without the path queries that report one path per shared node
        def proj(r):
            if "dumps" not in r:
                return "ERROR " + r["error"]
            return {"packages": {k: {f: v for f, v in p.items() if f != "id"}
                                 for k, p in r["dumps"][0]["packages"].items()}}
        if proj(nomemo) != proj(cold):
            if "dumps" in cold and "dumps" in nomemo:
                fd = first_diff(proj(cold), proj(nomemo))
                what = diff_where(fd, proj(nomemo))
            else:
                fd = "error"
                what = "error-only-%s-reuse:%s" % ("with" if "error" in cold else "without",
                                                   (cold.get("error") or nomemo.get("error")).split(":")[0])
            self.viol("memo:differs-from-reuse-free:%s" % what, first=fd, pending=kinds, sandbox=sb, define=defn,
                      cold=(cold.get("error") or ""), noreuse=(nomemo.get("error") or ""),
                      trace=(cold.get("trace") or nomemo.get("trace") or "")[-800:],
                      content=self.content)
        # (2) on-disk caches: warm directory vs. cold
        wv = val(w)
        if wv != ref:
            fd = first_diff(cold["dumps"][0], w["dumps"][0]) if "dumps" in cold and "dumps" in w else "error"
            fixed = self.ablate(snap, sb, defn, ref)
            cache = "|".join(fixed) if fixed else "all-caches"
            self.viol("stale:%s:%s" % (kinds, cache), first=fd, what=diff_class(fd), removing_fixes=fixed,
                      sandbox=sb, define=defn, warm_error=w.get("error"), cold_error=cold.get("error"),
                      warm_info=w.get("info"))
        # (3) further queries in the same process
        if "dumps" in w:
            for k, drop in enumerate(rq):
                if canon(w["dumps"][k + 1]) != ref:
                    fd = first_diff(cold["dumps"][0], w["dumps"][k + 1]) if "dumps" in cold else "error"
                    self.viol("requery:%s:%s" % ("pickle-removed" if drop else "same-process", diff_class(fd)),
                              first=fd, pending=kinds, sandbox=sb)
        # M layer: did the caches the model names answer?
        if "info" in w:
            if self.origin == "simulate":    # histories of weakened models carry the weakened predictions
                self.compare_model(w["info"], expect, defn, last_def)
            q0 = w["info"]["queries"][0]
            served = "pickle" if not q0["comps"] and not q0["hits"] else "prepare"
            ymiss = sorted(MODEL_FILES[n] for n, v in w["info"]["yaml"].items() if n in MODEL_FILES and v == "miss")
            self.features.add("%s|%s|tree-%s|reread:%s" % (kinds, served, "hit" if q0["treeHit"] is True else "miss",
                                                           ",".join(ymiss) or "-"))

    def compare_model(self, info, expect, defn, last_def):
        for k, exp in enumerate(expect):
            if k >= len(info["queries"]):
                break
            q = info["queries"][k]
            src = "pickle" if not q["comps"] and not q["hits"] else "prepare"
            via_c_changed = self.real["define_via"] == "c" and last_def is not None and last_def != defn
            if via_c_changed and k == 0:
                continue     # -c adds a file to the cache key that the model does not know
            if src != exp["src"]:
                self.drift.append("package pickle: model %s, code %s" % (exp["src"], src))
                continue
            if (q["treeHit"] is True) != (exp["tsrc"] == "hit"):
                self.drift.append("tree db: model %s, code %s" % (exp["tsrc"], q["treeHit"]))
            if k == 0:
                yh = sorted(MODEL_FILES[n] for n, v in info["yaml"].items() if n in MODEL_FILES and v == "hit")
                if yh != sorted(exp["yh"]):
                    self.drift.append("yaml rows reused: model %s, code %s" % (sorted(exp["yh"]), yh))
            if src == "prepare":
                for real_name, mname in MODEL_RECIPES.items():
                    got = (q["hits"].get(real_name, 0), q["comps"].get(real_name, 0))
                    want = (exp["hits"][mname], exp["comps"][mname])
                    if got != want:
                        self.drift.append("memo of %s: model (hits, computes) = %s, code %s" % (mname, want, got))


def replay_task(arg):
    i, hist, origin, seed = arg[:4]
    work = common.scratch("vf-c04-")
    try:
        r = Replay(hist, origin, seed * 1000003 + i, work)
        if len(arg) > 4 and arg[4]:
            r.real = arg[4]             # --replay: the realisation choices of the recorded run
        r.run()
    finally:
        shutil.rmtree(work, ignore_errors=True)
    return {"i": i, "origin": origin, "violations": r.violations, "drift": r.drift, "invocations": r.invocations,
            "parses": r.parses, "features": sorted(r.features), "shape": " ".join(r.shape), "real": r.real,
            "notes": sorted(r.stderr_notes)}


def select(hists, n, rng, need=None):
    """n distinct histories, spread over the different shapes (action + file sequences) first"""
    seen, groups = set(), {}
    for h in hists:
        k = json.dumps(h, sort_keys=True)
        if k in seen or (need and not need(h)):
            continue
        seen.add(k)
        shape = tuple((e["a"], e.get("f"), e.get("keep")) for e in h if e["a"] not in ("Init", "End", "Invoke"))
        groups.setdefault(shape, []).append(h)
    keys = sorted(groups, key=repr)
    rng.shuffle(keys)
    for k in keys:
        rng.shuffle(groups[k])
    out = []
    while len(out) < n and any(groups.values()):
        for k in keys:
            if groups[k] and len(out) < n:
                out.append(groups[k].pop())
    return out


def replay_file(path):
    d = json.load(open(path))["detail"]
    r = replay_task((0, d["hist"], d.get("origin", "replay"), 0, d.get("real")))
    for sig, detail in r["violations"]:
        print("VIOLATION property=%s replay=%s" % (PROP, path))
        print("  signature: %s" % sig)
    print("replayed [%s]: %d violations, drift=%s" % (r["shape"], len(r["violations"]), r["drift"]))
    return 1 if r["violations"] else 0


def main():
    a = common.args(PROP)
    if a.replay:
        return replay_file(a.replay)
    rep = evidence.Report(PROP, a.tier, a.seed)
    quick = a.tier == "quick"
    rng = random.Random(a.seed)
    rep.rule = ("behaviour = edit / command line / cache-removal / invocation history from TLC (counterexamples of 11 "
                "weakened mechanism models + -simulate walks) replayed on a generated real project; every query is "
                "answered warm (+2 queries in the same process), cold, cold+pkgck and cold without any in-memory reuse and "
                "the full API dumps are compared; non-trivial = distinct (edit kinds since the last query, pickle "
                "reused or not, tree db reused or not, yaml files re-read) situations; evaluations = real parses + "
                "package-tree computations")
    rep.assumptions = ["every modification changes the stat data of the file (mtime via a virtual clock, or ctime for "
                       "the mtime-preserving edits)",
                       "plugins / plugin state trackers, layers and aliases are not generated",
                       "the in-memory tables are only ever queried again with the same sandbox flag (as every "
                       "command does)",
                       "SHA-1 of file contents / environments does not collide"]
    # (A) design check: all TLC runs of this tier, small ones side by side
    par = max(2, WORKERS // 2)
    wsmall = max(1, WORKERS // par)
    jobs = [("main", "PkgMemo.cfg" if quick else "PkgMemo_thorough.cfg", dict(workers=max(1, WORKERS // 2), coverage=True)),
            ("aux", "PkgMemo_aux.cfg", dict(workers=wsmall, coverage=True, heap="2g"))]
    if not quick:
        jobs.append(("main3", "PkgMemo_thorough3.cfg", dict(workers=max(1, WORKERS // 2), coverage=True)))
    jobs += [("reach:" + r, "PkgMemo_reach_%s.cfg" % r, dict(workers=wsmall, heap="1g")) for r in REACH]
    def weak_cfg(w):     # thorough: deeper bounds where a second config exists
        deep = "PkgMemo_weak2_%s.cfg" % w
        return deep if not quick and os.path.exists(os.path.join(tlc.SPECS, deep)) else "PkgMemo_weak_%s.cfg" % w
    jobs += [("weak:" + w, weak_cfg(w), dict(workers=wsmall, heap="2g")) for w in WEAK]
    num = 60 if quick else 320
    jobs.append(("gen", "PkgMemo_gen.cfg", dict(workers=1, simulate="num=%d" % num, depth=500, seed=a.seed + 1, heap="2g")))

    def run_tlc(job):
        name, cfg, kw = job
        return name, tlc.run("PkgMemo", cfg, timeout=20000, **kw)
    with ThreadPoolExecutor(par) as ex:
        results = dict(ex.map(run_tlc, jobs))
    for name in ["main", "aux"] + ([] if quick else ["main3"]):
        res = results[name]
        rep.add_tlc(res, "PkgMemo exhaustive (%s), Weak = {}" % dict(jobs_by_name(jobs))[name])
        if res.violated:
            rep.violation("model:" + res.violated, {"cex": [c[0] for c in res.cex], "last": res.cex[-1][1][:4000] if res.cex else ""})
    tlc.require_coverage(results["main"], ACTIONS, "PkgMemo main")
    tlc.require_coverage(results["aux"], AUX_ACTIONS, "PkgMemo_aux.cfg")
    for r in REACH:
        if results["reach:" + r].violated != r:
            raise tlc.TlcError("vacuity: %s not reachable" % r)
    # (B) histories
    behaviours = []
    for w in WEAK:
        r = results["weak:" + w]
        if r.violated or not r.printed:
            raise tlc.TlcError("weakened model %s: %s" % (w, "invariant " + str(r.violated) if r.violated else
                                                          "no counterexample (vacuous weakening)"))
        rep.add_tlc(r, "PkgMemo Weak={%s} (counterexample generation)" % w)
        sel = select(r.printed, 3 if quick else 8, rng)
        rep.extra.setdefault("weakened_model_counterexamples", {})[w] = {"found": len(r.printed), "replayed": len(sel)}
        behaviours += [(h, "cex:" + w) for h in sel]
    g = results["gen"]
    sel = select(g.printed, 40 if quick else 240, rng, need=lambda h: sum(1 for x in h if x["a"] == "Invoke") >= 3)
    rep.extra["simulated"] = {"generated": len(g.printed), "replayed": len(sel)}
    behaviours += [(h, "simulate") for h in sel]
    tasks = [(i, h, origin, a.seed) for i, (h, origin) in enumerate(behaviours)]
    notes = set()
    sigs = {}
    with mp.get_context("fork").Pool(WORKERS) as pool:
        for r in pool.imap_unordered(replay_task, tasks):
            rep.traces += 1
            rep.evaluations += r["parses"]
            for ft in r["features"]:
                rep.nontriv(ft)
            for d in r["drift"]:
                rep.model_drift("%s [%s]: %s" % (r["origin"], r["shape"], d))
            for sig, detail in r["violations"]:
                sigs[sig] = sigs.get(sig, 0) + 1
                if sigs[sig] == 1:               # one replay file per signature
                    rep.violation(sig, detail)
            notes.update(r["notes"])
            if r["i"] % 12 == 0:
                rep.sample({"origin": r["origin"], "history": r["shape"], "realisation": r["real"],
                            "invocations": r["invocations"]})
    if notes:
        rep.extra["bob_warnings_seen"] = sorted(notes)[:10]
    if sigs:
        rep.extra["violating_histories_per_signature"] = sigs
    rep.extra["dump_contains"] = ("per package (recursively from the root, keyed by stack): name, stack, canonical package id, "
                                  "recipe/sources, metaEnv, relocatable/shared/alias, direct + indirect deps, all dep steps; "
                                  "per step: variant-id, result-id, scripts (setup/main/digest/update/fingerprint), env, "
                                  "digestEnv, tools (path, libs, env, provider step), sandbox (paths, mounts, env, user, "
                                  "provider), arguments, provided deps/env/tools/sandbox, SCM properties + overrides, flags; "
                                  "path queries via the tree db; root env and settings of the RecipeSet")
    if rep.drift:
        rep.level = "exploration"
    return rep.finish()


def jobs_by_name(jobs):
    return [(n, c) for n, c, _ in jobs]


if __name__ == "__main__":
    evidence.main_wrapper(main)
