"""C04 runner: answers "what package graph does Bob work on here?" from the REAL code.

Started as a subprocess by checks/c04_pkgmemo.py (and by the repro scripts).  It imports Bob once
from $VERIF_REPO/pym (or /repo/pym), then reads one JSON request per line on stdin and serves each
request in a freshly forked child (= one Bob invocation: nothing in memory survives, on-disk caches
do).  The answer is one JSON line on stdout.

request = {"dir": project dir, "sandbox": bool, "defines": {..}, "configs": [..],
           "runs": [run, ...]}
run     = {"name": str,
           "purge": bool      delete every .bob-* cache file before parsing (cold),
           "pkgck": bool      DEBUG['pkgck'] (the code's own recompute-and-compare),
           "noreuse": bool    both in-memory tables disabled: PackageMatcher.matches -> False and
                              Recipe.__corePackagesById never returns an earlier package,
           "requery": [bool]  further generatePackages() calls on the SAME RecipeSet; True = the
                              package pickle is removed first (the in-memory tables must answer)}
answer  = {"runs": {name: {"dumps": [dump, ...], "info": {...}} | {"error": ...}}, "stderr": text}

Everything is import-safe: nothing happens at import time.
"""
import json
import os
import sys

CACHE_FILES = [".bob-cache.sqlite3", ".bob-packages.pickle", ".bob-packages-sb.pickle", ".bob-tree.sqlite3",
               ".bob-packages.pickle.new", ".bob-packages-sb.pickle.new",
               ".bob-cache.sqlite3-journal", ".bob-tree.sqlite3-journal"]
QUERIES = ["//*", "/*", "/*/*", "//mid/*", "//lib", "top-2//*"]


def purge_caches(d="."):
    for n in CACHE_FILES:
        try:
            os.unlink(os.path.join(d, n))
        except FileNotFoundError:
            pass


def norm(x):
    """JSON-able, order-normalised copy of any value handed out by the API."""
    import enum
    if x is None or isinstance(x, (bool, int, str)):
        return x
    if isinstance(x, float):
        return repr(x)
    if isinstance(x, (bytes, bytearray)):
        return "hex:" + bytes(x).hex()
    if isinstance(x, enum.Enum):
        return "enum:" + x.name
    if isinstance(x, dict) or hasattr(x, "items"):
        return {(k.name if isinstance(k, enum.Enum) else str(k)): norm(v) for k, v in x.items()}
    if isinstance(x, (set, frozenset)):
        return sorted((norm(i) for i in x), key=lambda v: json.dumps(v, sort_keys=True))
    if isinstance(x, (list, tuple)):
        return [norm(i) for i in x]
    return "%s:%s" % (type(x).__name__, str(x))


class Dumper:
    """Full dump of a package tree, recursively from the root package."""

    def __init__(self):
        self.pkgs = {}
        self.ids = {}
        self.order = []

    def ref(self, step):
        return ["/".join(step.getPackage().getStack()), step.getLabel(), step.getVariantId().hex()]

    def tool(self, t):
        self.package(t.getStep().getPackage())
        return {"step": self.ref(t.getStep()), "path": t.getPath(), "libs": norm(t.getLibs()),
                "netAccess": t.getNetAccess(), "environment": norm(t.getEnvironment()),
                "fingerprintScript": norm(t.fingerprintScript), "fingerprintVars": norm(t.fingerprintVars),
                "dependTools": norm(t.getDependTools()), "dependToolsWeak": norm(t.getDependToolsWeak())}

    def sandbox(self, s):
        if s is None:
            return None
        self.package(s.getStep().getPackage())
        return {"step": self.ref(s.getStep()), "paths": norm(s.getPaths()), "mounts": norm(s.getMounts()),
                "environment": norm(s.getEnvironment()), "enabled": s.isEnabled(), "user": s.getUser()}

    def step(self, s):
        cs = s._coreStep
        d = {
            "label": s.getLabel(), "valid": s.isValid(), "variantId": s.getVariantId().hex(),
            "resultId": cs.getResultId().hex(),
            "workspacePath": s.getWorkspacePath(), "stablePaths": s.stablePaths(),
            "kind": [s.isCheckoutStep(), s.isBuildStep(), s.isPackageStep()],
            "relocatable": s.isRelocatable(), "shared": s.isShared(),
            "deterministic": s.isDeterministic(), "updateDeterministic": s.isUpdateDeterministic(),
            "netAccess": s.hasNetAccess(), "jobServer": norm(s.jobServer()),
            "fingerprinted": s._isFingerprinted(), "fingerprintScript": s._getFingerprintScript(),
            "digestScript": s.getDigestScript(), "setupScript": s.getSetupScript(),
            "mainScript": s.getMainScript(), "script": s.getScript(), "updateScript": s.getUpdateScript(),
            "preRunCmds": norm(s.getPreRunCmds()), "postRunCmds": norm(s.getPostRunCmds()),
            "env": norm(s.getEnv()), "digestEnv": norm(cs.digestEnv),
            "tools": {n: self.tool(t) for n, t in sorted(s.getTools().items())},
            "toolKeys": norm(s.toolDep), "toolKeysWeak": norm(s.toolDepWeak),
            "sandbox": self.sandbox(s.getSandbox()),
            "arguments": [self.ref(a) for a in s.getArguments()],
            "allDepSteps": [self.ref(a) for a in s.getAllDepSteps()],
            "auditFileNames": norm(s.getAuditFileNames()),
            "providesTools": s.doesProvideTools(),
            "providedDeps": [self.ref(a) for a in s._getProvidedDeps()],
            "providedEnv": norm(cs.providedEnv),
            "providedTools": {n: t.resultId.hex() for n, t in sorted(cs.providedTools.items())},
            "providedSandbox": cs.providedSandbox.resultId.hex() if cs.providedSandbox is not None else None,
        }
        if s.isCheckoutStep():
            d["liveBuildId"] = s.hasLiveBuildId()
            d["scmList"] = [[norm(m.getProperties(False)), [norm(o.__getstate__()) for o in m.getActiveOverrides()],
                             [str(o) for o in m.getActiveOverrides()], m.asDigestScript(), m.getDirectory()]
                            for m in s.getScmList()]
            d["scmDirectories"] = norm({k: [h.hex(), p] for k, (h, p) in s.getScmDirectories().items()})
        for a in s.getArguments():
            self.package(a.getPackage())
        return d

    def package(self, p):
        key = "/".join(p.getStack())
        if key in self.pkgs:
            return key
        self.pkgs[key] = None   # reserved (the tree is acyclic; guards re-entrance through tools)
        self.order.append(key)
        r = p.getRecipe()
        direct = [d.getPackage() for d in p.getDirectDepSteps()]
        indirect = [d.getPackage() for d in p.getIndirectDepSteps()]
        d = {
            "name": p.getName(), "stack": list(p.getStack()),
            "id": self.ids.setdefault(p._getId(), len(self.ids)),
            "recipe": {"name": r.getName(), "packageName": r.getPackageName(), "layer": r.getLayer(),
                       "sources": norm(r.getSources()), "root": r.isRoot()},
            "metaEnv": norm(p.getMetaEnv()), "relocatable": p.isRelocatable(), "shared": p.isShared(),
            "alias": p.isAlias(), "states": norm({n: repr(s) for n, s in p.getPluginStates().items()}),
            "ambientTools": sorted(p._getAllTools().keys()), "inputTools": sorted(p._getInputTools().keys()),
            "direct": ["/".join(q.getStack()) for q in direct],
            "indirect": ["/".join(q.getStack()) for q in indirect],
            "allDepSteps": [self.ref(a) for a in p.getAllDepSteps()],
            "steps": {"src": self.step(p.getCheckoutStep()), "build": self.step(p.getBuildStep()),
                      "dist": self.step(p.getPackageStep())},
        }
        self.pkgs[key] = d
        for q in direct + indirect:
            self.package(q)
        return key


def dump_recipeset(rs):
    return {
        "rootEnv": norm(rs.getRootEnv().detach()), "defaultEnv": norm(rs.defaultEnv()),
        "whiteList": norm(rs.envWhiteList()), "scmOverrides": [str(o) for o in rs.scmOverrides()],
        "scmDefaults": norm(rs.scmDefaults()),
        "sandbox": [norm(rs.getSandboxMounts()), norm(rs.getSandboxPaths()), norm(rs.getSandboxUser())],
        "archive": norm(rs.archiveSpec()), "command": norm(rs.getCommandConfig()),
        "recipes": sorted(rs.getRecipes()),
    }


def name_formatter(step, states):
    return "work/" + step.getPackage().getName().replace("::", "/") + "/" + step.getLabel()


def dump_query(ps):
    """One 'Bob query': the complete package tree + path queries (these go through .bob-tree.sqlite3)."""
    info = {}
    key = ps.getCacheKey()
    info["pickle"] = {}
    for n in (".bob-packages.pickle", ".bob-packages-sb.pickle"):
        try:
            with open(n, "rb") as f:
                info["pickle"][n] = f.read(len(key)) == key
        except FileNotFoundError:
            info["pickle"][n] = None
    try:
        import sqlite3
        if os.path.exists(".bob-tree.sqlite3"):
            con = sqlite3.connect("file:.bob-tree.sqlite3?mode=ro", uri=True)
            try:
                row = con.execute("SELECT value FROM meta WHERE key='vsn'").fetchone()
                info["treeHit"] = bool(row) and row[0] == key
            finally:
                con.close()
        else:
            info["treeHit"] = False
    except Exception as e:   # unreadable db: Bob will report it itself
        info["treeHit"] = "unknown: %s" % e
    try:
        dmp = Dumper()
        dmp.package(ps.getRootPackage())
        out = {"packages": dmp.pkgs, "order": dmp.order}
        out["queries"] = {q: sorted("/".join(p.getStack()) for p in ps.queryPackagePath(q)) for q in QUERIES}
        out["treeQuery"] = sorted(["/".join(st), node.getName()] for st, node in ps.queryTreePath("//*", True))
        out["aliases"] = sorted(ps.getAliases())
    finally:
        ps.close()
    return out, info


class Counters:
    """Semantics-preserving probes: which cache answered?  (M layer observation only.)"""

    def __init__(self):
        import bob.input as bi
        self.bi = bi
        self.yaml = {}
        self.hits = {}
        self.comps = {}
        self.parsed = 0
        orig_yaml_load = bi.yamlLoad
        orig_load = bi.YamlCache.loadYaml
        orig_init = bi.PackageMatcher.__init__
        orig_touch = bi.PackageMatcher.touch
        me = self

        def yaml_load(*a, **kw):
            me.parsed += 1
            return orig_yaml_load(*a, **kw)

        def load(cache, name, *a, **kw):
            before = me.parsed
            existed = os.path.exists(name)
            try:
                return orig_load(cache, name, *a, **kw)
            finally:
                me.yaml[name] = "miss" if me.parsed > before else ("hit" if existed else "absent")

        def init(m, corePackage, *a, **kw):
            orig_init(m, corePackage, *a, **kw)
            n = corePackage.recipe.getPackageName()
            me.comps[n] = me.comps.get(n, 0) + 1

        def touch(m, *a, **kw):
            n = m.corePackage.recipe.getPackageName()
            me.hits[n] = me.hits.get(n, 0) + 1
            return orig_touch(m, *a, **kw)

        bi.yamlLoad = yaml_load
        bi.YamlCache.loadYaml = load
        bi.PackageMatcher.__init__ = init
        bi.PackageMatcher.touch = touch

    def take(self):
        r = {"hits": self.hits, "comps": self.comps}
        self.hits, self.comps = {}, {}
        return r


def one_run(req, run, counters):
    import bob
    import bob.input as bi
    bob.DEBUG["ngd"] = True
    bob.DEBUG["pkgck"] = bool(run.get("pkgck"))
    if run.get("noreuse") and not getattr(bi.Recipe, "_vf_noreuse", False):
        bi.PackageMatcher.matches = lambda self, *a, **kw: False

        class NoDedup(dict):
            def setdefault(self, key, value):
                return value
        orig_init = bi.Recipe.__init__

        def init(self, *a, **kw):
            orig_init(self, *a, **kw)
            self._Recipe__corePackagesById = NoDedup()
        bi.Recipe.__init__ = init
        bi.Recipe._vf_noreuse = True
    if run.get("purge"):
        purge_caches()
    sb = bool(req.get("sandbox"))
    rs = bi.RecipeSet()
    rs.setConfigFiles(list(req.get("configs", [])))
    counters.yaml = {}
    rs.parse(dict(req.get("defines", {})))
    info = {"yaml": dict(counters.yaml), "queries": []}
    dumps = []
    rsd = dump_recipeset(rs)
    for drop in [None] + list(run.get("requery", [])):
        if drop:
            try:
                os.unlink(".bob-packages-sb.pickle" if sb else ".bob-packages.pickle")
            except FileNotFoundError:
                pass
        ps = rs.generatePackages(name_formatter, sb)
        d, qi = dump_query(ps)
        d["recipeSet"] = rsd
        qi.update(counters.take())
        dumps.append(d)
        info["queries"].append(qi)
    return {"dumps": dumps, "info": info}


def serve_request(req):
    os.chdir(req["dir"])
    counters = Counters()
    out = {"runs": {}}
    for run in req["runs"]:
        try:
            out["runs"][run["name"]] = one_run(req, run, counters)
        except BaseException as e:   # ParseError, AssertionError of pkgck, ...
            import traceback
            out["runs"][run["name"]] = {"error": "%s: %s" % (type(e).__name__, e),
                                        "trace": traceback.format_exc()[-1500:]}
    return out


def child(req, wfd):
    import tempfile
    errf = tempfile.TemporaryFile()
    os.dup2(errf.fileno(), 2)
    os.dup2(errf.fileno(), 1)
    try:
        out = serve_request(req)
    except BaseException as e:
        import traceback
        out = {"fatal": "%s: %s\n%s" % (type(e).__name__, e, traceback.format_exc()[-2000:])}
    try:
        sys.stdout.flush()
        sys.stderr.flush()
        errf.seek(0)
        out["stderr"] = errf.read().decode("utf-8", "replace")[-4000:]
    except Exception:
        pass
    with os.fdopen(wfd, "w") as w:
        json.dump(out, w)
    os._exit(0)


def serve():
    repo = os.environ.get("VERIF_REPO", "/repo")
    sys.path.insert(0, os.path.join(repo, "pym"))
    sys.dont_write_bytecode = True
    import bob.input      # noqa: F401  (import once; every request runs in a forked child)
    import bob.pathspec   # noqa: F401
    out = sys.stdout
    print(json.dumps({"ready": True, "bob": os.path.dirname(bob.input.__file__)}), file=out, flush=True)
    for line in sys.stdin:
        line = line.strip()
        if not line:
            continue
        req = json.loads(line)
        if req.get("quit"):
            break
        rfd, wfd = os.pipe()
        pid = os.fork()
        if pid == 0:
            os.close(rfd)
            child(req, wfd)
        os.close(wfd)
        with os.fdopen(rfd, "r") as r:
            data = r.read()
        _, status = os.waitpid(pid, 0)
        if not data:
            data = json.dumps({"fatal": "child died with status %d" % status})
        print(data, file=out, flush=True)


if __name__ == "__main__":
    serve()
