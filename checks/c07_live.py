"""C07, live-build-id stage: specs/LiveBuildId.tla (git branch sources, two workspaces, one file archive with the
live-build-id cache commit -> source Build-Id).

(A) TLC: DownloadEqLocal, LiveSound, ArchiveSound hold for the mechanism as the code has it (Weak = {}); the vacuity
    companion ReachPredicted (a package taken by prediction, without checkout) must be reachable.
(B) Counterexamples of the weakening LiveUploadWhenExecuted (mapping uploaded whenever the checkout ran) and
    -simulate behaviours are replayed with a REAL local git upstream, real `bob dev lib --download yes|no [--upload]`
    runs in two real workspaces at different paths and a real file archive.
Oracle (P, independent of the model): after every invocation the package result must hold the content a purely
local build of the workspace's project state yields: the file in the workspace's own source checkout if there is
one, else the content of the upstream branch tip.
"""
import json
import os
import shutil
import subprocess

from vf import common, tlc, bobrun

RECIPE = """\
root: True
checkoutSCM:
    scm: git
    url: "{url}"
    branch: master
    dir: .
buildScript: |
    cp "$1/data.txt" .
packageScript: |
    cp "$1/data.txt" .
"""


def _git(args, cwd):
    e = common.clean_env({"GIT_AUTHOR_DATE": "2020-01-01T00:00:00 +0000", "GIT_COMMITTER_DATE": "2020-01-01T00:00:00 +0000"})
    p = subprocess.run(["git"] + args, cwd=cwd, env=e, stdout=subprocess.PIPE, stderr=subprocess.STDOUT)
    if p.returncode != 0:
        raise RuntimeError("git %s failed: %s" % (args, p.stdout.decode(errors="replace")[-500:]))
    return p.stdout.decode()


def shape_of(hist):
    s = []
    for a in hist:
        if a["a"] == "Build":
            s.append("B:%s%s%s" % (a["w"], "+up" if a["up"] else "", "+dl" if a["dl"] else ""))
        elif a["a"] == "Hack":
            s.append("H:" + a["w"])
        else:
            s.append("C")
    return " ".join(s)


def replay_task(arg):
    i, hist, origin = arg
    common.use_repo()
    work = common.scratch("vf-c07l-")
    viol, drift, inv, feats = [], [], 0, set()
    try:
        up = os.path.join(work, "upstream", "lib.git")
        os.makedirs(up)
        _git(["init", "-q", "-b", "master", "."], up)
        head = 0
        open(os.path.join(up, "data.txt"), "w").write("commit 0\n")
        _git(["add", "data.txt"], up)
        _git(["commit", "-q", "-m", "c0"], up)
        arch = os.path.join(work, "archive")
        os.makedirs(arch)
        ws = {"w1": os.path.join(work, "one", "proj"), "w2": os.path.join(work, "some", "where", "else", "proj")}
        for w in ws.values():
            bobrun.write_files(w, {"config.yaml": 'bobMinimumVersion: "0.25"\n',
                                   "default.yaml": 'archive:\n    backend: file\n    path: "%s"\n' % arch,
                                   "recipes/lib.yaml": RECIPE.format(url=up)})
        nhack = 0
        for a in hist:
            if a["a"] == "Commit":
                head += 1
                open(os.path.join(up, "data.txt"), "w").write("commit %d\n" % head)
                _git(["commit", "-q", "-a", "-m", "c%d" % head], up)
            elif a["a"] == "Hack":
                srcf = os.path.join(ws[a["w"]], "dev", "src", "lib", "1", "workspace", "data.txt")
                if not os.path.exists(srcf):
                    drift.append("model hacks %s but there is no checkout" % a["w"])
                    break
                nhack += 1
                open(srcf, "w").write("local uncommitted hack %d\n" % nhack)
                feats.add("hack")
            elif a["a"] == "Build":
                w = ws[a["w"]]
                cmd = ["dev", "lib", "--download", "yes" if a["dl"] else "no"] + (["--upload"] if a["up"] else [])
                r = bobrun.run_bob(w, cmd, record=False)
                inv += 1
                if r.rc != 0:
                    viol.append(("live:invocation-failed", {"rc": r.rc, "out": r.out[-2000:], "hist": hist}))
                    break
                srcf = os.path.join(w, "dev", "src", "lib", "1", "workspace", "data.txt")
                want = open(srcf).read() if os.path.exists(srcf) else "commit %d\n" % head
                distf = os.path.join(w, "dev", "dist", "lib", "1", "workspace", "data.txt")
                got = open(distf).read() if os.path.exists(distf) else None
                real_how = "predicted" if not os.path.exists(srcf) else "checkout"
                feats.add("how:" + real_how)
                if (a["how"] == "predicted") != (real_how == "predicted"):
                    drift.append("%s: model %s, real %s" % (shape_of(hist), a["how"], real_how))
                if got != want:
                    viol.append(("live:download-differs-from-local-build:" + real_how,
                                 {"hist": hist, "got": got, "want": want, "workspace": a["w"], "out": r.out[-1500:]}))
                    break
    finally:
        shutil.rmtree(work, ignore_errors=True)
    return {"i": i, "origin": origin, "shape": shape_of(hist), "violations": viol, "drift": drift, "invocations": inv,
            "features": sorted(feats)}


def stage(rep, quick, seed, rng, pool_size):
    import multiprocessing as mp
    res = tlc.run("LiveBuildId", "LiveBuildId.cfg", coverage=True, timeout=900)
    rep.add_tlc(res, "LiveBuildId exhaustive (Weak={})")
    if res.violated:
        rep.violation("model:live:" + res.violated, {"cex": [c[0] for c in res.cex]})
    tlc.require_coverage(res, ["Commit", "Hack", "Build"], "LiveBuildId.cfg")
    r2 = tlc.run("LiveBuildId", "LiveBuildId_reach_ReachPredicted.cfg", timeout=300)
    if r2.violated != "ReachPredicted":
        raise tlc.TlcError("vacuity: ReachPredicted not reachable")
    w = tlc.run("LiveBuildId", "LiveBuildId_weak_LiveUploadWhenExecuted.cfg", timeout=600)
    if not w.printed:
        raise tlc.TlcError("weakened model LiveUploadWhenExecuted produced no counterexample (vacuous weakening)")
    rep.add_tlc(w, "LiveBuildId Weak={LiveUploadWhenExecuted} (counterexample generation)")
    by = {}
    for h in w.printed:
        by.setdefault(shape_of(h), h)
    keys = sorted(by, key=lambda s: (len(by[s]), s))
    cex = [by[k] for k in keys[:2]] + [by[k] for k in rng.sample(keys[2:], min(len(keys) - 2, 2 if quick else 20))] if len(keys) > 2 else list(by.values())
    g = tlc.run("LiveBuildId", "LiveBuildId_gen.cfg", workers=1, simulate="num=%d" % (60 if quick else 600), depth=8,
                seed=seed + 3, timeout=600)
    sims = {}
    for h in g.printed:
        if any(a["a"] == "Build" and a["how"] == "predicted" for a in h) or any(a["a"] == "Hack" for a in h):
            sims.setdefault(shape_of(h), h)
    skeys = sorted(sims)
    rng.shuffle(skeys)
    sel = [sims[k] for k in skeys[:(6 if quick else 120)]]
    rep.extra["live_build_id"] = {"counterexamples_found": len(w.printed), "counterexample_shapes": len(by),
                                  "replayed_cex": len(cex), "simulated": len(g.printed), "replayed_sim": len(sel)}
    tasks = [(i, h, "cex:LiveUploadWhenExecuted") for i, h in enumerate(cex)] + \
            [(1000 + i, h, "simulate-live") for i, h in enumerate(sel)]
    with mp.get_context("fork").Pool(pool_size) as pool:
        for r in pool.imap_unordered(replay_task, tasks):
            rep.traces += 1
            rep.evaluations += r["invocations"]
            for f in r["features"]:
                rep.nontriv("live:" + f)
            rep.nontriv("live:" + r["shape"])
            if r["origin"].startswith("simulate"):      # counterexamples stem from a weakened model: only P is judged
                for d in r["drift"]:
                    rep.model_drift("live: " + d)
            for sig, detail in r["violations"]:
                detail["origin"] = r["origin"]
                rep.violation(sig, detail)
            if r["i"] in (0, 1000):
                rep.sample({"origin": r["origin"], "behaviour": r["shape"], "stage": "live-build-id"})
