"""C05  Failed or killed builds never poison the workspace.

(A) TLC checks specs/BobBuild.tla exhaustively with Kill enabled between every two micro-
    operations of the builder (every persistent-state update and every destructive file-system
    effect), Kill inside a running script and failing scripts, edits (incl. reverts) between
    the abort and the next invocation.
(B) Behaviours replayed into real `bob dev` runs on generated projects (vf.boblaunch kill plans
    / control files for failing and killing scripts):
      * TLC counterexamples of *weakened* mechanism models (prune-before-reset, no invalidation
        before run, inputs recorded before run, no prune on digest change): the shapes on which
        a mistake in exactly that mechanism shows; the real code must not show the violation;
      * TLC -simulate behaviours of the unweakened model;
      * thorough: additionally every recorded event of an interrupted invocation as kill point.
Oracle (P): the invocation after the abort(s) exits 0 and every dist tree equals a real clean
build of the same project state.
"""
import json
import multiprocessing as mp
import os
import random
import shutil

from vf import common, tlc, evidence
from checks import bobbuild_common as bc

PROP = "C05"
WEAK = ["PruneBeforeReset", "NoInvalidateBeforeRun", "CommitInputsBeforeRun", "NoPruneOnDigestChange", "CheckoutStateBeforeRun", "NoPruneWhenStateless"]
ACTIONS = ["Edit", "Begin", "End", "Kill", "PrepStart", "PrepInval", "PrepPrune", "PrepReset", "PrepDone",
           "CoStart", "CoReason", "CoStore", "CoForge", "CoRun", "CoRunFail", "CoRunKilled", "CoCommit", "CoSetRes", "BuStart", "BuInval", "BuPrune", "BuReset",
           "BuSkip", "BuInv1", "BuInv2", "BuRunOk", "BuRunFail", "BuRunKilled", "BuC1", "BuC2", "BuC3",
           "PkStart", "PkSkip", "PkInv1", "PkInv2", "PkRunOk", "PkRunFail", "PkRunKilled", "PkC1", "PkC2", "PkC3"]


def replay_task(arg):
    i, hist, origin, release, jobs, cache = arg[:6]
    override = arg[6] if len(arg) > 6 else None
    work = common.scratch("vf-c05-")
    try:
        r = bc.BehaviourReplay(hist, work, bc.Oracle(cache), release=release, jobs=jobs, kill_override=override).run()
    finally:
        shutil.rmtree(work, ignore_errors=True)
    nt = sorted(r.nontrivial) + (["kill-at-event-%d" % override] if override is not None else [])
    return {"i": i, "origin": origin, "violations": r.violations, "drift": [] if override is not None else r.drift,
            "invocations": r.invocations, "nontrivial": nt, "shape": bc.shape_of(hist), "oracle_builds": r.oracle.builds,
            "first_kill_events": r.first_kill_events, "hist": hist if override is None else None, "override": override}


def select(hists, limit, rng, need=lambda h: True):
    """dedupe by shape, keep at most `limit`: round-robin over the classes of abort points (which step of which
    kind was killed / failed where, and the command line variant) so that every kind of abort point a weakened
    mechanism yields is replayed, short histories first within a class"""
    by = {}
    for h in hists:
        if not need(h):
            continue
        s = bc.shape_of(h)
        if s not in by or len(h) < len(by[s]):
            by[s] = h
    classes = {}
    for s, h in by.items():
        c = tuple(sorted({(x["a"], x.get("k"), x.get("at", "")) for x in h if x["a"] in ("Kill", "Fail")} |
                         {("flag", x.get("flag"), "") for x in h if x["a"] == "Begin" and x.get("flag", "plain") != "plain"}))
        classes.setdefault(c, []).append(s)
    order = sorted(classes, key=repr)
    for c in order:
        classes[c].sort(key=lambda s: (len(by[s]), s))
        head, rest = classes[c][:1], classes[c][1:]
        rng.shuffle(rest)
        classes[c] = head + rest
    rng.shuffle(order)
    out = []
    while len(out) < limit and any(classes.values()):
        for c in order:
            if classes[c] and len(out) < limit:
                out.append(by[classes[c].pop(0)])
    return out


def replay_file(path):
    """bin/check C05 --replay FILE: re-run the stored behaviour against the current tree"""
    import json
    d = json.load(open(path))["detail"]
    cache = common.scratch("vf-c05-oracle-")
    r = replay_task((0, d["hist"], d.get("origin", "replay"), d.get("mode") == "release", d.get("jobs", 1), cache,
                     d.get("kill_at_event")))
    for sig, detail in r["violations"]:
        print("VIOLATION property=%s replay=%s" % (PROP, path))
        print("  signature: %s" % sig)
    print("replayed %s: %d violations, drift=%s" % (r["shape"], len(r["violations"]), r["drift"]))
    return 1 if r["violations"] else 0


def main():
    a = common.args(PROP)
    if a.replay:
        return replay_file(a.replay)
    rep = evidence.Report(PROP, a.tier, a.seed)
    quick = a.tier == "quick"
    rng = random.Random(a.seed)
    rep.rule = ("behaviour = edit/invocation/abort history from TLC (counterexamples of weakened mechanism models + "
                "-simulate runs) replayed with real bob invocations; non-trivial = distinct (abort kind, step, "
                "micro-operation) kill/fail points and recovery depths exercised on the real code; evaluations = real bob invocations")
    rep.assumptions = ["step scripts are deterministic functions of their declared inputs (generated that way)",
                       "kill -9 emulated by os._exit(137) of the Bob process between two recorded persistent-state updates, "
                       "or by the running step script killing its parent",
                       "develop mode, import SCM sources, local builds only (no archive/share)"]
    # (A) + generation: all TLC jobs are independent and run concurrently
    num = 120 if quick else 800
    jobs = [("main", "BobBuild", "BobBuild.cfg" if quick else "BobBuild_thorough.cfg", dict(coverage=True, timeout=3000))]
    jobs += [("reach:" + inv, "BobBuild", "BobBuild_reach_%s.cfg" % inv, dict(timeout=900)) for inv in ("ReachPruneThenOk", "ReachSkip")]
    jobs += [("weak:" + w, "BobBuild", "BobBuild_weak_%s.cfg" % w, dict(timeout=1800)) for w in WEAK]
    jobs += [("gen", "BobBuild", "BobBuild_gen.cfg", dict(workers=1, simulate="num=%d" % num, depth=160, seed=a.seed + 1, timeout=900)),
             # aborts inside and between plain / --build-only / --force invocations (BobBuild.tla Flags)
             ("flags", "BobBuild", "BobBuild_flags.cfg" if quick else "BobBuild_flags_thorough.cfg", dict(timeout=3000)),
             ("genflags", "BobBuild", "BobBuild_gen_flags.cfg",
              dict(workers=1, simulate="num=%d" % (80 if quick else 500), depth=200, seed=a.seed + 7, timeout=900))]
    out = tlc.run_many(jobs, parallel=5)
    res = out["main"]
    rep.add_tlc(res, "BobBuild exhaustive (Weak={})")
    if res.violated:
        rep.violation("model:" + res.violated, {"cex": [c[0] for c in res.cex]})
    tlc.require_coverage(res, ACTIONS, "BobBuild.cfg")
    rep.add_tlc(out["flags"], "BobBuild exhaustive, aborts with plain/--build-only/--force invocations")
    if out["flags"].violated:
        rep.violation("model:flags:" + out["flags"].violated, {"cex": [c[0] for c in out["flags"].cex]})
    for inv in ("ReachPruneThenOk", "ReachSkip"):
        if out["reach:" + inv].violated != inv:
            raise tlc.TlcError("vacuity: %s not reachable" % inv)
    # (B) targeted behaviours from weakened mechanisms
    behaviours = []
    for w in WEAK:
        r = out["weak:" + w]
        if not r.printed:
            raise tlc.TlcError("weakened model %s produced no counterexample (vacuous weakening)" % w)
        rep.add_tlc(r, "BobBuild Weak={%s} (counterexample generation)" % w)
        sel = select(r.printed, 7 if quick else 30, rng)
        rep.extra.setdefault("weakened_model_counterexamples", {})[w] = {"found": len(r.printed), "replayed": len(sel)}
        behaviours += [(h, "cex:" + w) for h in sel]
    g = out["gen"]
    sel = select(g.printed, 30 if quick else 250, rng,
                 need=lambda h: any(x["a"] in ("Kill", "Fail") for x in h) and any(x["a"] == "End" for x in h))
    behaviours += [(h, "simulate") for h in sel]
    rep.extra["simulated"] = {"generated": len(g.printed), "replayed": len(sel)}
    gf = out["genflags"]
    self = select(gf.printed, 8 if quick else 100, rng,
                  need=lambda h: (any(x["a"] in ("Kill", "Fail") for x in h) and any(x["a"] == "End" for x in h)
                                  and any(x["a"] == "Begin" and x.get("flag", "plain") != "plain" for x in h)))
    behaviours += [(h, "simulate-flags") for h in self]
    rep.extra["simulated_flags"] = {"generated": len(gf.printed), "replayed": len(self)}
    cache = common.scratch("vf-c05-oracle-")
    tasks = []
    for i, (h, origin) in enumerate(behaviours):
        jobs = 1 if origin.startswith("cex") or rng.random() < 0.7 else 4
        tasks.append((i, h, origin, False, jobs, cache))
    enum_tasks = []
    with mp.get_context("fork").Pool(min(8, common.workers())) as pool:
        for r in pool.imap_unordered(replay_task, tasks):
            if not quick and r["first_kill_events"] and len(enum_tasks) < 1000 and r["origin"].startswith("cex"):
                # thorough: every recorded event of the interrupted invocation as kill point (fault enumeration)
                if sum(1 for t in enum_tasks if t[1] is r["hist"]) == 0 and len({id(t[1]) for t in enum_tasks}) < 20:
                    enum_tasks += [(100000 + len(enum_tasks) + k, r["hist"], r["origin"] + ":enum", False, 1, cache, k)
                                   for k in range(r["first_kill_events"])]
            rep.traces += 1
            rep.evaluations += r["invocations"] + r["oracle_builds"]
            for nt in r["nontrivial"]:
                rep.nontriv(nt)
            for d in r["drift"]:
                rep.model_drift("%s: %s" % (r["shape"], d))
            for sig, detail in r["violations"]:
                detail["origin"] = r["origin"]
                rep.violation(sig, detail)
            if r["i"] % 40 == 0:
                rep.sample({"origin": r["origin"], "behaviour": r["shape"]})
    if enum_tasks:
        rep.extra["kill_points_enumerated"] = len(enum_tasks)
        with mp.get_context("fork").Pool(min(8, common.workers())) as pool:
            for r in pool.imap_unordered(replay_task, enum_tasks):
                rep.traces += 1
                rep.evaluations += r["invocations"] + r["oracle_builds"]
                for nt in r["nontrivial"]:
                    rep.nontriv(nt)
                for sig, detail in r["violations"]:
                    detail["origin"] = r["origin"]
                    detail["kill_at_event"] = r["override"]
                    rep.violation(sig, detail)
    if rep.drift:
        rep.level = "exploration"
    return rep.finish()


if __name__ == "__main__":
    evidence.main_wrapper(main)
