"""C03  Package ids are pure, location independent and long-term stable.

(A) TLC checks specs/VariantId.tla in its configuration dimension (VariantId_c03*.cfg): every base project x
    (no edit | id-irrelevant edit: audit files, metaEnvironment, weak variable value, network access,
    job server, variant of a tool provider) x process configuration [path, hash seed, file creation order,
    sandbox, parse count].  Invariants: Purity (ids equal the reference (base, cfg0) unless the step is
    marked: consumes a sandbox-only variable / queries $(is-sandbox-enabled) / fingerprinted) and
    WeakToolBuildId; reachability configs show that the exceptions do occur.
(B) every TLC state is replayed by real OS processes: the project is written to a fresh directory below a
    path that depends on cfg.path, the files are created in the order given by cfg.ord (which also permutes
    the order of YAML keys and of set-like lists), a child `python` with PYTHONHASHSEED=cfg.seed parses it
    cfg.pc times with the real parser (sandbox image dependencies on/off) and prints Variant-Id and Build-Id
    of every valid step.  Build-Ids are computed by the call the builder makes
    (StepIR.getDigestCoro(..., fingerprint=, platform=, relaxTools=True)) fed with identical supplied
    source hashes and fingerprints.  For every step: "id equals the id in the reference run" must be
    exactly what TLC printed (veq / beq).
(C) golden ids: the `dumper` generator of test/black-box/stable-variant-ids is run by the current tree on a
    scratch copy of that project and compared with the recorded specs/*.txt (fixed table comparison, not
    decided by TLC).

Verdict: any id that differs where the spec says equal (or is equal where the spec says it must differ) is a
violation `vid-differs:<dimensions>` / `bid-differs:..` / `vid-ignores:..` (dimensions = the minimal set of
configuration dimensions / edit in which the failing run differs from the reference; `location` = nothing but
the directory instance differs); golden mismatch `golden:<root>`.
"""
import json
import os
import random
import shutil
import subprocess
import sys

from vf import common, tlc, evidence
from checks import c02_variantid as c02

PROP = "C03"
C03_KINDS = ["audit", "meta", "netaccess", "jobserver", "weakval", "toolvariant"]
GOLDEN_ROOTS = ["checkouts", "env", "include", "sandbox", "tools"]
CFG0 = {"path": "P1", "seed": 0, "ord": 1, "sb": False, "pc": 1}


# ---------------------------------------------------------------------------------------------
# child process: parse the listed project directories and print the ids

def child(jobfile, outfile):
    with open(jobfile) as f:
        jobs = json.load(f)
    c02.import_bob()
    out = {}
    for j in jobs:
        try:
            if "proj" in j:
                write_project(j["dir"], j["proj"], j["cfg"])
            r = None
            for _ in range(j["pc"]):
                r = c02.collect(j["dir"], j["sb"], build_ids=True)
            if "proj" in j and not j.get("keep"):
                shutil.rmtree(j["dir"], ignore_errors=True)
            out[j["id"]] = {"ok": True, "seed": os.environ.get("PYTHONHASHSEED"),
                            "steps": {k: [v["vid"], v.get("bid"), v["sandbox"]] for k, v in r.items()}}
        except Exception as e:  # reported by the parent
            import traceback
            out[j["id"]] = {"ok": False, "error": "%s: %s" % (type(e).__name__, e), "tb": traceback.format_exc()[-1500:]}
    with open(outfile, "w") as f:
        json.dump(out, f)
    return 0


# ---------------------------------------------------------------------------------------------

def project_dir(scratch, cfg, n):
    if cfg["path"] == "P1":
        return os.path.join(scratch, "P1", "j%d" % n)
    return os.path.join(scratch, "elsewhere", "deeper down", "P2-location", "project-%d" % n)


def write_project(root, proj, cfg):
    """file creation order and the order of everything documented as unordered follow cfg.ord"""
    perm = None if cfg["ord"] == 1 else random.Random(cfg["ord"] * 7919)
    files = c02.render(proj, perm)
    names = sorted(files)
    if cfg["ord"] == 2:
        names.reverse()
    elif cfg["ord"] > 2:
        random.Random(cfg["ord"]).shuffle(names)
    os.makedirs(root)
    c02.write_files(root, files, None, None, names)


def child_env(seed):
    return common.clean_env({"PYTHONHASHSEED": str(seed), "PYTHONPATH": common.ROOT, "VERIF_REPO": common.REPO})


def dims(case):
    d = []
    cfg = case["cfg"]
    if cfg["path"] != CFG0["path"]:
        d.append("path")
    if cfg["seed"] != CFG0["seed"]:
        d.append("seed")
    if cfg["ord"] != CFG0["ord"]:
        d.append("order")
    if cfg["sb"]:
        d.append("sandbox")
    if cfg["pc"] != 1:
        d.append("reparse")
    if case["ed"]["k"] != "none":
        d.append("edit-" + case["ed"]["k"])
    return d


def golden(rep, scratch):
    """(C) fixed table: recorded dumps of the reference projects versus the current tree"""
    src = os.path.join(common.REPO, "test", "black-box", "stable-variant-ids")
    dst = os.path.join(scratch, "golden")
    shutil.copytree(src, dst)
    env = common.clean_env({"PYTHONPATH": os.path.join(common.REPO, "pym")})
    result = {}
    for root in GOLDEN_ROOTS:
        out = os.path.join(dst, "out-%s.txt" % root)
        p = subprocess.run([common.PY, os.path.join(common.REPO, "bob"), "--debug=pkgck,ngd,audit", "project", "-n",
                            "--sandbox", "dumper", "root-" + root, out], cwd=dst, env=env, stdout=subprocess.PIPE,
                           stderr=subprocess.STDOUT, text=True, timeout=3000)
        rep.evaluations += 1
        if p.returncode != 0 or not os.path.exists(out):
            result[root] = "generator failed"
            rep.violation("golden:%s" % root, {"what": "dumper generator failed", "rc": p.returncode, "out": p.stdout[-2000:]})
            continue
        with open(out) as f:
            got = [l.rstrip() for l in f.read().splitlines()]
        with open(os.path.join(dst, "specs", root + ".txt")) as f:
            want = [l.rstrip() for l in f.read().splitlines()]
        if got == want:
            result[root] = "equal (%d lines)" % len(want)
        else:
            first = next((i for i, (x, y) in enumerate(zip(got, want)) if x != y), min(len(got), len(want)))
            result[root] = "DIFFERS at line %d" % (first + 1)
            rep.violation("golden:%s" % root, {"what": "ids of the reference project differ from the recorded values",
                                               "line": first + 1, "recorded": want[first:first + 3], "got": got[first:first + 3]})
    rep.extra["golden_table"] = result


def main():
    a = common.args(PROP)
    c02.import_bob()
    rep = evidence.Report(PROP, a.tier, a.seed)
    rep.rule = ("cases = TLC states (base project, id-irrelevant edit or none, configuration), each replayed by a real "
                "OS process (own PYTHONHASHSEED, project directory, file creation order, sandbox flag, parse count); "
                "evaluations = parser runs; non-trivial = distinct (configuration dimensions, edit kind, exception) "
                "combinations; golden_table = fixed comparison with the recorded reference ids")
    rep.assumptions = ["supplied source hashes and fingerprints stand for the checkout results / fingerprint script "
                       "outputs (a fingerprint executed inside the sandbox image differs from the one on the host)",
                       "directory listing order is varied through file creation order on the scratch file system",
                       "platform tag of the machine running the check (linux)"]
    quick = a.tier == "quick"
    cfg = "VariantId_c03.cfg" if quick else "VariantId_c03_thorough.cfg"
    res = c02.run_tlc_checks(rep, cfg, ["ReachSandboxDiffers", "ReachFingerprintDiffers", "ReachWeakToolBIdSame"], C03_KINDS)
    bases = {json.dumps(c["id"]): c for c in res.printed if c["t"] == "base"}
    cases = [c for c in res.printed if c["t"] == "cfg"]
    ncfg = len(cases)
    # control: the reference configuration once more in another directory instance (location / timestamps /
    # inode numbers are the only difference); decided by the property itself, not printed by TLC
    for bid, b in sorted(bases.items()):
        keys = [k for k, _ in b["steps"]]
        cases.append({"t": "ctl", "id": b["id"], "ed": {"k": "none", "h": "none", "t": "", "x": "", "y": ""}, "hv": "",
                      "cfg": dict(CFG0), "keys": keys, "veq": [True] * len(keys), "beq": [True] * len(keys),
                      "mk": [{"env": False, "fp": False}] * len(keys),
                      "fl": [[f["kind"], f["fp"], False] for _, f in b["steps"]]})
    for dim, vals in (("path", {"P1", "P2"}), ("seed", {0, 1, 2}), ("sb", {True, False}), ("pc", {1, 2})):
        if {c["cfg"][dim] for c in cases[:ncfg]} != vals:
            raise tlc.TlcError("vacuity: configuration dimension %s not fully covered" % dim)
    c02.prefer_tmpfs()
    scratch = common.scratch("c03-")
    # reference runs (base, cfg0) and all configuration cases become jobs of child processes
    jobs = []
    for bid, b in sorted(bases.items()):
        jobs.append({"id": "ref|" + bid, "cfg": CFG0, "proj": b["proj"]})
    rng = random.Random(a.seed)
    for n, c in enumerate(cases):
        bid = json.dumps(c["id"])
        proj = bases[bid]["proj"] if c["ed"]["k"] == "none" else c02.apply_edit(bases[bid]["proj"], c["ed"], c["hv"])
        jobs.append({"id": "case|%d" % n, "cfg": c["cfg"], "proj": proj})
    # the child processes create the project directories themselves (file creation order = cfg.ord)
    by_seed = {}
    for n, j in enumerate(jobs):
        by_seed.setdefault(j["cfg"]["seed"], []).append({"id": j["id"], "dir": project_dir(scratch, j["cfg"], n),
                                                         "sb": j["cfg"]["sb"], "pc": j["cfg"]["pc"], "cfg": j["cfg"],
                                                         "proj": j["proj"], "keep": a.keep})
    nshard = max(1, c02.nworkers() // max(1, len(by_seed)) + 1)
    procs = []
    for seed, l in sorted(by_seed.items()):
        rng.shuffle(l)
        for s in range(nshard):
            part = l[s::nshard]
            if not part:
                continue
            jf = os.path.join(scratch, "jobs-%d-%d.json" % (seed, s))
            of = os.path.join(scratch, "out-%d-%d.json" % (seed, s))
            with open(jf, "w") as f:
                json.dump(part, f)
            env = child_env(seed)
            lf = open(os.path.join(scratch, "log-%d-%d.txt" % (seed, s)), "w")
            procs.append((subprocess.Popen([common.PY, "-m", "checks.c03_idpurity", "--child", jf, of], cwd=common.ROOT,
                                           env=env, stdout=lf, stderr=subprocess.STDOUT), of, lf, seed))
    results = {}
    for p, of, lf, seed in procs:
        rc = p.wait(timeout=30000)
        lf.close()
        if rc != 0 or not os.path.exists(of):
            with open(lf.name) as f:
                raise RuntimeError("child process (seed %d) failed rc=%s:\n%s" % (seed, rc, f.read()[-3000:]))
        with open(of) as f:
            results.update(json.load(f))
    rep.extra["os_processes"] = len(procs)
    rep.extra["hash_seeds"] = sorted(by_seed)
    # compare
    reported = {}          # signature kind -> list of minimal dimension sets already reported

    def report(kind, case, detail):
        ds = dims(case)
        for prev in reported.setdefault(kind, []):
            if set(prev) <= set(ds):
                return
        reported[kind].append(ds)
        rep.violation("%s:%s" % (kind, "+".join(ds) or "location"), detail)

    order = sorted(range(len(cases)), key=lambda n: (len(dims(cases[n])), n))
    exc_v = exc_b = 0
    for n in order:
        c = cases[n]
        bid = json.dumps(c["id"])
        ref = results["ref|" + bid]
        got = results["case|%d" % n]
        if not ref["ok"]:
            raise RuntimeError("reference project %s does not parse: %s\n%s" % (bid, ref["error"], ref.get("tb")))
        if not got["ok"]:
            rep.model_drift("case %s %s: parser rejects the project: %s" % (bid, json.dumps(c["ed"]), got["error"]))
            continue
        rep.traces += 1
        rep.evaluations += c["cfg"]["pc"]
        keys = [c02.tkey(k) for k in c["keys"]]
        if sorted(keys) != sorted(got["steps"]) or sorted(keys) != sorted(ref["steps"]):
            rep.model_drift("case %s %s %s: valid steps %s, spec %s" % (bid, json.dumps(c["ed"]), json.dumps(c["cfg"]),
                                                                       sorted(got["steps"]), sorted(keys)))
            continue
        ds = dims(c)
        for j, k in enumerate(keys):
            vid, bidv, sbx = got["steps"][k]
            rvid, rbid, _ = ref["steps"][k]
            mk = c["mk"][j]
            tag = "+".join(ds) or "reference"
            if c["fl"][j][2] != sbx:
                rep.model_drift("case %s %s: step %s sandboxed=%s, spec %s" % (bid, json.dumps(c["cfg"]), k, sbx, c["fl"][j][2]))
            detail = {"base": c["id"], "edit": c["ed"], "cfg": c["cfg"], "step": k, "marks": mk,
                      "process_hash_seed": got["seed"]}
            if c["veq"][j] and vid != rvid:
                report("vid-differs", c, dict(detail, what="Variant-Id differs from the reference run", ref=rvid, got=vid))
            elif not c["veq"][j] and vid == rvid:
                report("vid-ignores", c, dict(detail, what="Variant-Id equals the reference although the executed tuple differs"))
            if c["beq"][j] and bidv != rbid:
                report("bid-differs", c, dict(detail, what="Build-Id differs from the reference run", ref=rbid, got=bidv))
            elif not c["beq"][j] and bidv == rbid:
                report("bid-ignores", c, dict(detail, what="Build-Id equals the reference although the build tuple differs"))
            if not c["veq"][j]:
                exc_v += 1
                rep.nontriv("vid-exception:%s:%s" % (tag, "env" if mk["env"] else "fp" if mk["fp"] else "edit"))
            if not c["beq"][j]:
                exc_b += 1
            if c["veq"][j] != c["beq"][j]:
                rep.nontriv("vid/bid-split:%s" % tag)
        rep.nontriv("dims:" + ("+".join(ds) or "reference"))
        if n < 3:
            rep.sample({"base": c["id"], "edit": c["ed"], "cfg": c["cfg"], "steps": len(keys),
                        "must_equal_reference": [sum(c["veq"]), sum(c["beq"])]})
    rep.extra["steps_expected_to_differ"] = {"variant_id": exc_v, "build_id": exc_b}
    rep.extra["base_projects"] = len(bases)
    rep.extra["configurations_per_case"] = len({json.dumps(c["cfg"], sort_keys=True) for c in cases})
    if exc_v == 0 or exc_b == 0:
        raise tlc.TlcError("vacuity: no step was expected to differ (exceptions never exercised)")
    golden(rep, scratch)
    if rep.drift:
        rep.level = "exploration"
    if not a.keep:
        shutil.rmtree(scratch, ignore_errors=True)
    return rep.finish()


if __name__ == "__main__":
    if len(sys.argv) >= 4 and sys.argv[1] == "--child":
        sys.exit(child(sys.argv[2], sys.argv[3]))
    evidence.main_wrapper(main)
