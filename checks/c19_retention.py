"""C19  Archive retention keeps exactly what is selected or referenced.

(A) TLC checks specs/ArchiveRetention.tla exhaustively with the intended index semantics
    (Sweep = "both"): every history of <= MaxHist uploads / external removals interleaved
    with <= MaxCmd scan/clean/find commands (all of --dry-run, -n) over <= MaxArt artifacts,
    plus (thorough) the selection semantics over ALL archives of 4 artifacts x all catalogued
    expressions.  Coverage of every action and two reachability configs control vacuity.
    The same model with the index handling of the code as found (Sweep = "none") is given
    to TLC as well: what TLC finds there is reported as information and its counterexample
    is replayed on the real code first (it is the shape of suspected defect S5).
(B) TLC -simulate generates histories (Add / Remove / Scan / Clean / Find with expression
    lists, --dry-run, -n).  Each one is replayed with REAL artifacts (bob.audit.Audit objects
    wired with addArg/addTool/setSandbox, packed by LocalArchive._uploadPackage) in a scratch
    `file` archive by calling bob.cmds.archive.doArchive(["-l", ...]) in-process -- twice:
    with the long-lived .bob-archive.sqlite3 ("warm") and with the index deleted before
    every command ("fresh").
(C) Every observed transition (archive before, command, archive after, output) is judged by
    TLC with the P layer only (specs/TraceArchiveRetention.tla evaluates the step properties
    of ArchiveRetention on exactly the observed step).

Verdict: an observed step on which a step property of the P layer is false is a violation.
The signature names the shape: <index condition>:<what went wrong>[:limit], e.g.
"stale-index-phantom:selected-deleted:limit".  Differences between the real index / real
choice among ties and the model's are model_drift / tie statistics, never violations.
"""
import concurrent.futures as cf
import contextlib
import hashlib
import io
import json
import multiprocessing as mp
import os
import random
import re
import shutil
import sqlite3
import sys
from datetime import datetime, timedelta, timezone

from vf import common, tlc, evidence

PROP = "C19"
NART = 4
ACTIONS = ["Add", "RemoveExternally", "Scan", "Clean", "Find"]
ABSENT = {"ex": False, "pkg": "-", "date": 0, "rank": 0}
TGZ_RE = re.compile(r"^[0-9a-f]{2}/[0-9a-f]{2}/[0-9a-f]{36}-1\.tgz$")
DBNAME = ".bob-archive.sqlite3"
WORKERS = max(1, int(os.environ.get("VF_WORKERS", "16") or 16))   # cap on processes / TLC workers


# --------------------------------------------------------------------------------------
# instantiation of the abstract values (by seed)

class World:
    """Real values for one behaviour: package names, dates, ranks, build-ids, reference styles."""

    ALPHA = "abcdefghijklmnopqrstuvwxyzABCDEFGHIJKLMNOPQRSTUVWXYZ0123456789/-_.:+ @#%&()[]{}<>=!|'éü中"

    def __init__(self, seed, refs):
        rng = self.rng = random.Random(seed)
        self.refs = refs                       # id -> sorted list of referenced ids
        names = set()
        while len(names) < 3:
            n = "".join(rng.choice(self.ALPHA) for _ in range(rng.randint(1, 12)))
            if rng.random() < 0.15:
                n += '"' + rng.choice("xyz")    # embedded double quote (escaped with \ in expressions)
            if n.strip() == n:
                names.add(n)
        names = sorted(names)
        rng.shuffle(names)
        self.pkg = dict(zip("pqr", names))
        base = datetime(2017 + rng.randint(0, 8), rng.randint(1, 12), rng.randint(1, 28),
                        rng.randint(0, 23), rng.randint(0, 59), rng.randint(0, 59), rng.randint(0, 999999),
                        tzinfo=timezone.utc)
        steps = sorted(rng.sample(range(1, 900), 2))
        unit = rng.choice([timedelta(microseconds=1), timedelta(seconds=1), timedelta(hours=7), timedelta(days=11)])
        self.dates = [base, base + steps[0] * unit, base + steps[1] * unit]          # d1 < d2 < d3
        assert self.date(1) < self.date(2) < self.date(3)
        ranks = set()
        while len(ranks) < 2:
            ranks.add("".join(rng.choice(self.ALPHA) for _ in range(rng.randint(1, 6))))
        self.ranks = sorted(ranks)                                                   # r1 < r2 (code points)
        self.rankvar = rng.choice(["RANK", "FUZZ", "prio_1", "x"])
        self.bid = {a: bytes(rng.getrandbits(8) for _ in range(20)) for a in range(1, NART + 1)}
        self.style = {(a, r): rng.choice(["arg", "build", "build", "tool", "sandbox"])
                      for a in refs for r in refs[a]}
        for a in refs:                          # at most one sandbox per artifact
            sb = [r for r in refs[a] if self.style[(a, r)] == "sandbox"]
            for r in sb[1:]:
                self.style[(a, r)] = "arg"
        self.clock = 1_600_000_000_000_000_000 + rng.randint(0, 10 ** 15)

    def date(self, d):
        return self.dates[d - 1].isoformat()

    def path(self, a):
        h = self.bid[a].hex()
        return "%s/%s/%s-1.tgz" % (h[0:2], h[2:4], h[4:])

    def tick(self):
        self.clock += 1_000_000_007
        return self.clock

    # ---- expressions -------------------------------------------------------------
    @staticmethod
    def q(s):
        return '"' + s.replace('"', '\\"') + '"'

    def pred(self, p):
        rng, q = self.rng, self.q
        P, Q = q(self.pkg["p"]), q(self.pkg["q"])
        D1, D2 = q(self.date(1)), q(self.date(2))
        R1, R2 = q(self.ranks[0]), q(self.ranks[1])
        RANK = "metaEnv." + self.rankvar
        alts = {
            1: ['build.date >= "0"', 'meta.step == "dist"', 'meta.package != ""'],
            2: ['meta.package == %s' % P, '%s == meta.package' % P],
            3: ['meta.package != %s' % P, '!(meta.package == %s)' % P],
            4: ['%s == %s' % (RANK, R1)],
            5: ['%s != %s' % (RANK, R1), '! (%s == %s)' % (RANK, R1)],
            6: ['build.date >= %s' % D2, '!(build.date < %s)' % D2, 'build.date > %s' % D1],
            7: ['meta.package == %s && build.date >= %s' % (P, D2), '(build.date >= %s) && (meta.package == %s)' % (D2, P)],
            8: ['meta.package == %s || %s == %s' % (Q, RANK, R2), '(%s == %s) || (meta.package == %s)' % (RANK, R2, Q)],
            9: ['%s != meta.no-such-field' % RANK, '!(%s == metaEnv.NOPE)' % RANK],
            10: ['!(meta.package == %s || build.date < %s)' % (P, D2),
                 '(meta.package != %s) && (build.date >= %s)' % (P, D2)],
        }
        return rng.choice(alts[p])

    def expr(self, e):
        rng = self.rng
        s = self.pred(e["p"])
        if e["lim"] > 0:
            s += " %s %d" % (rng.choice(["LIMIT", "limit", "Limit"]), e["lim"])
            field = "build.date" if e["key"] == "date" else "metaEnv." + self.rankvar
            order = rng.choice(["ORDER BY", "order by", "OrDeR By"])
            if e["asc"]:
                s += " %s %s %s" % (order, field, rng.choice(["ASC", "asc"]))
            elif e["key"] == "date" and rng.random() < 0.5:
                pass                               # default: build.date, descending
            else:
                s += " %s %s%s" % (order, field, rng.choice(["", " DESC", " desc"]))
        return s


# --------------------------------------------------------------------------------------
# real artifacts

def _new_audit(world, a, rec, step="dist", bid=None):
    from bob.audit import Audit
    rng = world.rng
    audit = Audit.create(bytes(rng.getrandbits(8) for _ in range(20)), bid or world.bid[a],
                         bytes(rng.getrandbits(8) for _ in range(20)))
    audit.addDefine("bob", "0.25-vf")
    audit.addDefine("language", "bash")
    audit.addDefine("recipe", "rcp%d" % a)
    audit.addDefine("step", step)
    if rec is not None:
        audit.addDefine("package", world.pkg[rec["pkg"]])
        audit.getArtifact().getBuildInfo()["date"] = world.date(rec["date"])
        if rec["rank"]:
            audit.addMetaEnv(world.rankvar, world.ranks[rec["rank"] - 1])
        if rng.random() < 0.5:
            audit.addMetaEnv("OTHER", "zz")
    return audit


def make_audit(world, work, a, rec, tag):
    """Audit trail of artifact a (record rec) referencing the base audits of world.refs[a]."""
    d = os.path.join(work, "audit", "%s-%d" % (tag, a))
    os.makedirs(d)
    base = lambda r: os.path.join(work, "audit", "base-%d" % r, "audit.json.gz")
    audit = _new_audit(world, a, rec)
    via = [r for r in world.refs[a] if world.style[(a, r)] == "build"]
    if via or world.rng.random() < 0.3:
        # the usual chain dist -> build step -> dist results of the dependencies (+ a checkout step)
        src = _new_audit(world, a, None, "src", bytes(world.rng.getrandbits(8) for _ in range(20)))
        os.makedirs(os.path.join(d, "src"))
        src.save(os.path.join(d, "src", "audit.json.gz"))
        b = _new_audit(world, a, None, "build", bytes(world.rng.getrandbits(8) for _ in range(20)))
        b.addArg(os.path.join(d, "src", "audit.json.gz"))
        for r in via:
            b.addArg(base(r))
        os.makedirs(os.path.join(d, "build"))
        b.save(os.path.join(d, "build", "audit.json.gz"))
        audit.addArg(os.path.join(d, "build", "audit.json.gz"))
    for r in world.refs[a]:
        st = world.style[(a, r)]
        if st == "arg":
            audit.addArg(base(r))
        elif st == "tool":
            audit.addTool("tool%d" % r, base(r))
        elif st == "sandbox":
            audit.setSandbox(base(r))
    f = os.path.join(d, "audit.json.gz")
    audit.save(f)
    return f


class Archive:
    """One scratch `file` archive (index mode warm or fresh) and what the driver knows about it."""

    def __init__(self, root, mode):
        self.root = root
        self.mode = mode
        os.makedirs(root)
        self.rec = {}          # id -> (record, sha1) of the file the driver put there
        self.snap = None       # P: archive at the last scanning command (None = not determined)
        self.scanned = set()   # history: ids that some scanning command of this index has seen and no clean deleted
        self.removed_ext = set()   # ... and that were removed (or replaced) externally since such a command saw them

    def listing(self, world):
        """(id -> sha1, unknown paths) of the *.tgz present"""
        by_path = {world.path(a): a for a in range(1, NART + 1)}
        found, unknown = {}, []
        for dp, dn, fn in os.walk(self.root):
            for f in fn:
                rel = os.path.relpath(os.path.join(dp, f), self.root)
                if rel == DBNAME or rel.startswith(DBNAME):
                    continue
                if rel in by_path:
                    with open(os.path.join(dp, f), "rb") as fh:
                        found[by_path[rel]] = hashlib.sha1(fh.read()).hexdigest()
                else:
                    unknown.append(rel)
        return found, unknown

    def abstract(self, listing):
        out = []
        for a in range(1, NART + 1):
            if a not in listing:
                out.append(dict(ABSENT))
            elif a in self.rec and self.rec[a][1] == listing[a]:
                out.append(dict(self.rec[a][0], ex=True))
            else:
                out.append({"ex": True, "pkg": "changed", "date": 0, "rank": 0})
        return out

    def index_rows(self, world):
        db = os.path.join(self.root, DBNAME)
        if not os.path.exists(db):
            return set()
        by_bid = {world.bid[a]: a for a in world.bid}
        con = sqlite3.connect(db)
        try:
            rows = [r[0] for r in con.execute("SELECT bid FROM files")]
        except sqlite3.Error:
            rows = []
        finally:
            con.close()
        return {by_bid.get(bytes(b), 0) for b in rows}


def run_bob_archive(root, argv):
    """bob archive <argv> in-process with cwd = archive directory. Returns (rc, stdout, stderr)."""
    from bob.cmds.archive import doArchive
    from bob.errors import BobError
    out, err = io.StringIO(), io.StringIO()
    cwd = os.getcwd()
    os.chdir(root)
    try:
        with contextlib.redirect_stdout(out), contextlib.redirect_stderr(err):
            try:
                doArchive(list(argv), None)
                rc = 0
            except SystemExit as e:
                rc = e.code if e.code is not None else 0
            except BobError as e:
                rc = "BobError: " + e.slogan
            except Exception as e:       # a crash of the command is an observation, not a harness failure
                rc = "crash: %s: %s" % (type(e).__name__, e)
    finally:
        os.chdir(cwd)
    return rc, out.getvalue(), err.getvalue()


class Replay:
    def __init__(self, hist, seed, work):
        self.hist = hist
        refs = {i + 1: sorted(r) for i, r in enumerate(hist[0]["refs"])}
        for a in range(len(refs) + 1, NART + 1):
            refs[a] = []
        self.world = World(seed, refs)
        self.work = work
        self.obs = []            # observations for the judge
        self.drift = []
        self.stats = {"commands": 0, "tie_divergence": 0, "warm_fresh_differ": 0, "noscan_unjudged": 0}
        self.features = set()

    def setup(self):
        from bob.archive import LocalArchive
        w = self.world
        for a in range(1, NART + 1):             # dependencies first: refs go to smaller ids
            f = make_audit(w, self.work, a, {"pkg": "p", "date": 1, "rank": 0}, "base")
            assert f.endswith("base-%d/audit.json.gz" % a)
        self.arch = {m: Archive(os.path.join(self.work, m), m) for m in ("warm", "fresh")}
        for m in self.arch.values():
            m.snap = [dict(ABSENT) for _ in range(NART)]
            m.packer = LocalArchive({"backend": "file", "path": m.root, "flags": ["upload", "download", "managed"]})
        self.nadd = 0

    def add(self, a, rec):
        w = self.world
        self.nadd += 1
        f = make_audit(w, self.work, a, rec, "add%d" % self.nadd)
        content = os.path.join(self.work, "content%d" % self.nadd)
        os.makedirs(content)
        with open(os.path.join(content, "result.txt"), "w") as fh:
            fh.write("artifact %d #%d\n" % (a, self.nadd))
        first = None
        for m in self.arch.values():
            p = os.path.join(m.root, w.path(a))
            if os.path.exists(p):
                os.unlink(p)                      # replaced behind the back of bob archive
                self.features.add("replace-existing")
                if a in m.scanned:
                    m.removed_ext.add(a)
            if first is None:
                res = m.packer._uploadPackage(w.bid[a], ".tgz", f, content)   # the real packing + layout code
                if res[0] != "ok" or not os.path.isfile(p):
                    raise RuntimeError("upload of generated artifact failed: %r" % (res,))
                first = p
            else:
                os.makedirs(os.path.dirname(p), exist_ok=True)
                shutil.copyfile(first, p)
            t = w.tick()                           # every modification changes the stat data
            os.utime(p, ns=(t, t))
            with open(p, "rb") as fh:
                m.rec[a] = (dict(rec), hashlib.sha1(fh.read()).hexdigest())

    def remove(self, a):
        for m in self.arch.values():
            p = os.path.join(m.root, self.world.path(a))
            if os.path.exists(p):
                os.unlink(p)
                if a in m.scanned:
                    m.removed_ext.add(a)

    def command(self, step, act):
        w = self.world
        cmd = act["a"].lower()
        el = act.get("el", [])
        dry, ns = bool(act.get("dry")), bool(act.get("ns"))
        exprs = [w.expr(e) for e in el]
        verbose = w.rng.random() < 0.3
        argv = ["-l", cmd]
        if cmd == "clean" and dry:
            argv.append("--dry-run")
        if ns:
            argv.append("-n")
        if verbose:
            argv.append("-v")
        argv += exprs
        results = {}
        for mode, m in self.arch.items():
            if mode == "fresh":
                for f in os.listdir(m.root):
                    if f.startswith(DBNAME):
                        os.unlink(os.path.join(m.root, f))
                m.snap = [dict(ABSENT) for _ in range(NART)]
                m.scanned, m.removed_ext = set(), set()
            before_l, unk0 = m.listing(w)
            before = m.abstract(before_l)
            rows_before = m.index_rows(w) if mode == "warm" else set()
            rc, out, err = run_bob_archive(m.root, argv)
            self.stats["commands"] += 1
            after_l, unk1 = m.listing(w)
            after = m.abstract(after_l)
            for a in after_l:                      # kept files must be byte-identical
                if a in before_l and before_l[a] != after_l[a]:
                    after[a - 1] = {"ex": True, "pkg": "changed", "date": 0, "rank": 0}
            listed, strange = [], []
            by_path = {w.path(a): a for a in range(1, NART + 1)}
            for line in out.splitlines():
                if cmd == "find" and line.startswith("\t") and TGZ_RE.match(line[1:]):
                    (listed if line[1:] in by_path else strange).append(by_path.get(line[1:], line[1:]))
                elif cmd == "clean" and dry and TGZ_RE.match(line):
                    (listed if line in by_path else strange).append(by_path.get(line, line))
            o = {"refs": [w.refs[a] for a in range(1, NART + 1)], "before": before, "after": after,
                 "snap": m.snap if m.snap is not None else [dict(ABSENT) for _ in range(NART)],
                 "cmd": cmd, "el": el, "dry": dry, "ns": ns, "out": sorted(set(listed))}
            judged = not (ns and m.snap is None)
            if not judged:
                self.stats["noscan_unjudged"] += 1
            # history shape: artifacts an earlier scanning command of this index saw, removed externally since
            # (and still absent, or re-uploaded while the command is told not to look: -n)
            removed_since = sorted(a for a in m.removed_ext if ns or not before[a - 1]["ex"])
            changed_since = sorted(a for a in m.removed_ext if before[a - 1]["ex"] and not ns)
            info = {"mode": mode, "step": step, "argv": argv, "rc": rc, "stdout": out[-2000:], "stderr": err[-1000:],
                    "unknown_files": sorted(set(unk0) ^ set(unk1)), "strange_output": strange,
                    "removed_since_scan": removed_since, "changed_since_scan": changed_since,
                    "index_rows_before": sorted(rows_before), "judged": judged,
                    "values": {"pkg": w.pkg, "dates": [w.date(i) for i in (1, 2, 3)], "ranks": w.ranks,
                               "paths": {a: w.path(a) for a in range(1, NART + 1)}, "styles": {"%d->%d" % k: v for k, v in w.style.items()}}}
            self.obs.append((o, info))
            results[mode] = (before, after, sorted(set(listed)))
            if not ns:
                m.scanned |= {i + 1 for i, r in enumerate(before) if r["ex"]}
                m.removed_ext -= {i + 1 for i, r in enumerate(before) if r["ex"]}
            if cmd == "clean" and not dry:
                gone = {i + 1 for i, r in enumerate(before) if r["ex"] and not after[i]["ex"]}
                m.scanned -= gone
                m.removed_ext -= gone
            # P ghost: the archive at the last scanning command
            if not ns:
                m.snap = [dict(x) for x in (after if (cmd == "clean" and not dry) else before)]
            elif cmd == "clean" and not dry and m.snap is not None:
                if any(s["ex"] and not before[i]["ex"] for i, s in enumerate(m.snap)):
                    m.snap = None      # which vanished artifacts the command dropped from its data is not observable
                else:
                    m.snap = [dict(s) if after[i]["ex"] or not before[i]["ex"] else dict(ABSENT) for i, s in enumerate(m.snap)]
            # statistics / M-level comparisons (never verdicts)
            if mode == "warm":
                rows = m.index_rows(w)
                pres = lambda F: sorted(i + 1 for i, r in enumerate(F) if r["ex"])
                if "files" in act and pres(before) == act.get("_spec_before") and pres(after) != act["files"]:
                    self.stats["tie_divergence"] += 1
                if not ns and rows != set(pres(after)):
                    self.drift.append("index after `%s` holds rows %s but the archive holds %s" %
                                      (cmd, sorted(rows), pres(after)))
            # features (measured non-trivial cases)
            if removed_since and mode == "warm" and not ns:
                self.features.add("%s-after-external-removal" % cmd)
            if changed_since and mode == "warm" and not ns:
                self.features.add("%s-after-reupload" % cmd)
            if any(e["lim"] > 0 for e in el):
                npres = sum(1 for r in before if r["ex"])
                if npres > min(e["lim"] for e in el if e["lim"] > 0):
                    self.features.add("%s-limit-binding" % cmd)
                for e in el:
                    if e["lim"] > 0 and e["key"] == "rank" and any(r["ex"] and r["rank"] == 0 for r in before):
                        self.features.add("sort-field-missing-%s" % ("asc" if e["asc"] else "desc"))
            if cmd == "clean" and not dry:
                kept = [i + 1 for i, r in enumerate(after) if r["ex"]]
                if any(sum(1 for k in kept if a in w.refs[k]) >= 2 for a in kept):
                    self.features.add("shared-reference-kept")
                if before != after:
                    self.features.add("clean-deletes")
            if ns:
                self.features.add("%s-noscan" % cmd)
            if dry:
                self.features.add("dry-run")
            if len(el) > 1:
                self.features.add("multiple-expressions")
        if not ns and results["warm"][0] == results["fresh"][0] and results["warm"][1:] != results["fresh"][1:]:
            self.stats["warm_fresh_differ"] += 1      # same archive, same scanning command, different result

    def run(self):
        self.setup()
        spec_files = []
        for step, act in enumerate(self.hist[1:], 1):
            a = act["a"]
            if a == "Add":
                self.add(act["id"], {"pkg": act["pkg"], "date": act["date"], "rank": act["rank"]})
                spec_files = sorted(set(spec_files) | {act["id"]})
            elif a == "Remove":
                self.remove(act["id"])
                spec_files = sorted(set(spec_files) - {act["id"]})
            elif a in ("Scan", "Clean", "Find"):
                act = dict(act, _spec_before=spec_files)
                self.command(step, act)
                spec_files = act["files"]
        return self


def replay_task(arg):
    i, hist, world_seed = arg
    common.use_repo()
    if not os.environ.get("VERIF_TMP") and os.access("/dev/shm", os.W_OK):
        os.environ["VERIF_TMP"] = "/dev/shm"      # sqlite commits every statement: keep the fsyncs off the disk
    work = common.scratch("vf-c19-")
    try:
        r = Replay(hist, world_seed, work).run()
    finally:
        shutil.rmtree(work, ignore_errors=True)
    return {"i": i, "obs": r.obs, "drift": r.drift[:3], "ndrift": len(r.drift), "stats": r.stats,
            "features": sorted(r.features), "world_seed": world_seed}


# --------------------------------------------------------------------------------------
# judging (C) and naming

def judge(observations, rep, batch=4000):
    """TLC evaluates the P layer on every distinct observed transition. Returns key -> verdict record."""
    keys = {}
    for o in observations:
        keys.setdefault(json.dumps(o, sort_keys=True), o)
    klist = sorted(keys)
    work = common.scratch("vf-c19j-")
    verdict = {}

    def one(b):
        chunk = klist[b:b + batch]
        tf = os.path.join(work, "obs%d.json" % b)
        with open(tf, "w") as f:
            f.write("[" + ",".join(chunk) + "]")
        res = tlc.run("TraceArchiveRetention", "TraceArchiveRetention.cfg", workers=1, timeout=15000,
                      env={"TRACE_FILE": tf}, deadlock=False)
        if res.violated or not res.printed:
            raise tlc.TlcError("judge run failed:\n" + res.out[-3000:])
        got = res.printed[-1]
        if len(got) != len(chunk) or not all(g.get("judged") for g in got):
            raise tlc.TlcError("judge did not evaluate every observation (batch %d)" % b)
        return b, chunk, got, res

    with cf.ThreadPoolExecutor(max(1, min(4, WORKERS // 4))) as ex:
        for b, chunk, got, res in ex.map(one, range(0, len(klist), batch)):
            rep.add_tlc(res, "TraceArchiveRetention (P layer on observed steps) batch %d" % b)
            for k, g in zip(chunk, got):
                verdict[k] = g
    return verdict


def name_violation(o, v, info):
    """Shape of a violated observation -> list of (signature, explanation). P-level data only."""
    pres = lambda F: {i + 1 for i, r in enumerate(F) if r["ex"]}
    B, A = pres(o["before"]), pres(o["after"])
    keep = [set(k) for k in v["keep"]]
    sel = [set(s) for s in v["sel"]]
    must_sel = set.intersection(*sel) if sel else set()
    must_keep = set.intersection(*keep) if keep else set()
    may_keep = set.union(*keep) if keep else set()
    may_sel = set.union(*sel) if sel else set()
    out = set(o["out"])
    kinds = []
    modified = (A - B) or any(r["pkg"] == "changed" for r in o["after"])
    for p in v["viol"]:
        if p == "CleanExact":
            D = B - A
            if modified:
                kinds.append("kept-artifact-modified")
            elif D & must_sel:
                kinds.append("selected-deleted")
            elif D & must_keep:
                kinds.append("referenced-deleted")
            elif A - may_keep:
                kinds.append("unreferenced-kept")
            elif keep and len(A) < min(len(k) for k in keep):
                kinds.append("too-few-kept")
            else:
                kinds.append("inadmissible-kept-set")
        elif p == "DryRunKeepsAll":
            kinds.append("dry-run-deleted")
        elif p == "DryRunListsVictims":
            kinds.append("dry-run-lists-vanished" if out - B else "dry-run-list-wrong")
        elif p == "FindExact":
            if o["after"] != o["before"]:
                kinds.append("find-modified-archive")
            elif out - B:
                kinds.append("find-lists-vanished")
            elif out - may_sel:
                kinds.append("find-lists-unselected")
            elif must_sel - out:
                kinds.append("find-misses-selected")
            else:
                kinds.append("find-inadmissible-set")
        elif p == "ScanKeepsAll":
            kinds.append("scan-modified-archive")
        elif p == "NoScanUsesSnapshot":
            kinds.append("noscan-not-last-scanned-data")
        else:
            kinds.append(p)
    if info["mode"] == "fresh":
        cond = "any-index"
    elif info["removed_since_scan"]:
        cond = "stale-index-phantom"
    elif info["changed_since_scan"]:
        cond = "stale-index-reupload"
    else:
        cond = "warm-index"
    lim = ":limit" if any(e["lim"] > 0 for e in o["el"]) else ""
    return ["%s:%s%s" % (cond, k, lim) for k in kinds]


def parse_coverage(out):
    cov = {}
    for m in re.finditer(r"^<(\w+) line \d+, col \d+ to line \d+, col \d+ of module (\w+)(?: \([\d ]+\))?>: (\d+):(\d+)", out, re.M):
        d, t = int(m.group(3)), int(m.group(4))
        o = cov.get(m.group(1), (0, 0))
        cov[m.group(1)] = (o[0] + d, o[1] + t)
    return cov


# --------------------------------------------------------------------------------------

def main():
    a = common.args(PROP, lambda ap: ap.add_argument("--skip-model", action="store_true",
                                                      help="development: skip the exhaustive TLC runs (A), replay only"))
    rep = evidence.Report(PROP, a.tier, a.seed)
    quick = a.tier == "quick"
    rep.rule = ("behaviours = TLC -simulate histories of ArchiveRetention (uploads, external removals, scan/clean/find "
                "with expression lists, --dry-run, -n) + the counterexample TLC finds for the index handling as found; "
                "each replayed with real artifacts against the real `bob archive -l` with a long-lived and with a "
                "per-command fresh index; evaluations = real commands executed; every distinct observed transition is "
                "judged by TLC with the P layer; non-trivial = distinct measured features (command after external "
                "removal / re-upload, binding LIMIT, missing sort field, shared reference kept, -n, --dry-run, ...)")
    rep.assumptions = [
        "references of an artifact that is not in the archive are unknown: the transitive closure follows references of present artifacts only",
        "every upload/replacement changes the stat data of the file (mtime set by a strictly increasing virtual clock)",
        "-n is judged against the archive as it was at the last scanning command of the same index; single `file` archive per index (-l)",
        "ties (equal or missing sort field) may be resolved either way; build.date is always present (audit schema)",
        "http/multi-archive (-a/-b) operation and unreadable/corrupt artifacts are not covered",
    ]
    if a.replay:
        with open(a.replay) as f:
            rp = json.load(f)
        return replay_and_judge(rep, [rp["detail"]["hist"]], [rp["detail"]["world_seed"]])

    # (A) + generation, all TLC runs side by side
    exh_cfg = "ArchiveRetention.cfg" if quick else "ArchiveRetention_thorough.cfg"
    ngen = 4
    num = 150 if quick else 1500
    ndirected = 8                      # world instantiations per TLC counterexample
    big, small = min(8, WORKERS), min(2, WORKERS)
    jobs = {
        "exh": lambda: tlc.run("ArchiveRetention", exh_cfg, workers=big, coverage=True, timeout=15000),
        "asis": lambda: tlc.run("ArchiveRetention", "ArchiveRetention_asis.cfg", workers=small, timeout=9000),
        "sweepfiles": lambda: tlc.run("ArchiveRetention", "ArchiveRetention_sweepfiles.cfg", workers=small, timeout=9000),
        "reach1": lambda: tlc.run("ArchiveRetention", "ArchiveRetention_reach_ReachStaleLimitClean.cfg", workers=small, timeout=9000),
        "reach2": lambda: tlc.run("ArchiveRetention", "ArchiveRetention_reach_ReachTransitiveKeep.cfg", workers=small, timeout=9000),
    }
    if not quick:
        jobs["sel"] = lambda: tlc.run("ArchiveRetention", "ArchiveRetention_sel.cfg", workers=big, timeout=15000)
    if a.skip_model:
        jobs = {k: jobs[k] for k in ("asis", "sweepfiles", "reach1", "reach2")}
    for g in range(ngen):
        jobs["gen%d" % g] = (lambda g=g: tlc.run("ArchiveRetention", "ArchiveRetention_gen.cfg", workers=1,
                                                  simulate="num=%d" % num, depth=9, seed=a.seed * 100 + g + 1, timeout=15000))
    res = {}
    with cf.ThreadPoolExecutor(max(1, WORKERS // 3)) as ex:
        futs = {k: ex.submit(f) for k, f in jobs.items()}
        for k, f in futs.items():
            res[k] = f.result()

    if not a.skip_model:
        exh = res["exh"]
        rep.add_tlc(exh, "ArchiveRetention exhaustive (%s)" % exh_cfg)
        if exh.violated:
            rep.violation("model:" + exh.violated, {"cex": exh.cex})
        cov = parse_coverage(exh.out)
        missing = [x for x in ACTIONS if cov.get(x, (0, 0))[1] == 0]
        if missing:
            raise tlc.TlcError("vacuity: actions never taken %s" % missing)
        rep.extra["action_coverage"] = {k: cov[k][1] for k in ACTIONS}
    if "sel" in res:
        rep.add_tlc(res["sel"], "ArchiveRetention selection semantics over all archives (ArchiveRetention_sel.cfg)")
        if res["sel"].violated:
            rep.violation("model:sel:" + res["sel"].violated, {"cex": res["sel"].cex})
    for k, inv in (("reach1", "ReachStaleLimitCleanShow"), ("reach2", "ReachTransitiveKeepShow")):
        if res[k].violated != inv or not res[k].printed:
            raise tlc.TlcError("vacuity: %s not reachable" % inv)
    # the model with the index handling of the code as found / of an incomplete repair: TLC is expected to
    # find the stale-index counterexamples on its own; they are replayed on the code first
    for k, what in (("asis", "Sweep = none: rows of vanished artifacts are never dropped (code as found)"),
                    ("sweepfiles", "Sweep = files: only the `files` rows of vanished artifacts are dropped")):
        if res[k].violated != "CleanExactProbe" or not res[k].printed:
            raise tlc.TlcError("TLC did not find the stale-index counterexample in the %s model" % k)
        rep.extra.setdefault("tlc_on_other_index_semantics", []).append(
            {"model": what, "violated": "CleanExact", "distinct_states_until_found": res[k].distinct,
             "counterexample": res[k].printed[0]})

    hists, seen = [], set()
    for k in ("asis", "sweepfiles", "reach1", "reach2"):
        h = res[k].printed[0]
        if json.dumps(h, sort_keys=True) not in seen:
            seen.add(json.dumps(h, sort_keys=True))
            hists += [h] * ndirected
    rep.extra["directed_behaviours"] = len(hists)
    ngenerated = 0
    for g in range(ngen):
        ngenerated += len(res["gen%d" % g].printed)
        for h in res["gen%d" % g].printed:
            key = json.dumps(h, sort_keys=True)
            if key not in seen and any(x["a"] in ("Clean", "Find") for x in h) and any(x["a"] == "Add" for x in h):
                seen.add(key)
                hists.append(h)
    rep.extra["behaviours_generated"] = ngenerated
    rep.extra["behaviours_distinct_with_upload_and_query"] = len(hists)
    return replay_and_judge(rep, hists, [a.seed * 1000003 + i for i in range(len(hists))])


def replay_and_judge(rep, hists, world_seeds):
    common.use_repo()
    import bob.cmds.archive  # noqa: F401  (import before fork)
    import bob.archive       # noqa: F401
    import bob.audit         # noqa: F401
    tasks = [(i, h, world_seeds[i]) for i, h in enumerate(hists)]
    results = []
    with mp.get_context("fork").Pool(min(16, WORKERS)) as pool:
        for r in pool.imap_unordered(replay_task, tasks, chunksize=4):
            results.append(r)
    results.sort(key=lambda r: r["i"])
    stats = {}
    allobs = []
    for r in results:
        rep.traces += 1
        rep.evaluations += r["stats"]["commands"]
        for k, v in r["stats"].items():
            stats[k] = stats.get(k, 0) + v
        for f in r["features"]:
            rep.nontriv(f)
        for d in r["drift"]:
            rep.model_drift(d)
        stats["drift_total"] = stats.get("drift_total", 0) + r["ndrift"]
        allobs += [o for o, info in r["obs"] if info["judged"]]
    verdict = judge(allobs, rep)
    rep.extra["observed_transitions_judged"] = len(allobs)
    rep.extra["observed_transitions_distinct"] = len(verdict)
    rep.extra["replay_stats"] = stats
    nviol = 0
    sigs = {}
    def report(sig, per_behaviour, detail):
        if sig in per_behaviour:
            return
        per_behaviour.add(sig)
        sigs[sig] = sigs.get(sig, 0) + 1
        if sigs[sig] == 1:                  # one replay file per shape; the number of behaviours is in the evidence
            rep.violation(sig, detail)

    for r in results:
        h = hists[r["i"]]
        per_behaviour = set()
        named = []
        for o, info in r["obs"]:
            base = {"hist": h, "world_seed": r["world_seed"], "step": info["step"], "observation": o, "real": info}
            if info["rc"] != 0:
                report("command-failed:%s" % str(info["rc"]).split(":")[0], per_behaviour, base)
            if info["strange_output"] or info["unknown_files"]:
                report("unknown-artifact-in-output-or-archive", per_behaviour, base)
            if not info["judged"]:
                continue
            v = verdict[json.dumps(o, sort_keys=True)]
            if v["viol"]:
                nviol += 1
                named.append((o, info, v, name_violation(o, v, info)))
        # a step that also fails with a fresh index is reported once, as any-index
        fresh_bad = {(info["step"], sig.split(":", 1)[1]) for o, info, v, ss in named if info["mode"] == "fresh" for sig in ss}
        for o, info, v, ss in named:
            for sig in ss:
                if info["mode"] != "fresh" and (info["step"], sig.split(":", 1)[1]) in fresh_bad:
                    continue
                report(sig, per_behaviour,
                       {"hist": h, "world_seed": r["world_seed"], "step": info["step"],
                        "violated_step_properties": v["viol"], "observation": o,
                        "admissible_keep_sets": v["keep"], "admissible_selections": v["sel"], "real": info})
        nd = rep.extra.get("directed_behaviours", 0)
        if r["i"] in (0, 8, 16, 24, nd, nd + 1):
            rep.sample({"behaviour": h, "real_commands": [(info["mode"], info["argv"], info["rc"]) for o, info in r["obs"]][:8]})
    rep.extra["violating_observations"] = nviol
    rep.extra["violation_signatures"] = sigs
    if rep.drift:
        rep.level = "exploration"
    return rep.finish()


if __name__ == "__main__":
    evidence.main_wrapper(main)
